#!/venv/bin/python
"""C13 reproducer (plain Migen, stock simulator, no verification framework).

LiteDRAMFIFO(with_bypass=True) with a DRAM word wider than the stream word (data_width_ratio > 1, the only way a ratio
> 1 can be configured) does not return the stream that entered it:

  A. partial-word flush (PUMP_PRECONVERTER / DRAIN_POSTCONVERTER): when the DRAM path drains while the pre-converter
     holds 0 < k < ratio tokens, the padding tokens pushed to complete the word are emitted on the source as data, the
     padded word is additionally written to the DRAM FIFO, a padding token is left in the pre-converter, and the FSM can
     stay in DRAIN_POSTCONVERTER for ever with the sink blocked.
  B. return to BYPASS with a complete word still waiting in the pre-converter (it is not counted in dram_cnt): when the
     write port stalls for a few cycles, later words overtake it through the bypass and it only comes out in the next
     DRAM phase.

Run:  /venv/bin/python /verif/.work/C13_repro.py [path containing litedram/]    (default /repo)
Exit status 1 if the output stream differs from the input stream in any case.
"""
import sys
sys.path.insert(0, sys.argv[1] if len(sys.argv) > 1 else "/repo")
from migen import *
from litedram.common import LiteDRAMNativePort
from litedram.frontend.fifo import LiteDRAMFIFO


class DUT(Module):
    def __init__(self, dw, ratio, depth_words):
        pdw = dw * ratio
        self.wp = LiteDRAMNativePort("write", address_width=24, data_width=pdw)
        self.rp = LiteDRAMNativePort("read", address_width=24, data_width=pdw)
        self.submodules.fifo = LiteDRAMFIFO(dw, base=0, depth=depth_words * pdw // 8, write_port=self.wp, read_port=self.rp, with_bypass=True)


def memory(wp, rp, mem, ctl, lat=3):
    """Well-behaved native memory: commands accepted unless ctl['wstall'] (write port only); wdata.ready / rdata.valid are
    one-cycle pulses exactly `lat` cycles after the command, in order (what the crossbar does)."""
    wq, rq = [], []
    wpend = None
    c = 0
    while True:
        yield wp.cmd.ready.eq(0 if ctl.get("wstall") else 1)
        yield rp.cmd.ready.eq(1)
        yield
        c += 1
        if wpend is not None:
            assert (yield wp.wdata.valid), "FIFO did not offer write data when strobed"
            mem[wpend] = (yield wp.wdata.data)
            wpend = None
        if (yield wp.cmd.valid) and (yield wp.cmd.ready):
            wq.append(((yield wp.cmd.addr), c + lat))
        if (yield rp.cmd.valid) and (yield rp.cmd.ready):
            rq.append(((yield rp.cmd.addr), c + lat))
        if wq and wq[0][1] <= c + 1:
            wpend = wq.pop(0)[0]
            yield wp.wdata.ready.eq(1)
        else:
            yield wp.wdata.ready.eq(0)
        if rq and rq[0][1] <= c + 1:
            a = rq.pop(0)[0]
            yield rp.rdata.valid.eq(1)
            yield rp.rdata.data.eq(mem.get(a, 0xEE))
        else:
            yield rp.rdata.valid.eq(0)


def push(dut, ins, v):
    yield dut.fifo.sink.valid.eq(1)
    yield dut.fifo.sink.data.eq(v)
    yield
    while not (yield dut.fifo.sink.ready):
        yield
    ins.append(v)
    yield dut.fifo.sink.valid.eq(0)


def collect(dut, outs, ctl):
    while True:
        yield dut.fifo.source.ready.eq(1 if ctl.get("consume") else 0)
        yield
        if (yield dut.fifo.source.valid) and (yield dut.fifo.source.ready):
            outs.append((yield dut.fifo.source.data))


def case_a(ratio, nwords):
    """consumer stalled while nwords (not a multiple of the ratio beyond the bypass-resident ones) enter, then released"""
    dut = DUT(8, ratio, 8)
    ins, outs, ctl = [], [], {}

    def producer():
        for i in range(nwords):
            yield from push(dut, ins, 0x10 + i)
        for _ in range(60):
            yield
        ctl["consume"] = 1
        for _ in range(300):
            yield
    run_simulation(dut, [producer(), passive(collect)(dut, outs, ctl), passive(memory)(dut.wp, dut.rp, {}, ctl)])
    return ins, outs


def case_b():
    """ratio 2: word A goes to DRAM, the write port then stalls with word B complete in the pre-converter, A is read back,
    the FSM returns to BYPASS, C takes the bypass and overtakes B"""
    dut = DUT(8, 2, 8)
    ins, outs, ctl = [], [], {}

    def producer():
        for i in range(16 + 2 + 2):             # 16 fill the post FIFO (consumer stalled), 2 switch to DRAM mode, A1 A2 -> DRAM
            yield from push(dut, ins, 0x10 + i)
        for _ in range(12):
            yield
        ctl["wstall"] = 1                        # write port busy (refresh, another master, ...)
        yield from push(dut, ins, 0xB1)
        yield from push(dut, ins, 0xB2)          # B1 B2 wait, complete, in the pre-converter
        for _ in range(4):
            yield
        ctl["consume"] = 1                       # consumer drains: DRAM path empties, FSM goes back to BYPASS
        for _ in range(60):
            yield
        yield from push(dut, ins, 0xC1)          # goes through the bypass
        for _ in range(20):
            yield
        ctl["wstall"] = 0
        for _ in range(200):
            yield
    run_simulation(dut, [producer(), passive(collect)(dut, outs, ctl), passive(memory)(dut.wp, dut.rp, {}, ctl)])
    return ins, outs


def report(name, ins, outs):
    ok = ins == outs
    print("%-46s in=%d out=%d  %s" % (name, len(ins), len(outs), "ok" if ok else "MISMATCH"))
    if not ok:
        n = min(len(ins), len(outs))
        k = next((i for i in range(n) if ins[i] != outs[i]), n)
        print("    first difference at word %d: expected %s, got %s" % (k, [hex(x) for x in ins[k:k + 6]], [hex(x) for x in outs[k:k + 8]]))
    return ok


if __name__ == "__main__":
    ok = True
    ok &= report("A ratio 2, 19 words (1 left in pre-converter)", *case_a(2, 19))
    ok &= report("A ratio 4, 34 words (2 left in pre-converter)", *case_a(4, 34))
    ok &= report("A ratio 4, 36 words (whole DRAM words only)", *case_a(4, 36))
    ok &= report("B ratio 2, write port stalls, word overtaken", *case_b())
    sys.exit(0 if ok else 1)
