#!/usr/bin/env python3
"""C17 reproducer (no framework): the generated initialisation programs a write recovery shorter than tWR, and a DDR2
CAS write latency the PHY does not use.

    /venv/bin/python /verif/.work/C17_repro.py          (imports litedram from /repo; set PYTHONPATH to test a patched copy)

1. DDR3 / DDR4: init.py derives MR0.WR from the controller's tWTR cycles ("wr = max(tWTR*nphases, 5|10)") although the
   field is the write recovery for auto-precharge, RU(tWR/tCK) (JESD79-3 / JESD79-4 MR0 A11:A9).  With tWTR = 7.5 ns and
   tWR = 15 ns the programmed value is too small whenever tWTR*nphases < RU(tWR/tCK), e.g. DDR3 1:4 at 150 MHz:
   WR = 8 clocks = 13.3 ns < 15 ns.  LiteDRAM uses auto-precharge, so the device starts precharging before tWR elapsed.
2. DDR2: MR[11:9] is hard-wired to 0b010 = 3 clocks (JESD79-2: 001 = 2, 010 = 3, ... ) whatever the clock: too short for
   tCK < 5 ns (e.g. 1:2 at 133 MHz: 3 * 3.75 ns = 11.25 ns < 15 ns).
3. DDR2: get_default_cl_cwl returns (CL 7, CWL 5) for DDR2-1066; a DDR2 device writes with WL = AL + CL - 1 = 6 (AL = 0 is
   programmed), so the PHY (which places write data by cwl) is one clock early."""
import math, sys
from litedram.common import PhySettings, get_default_cl_cwl
from litedram.modules import MT41K128M16, MT40A1G8, MT47H64M16
from litedram.init import get_sdram_phy_init_sequence

DDR3_WR = {0: 16, 1: 5, 2: 6, 3: 7, 4: 8, 5: 10, 6: 12, 7: 14}                    # JESD79-3 MR0 A11:A9
DDR4_WR = {0: 10, 1: 12, 2: 14, 3: 16, 4: 18, 5: 20, 6: 24, 7: 22, 8: 26, 9: 28}   # JESD79-4 MR0 A13,A11:A9
DDR2_WR = {1: 2, 2: 3, 3: 4, 4: 5, 5: 6, 6: 7, 7: 8}                               # JESD79-2 MR A11:A9


def mr0(memtype, cls, f, n):
    tck = 1 / (n * f)
    cl, cwl = get_default_cl_cwl(memtype, tck)
    phy = PhySettings(phytype="X", memtype=memtype, databits=16, dfi_databits=32, nphases=n, rdphase=0, wrphase=1, cl=cl, cwl=cwl,
                      read_latency=8, write_latency=2)
    m = cls(f, "1:%d" % n)
    seq, _ = get_sdram_phy_init_sequence(phy, m.timing_settings)
    v = [a for (_c, a, ba, cmd, _d) in seq if ba == 0 and cmd.count("|") == 3][-1]
    return v, tck * 1e9, cl, cwl, m


bad = 0
for memtype, cls, f, n in (("DDR3", MT41K128M16, 150e6, 4), ("DDR3", MT41K128M16, 100e6, 4), ("DDR3", MT41K128M16, 190e6, 2),
                           ("DDR4", MT40A1G8, 250e6, 4), ("DDR4", MT40A1G8, 200e6, 4), ("DDR2", MT47H64M16, 133e6, 2), ("DDR2", MT47H64M16, 100e6, 2)):
    v, tck, cl, cwl, m = mr0(memtype, cls, f, n)
    if memtype == "DDR3":
        wr = DDR3_WR[(v >> 9) & 7]
    elif memtype == "DDR4":
        wr = DDR4_WR[((v >> 13) & 1) * 8 + ((v >> 9) & 7)]
    else:
        wr = DDR2_WR[(v >> 9) & 7]
    twr = cls.speedgrade_timings["default"].tWR
    short = wr * tck < twr - 1e-9
    bad += short
    print("%-5s 1:%d %6.1f MHz tCK %.3f ns  MR0 = 0x%04x  WR = %2d clocks = %6.2f ns, datasheet tWR = %5.2f ns (tWTR = %d cycles)  %s" % (
        memtype, n, f / 1e6, tck, v, wr, wr * tck, twr, m.timing_settings.tWTR, "TOO SHORT" if short else "ok"))

cl, cwl = get_default_cl_cwl("DDR2", 1 / 450e6)
print("DDR2 at 450 MHz: default (CL, CWL) = (%d, %d); device write latency with AL = 0 is CL - 1 = %d  %s" % (cl, cwl, cl - 1, "MISMATCH" if cwl != cl - 1 else "ok"))
bad += cwl != cl - 1
sys.exit(1 if bad else 0)
