"""C14: BIST generator writes outside [base, end) on ports wider than a byte.
`addr_mask = (end - base) - 1` is a BYTE count, but it masks the WORD index of the address generator, so the range
wraps after (end - base) words instead of (end - base) bytes.  Seen with random addressing (any length) and with
sequential addressing when length > end - base.  Plain Migen simulation, no framework:
    /venv/bin/python /verif/.work/C14_mask_repro.py
(The checker has the same mask, so generator and checker agree with each other; memory outside the range is clobbered.)"""
import sys
sys.path.insert(0, "/repo")
from migen import *
from litedram.common import LiteDRAMNativeWritePort
from litedram.frontend.bist import _LiteDRAMBISTGenerator


def run(dw, base, end, length, random_addr):
    port = LiteDRAMNativeWritePort(address_width=24, data_width=dw)
    dut = _LiteDRAMBISTGenerator(port)
    addrs = []

    def gen():
        yield dut.base.eq(base)
        yield dut.end.eq(end)
        yield dut.length.eq(length)
        yield dut.random_addr.eq(random_addr)
        yield port.cmd.ready.eq(1)
        yield port.wdata.ready.eq(1)
        yield dut.start.eq(1)
        yield
        yield dut.start.eq(0)
        for _ in range(4 * length):
            yield
            if (yield port.cmd.valid) and (yield port.cmd.ready):
                addrs.append((yield port.cmd.addr) * (dw // 8))
            if (yield dut.done):
                break
    run_simulation(dut, gen())
    out = [a for a in addrs if not (base <= a and a + dw // 8 <= end)]
    print("dw=%3d base=%5d end=%5d length=%4d random_addr=%d : %3d writes, byte addresses %d..%d, %d outside [base, end)"
          % (dw, base, end, length, random_addr, len(addrs), min(addrs), max(addrs) + dw // 8 - 1, len(out)))
    return len(out)


bad = 0
bad += run(8, 64, 128, 64, 1)          # byte-wide port: consistent, nothing outside
bad += run(32, 64, 128, 64, 0)         # sequential, length = range: inside
bad += run(32, 64, 128, 64, 1)         # random addresses: up to byte 64 + 63*4
bad += run(64, 1024, 2048, 1024, 1)
bad += run(32, 4, 12, 20, 0)           # sequential, length > range: no wrap at the end of the range
print("DEFECT REPRODUCED: %d writes outside [base, end)" % bad if bad else "ok")
sys.exit(1 if bad else 0)
