"""C20 reproducers (plain Migen + the harness-independent compat shim for CSR names on Python 3.12):
 (a) D9, default "basic" overlap check of CommandsPipeline: PRECHARGE on phases 0, 2 and 4 of one cycle.  The command on
     phase 2 overlaps the one on phase 0 and is rightly suppressed; the one on phase 4 overlaps nothing that was sent
     (phase 0 occupies CK 0..3) yet is suppressed too, because the check looks at what was PRESENTED, not at what was SENT.
 (b) extended_overlaps_check=True: the "actually sent" history of the previous cycle is recomputed from raw valids, which
     forgets that a command was masked; with commands on (cycle n: phase 7), (n+1: phases 2, 5), (n+2: phase 0) the last one
     is SENT although it overlaps the command of phase 5 still in flight -> two commands OR-ed together on CS/CA.
     (the same pattern with the patch /verif/.work/C20_fix.diff applied prints ok)
Run: /venv/bin/python /verif/.work/C20_repro.py"""
import sys
sys.path.insert(0, "/verif/design_experiments")
import shim                                   # CSR name extraction / wr_stb aliases only
sys.path.insert(0, "/repo")
from migen import *
from migen.sim import passive
from litedram.phy.lpddr4.basephy import LPDDR4PHY
from litedram.phy.lpddr4.simphy import LPDDR4SimulationPads
from litedram.phy.utils import Latency, Serializer, Deserializer

PRE = (1, 0, 1)   # ras, cas, we
ACT = (1, 0, 0)   # two-part command: CS high on its 1st and 3rd CK


def run(extended, pattern):
    pads = LPDDR4SimulationPads()
    phy = LPDDR4PHY(pads, sys_clk_freq=100e6, ser_latency=Latency(sys=Serializer.LATENCY),
                    des_latency=Latency(sys=Deserializer.LATENCY), phytype="T", extended_overlaps_check=extended)
    phy.submodules += pads
    out = []

    def gen():
        for cyc in [{}] + pattern + [{}] * 4:
            for i, p in enumerate(phy.dfi.phases):
                if i in cyc:
                    ras, cas, we = cyc[i]
                    yield p.cs_n.eq(0); yield p.ras_n.eq(1 - ras); yield p.cas_n.eq(1 - cas); yield p.we_n.eq(1 - we)
                    yield p.bank.eq(3); yield p.address.eq(0)
                else:
                    yield p.cs_n.eq(1); yield p.ras_n.eq(1); yield p.cas_n.eq(1); yield p.we_n.eq(1)
            yield

    @passive
    def mon():
        while True:
            out.append(format((yield phy.out.cs), "08b")[::-1])
            yield

    run_simulation(phy, [gen(), mon()])
    return "".join(out[3:])        # CS per CK slot, starting with the slot that belongs to phase 0 of the first pattern cycle (ca_latency = 1)


print("(a) basic check, PRE on phases 0,2,4 -- a PRE is 'DESELECT + PRECHARGE': CS high on its 3rd CK")
cs = run(False, [{0: PRE, 2: PRE, 4: PRE}])
print("    CS stream :", cs[:16])
print("    expected  : 0010001000000000  (phase 0 sent, phase 2 suppressed, phase 4 SENT)")
print("    =>", "MISMATCH: the command on phase 4 is missing" if cs[:16] != "0010001000000000" else "ok")
print("(b) extended check, ACT on n:7, n+1:2, n+1:5, n+2:0")
cs = run(True, [{7: ACT}, {2: ACT, 5: ACT}, {0: ACT}])
print("    CS stream :", cs[:32])
print("    expected  : 00000001010001010000000000000000  (n:7 sent; n+1:2 suppressed; n+1:5 sent, in flight on CK 13..16; n+2:0 suppressed)")
print("    =>", "MISMATCH: a command was sent inside the window of a command in flight (CK 16 carries ACT-2 of one and ACT-1 of the other)" if cs[:32] != "00000001010001010000000000000000" else "ok")
