import shim, random, sys
from migen import *
import fastsim
from core_speed3 import build
from core_speed2 import TinySDR, TinyDDR3
import core_speed2
clk=float(sys.argv[2]) if len(sys.argv)>2 else 100e6
cls={"sdr":TinySDR,"ddr3":TinyDDR3}[sys.argv[1]]
rate={"sdr":"1:1","ddr3":"1:4"}[sys.argv[1]]
top, mod, ps = build(cls, rate, clk, 16, 2)
ts=mod.timing_settings
print({k:v for k,v in ts.__dict__.items() if k!="self"})
nph=ps.nphases
aw = top.ports[0].address_width
def gen(port, seed):
    rnd = random.Random(seed)
    yield port.rdata.ready.eq(1)
    for i in range(4000):
        if rnd.random()<0.3:
            for _ in range(rnd.randrange(1,40)): yield
        yield port.cmd.valid.eq(1); yield port.cmd.we.eq(rnd.random()<0.5); yield port.cmd.addr.eq(rnd.randrange(1<<aw))
        yield port.wdata.valid.eq(1)
        yield
        while not (yield port.cmd.ready): yield
        yield port.cmd.valid.eq(0)
log=[]; cyc=[0]
@passive
def mon():
    while True:
        for i,p in enumerate(top.dfi.phases):
            c = ((yield p.cs_n), (yield p.ras_n), (yield p.cas_n), (yield p.we_n))
            if c[0]==0 and c[1:]!=(1,1,1):
                log.append((cyc[0]*nph+i, c[1:], (yield p.bank), (yield p.address)))
        cyc[0]+=1
        yield
fastsim.run_simulation(top, [gen(p,i) for i,p in enumerate(top.ports)]+[mon()])
lastact={}
mins={}
for t,c,b,a in log:
    if c==(0,1,1): lastact[b]=t
    elif c==(0,1,0):
        banks=[b] if not (a>>10)&1 else list(lastact)
        for bb in banks:
            if bb in lastact:
                k="PREA" if (a>>10)&1 else "PRE"
                d=t-lastact.pop(bb)
                mins[k]=min(mins.get(k,10**9), d)
print("cycles",cyc[0],"min ACT->PRE/PREA (tCK):",mins, "required tRAS cycles*nph", (ts.tRAS or 0), nph)
