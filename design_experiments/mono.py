import shim, random, sys
from migen import *
import fastsim
from core_speed3 import build
from core_speed2 import TinySDR
top, mod, ps = build(TinySDR, "1:1", 100e6, 16, 2)
p0, p1 = top.ports
acc = {0:[], 1:[]}
def stream(port, n, addr_fn, start=0):
    for _ in range(start): yield
    yield port.rdata.ready.eq(1)
    for i in range(n):
        yield port.cmd.valid.eq(1); yield port.cmd.we.eq(0); yield port.cmd.addr.eq(addr_fn(i))
        yield
        while not (yield port.cmd.ready): yield
    yield port.cmd.valid.eq(0)
cyc=[0]
@passive
def mon():
    while True:
        for i,p in enumerate(top.ports):
            if (yield p.cmd.valid) and (yield p.cmd.ready): acc[i].append(cyc[0])
        cyc[0]+=1
        yield
# colbits=6 -> col part = addr[0:6], bank = addr[6:8]
fastsim.run_simulation(top, [stream(p0, 3000, lambda i: (i%64)), stream(p1, 3, lambda i: 1, start=50), mon()])
print("p0 accepted", len(acc[0]), "first/last", acc[0][0], acc[0][-1])
print("p1 accepted at", acc[1])
