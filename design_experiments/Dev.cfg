SPECIFICATION Spec
CONSTANTS NBanks = 4
 tRCD = 2
 tRP = 2
 tRAS = 5
POSTCONDITION Post
CHECK_DEADLOCK FALSE
