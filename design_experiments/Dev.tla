---- MODULE Dev ----
EXTENDS Naturals, Sequences, TLC, Json, IOUtils, FiniteSets
CONSTANTS NBanks, tRCD, tRP, tRAS
Trace == ndJsonDeserialize(IOEnv.TRACE_FILE)
VARIABLES l, open, lastAct, lastPre
vars == <<l, open, lastAct, lastPre>>
None == 99999
Init == l = 1 /\ open = [b \in 0..NBanks-1 |-> None] /\ lastAct = [b \in 0..NBanks-1 |-> 0-1000] /\ lastPre = [b \in 0..NBanks-1 |-> 0-1000]
Ev == Trace[l]
Act == /\ Ev.c = "ACT" /\ open[Ev.b] = None /\ Ev.t - lastPre[Ev.b] >= tRP
       /\ open' = [open EXCEPT ![Ev.b] = Ev.a] /\ lastAct' = [lastAct EXCEPT ![Ev.b] = Ev.t] /\ UNCHANGED lastPre
Pre == /\ Ev.c = "PRE" /\ (open[Ev.b] # None => Ev.t - lastAct[Ev.b] >= tRAS)
       /\ open' = [open EXCEPT ![Ev.b] = None] /\ lastPre' = [lastPre EXCEPT ![Ev.b] = Ev.t] /\ UNCHANGED lastAct
PreA == /\ Ev.c = "PREA" 
       /\ open' = [b \in 0..NBanks-1 |-> None] /\ lastPre' = [b \in 0..NBanks-1 |-> Ev.t] /\ UNCHANGED lastAct
Rw == /\ Ev.c \in {"RD","WR"} /\ open[Ev.b] # None /\ Ev.t - lastAct[Ev.b] >= tRCD
      /\ (IF Ev.ap = 1 THEN open' = [open EXCEPT ![Ev.b] = None] /\ lastPre' = [lastPre EXCEPT ![Ev.b] = Ev.t] ELSE UNCHANGED <<open,lastPre>>) /\ UNCHANGED <<lastAct>>
Ref == /\ Ev.c = "REF" /\ \A b \in 0..NBanks-1 : open[b] = None /\ UNCHANGED <<open,lastAct,lastPre>>
Next == l <= Len(Trace) /\ l' = l+1 /\ (Act \/ Pre \/ PreA \/ Rw \/ Ref)
Spec == Init /\ [][Next]_vars
Accepted == TLCGet("stats").diameter - 1 = Len(Trace)
Post == IF Accepted THEN TRUE ELSE Print(<<"REJECT at", TLCGet("stats").diameter, Trace[TLCGet("stats").diameter]>>, FALSE)
====
