import shim, time, random, sys
from migen import *
import migen.sim.core as msc
import fastsim
from core_speed3 import build
from core_speed2 import TinySDR, TinyDDR3

def run(simfn, cls, rate, N, nports):
    top, mod, ps = build(cls, rate, 100e6, 16, nports)
    aw = top.ports[0].address_width; dwid = top.ports[0].data_width
    def gen(port, seed):
        rnd = random.Random(seed)
        yield port.rdata.ready.eq(1)
        for i in range(N):
            yield port.cmd.valid.eq(1)
            we = rnd.random() < 0.5
            yield port.cmd.we.eq(we)
            yield port.cmd.addr.eq(rnd.randrange(1<<aw))
            yield port.wdata.valid.eq(1)
            yield port.wdata.data.eq(rnd.getrandbits(dwid))
            yield port.wdata.we.eq(2**(dwid//8)-1)
            yield
            while not (yield port.cmd.ready):
                yield
            yield port.cmd.valid.eq(0)
            if we:
                while not (yield port.wdata.ready):
                    yield
            yield port.wdata.valid.eq(0)
    cyc=[0]; log=[]
    @passive
    def dfimon():
        while True:
            cyc[0]+=1
            for i,p in enumerate(top.dfi.phases):
                c = ((yield p.cs_n), (yield p.ras_n), (yield p.cas_n), (yield p.we_n))
                if c[0]==0 and c[1:]!=(1,1,1):
                    log.append((cyc[0], i, c, (yield p.bank), (yield p.address), (yield p.wrdata_en), (yield p.rddata_en)))
            for i,p in enumerate(top.ports):
                log.append((cyc[0], "p", i, (yield p.cmd.ready), (yield p.wdata.ready), (yield p.rdata.valid)))
            yield
    t=time.time()
    simfn(top, [gen(p, i) for i,p in enumerate(top.ports)] + [dfimon()])
    dt=time.time()-t
    return cyc[0], dt, log

cls = {"sdr":TinySDR, "ddr3":TinyDDR3}[sys.argv[1]]
N=int(sys.argv[3]); nports=int(sys.argv[4])
c2,d2,l2 = run(fastsim.run_simulation, cls, sys.argv[2], N, nports)
print("fast ", c2, d2, c2/d2)
if len(sys.argv) > 5:
    c1,d1,l1 = run(msc.run_simulation, cls, sys.argv[2], N, nports)
    print("stock", c1, d1, c1/d1)
    print("EQUAL", l1==l2, len(l1), len(l2))
