---- MODULE R_DramDevice ----
(* Prototype of the requirement spec on the DFI command bus: bank state + timing, as a total monitor. *)
EXTENDS Integers, Sequences, FiniteSets, TLC
\* cfg: [nbanks, nphases, rdphase, wrphase, wl, bl, req : [tRCD,tRP,tRAS,tRC,tRRD,tFAW,tCCD,tWR,tWTR,tRFC,tZQCS |-> tCK]]
Far == 0 - 1000000
NoRow == 0 - 1
Banks(cfg) == 0 .. cfg.nbanks - 1
Max(a, b) == IF a > b THEN a ELSE b

InitDev(cfg) == [ open  |-> [b \in Banks(cfg) |-> NoRow],
                  tAct  |-> [b \in Banks(cfg) |-> Far],
                  tPre  |-> [b \in Banks(cfg) |-> Far],     \* effective precharge start
                  tWrE  |-> [b \in Banks(cfg) |-> Far],     \* end of last write burst in this bank
                  acts  |-> <<Far, Far, Far, Far>>,         \* last four ACT times (newest last)
                  tCas  |-> Far, tWrEAny |-> Far, tRef |-> Far, tZq |-> Far ]

\* set of <<clause, have, need>> broken by event e in device state d
Check(cfg, d, e) ==
  LET r == cfg.req  t == e.t  b == e.b
      C(name, have, need) == IF have < need THEN {<<name, e.c, b, have, need>>} ELSE {}
      common == C("tRFC", t - d.tRef, r.tRFC) \cup C("tZQCS", t - d.tZq, r.tZQCS)
      allIdle == \A x \in Banks(cfg) : d.open[x] = NoRow
      preAll(bb) == UNION {IF d.open[x] = NoRow THEN {} ELSE C("tRAS", t - d.tAct[x], r.tRAS) \cup C("tWR", t - d.tWrE[x], r.tWR) : x \in bb}
  IN common \cup
  CASE e.c = "ACT" -> (IF d.open[b] # NoRow THEN {<<"ACT on open bank", e.c, b, 0, 0>>} ELSE {})
                      \cup C("tRP", t - d.tPre[b], r.tRP) \cup C("tRC", t - d.tAct[b], r.tRC)
                      \cup C("tRRD", t - d.acts[4], r.tRRD) \cup C("tFAW", t - d.acts[1], r.tFAW)
    [] e.c \in {"RD", "WR"} ->
                      (IF d.open[b] = NoRow THEN {<<"CAS on idle bank", e.c, b, 0, 0>>} ELSE {})
                      \cup C("tRCD", t - d.tAct[b], r.tRCD) \cup C("tCCD", t - d.tCas, r.tCCD)
                      \cup (IF e.c = "RD" THEN C("tWTR", t - d.tWrEAny, r.tWTR) ELSE {})
                      \cup (IF e.c = "RD" /\ e.ph # cfg.rdphase THEN {<<"RD phase", e.c, b, e.ph, cfg.rdphase>>} ELSE {})
                      \cup (IF e.c = "WR" /\ e.ph # cfg.wrphase THEN {<<"WR phase", e.c, b, e.ph, cfg.wrphase>>} ELSE {})
                      \cup (IF e.c = "RD" /\ ~e.rden THEN {<<"RD without rddata_en", e.c, b, 0, 0>>} ELSE {})
                      \cup (IF e.c = "WR" /\ ~e.wren THEN {<<"WR without wrdata_en", e.c, b, 0, 0>>} ELSE {})
    [] e.c = "PRE" -> preAll({b})
    [] e.c = "PREA" -> preAll(Banks(cfg))
    [] e.c \in {"REF", "ZQCS"} -> (IF ~allIdle THEN {<<"REF/ZQ with open bank", e.c, b, 0, 0>>} ELSE {})
                      \cup UNION {C("tRP", t - d.tPre[x], r.tRP) : x \in Banks(cfg)}
    [] OTHER -> {<<"illegal command", e.c, b, 0, 0>>}

Apply(cfg, d, e) ==
  LET t == e.t  b == e.b r == cfg.req IN
  CASE e.c = "ACT" -> [d EXCEPT !.open[b] = e.a, !.tAct[b] = t, !.acts = <<d.acts[2], d.acts[3], d.acts[4], t>>]
    [] e.c = "RD" -> IF e.ap THEN [d EXCEPT !.open[b] = NoRow, !.tPre[b] = Max(t, d.tAct[b] + r.tRAS), !.tCas = t]
                     ELSE [d EXCEPT !.tCas = t]
    [] e.c = "WR" -> LET we == t + cfg.wl + cfg.bl IN
                     IF e.ap THEN [d EXCEPT !.open[b] = NoRow, !.tPre[b] = Max(we + r.tWR, d.tAct[b] + r.tRAS), !.tCas = t, !.tWrE[b] = we, !.tWrEAny = we]
                     ELSE [d EXCEPT !.tCas = t, !.tWrE[b] = we, !.tWrEAny = we]
    [] e.c = "PRE" -> [d EXCEPT !.open[b] = NoRow, !.tPre[b] = IF d.open[b] = NoRow THEN d.tPre[b] ELSE t]
    [] e.c = "PREA" -> [d EXCEPT !.open = [x \in Banks(cfg) |-> NoRow],
                                 !.tPre = [x \in Banks(cfg) |-> IF d.open[x] = NoRow THEN d.tPre[x] ELSE t]]
    [] e.c = "REF" -> [d EXCEPT !.tRef = t]
    [] e.c = "ZQCS" -> [d EXCEPT !.tZq = t]
    [] OTHER -> d
====
