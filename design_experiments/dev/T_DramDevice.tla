---- MODULE T_DramDevice ----
EXTENDS R_DramDevice, Json, IOUtils
Trace == ndJsonDeserialize(IOEnv.TRACE_FILE)
Cfg == Trace[1]
VARIABLES l, d, bad
TInit == l = 2 /\ d = InitDev(Cfg) /\ bad = {}
TNext == /\ l <= Len(Trace)
         /\ bad' = bad \cup {<<l>> \o x : x \in Check(Cfg, d, Trace[l])}
         /\ d' = Apply(Cfg, d, Trace[l])
         /\ l' = l + 1
TSpec == TInit /\ [][TNext]_<<l, d, bad>>
AtEnd == (l = Len(Trace) + 1) => /\ TLCSet(1, bad)
                                /\ PrintT(<<"VERDICT", IF bad = {} THEN "accepted" ELSE "rejected", Cardinality(bad)>>)
                                /\ (bad = {} \/ PrintT(<<"BAD", bad>>))
Post == TLCGet("stats").diameter = Len(Trace) /\ TLCGet(1) = {}
====
