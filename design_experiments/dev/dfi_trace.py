import sys, json, random, math
import os; sys.path.insert(0, os.path.join(os.path.dirname(os.path.abspath(__file__)), "..")); sys.path.insert(0, "/repo")
import shim
from migen import *
import fastsim
from core_speed3 import build
from core_speed2 import TinySDR, TinyDDR3
kind, clk, ncmd, out = sys.argv[1], float(sys.argv[2]), int(sys.argv[3]), sys.argv[4]
cls={"sdr":TinySDR,"ddr3":TinyDDR3}[kind]; rate={"sdr":"1:1","ddr3":"1:4"}[kind]
top, mod, ps = build(cls, rate, clk, 16, 2)
nph = ps.nphases
tck_ps = 1e12/(clk*nph)
def req(name, key=None):
    t = mod.get(name, key)
    if t is None: return 0
    return max(t.ck, math.ceil(t.ns*1000/tck_ps - 1e-9))
memtype = mod.memtype
wl = {"SDR":0,"DDR":1,"LPDDR":1}.get(memtype, ps.cwl)
bl = 1 if memtype=="SDR" else {"DDR":2,"LPDDR":2,"DDR2":2,"DDR3":4,"DDR4":4}[memtype]
R = {n: req(n) for n in ["tRCD","tRP","tRAS","tRRD","tFAW","tCCD","tWR","tWTR","tRFC","tZQCS"]}
tras = mod.get("tRAS"); trp = mod.get("tRP")
R["tRC"] = 0 if tras is None else max(tras.ck+trp.ck, math.ceil((tras.ns+trp.ns)*1000/tck_ps - 1e-9))
cfg = dict(nbanks=2**mod.geom_settings.bankbits, nphases=nph, rdphase=ps.rdphase, wrphase=ps.wrphase, wl=wl, bl=bl, req=R)
print(cfg, {k:v for k,v in mod.timing_settings.__dict__.items() if k!="self"})
aw = top.ports[0].address_width
def gen(port, seed):
    rnd = random.Random(seed)
    yield port.rdata.ready.eq(1)
    for i in range(ncmd):
        if rnd.random()<0.3:
            for _ in range(rnd.randrange(1,40)): yield
        yield port.cmd.valid.eq(1); yield port.cmd.we.eq(rnd.random()<0.5); yield port.cmd.addr.eq(rnd.randrange(1<<aw))
        yield port.wdata.valid.eq(1)
        yield
        while not (yield port.cmd.ready): yield
        yield port.cmd.valid.eq(0)
ev=[]; cyc=[0]
NAMES={(0,1,1):"ACT",(0,1,0):"PRE",(1,0,1):"RD",(1,0,0):"WR",(0,0,1):"REF",(1,1,0):"ZQCS",(0,0,0):"MRS"}
@passive
def mon():
    while True:
        for i,p in enumerate(top.dfi.phases):
            c = ((yield p.cs_n), (yield p.ras_n), (yield p.cas_n), (yield p.we_n))
            if c[0]==0 and c[1:]!=(1,1,1):
                a=(yield p.address); name=NAMES[c[1:]]
                if name=="PRE" and (a>>10)&1: name="PREA"
                ev.append(dict(t=cyc[0]*nph+i, ph=i, c=name, b=(yield p.bank), a=a, ap=bool((a>>10)&1), rden=bool((yield p.rddata_en)), wren=bool((yield p.wrdata_en))))
        cyc[0]+=1
        yield
fastsim.run_simulation(top, [gen(p,i) for i,p in enumerate(top.ports)]+[mon()])
with open(out,"w") as f:
    f.write(json.dumps(cfg)+"\n")
    for e in ev: f.write(json.dumps(e)+"\n")
print("cycles", cyc[0], "events", len(ev))
