import shim
from migen import *
from litedram.core.refresher import Refresher
class Obj: pass
s = Obj(); s.with_refresh=True; s.timing=Obj(); s.timing.tREFI=128; s.timing.tRP=2; s.timing.tRFC=5; s.timing.tZQCS=8
s.geom=Obj(); s.geom.addressbits=16; s.geom.bankbits=3; s.phy=Obj(); s.phy.nranks=1
import sys
per=int(sys.argv[1])
dut = Refresher(s, clk_freq=per, zqcs_freq=1, postponing=1)
log=[]
def gen():
    yield dut.cmd.ready.eq(1)
    for i in range(6000):
        ras=(yield dut.cmd.ras); cas=(yield dut.cmd.cas); we=(yield dut.cmd.we)
        if ras or cas or we: log.append((i, "PREA" if (ras,cas,we)==(1,0,1) else "REF" if (ras,cas,we)==(1,1,0) else "ZQCS" if (ras,cas,we)==(0,0,1) else (ras,cas,we)))
        yield
run_simulation(dut, gen())
print([l for l in log if l[1]=="ZQCS"], len([l for l in log if l[1]=="REF"]))
