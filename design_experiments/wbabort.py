import shim, sys
sys.path.insert(0, "/repo")
from migen import *
from litex.soc.interconnect import wishbone
from litedram.common import LiteDRAMNativePort
from litedram.frontend.wishbone import LiteDRAMWishbone2Native
from test.common import DRAMMemory, timeout_generator
import fastsim

def run(abort_after):
    wb = wishbone.Interface(data_width=32, adr_width=30, addressing="word")
    port = LiteDRAMNativePort("both", 24, 32)
    dut = LiteDRAMWishbone2Native(wb, port)
    mem = DRAMMemory(32, 16)
    res = {}
    def cyc(adr, we, dat=0, abort=None):
        yield wb.adr.eq(adr); yield wb.we.eq(we); yield wb.dat_w.eq(dat); yield wb.sel.eq(0xf)
        yield wb.cyc.eq(1); yield wb.stb.eq(1)
        n = 0
        while True:
            yield
            n += 1
            if (yield wb.ack):
                r = (yield wb.dat_r); break
            if abort is not None and n >= abort:
                r = "aborted"; break
            if n > 200:
                r = "TIMEOUT"; break
        yield wb.cyc.eq(0); yield wb.stb.eq(0)
        yield
        return r
    def main():
        res["w1"] = yield from cyc(1, 1, 0x11111111, abort=abort_after)
        for _ in range(5): yield
        res["w2"] = yield from cyc(2, 1, 0x22222222)
        res["r1"] = yield from cyc(1, 0)
        res["r2"] = yield from cyc(2, 0)
        res["r3"] = yield from cyc(3, 0)
    fastsim.run_simulation(dut, [main(), mem.write_handler(port, wdata_ready_random=60), mem.read_handler(port), timeout_generator(3000)])
    return {k: (hex(v) if isinstance(v, int) else v) for k, v in res.items()}, [hex(x) for x in mem.mem[:4]]
for a in [None, 1, 2, 3, 4]:
    try:
        print("abort_after", a, run(a))
    except Exception as e:
        print("abort_after", a, "EXC", type(e).__name__, e)
