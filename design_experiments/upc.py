import shim, sys
sys.path.insert(0, "/repo")
from migen import *
from litedram.common import LiteDRAMNativePort
from litedram.frontend.adapter import LiteDRAMNativePortConverter
from test.common import DRAMMemory, NativePortDriver, timeout_generator

def run(seq, ratio=2, uw=32):
    pf = LiteDRAMNativePort("both", 8+ratio.bit_length()-1, uw)
    pt = LiteDRAMNativePort("both", 8, uw*ratio)
    dut = LiteDRAMNativePortConverter(pf, pt)
    mem = DRAMMemory(uw*ratio, 64)
    drv = NativePortDriver(pf)
    out = []
    def main():
        for op in seq:
            if op[0]=="w":
                yield from drv.write(op[1], op[2], wait_data=False, last=op[3] if len(op)>3 else 0)
            elif op[0]=="r":
                v = yield from drv.read(op[1], last=1)
                out.append((op[1], hex(v)))
            elif op[0]=="f":
                yield pf.flush.eq(1); yield; yield pf.flush.eq(0)
            elif op[0]=="i":
                for _ in range(op[1]): yield
        for _ in range(50): yield
    run_simulation(dut, [main(), mem.write_handler(pt), mem.read_handler(pt), *drv.generators(), timeout_generator(3000)])
    return out, [hex(x) for x in mem.mem[:4]]
print("asc ", run([("w",0,0xA0),("w",1,0xB1,1),("i",30),("r",0),("r",1)]))
print("desc", run([("w",1,0xB1),("w",0,0xA0,1),("i",30),("r",0),("r",1)]))
print("rep ", run([("w",0,0xA0),("w",0,0xA1,1),("i",30),("r",0),("r",1)]))
print("rdesc", run([("w",0,0xA0),("w",1,0xB1,1),("i",30),("r",1),("r",0)]))
