import shim, time, random, sys, cProfile, pstats
from migen import *
from litedram.core import LiteDRAMCore
from litedram.core.controller import ControllerSettings
from litedram.phy.model import SDRAMPHYModel
from litedram import modules as M
from litedram.modules import _TechnologyTimings, _SpeedgradeTimings

class TinySDR(M.SDRModule):
    nbanks=4; nrows=2048; ncols=64
    technology_timings = _TechnologyTimings(tREFI=64e6/8192, tWTR=(2, None), tCCD=(1, None), tRRD=(None, 15))
    speedgrade_timings = {"default": _SpeedgradeTimings(tRP=20, tRCD=20, tWR=15, tRFC=(None, 66), tFAW=None, tRAS=44)}
class TinyDDR3(M.DDR3Module):
    nbanks=8; nrows=2048; ncols=64
    technology_timings = _TechnologyTimings(tREFI=64e6/8192, tWTR=(4, 7.5), tCCD=(4, None), tRRD=(4, 10), tZQCS=(64, 80))
    speedgrade_timings = {"default": _SpeedgradeTimings(tRP=13.75, tRCD=13.75, tWR=13.75, tRFC=(64, None), tFAW=(None, 40), tRAS=35)}

def build(cls, rate, clk, dw, nports, **cs):
    mod = cls(clk, rate)
    phy = SDRAMPHYModel(mod, data_width=dw, clk_freq=clk)
    class Top(Module):
        def __init__(self):
            self.submodules.phy = phy
            self.submodules.core = LiteDRAMCore(phy, mod.geom_settings, mod.timing_settings, clk,
                controller_settings=ControllerSettings(**cs))
            self.ports = [self.core.crossbar.get_port() for _ in range(nports)]
    return Top(), mod

if __name__ == "__main__":
    cls = {"sdr":TinySDR, "ddr3":TinyDDR3}[sys.argv[1]]
    rate = sys.argv[2]
    top, mod = build(cls, rate, 100e6, 16, 2)
    N = int(sys.argv[3])
    aw = top.ports[0].address_width; dwid = top.ports[0].data_width
    print("aw", aw, "dw", dwid)
    def gen(port, seed):
        rnd = random.Random(seed)
        yield port.rdata.ready.eq(1)
        for i in range(N):
            yield port.cmd.valid.eq(1)
            we = rnd.random() < 0.5
            yield port.cmd.we.eq(we)
            yield port.cmd.addr.eq(rnd.randrange(1<<aw))
            yield port.wdata.valid.eq(1)
            yield port.wdata.data.eq(rnd.getrandbits(dwid))
            yield port.wdata.we.eq(2**(dwid//8)-1)
            yield
            while not (yield port.cmd.ready):
                yield
            yield port.cmd.valid.eq(0)
            if we:
                while not (yield port.wdata.ready):
                    yield
            yield port.wdata.valid.eq(0)
    cyc = [0]
    @passive
    def counter():
        while True:
            cyc[0]+=1
            yield
    t=time.time()
    if len(sys.argv)>4:
        cProfile.run("run_simulation(top, [gen(p, i) for i,p in enumerate(top.ports)] + [counter()])", "/tmp/verif_prof")
        pstats.Stats("/tmp/verif_prof").sort_stats("cumtime").print_stats(25)
    else:
        run_simulation(top, [gen(p, i) for i,p in enumerate(top.ports)] + [counter()])
    dt=time.time()-t
    print("cycles", cyc[0], "time", dt, "cyc/s", cyc[0]/dt)
