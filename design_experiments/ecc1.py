import shim
from migen import *
from litedram.frontend.ecc import LiteDRAMNativePortECCW
for (f,t,bc) in [(64*8, 72*8, 8), (32*8,39*8,8), (8*8, 13*8, 8), (64, 72, 1)]:
    dut = LiteDRAMNativePortECCW(f, t, bc)
    res = {}
    def gen():
        yield dut.sink.valid.eq(1)
        yield dut.sink.we.eq(2**(f//8)-1)
        yield
        res["full"] = (yield dut.we_error), hex((yield dut.source.we))
        yield dut.sink.we.eq(2**(f//8)-2)
        yield
        res["part"] = (yield dut.we_error), hex((yield dut.source.we))
        yield dut.sink.we.eq(0)
        yield
        res["none"] = (yield dut.we_error), hex((yield dut.source.we))
    run_simulation(dut, gen())
    print(f,t,bc,res)
