SPECIFICATION TSpec
INVARIANT AtEnd
POSTCONDITION Post
CHECK_DEADLOCK FALSE
