---- MODULE R_PortMem ----
(* Prototype: memory semantics of native ports as a total monitor.
   Events: CMD(p, we, a), WDATA(p, d, m), RDATA(p, d); d = list of bytes, m = list of 0/1 byte enables. *)
EXTENDS Integers, Sequences, FiniteSets, TLC
Ports(cfg) == 0 .. cfg.nports - 1
InitMem(cfg) == [ hist |-> <<>>,        \* address -> sequence of write ids  (function with growing domain)
                  wval |-> <<>>,        \* write id -> [d, m]
                  init |-> <<>>,        \* address -> first-seen initial word
                  wq   |-> [p \in Ports(cfg) |-> <<>>],
                  rq   |-> [p \in Ports(cfg) |-> <<>>],
                  nid  |-> 1 ]
Get(f, k, dflt) == IF k \in DOMAIN f THEN f[k] ELSE dflt
Put(f, k, v) == [x \in (DOMAIN f) \cup {k} |-> IF x = k THEN v ELSE f[x]]

\* last id in snap (a sequence of ids) whose byte-enable j is set; 0 if none
RECURSIVE LastWriter(_, _, _, _)
LastWriter(wval, snap, i, j) == IF i = 0 THEN 0
                                ELSE IF wval[snap[i]].m[j] = 1 THEN snap[i] ELSE LastWriter(wval, snap, i - 1, j)

Step(cfg, s, e) ==     \* returns [s |-> new state, bad |-> set of diagnostics]
  LET p == e.p IN
  CASE e.c = "CMD" ->
        IF e.we THEN [s |-> [s EXCEPT !.hist = Put(s.hist, e.a, Append(Get(s.hist, e.a, <<>>), s.nid)),
                                    !.wq[p] = Append(s.wq[p], s.nid), !.nid = s.nid + 1], bad |-> {}]
        ELSE [s |-> [s EXCEPT !.rq[p] = Append(s.rq[p], [a |-> e.a, snap |-> Get(s.hist, e.a, <<>>)])], bad |-> {}]
    [] e.c = "WDATA" ->
        IF s.wq[p] = <<>> THEN [s |-> s, bad |-> {<<"wdata without pending write", p>>}]
        ELSE [s |-> [s EXCEPT !.wval = Put(s.wval, Head(s.wq[p]), [d |-> e.d, m |-> e.m]), !.wq[p] = Tail(s.wq[p])], bad |-> {}]
    [] e.c = "RDATA" ->
        IF s.rq[p] = <<>> THEN [s |-> s, bad |-> {<<"rdata without pending read", p>>}]
        ELSE LET r == Head(s.rq[p])
                 unbound == {i \in 1..Len(r.snap) : r.snap[i] \notin DOMAIN s.wval}
                 nb == Len(e.d)
                 writer == [j \in 1..nb |-> IF unbound = {} THEN LastWriter(s.wval, r.snap, Len(r.snap), j) ELSE 0]
                 needInit == \E j \in 1..nb : writer[j] = 0
                 old == Get(s.init, r.a, [j \in 1..nb |-> 0 - 1])      \* -1 = initial byte not seen yet
                 ini == [j \in 1..nb |-> IF old[j] = 0 - 1 THEN e.d[j] ELSE old[j]]      \* first-seen binds
                 expect == [j \in 1..nb |-> IF writer[j] = 0 THEN ini[j] ELSE s.wval[writer[j]].d[j]]
                 s2 == [s EXCEPT !.rq[p] = Tail(s.rq[p]),
                                 !.init = IF needInit /\ unbound = {} THEN Put(s.init, r.a, [j \in 1..nb |-> IF writer[j] = 0 THEN ini[j] ELSE old[j]]) ELSE s.init]
             IN IF unbound # {} THEN [s |-> s2, bad |-> {<<"read overtook earlier write", p, r.a>>}]
                ELSE IF expect # e.d THEN [s |-> s2, bad |-> {<<"wrong read data", p, r.a, e.d, expect>>}]
                ELSE [s |-> s2, bad |-> {}]
    [] e.c = "END" ->
        [s |-> s, bad |-> {<<"outstanding at end", q>> : q \in {x \in Ports(cfg) : s.wq[x] # <<>> \/ s.rq[x] # <<>>}}
                          \cup (IF cfg.uniq /\ \E a1, a2 \in DOMAIN s.init : a1 # a2 /\ s.init[a1] = s.init[a2] /\ (\A j \in DOMAIN s.init[a1] : s.init[a1][j] # 0 - 1) THEN {<<"two addresses show the same initial pattern">>} ELSE {})]
    [] OTHER -> [s |-> s, bad |-> {<<"unknown event", e.c>>}]
====
