import sys, json, random, collections, os
import os; sys.path.insert(0, os.path.join(os.path.dirname(os.path.abspath(__file__)), "..")); sys.path.insert(0, "/repo")
import shim
from migen import *
import fastsim
from core_speed3 import build
from core_speed2 import TinySDR, TinyDDR3

def tobytes(v, n): return [(v >> (8*i)) & 0xff for i in range(n)]

def run(kind, clk, nports, ncmd, seed, out, naddr=None, profile="uniform"):
    cls={"sdr":TinySDR,"ddr3":TinyDDR3}[kind]; rate={"sdr":"1:1","ddr3":"1:4"}[kind]
    top, mod, ps = build(cls, rate, clk, 16, nports)
    nph = ps.nphases; rl = ps.read_latency; wl = ps.write_latency
    dfi = top.dfi
    dw = top.ports[0].data_width; nb = dw//8; aw = top.ports[0].address_width
    phw = dw//nph
    events = []
    cyc = [0]
    mem = {}
    rnd0 = random.Random(seed*7919+1)
    def initword(key):
        h = hash(key) & 0xffffffffffff
        r = random.Random(h)
        return r.getrandbits(dw)
    @passive
    def responder():
        openrow = {}
        wr_sched = collections.defaultdict(list)   # cycle -> [(bank,row,col)]
        rd_sched = collections.defaultdict(list)   # cycle -> data
        while True:
            c = cyc[0]        # index of the cycle that just ended
            # 1. commands seen in cycle c
            for i, p in enumerate(dfi.phases):
                cs=(yield p.cs_n); ras=(yield p.ras_n); cas=(yield p.cas_n); we=(yield p.we_n)
                if cs == 0:
                    b=(yield p.bank); a=(yield p.address)
                    if (ras,cas,we)==(0,1,1): openrow[b]=a
                    elif (ras,cas,we)==(0,1,0):
                        if (a>>10)&1: openrow.clear()
                        else: openrow.pop(b, None)
                    elif (ras,cas,we)==(1,0,0):   # WR
                        wr_sched[c+wl].append((b, openrow.get(b), a & ~(1<<10)))
                        if (a>>10)&1: openrow.pop(b, None)
                    elif (ras,cas,we)==(1,0,1):   # RD
                        key=(b, openrow.get(b), a & ~(1<<10))
                        rd_sched[c+rl].append(key)
                        if (a>>10)&1: openrow.pop(b, None)
            # 2. write data present in cycle c
            for key in wr_sched.pop(c, []):
                d = 0; m = 0
                for i, p in enumerate(dfi.phases):
                    d |= (yield p.wrdata) << (i*phw); m |= (yield p.wrdata_mask) << (i*phw//8)
                old = mem.get(key, initword(key))
                for j in range(nb):
                    if not (m >> j) & 1:
                        old = (old & ~(0xff << (8*j))) | (d & (0xff << (8*j)))
                mem[key] = old
            # 3. drive read data for cycle c+1
            keys = rd_sched.pop(c+1, [])
            if keys:
                key = keys[0]
                v = mem.get(key, initword(key))
                for i, p in enumerate(dfi.phases):
                    yield p.rddata.eq((v >> (i*phw)) & ((1<<phw)-1)); yield p.rddata_valid.eq(1)
            else:
                g = rnd0.getrandbits(dw)
                for i, p in enumerate(dfi.phases):
                    yield p.rddata.eq((g >> (i*phw)) & ((1<<phw)-1)); yield p.rddata_valid.eq(0)
            cyc[0] += 1
            yield
    done = [0]
    def master(pi, port):
        rnd = random.Random(seed*1000+pi)
        wq = collections.deque()
        pending = None; gap = 0; issued = 0
        yield port.rdata.ready.eq(1)
        idle_after = 0
        while True:
            c = cyc[0] - 1 if pi >= 0 else 0
            # observe the cycle that just ended
            if (yield port.cmd.valid) and (yield port.cmd.ready):
                events.append((cyc[0], 0, pi, dict(c="CMD", p=pi, we=bool(pending[0]), a=pending[1])))
                pending = None; issued += 1
                gap = rnd.choice([0,0,0,1,2,5,20]) if profile=="uniform" else 0
            if (yield port.wdata.valid) and (yield port.wdata.ready):
                d, m = wq.popleft()
                events.append((cyc[0], 1, pi, dict(c="WDATA", p=pi, d=tobytes(d, nb), m=[(m>>j)&1 for j in range(nb)])))
            if (yield port.rdata.valid):
                events.append((cyc[0], 2, pi, dict(c="RDATA", p=pi, d=tobytes((yield port.rdata.data), nb))))
            # drive next cycle
            if pending is None and issued < ncmd:
                if gap > 0: gap -= 1
                else:
                    we = rnd.random() < 0.5
                    a = rnd.randrange(naddr) if naddr else rnd.randrange(1<<aw)
                    if naddr: a = (a * 37) % (1<<aw) if rnd.random()<0.5 else a   # few distinct, spread over banks
                    pending = (we, a)
                    if we:
                        m = rnd.choice([(1<<nb)-1, (1<<nb)-1, rnd.getrandbits(nb)])
                        wq.append((rnd.getrandbits(dw), m))
            if pending is not None:
                yield port.cmd.valid.eq(1); yield port.cmd.we.eq(pending[0]); yield port.cmd.addr.eq(pending[1])
            else:
                yield port.cmd.valid.eq(0)
            if wq:
                yield port.wdata.valid.eq(1); yield port.wdata.data.eq(wq[0][0]); yield port.wdata.we.eq(wq[0][1])
            else:
                yield port.wdata.valid.eq(0)
            if issued >= ncmd and pending is None:
                idle_after += 1
                if idle_after > 200: break
            yield
    fastsim.run_simulation(top, [responder()] + [master(i,p) for i,p in enumerate(top.ports)])
    events.sort(key=lambda e: (e[0], e[1], e[2]))
    with open(out, "w") as f:
        f.write(json.dumps(dict(nports=nports, nbytes=nb, uniq=(nb>=4)))+"\n")
        for e in events: f.write(json.dumps(e[3])+"\n")
        f.write(json.dumps(dict(c="END", p=0))+"\n")
    return cyc[0], len(events)

if __name__ == "__main__":
    kind, clk, nports, ncmd, seed, out = sys.argv[1], float(sys.argv[2]), int(sys.argv[3]), int(sys.argv[4]), int(sys.argv[5]), sys.argv[6]
    naddr = int(sys.argv[7]) if len(sys.argv) > 7 else None
    print(run(kind, clk, nports, ncmd, seed, out, naddr))
