---- MODULE T_PortMem ----
EXTENDS R_PortMem, Json, IOUtils
Trace == ndJsonDeserialize(IOEnv.TRACE_FILE)
Cfg == Trace[1]
VARIABLES l, s, bad
TInit == l = 2 /\ s = InitMem(Cfg) /\ bad = {}
TNext == /\ l <= Len(Trace)
         /\ LET r == Step(Cfg, s, Trace[l]) IN s' = r.s /\ bad' = bad \cup {<<l>> \o x : x \in r.bad}
         /\ l' = l + 1
TSpec == TInit /\ [][TNext]_<<l, s, bad>>
AtEnd == (l = Len(Trace) + 1) => /\ TLCSet(1, bad)
                                /\ PrintT(<<"VERDICT", IF bad = {} THEN "accepted" ELSE "rejected", Cardinality(bad)>>)
                                /\ (bad = {} \/ PrintT(<<"BAD", bad>>))
Post == TLCGet("stats").diameter = Len(Trace) /\ TLCGet(1) = {}
====
