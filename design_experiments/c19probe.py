import shim, sys
from migen import *
import fastsim
from litedram.phy.model import SDRAMPHYModel
from litedram.common import PhySettings, GeomSettings
from litedram import modules as M
from litedram.modules import _TechnologyTimings, _SpeedgradeTimings
class Tiny(M.SDRModule):
    nbanks=2; nrows=2048; ncols=2048     # colbits = 11 > 10
    technology_timings = _TechnologyTimings(tREFI=64e6/8192, tWTR=(2, None), tCCD=(1, None), tRRD=(None, 15))
    speedgrade_timings = {"default": _SpeedgradeTimings(tRP=20, tRCD=20, tWR=15, tRFC=(None, 66), tFAW=None, tRAS=44)}
mod = Tiny(100e6, "1:1")
import time; t=time.time()
phy = SDRAMPHYModel(mod, data_width=8, clk_freq=100e6)
p = phy.dfi.p0
res = []
def cmd(ras, cas, we, bank, addr, wrdata=0):
    yield p.cs_n.eq(0); yield p.ras_n.eq(1-ras); yield p.cas_n.eq(1-cas); yield p.we_n.eq(1-we)
    yield p.bank.eq(bank); yield p.address.eq(addr); yield p.wrdata.eq(wrdata); yield p.wrdata_mask.eq(0)
    yield p.wrdata_en.eq(cas & we); yield p.rddata_en.eq(cas & (1-we))
    yield
    yield p.cs_n.eq(1); yield p.ras_n.eq(1); yield p.cas_n.eq(1); yield p.we_n.eq(1); yield p.wrdata_en.eq(0); yield p.rddata_en.eq(0)
def rd(bank, addr):
    yield from cmd(0,1,0,bank,addr)
    for _ in range(12):
        if (yield p.rddata_valid): return (yield p.rddata)
        yield
    return None
def gen():
    for _ in range(3): yield
    yield from cmd(1,0,0,0,5)            # ACT row 5
    yield; yield
    # column 3 in the upper half of the row: col bit 10 set -> DFI address A11 (A10 is the AP flag)
    col_hi = (1 << 11) | 3      # col index 1024+3 as the controller's slicer encodes it
    col_lo = 3
    yield from cmd(0,1,1,0,col_lo, 0xA1); yield; yield
    yield from cmd(0,1,1,0,col_hi, 0xB2); yield; yield
    res.append(("read col 3", (yield from rd(0, col_lo))))
    res.append(("read col 1027", (yield from rd(0, col_hi))))
    # same column written with auto-precharge flag
    yield from cmd(1,0,0,1,7); yield; yield
    yield from cmd(0,1,1,1,(1<<10)|9, 0xC3); yield; yield     # WR col 9 with AP
    yield from cmd(1,0,0,1,7); yield; yield                   # ACT again
    res.append(("read col 9 after WR-AP", (yield from rd(1, 9))))
print("elab %.1fs"%(time.time()-t))
fastsim.run_simulation(phy, gen())
print([(n, hex(v) if v is not None else None) for n,v in res])
