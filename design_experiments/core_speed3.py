import shim, time, random, sys, cProfile, pstats
from migen import *
from litedram.core.controller import ControllerSettings, LiteDRAMController
from litedram.core.crossbar import LiteDRAMCrossbar
from litedram.phy.model import get_sdram_phy_settings
from litedram import modules as M
from litedram.modules import _TechnologyTimings, _SpeedgradeTimings
from core_speed2 import TinySDR, TinyDDR3

def build(cls, rate, clk, dw, nports, **cs):
    mod = cls(clk, rate)
    ps = get_sdram_phy_settings(mod.memtype, dw, clk)
    class Top(Module):
        def __init__(self):
            self.submodules.controller = LiteDRAMController(ps, mod.geom_settings, mod.timing_settings, clk,
                controller_settings=ControllerSettings(**cs))
            self.submodules.crossbar = LiteDRAMCrossbar(self.controller.interface)
            self.ports = [self.crossbar.get_port() for _ in range(nports)]
            self.dfi = self.controller.dfi
    return Top(), mod, ps

if __name__ == "__main__":
    cls = {"sdr":TinySDR, "ddr3":TinyDDR3}[sys.argv[1]]
    rate = sys.argv[2]
    top, mod, ps = build(cls, rate, 100e6, 16, int(sys.argv[4]))
    N = int(sys.argv[3])
    aw = top.ports[0].address_width; dwid = top.ports[0].data_width
    print("aw", aw, "dw", dwid, ps.read_latency, ps.write_latency)
    def gen(port, seed):
        rnd = random.Random(seed)
        yield port.rdata.ready.eq(1)
        for i in range(N):
            yield port.cmd.valid.eq(1)
            we = rnd.random() < 0.5
            yield port.cmd.we.eq(we)
            yield port.cmd.addr.eq(rnd.randrange(1<<aw))
            yield port.wdata.valid.eq(1)
            yield port.wdata.data.eq(rnd.getrandbits(dwid))
            yield port.wdata.we.eq(2**(dwid//8)-1)
            yield
            while not (yield port.cmd.ready):
                yield
            yield port.cmd.valid.eq(0)
            if we:
                while not (yield port.wdata.ready):
                    yield
            yield port.wdata.valid.eq(0)
    cyc = [0]
    log = []
    @passive
    def dfimon():
        while True:
            cyc[0]+=1
            for i,p in enumerate(top.dfi.phases):
                c = ((yield p.cs_n), (yield p.ras_n), (yield p.cas_n), (yield p.we_n))
                if c[0]==0 and c[1:]!=(1,1,1):
                    log.append((cyc[0], i, c, (yield p.bank), (yield p.address)))
            yield
    t=time.time()
    run_simulation(top, [gen(p, i) for i,p in enumerate(top.ports)] + [dfimon()])
    dt=time.time()-t
    print("cycles", cyc[0], "time", dt, "cyc/s", cyc[0]/dt, "cmds", len(log))
    print(log[:20])
