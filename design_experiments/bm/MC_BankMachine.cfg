SPECIFICATION MSpec
CONSTANTS NRows = 2
 NCols = 2
 Align = 2
 Depth = 2
 tRP = 2
 tRCD = 2
 tWTP = 4
 tRC = 5
 tRAS = 4
 CntBitsWTP = 2
 CntBitsRC = 3
 CntBitsRAS = 2
 AutoPre = TRUE
INVARIANT Legal
CHECK_DEADLOCK FALSE
