import sys, json, random
import os; sys.path.insert(0, os.path.join(os.path.dirname(os.path.abspath(__file__)), "..")); sys.path.insert(0, "/repo")
import shim
from migen import *
import fastsim
from litedram.common import *
from litedram.core.bankmachine import BankMachine

class S(Settings):
    def __init__(self, **kw): self.set_attributes(kw)

def build(depth=2, ap=True, tRP=2, tRCD=2, tWR=2, tCCD=1, tRC=5, tRAS=3, cwl=2, nphases=2, rowbits=11, colbits=3, align=2):
    st = S(cmd_buffer_depth=depth, cmd_buffer_buffered=False, with_auto_precharge=ap)
    st.phy = S(cwl=cwl, nphases=nphases, nranks=1, memtype="DDR2", dfi_databits=32)
    st.geom = S(bankbits=1, rowbits=rowbits, colbits=colbits, addressbits=max(rowbits, colbits))
    st.timing = S(tRAS=tRAS, tRC=tRC, tCCD=tCCD, tRCD=tRCD, tRP=tRP, tWR=tWR)
    aw = rowbits + colbits - align
    bm = BankMachine(0, aw, align, 1, st)
    return bm, st, aw

def run(seed, ncyc, nrows, **kw):
    bm, st, aw = build(**kw)
    ncols = 2**(kw.get("colbits",3)-kw.get("align",2))
    rnd = random.Random(seed)
    log = []
    def gen():
        valid = 0; we = 0; addr = 0; refreq = 0
        for c in range(ncyc):
            # choose inputs for this cycle (hold request until accepted)
            cmdready = rnd.random() < 0.6
            if not valid and rnd.random() < 0.7:
                valid = 1; we = rnd.random() < 0.5; addr = rnd.randrange(nrows)*ncols + rnd.randrange(ncols)
            if not refreq and rnd.random() < 0.03: refreq = 1
            yield bm.req.valid.eq(valid); yield bm.req.we.eq(we); yield bm.req.addr.eq(addr)
            yield bm.cmd.ready.eq(cmdready); yield bm.refresh_req.eq(refreq)
            yield
            # after the edge the simulator has committed the *previous* inputs; read outputs on next pass
            log.append(dict(valid=bool(valid), we=bool(we), addr=addr, cmdready=bool(cmdready), refreq=bool(refreq)))
        
    # two-phase: migen generators write at edge n, values visible after; so record outputs by a passive monitor one cycle later
    outs = []
    @passive
    def mon():
        while True:
            o = dict(cmdvalid=(yield bm.cmd.valid), cas=(yield bm.cmd.cas), ras=(yield bm.cmd.ras), we=(yield bm.cmd.we),
                     iscmd=(yield bm.cmd.is_cmd), isread=(yield bm.cmd.is_read), iswrite=(yield bm.cmd.is_write),
                     a=(yield bm.cmd.a), reqready=(yield bm.req.ready), wready=(yield bm.req.wdata_ready),
                     rvalid=(yield bm.req.rdata_valid), lock=(yield bm.req.lock), gnt=(yield bm.refresh_gnt),
                     i_valid=(yield bm.req.valid), i_we=(yield bm.req.we), i_addr=(yield bm.req.addr),
                     i_cmdready=(yield bm.cmd.ready), i_refreq=(yield bm.refresh_req))
            outs.append(o)
            yield
    # simple self-consistent driver: decide next inputs from observed outputs (hold valid until ready; drop refreq after gnt seen for a while)
    state = dict(valid=0, we=0, addr=0, refreq=0, gntcnt=0)
    def drv():
        for c in range(ncyc):
            # observe outputs of current cycle
            rdy = (yield bm.req.ready); gnt = (yield bm.refresh_gnt)
            if state["valid"] and rdy: state["valid"] = 0
            if state["refreq"] and gnt:
                state["gntcnt"] += 1
                if state["gntcnt"] > rnd.randrange(2, 6): state["refreq"] = 0; state["gntcnt"] = 0
            if not state["valid"] and rnd.random() < 0.7:
                state["valid"] = 1; state["we"] = int(rnd.random() < 0.5); state["addr"] = rnd.randrange(nrows)*ncols + rnd.randrange(ncols)
            if not state["refreq"] and rnd.random() < 0.03: state["refreq"] = 1
            yield bm.req.valid.eq(state["valid"]); yield bm.req.we.eq(state["we"]); yield bm.req.addr.eq(state["addr"])
            yield bm.cmd.ready.eq(int(rnd.random() < 0.6)); yield bm.refresh_req.eq(state["refreq"])
            yield
    fastsim.run_simulation(bm, [drv(), mon()])
    return outs, st

if __name__ == "__main__":
    seed = int(sys.argv[1]); ncyc = int(sys.argv[2])
    outs, st = run(seed, ncyc, 2)
    with open(sys.argv[3], "w") as f:
        for o in outs:
            f.write(json.dumps({k: (bool(v) if k not in ("a","i_addr") else v) for k, v in o.items()}) + "\n")
    print("cycles", len(outs), "issued", sum(1 for o in outs if o["cmdvalid"] and o["i_cmdready"]))
