---- MODULE MC_BankMachine ----
EXTENDS D_BankMachine
VARIABLES devRow, sinceAct, sincePre, sinceWr, bad
Sat == 8
Inc(x) == IF x < Sat THEN x + 1 ELSE Sat
mvars == <<vars, devRow, sinceAct, sincePre, sinceWr, bad>>
NoRow == 99
\* command accepted this cycle
IssAct == accept /\ fsm = "ACTIVATE"
IssPre == accept /\ fsm = "PRECHARGE"
IssRd  == accept /\ isRead
IssWr  == accept /\ isWrite
\* refresh: the refresher precharges all banks one cycle after all grants (abstract: when gnt seen and env decides)
EnvNext == /\ in' \in Inputs
           /\ (in.valid /\ ~reqReady) => (in'.valid /\ in'.we = in.we /\ in'.addr = in.addr)
           /\ (in.refreq /\ ~refGnt) => in'.refreq
MInit == Init /\ devRow = NoRow /\ sinceAct = Sat /\ sincePre = Sat /\ sinceWr = Sat /\ bad = {}
Clauses ==
   (IF IssAct /\ devRow # NoRow THEN {"ACT on open bank"} ELSE {}) \cup
   (IF IssAct /\ sincePre < tRP THEN {"tRP"} ELSE {}) \cup
   (IF IssAct /\ tRC > 0 /\ sinceAct < tRC THEN {"tRC"} ELSE {}) \cup
   (IF (IssRd \/ IssWr) /\ (devRow = NoRow \/ devRow # RowOf(buf.addr)) THEN {"RD/WR row"} ELSE {}) \cup
   (IF (IssRd \/ IssWr) /\ sinceAct < tRCD THEN {"tRCD"} ELSE {}) \cup
   (IF IssPre /\ devRow # NoRow /\ tRAS > 0 /\ sinceAct < tRAS THEN {"tRAS"} ELSE {}) \cup
   (IF IssPre /\ sinceWr < tWTP THEN {"tWTP"} ELSE {}) \cup
   (IF refGnt /\ in.refreq /\ devRow # NoRow /\ tRAS > 0 /\ sinceAct + 1 < tRAS THEN {"tRAS(refresh PREA next cycle)"} ELSE {})
MNext == /\ Tick /\ EnvNext
         /\ bad' = bad \cup Clauses
         /\ devRow' = IF IssAct THEN RowOf(buf.addr)
                      ELSE IF IssPre \/ ((IssRd \/ IssWr) /\ autoPre) \/ (refGnt /\ in.refreq) THEN NoRow ELSE devRow
         /\ sinceAct' = IF IssAct THEN 1 ELSE Inc(sinceAct)
         /\ sincePre' = IF IssPre \/ ((IssRd \/ IssWr) /\ autoPre) THEN 1 ELSE Inc(sincePre)
         /\ sinceWr' = IF IssWr THEN 1 ELSE Inc(sinceWr)
MSpec == MInit /\ [][MNext]_mvars
Legal == bad \subseteq {"tRAS(refresh PREA next cycle)"}
NoRefreshTras == "tRAS(refresh PREA next cycle)" \notin bad
====
