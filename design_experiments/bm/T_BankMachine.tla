---- MODULE T_BankMachine ----
EXTENDS D_BankMachine, Json, IOUtils
Trace == ndJsonDeserialize(IOEnv.TRACE_FILE)
VARIABLES l, bad
InOf(i) == [valid |-> Trace[i].i_valid, we |-> Trace[i].i_we, addr |-> Trace[i].i_addr, cmdready |-> Trace[i].i_cmdready, refreq |-> Trace[i].i_refreq]
Fields == {"cmdvalid","cas","ras","we","iscmd","isread","iswrite","reqready","wready","rvalid","lock","gnt"}
Mismatch(i) == {f \in Fields : Out[f] # Trace[i][f]} \cup (IF Out.cmdvalid /\ Out.a # Trace[i].a THEN {"a"} ELSE {})
TInit == Init /\ in = InOf(1) /\ l = 1 /\ bad = {}
TNext == /\ l < Len(Trace)
         /\ bad' = bad \cup {<<l, f>> : f \in Mismatch(l)}
         /\ Tick
         /\ in' = InOf(l + 1)
         /\ l' = l + 1
TSpec == TInit /\ [][TNext]_<<vars, l, bad>>
Post == /\ TLCGet("stats").diameter = Len(Trace)
        /\ IF bad = {} THEN TRUE ELSE Print(<<"MISMATCH", bad>>, FALSE)
BadEmpty == bad = {} \/ Print(<<"MISMATCH at", bad>>, FALSE)
====
