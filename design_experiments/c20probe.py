import shim, sys
from migen import *
import fastsim
from litedram.phy.lpddr4.basephy import LPDDR4PHY
from litedram.phy.lpddr4.simphy import LPDDR4SimulationPads
from litedram.phy.utils import Latency, Serializer, Deserializer
pads = LPDDR4SimulationPads()
phy = LPDDR4PHY(pads, sys_clk_freq=100e6, ser_latency=Latency(sys=Serializer.LATENCY), des_latency=Latency(sys=Deserializer.LATENCY), phytype="T")
phy.submodules += pads
print("rdphase", phy.settings.rdphase, "cl", phy.settings.cl)
out=[]
def drive(cmds):
    # cmds: {phase: (ras,cas,we,bank,addr)}
    for i,p in enumerate(phy.dfi.phases):
        if i in cmds:
            ras,cas,we,b,a = cmds[i]
            yield p.cs_n.eq(0); yield p.ras_n.eq(1-ras); yield p.cas_n.eq(1-cas); yield p.we_n.eq(1-we); yield p.bank.eq(b); yield p.address.eq(a)
        else:
            yield p.cs_n.eq(1); yield p.ras_n.eq(1); yield p.cas_n.eq(1); yield p.we_n.eq(1)
def gen(pattern):
    yield from drive({})
    yield
    yield from drive(pattern)
    yield
    yield from drive({})
    for _ in range(4):
        out.append(((yield phy.out.cs), None))
        yield
pre = (1,0,1,3,0)   # PRECHARGE bank 3 (single small command in 2nd slot)
for name, pat in [("p0 only", {0:pre}), ("p0,p4", {0:pre,4:pre}), ("p0,p2,p4", {0:pre,2:pre,4:pre}), ("p0,p2", {0:pre,2:pre})]:
    out.clear()
    pads2 = LPDDR4SimulationPads()
    phy = LPDDR4PHY(pads2, sys_clk_freq=100e6, ser_latency=Latency(sys=Serializer.LATENCY), des_latency=Latency(sys=Deserializer.LATENCY), phytype="T")
    phy.submodules += pads2
    fastsim.run_simulation(phy, gen(pat))
    print(name, [format(o[0], "08b")[::-1] for o in out])
