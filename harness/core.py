"""Whole-core device under test: the REAL LiteDRAMController + LiteDRAMCrossbar elaborated from the working tree,
native-port drivers that obey exactly the assumptions the properties grant, a DFI device responder (data only,
never judges), and one passive recorder producing the merged event trace that T_Core.tla validates.

Time base: the recorder counts sys cycles; port events carry t = cycle * nphases, DFI events t = cycle * nphases + phase.
"""
import collections, json, math, random, zlib

from . import env


# ------------------------------------------------------------------------------------------------ configuration

DEFAULT_TECH = {
    "SDR":   dict(tREFI=64e6 / 8192, tWTR=(2, None), tCCD=(1, None), tRRD=(None, 15)),
    "DDR":   dict(tREFI=64e6 / 8192, tWTR=(2, None), tCCD=(1, None), tRRD=(None, 15)),
    "LPDDR": dict(tREFI=64e6 / 8192, tWTR=(2, None), tCCD=(1, None), tRRD=(None, 10)),
    "DDR2":  dict(tREFI=64e6 / 8192, tWTR=(None, 7.5), tCCD=(2, None), tRRD=(None, 10)),
    "DDR3":  dict(tREFI=64e6 / 8192, tWTR=(4, 7.5), tCCD=(4, None), tRRD=(4, 10), tZQCS=(64, 80)),
    "DDR4":  dict(tREFI=64e6 / 8192, tWTR=(4, 7.5), tCCD=(4, None), tRRD=(4, 4.9), tZQCS=(128, 80)),
}
DEFAULT_SPEED = {
    "SDR":   dict(tRP=20, tRCD=20, tWR=15, tRFC=(None, 66), tFAW=None, tRAS=44),
    "DDR":   dict(tRP=15, tRCD=15, tWR=15, tRFC=(None, 70), tFAW=None, tRAS=40),
    "LPDDR": dict(tRP=15, tRCD=15, tWR=15, tRFC=(None, 72), tFAW=None, tRAS=40),
    "DDR2":  dict(tRP=15, tRCD=15, tWR=15, tRFC=(None, 127.5), tFAW=None, tRAS=40),
    "DDR3":  dict(tRP=13.75, tRCD=13.75, tWR=15, tRFC=(None, 160), tFAW=(None, 40), tRAS=35),
    "DDR4":  dict(tRP=13.32, tRCD=13.32, tWR=15, tRFC=(None, 160), tFAW=(20, 25), tRAS=32),
}
NPHASES = {"SDR": 1, "DDR": 2, "LPDDR": 2, "DDR2": 2, "DDR3": 4, "DDR4": 4}


def _tup(v):
    if isinstance(v, list):
        return tuple(v)
    return v


def make_module(cfg):
    """SDRAMModule instance: a library class (cfg['lib']) or a custom class from cfg numbers."""
    env.setup()
    from litedram import modules as M
    from litedram.modules import _TechnologyTimings, _SpeedgradeTimings
    clk = cfg["clk_khz"] * 1e3
    if cfg.get("lib"):
        cls = getattr(M, cfg["lib"])
        return cls(clk, cfg["rate"], speedgrade=cfg.get("speedgrade"))
    memtype = cfg["memtype"]
    base = {"SDR": M.SDRModule, "DDR": M.DDRModule, "LPDDR": M.LPDDRModule, "DDR2": M.DDR2Module,
            "DDR3": M.DDR3Module, "DDR4": M.DDR4Module}[memtype]
    tech = dict(DEFAULT_TECH[memtype]); tech.update({k: _tup(v) for k, v in (cfg.get("tech") or {}).items()})
    speed = dict(DEFAULT_SPEED[memtype]); speed.update({k: _tup(v) for k, v in (cfg.get("speed") or {}).items()})
    tech.setdefault("tZQCS", None)
    attrs = dict(nbanks=cfg.get("nbanks", 4), nrows=cfg.get("nrows", 2048), ncols=cfg.get("ncols", 64),
                 technology_timings=_TechnologyTimings(**tech),
                 speedgrade_timings={"default": _SpeedgradeTimings(**speed)})
    if memtype == "DDR4":
        attrs["ngroupbanks"] = 4
        attrs["ngroups"] = max(1, attrs["nbanks"] // 4)
        # DDR4 tRFC is a dict per fine-refresh mode in the library
        rfc = speed["tRFC"]
        attrs["speedgrade_timings"] = {"default": _SpeedgradeTimings(**dict(speed, tRFC={"1x": rfc, "2x": rfc, "4x": rfc}))}
        refi = tech["tREFI"]
        attrs["technology_timings"] = _TechnologyTimings(**dict(tech, tREFI={"1x": refi, "2x": refi / 2, "4x": refi / 4}))
    cls = type("Verif" + memtype, (base,), attrs)
    return cls(clk, cfg["rate"])


def make_phy_settings(cfg, mod):
    env.setup()
    from litedram.common import PhySettings, get_default_cl_cwl, get_sys_latency, get_sys_phase
    memtype = mod.memtype
    nph = int(cfg["rate"].split(":")[1])
    databits = cfg.get("databits", 16)
    clk = cfg["clk_khz"] * 1e3
    o = dict(cfg.get("phy") or {})
    if memtype == "SDR":
        d = dict(rdphase=0, wrphase=0, cl=2, cwl=None, read_latency=4, write_latency=0)
        if nph == 2:   # half-rate SDR PHY
            d = dict(rdphase=0, wrphase=0, cl=2, cwl=None, read_latency=4, write_latency=0)
    elif memtype in ("DDR", "LPDDR"):
        d = dict(rdphase=0, wrphase=1, cl=3, cwl=None, read_latency=5, write_latency=0)
    else:
        tck = 2 / (2 * nph * clk)
        cl, cwl = o.pop("cl_cwl", None) or get_default_cl_cwl(memtype, tck)
        cls_, cwls = get_sys_latency(nph, cl), get_sys_latency(nph, cwl)
        d = dict(cl=cl, cwl=cwl, rdphase=get_sys_phase(nph, cls_, cl), wrphase=get_sys_phase(nph, cwls, cwl),
                 read_latency=cls_ + (5 if memtype == "DDR4" else 6), write_latency=cwls - 1)
    d.update(o)
    nranks = d.pop("nranks", cfg.get("nranks", 1))
    ps = PhySettings(phytype="VerifResponder", memtype=memtype, databits=databits,
                     dfi_databits=databits if memtype == "SDR" else 2 * databits, nphases=nph, nranks=nranks, **d)
    return ps


def build(cfg):
    """Elaborate the real controller + crossbar. Returns (top, module, phy_settings)."""
    env.setup()
    from migen import Module
    from litedram.core.controller import ControllerSettings, LiteDRAMController
    from litedram.core.crossbar import LiteDRAMCrossbar
    mod = make_module(cfg)
    ps = make_phy_settings(cfg, mod)
    ctrl = dict(cfg.get("ctrl") or {})
    clk = cfg["clk_khz"] * 1e3

    class Top(Module):
        def __init__(self):
            self.submodules.controller = LiteDRAMController(ps, mod.geom_settings, mod.timing_settings, clk,
                                                            controller_settings=ControllerSettings(**ctrl))
            self.submodules.crossbar = LiteDRAMCrossbar(self.controller.interface)
            self.ports = [self.crossbar.get_port() for _ in range(len(cfg["ports"]))]
            self.dfi = self.controller.dfi
    return Top(), mod, ps


def _entry(mod, name, key=None):
    """(ck, ps) of a datasheet entry as declared by the module; (0, 0) when not declared."""
    try:
        t = mod.get(name, key)
    except Exception:
        t = None
    if t is None:
        return dict(ck=0, ps=0)
    return dict(ck=int(t.ck or 0), ps=int(math.floor((t.ns or 0) * 1000 + 1e-6)))


def tla_header(cfg, mod, ps, top, monitors):
    """Configuration record (line 1 of the trace) for T_Core.tla: everything the requirement specs need, taken from the
    module's *declared datasheet entry* and the PHY/controller settings -- never from the controller's own cycle counts."""
    env.setup()
    # burst lengths the LiteDRAM PHYs operate the memories with -- stated here, not imported from the code under test
    burst_lengths = {"SDR": 1, "DDR": 4, "LPDDR": 4, "DDR2": 4, "DDR3": 8, "DDR4": 8, "LPDDR4": 16, "LPDDR5": 16}
    memtype = mod.memtype
    nph = ps.nphases
    frm = getattr(mod.timing_settings, "fine_refresh_mode", None)
    ds = {n: _entry(mod, n) for n in ["tRCD", "tRP", "tRAS", "tRRD", "tFAW", "tCCD", "tWR", "tWTR", "tZQCS"]}
    ds["tRFC"] = _entry(mod, "tRFC", frm)
    ds["tREFI"] = _entry(mod, "tREFI", frm)
    wl = {"SDR": 0, "DDR": 1, "LPDDR": 1}.get(memtype, ps.cwl)
    bl = 1 if memtype == "SDR" else burst_lengths[memtype]
    blck = 0 if memtype == "SDR" else bl // 2
    g = mod.geom_settings
    ctl = top.controller.settings
    dw = top.ports[0].data_width
    # burst alignment of port addresses = log2(beats per controller word): a SDR PHY transfers nphases words per controller cycle,
    # DDR-type PHYs one burst of BL beats.  Derived from the configuration, NOT read back from the implementation.
    align = int(math.log2(ps.nphases if memtype == "SDR" else burst_lengths[memtype]))
    zq = 0
    if ds["tZQCS"]["ck"] or ds["tZQCS"]["ps"]:
        zq = int(cfg["clk_khz"] * 1e3 / ctl.refresh_zqcs_freq) * nph
    rdphase = ps.rdphase if isinstance(ps.rdphase, int) else 0
    wrphase = ps.wrphase if isinstance(ps.wrphase, int) else 0
    return dict(
        mon=list(monitors), nranks=ps.nranks, nbanks=2 ** g.bankbits, nphases=nph, rdphase=rdphase, wrphase=wrphase,
        wl=wl, blck=blck, fkhz=cfg["clk_khz"] * nph, ds=ds,
        geom=dict(bankbits=g.bankbits, rowbits=g.rowbits, colbits=g.colbits, align=align,
                  rankbits=int(math.log2(ps.nranks)), bbawords=int(getattr(ctl, "bank_byte_alignment", 0) // (dw // 8))),
        nports=len(top.ports), uniq=(dw >= 32),
        postponing=ctl.refresh_postponing, refresh=bool(ctl.with_refresh), zq_period=zq,
        read_time=ctl.read_time, write_time=ctl.write_time, read_latency=ps.read_latency, write_latency=ps.write_latency,
        depth=ctl.cmd_buffer_depth + (1 if ctl.cmd_buffer_buffered else 0),
    )


# ------------------------------------------------------------------------------------------------ address helper

class AddrCodec:
    """Stimulus-side helper (never used for a verdict): build a port address from (rank, bank, row, colword)."""
    def __init__(self, hdr):
        g = hdr["geom"]
        self.g = g
        self.colw = g["colbits"] - g["align"]
        bba = int(math.log2(g["bbawords"])) if g["bbawords"] else 0
        self.shift = max(self.colw, bba)
        self.brbits = g["bankbits"] + g["rankbits"]
        self.aw = g["rowbits"] + self.colw + self.brbits

    def encode(self, rank, bank, row, colw):
        rc = (row << self.colw) | colw
        low = rc & ((1 << self.shift) - 1)
        high = rc >> self.shift
        br = (rank << self.g["bankbits"]) | bank
        return low | (br << self.shift) | (high << (self.shift + self.brbits))


# ------------------------------------------------------------------------------------------------ stimulus

def gen_plan(pcfg, hdr, dw, seed):
    """List of actions for one port: (gap_cycles, we, addr, data, mask). Deterministic in (pcfg, seed)."""
    rnd = random.Random((seed * 1000003 + pcfg.get("seed", 0) * 7919 + 12345) & 0xffffffff)
    ac = AddrCodec(hdr)
    g = hdr["geom"]
    nb = dw // 8
    nbanks, nranks = 2 ** g["bankbits"], 2 ** g["rankbits"]
    nrows, ncolw = 2 ** g["rowbits"], 2 ** ac.colw
    prof = pcfg.get("profile", "uniform")
    n = pcfg.get("ncmd", 200)
    wsn = pcfg.get("working_set", 24)
    # a small working set spread over ranks/banks/rows so that hazards and conflicts actually happen
    ws = []
    rows = [rnd.randrange(nrows) for _ in range(3)]
    for i in range(wsn):
        ws.append(ac.encode(rnd.randrange(nranks), rnd.randrange(nbanks), rnd.choice(rows), rnd.randrange(ncolw)))
    fb, fr = pcfg.get("bank", rnd.randrange(nbanks)), pcfg.get("rank", rnd.randrange(nranks))
    r0, r1 = rnd.sample(range(nrows), 2)
    plan = []
    alias_base = [0]
    for i in range(n):
        gap = 0
        we = rnd.random() < pcfg.get("wfrac", 0.5)
        if prof == "uniform":
            a = rnd.choice(ws) if rnd.random() < 0.85 else rnd.randrange(1 << ac.aw)
            gap = rnd.choice([0, 0, 0, 0, 1, 2, 5, 20])
        elif prof == "hot":
            a = ws[rnd.randrange(min(3, len(ws)))]
            gap = rnd.choice([0, 0, 1, 3])
        elif prof == "samebank_altrow":
            a = ac.encode(fr, fb, (r0, r1)[i & 1], rnd.randrange(ncolw))
        elif prof == "samebank_rows":
            a = ac.encode(fr, fb, rnd.choice([r0, r1, rows[0]]), rnd.randrange(ncolw))
            gap = rnd.choice([0, 0, 0, 3, 9])
        elif prof == "samerow":
            a = ac.encode(fr, fb, r0, i % ncolw)
        elif prof == "pingpong":
            a = ac.encode(rnd.randrange(nranks), i % nbanks, (r0, r1)[(i // nbanks) & 1], rnd.randrange(ncolw))
        elif prof == "sequential":
            a = (pcfg.get("base", 0) + i) % (1 << ac.aw)
        elif prof == "wrw":
            a = rnd.choice(ws)
            we = (i % 3) != 1
            gap = rnd.choice([0, 0, 2])
        elif prof == "random":
            a = rnd.randrange(1 << ac.aw)
            gap = rnd.choice([0, 0, 1, 4])
        elif prof == "bursty":
            a = rnd.choice(ws)
            gap = 0 if (i % 16) else rnd.randrange(30, 200)
        elif prof == "alias":
            # aliasing probe: write two addresses that differ in exactly one address bit with different data, then read both
            k = (i // 4) % ac.aw
            if i % 4 == 0:
                alias_base[0] = rnd.randrange(1 << ac.aw)
            a = alias_base[0] ^ ((1 << k) if (i % 4) in (1, 3) else 0)
            we = (i % 4) < 2
            gap = 0
        elif prof == "gapsweep":
            # directed: write, second write to the same row after g idle cycles (g sweeps 0..span-1, i.e. every re-trigger offset of the
            # write-recovery / write-to-read count-downs), then at once a row conflict ("pre") or a read of the same row ("wtr")
            g4, k = divmod(i, 4)
            g4 %= pcfg.get("span", 32)
            c0 = (4 * g4) % ncolw
            if k == 0:
                gap, we, a = pcfg.get("settle", 60), True, ac.encode(fr, fb, r0, c0)
            elif k == 1:
                gap, we, a = g4, True, ac.encode(fr, fb, r0, (c0 + 1) % ncolw)
            elif k == 2:
                gap = 0
                if pcfg.get("then", "pre") == "pre":
                    we, a = bool(g4 & 1), ac.encode(fr, fb, r1, c0)
                else:
                    we, a = False, ac.encode(fr, fb, r0, (c0 + 2) % ncolw)
            else:
                gap, we, a = 0, False, ac.encode(fr, fb, r0 if pcfg.get("then", "pre") != "pre" else r1, (c0 + 3) % ncolw)
        elif prof == "list":
            item = pcfg["items"][i % len(pcfg["items"])]
            gap, we, a = item[0], bool(item[1]), item[2] % (1 << ac.aw)
        else:
            raise ValueError(prof)
        if pcfg.get("gap") is not None:
            gap = pcfg["gap"]
        if pcfg.get("dir") == "w":
            we = True
        elif pcfg.get("dir") == "r":
            we = False
        mask = (1 << nb) - 1
        if we and rnd.random() < pcfg.get("partial", 0.3):
            mask = rnd.getrandbits(nb)
        plan.append((gap, bool(we), a, rnd.getrandbits(dw), mask))
    if pcfg.get("start_delay"):
        g0, *rest = plan[0]
        plan[0] = (g0 + pcfg["start_delay"], *rest)
    return plan


def tobytes(v, n):
    return [(v >> (8 * i)) & 0xff for i in range(n)]


NAMES = {(0, 1, 1): "ACT", (0, 1, 0): "PRE", (1, 0, 1): "RD", (1, 0, 0): "WR", (0, 0, 1): "REF", (1, 1, 0): "ZQCS", (0, 0, 0): "MRS"}


def run_core(cfg, monitors=("dev", "link", "mem", "ref", "rsp"), plans=None, sweep=True):
    """Simulate one scenario on the real core. Returns dict(header, events, cycles, stats)."""
    env.setup()
    from migen import passive
    top, mod, ps = build(cfg)
    hdr = tla_header(cfg, mod, ps, top, monitors)
    nph, rl, wl_phy = ps.nphases, ps.read_latency, ps.write_latency
    dfi = top.dfi
    dw = top.ports[0].data_width
    nb = dw // 8
    phw = dw // nph
    nranks = ps.nranks
    seed = cfg.get("seed", 0)
    if plans is None:
        plans = [gen_plan(p, hdr, dw, seed) for p in cfg["ports"]]
    nports = len(plans)
    events = []          # (cycle, class, sub, dict)
    cyc = [0]
    mem, touched = {}, {}
    rnd0 = random.Random(seed * 7919 + 1)
    state = dict(done=[False] * nports, outstanding=0, sweep_done=not sweep, issued=0)
    drain = cfg.get("drain", 1500)
    max_cycles = cfg.get("max_cycles", 150000)
    stop_at = cfg.get("confirm_hint")      # confirmation re-runs on the stock simulator stop shortly after the failing event

    def initword(key):
        return random.Random(zlib.crc32(repr(key).encode())).getrandbits(dw)

    prev = [dict(valid=0, acc=1) for _ in range(nports)]

    @passive
    def recorder():
        openrow = {}
        wr_sched = collections.defaultdict(list)
        rd_sched = collections.defaultdict(list)
        while True:
            c = cyc[0]
            # ---- port side (values of cycle c) ----
            for pi, port in enumerate(top.ports):
                v, r = (yield port.cmd.valid), (yield port.cmd.ready)
                if v and (not prev[pi]["valid"] or prev[pi]["acc"]):
                    events.append((c, 0, pi, dict(c="OFFER", p=pi, a=(yield port.cmd.addr), t=c * nph)))
                if v and r:
                    we, a = (yield port.cmd.we), (yield port.cmd.addr)
                    events.append((c, 1, pi, dict(c="CMD", p=pi, we=bool(we), a=a, t=c * nph)))
                    state["outstanding"] += 1
                    touched[a] = True
                prev[pi]["valid"], prev[pi]["acc"] = v, (v and r)
                if (yield port.wdata.valid) and (yield port.wdata.ready):
                    d, m = (yield port.wdata.data), (yield port.wdata.we)
                    events.append((c, 2, pi, dict(c="WDATA", p=pi, d=tobytes(d, nb), m=[(m >> j) & 1 for j in range(nb)], t=c * nph)))
                    state["outstanding"] -= 1
                elif (yield port.wdata.ready):
                    # strobe with no data offered: the write data is lost (drivers never let this happen)
                    events.append((c, 2, pi, dict(c="WDROP", p=pi, t=c * nph)))
                if (yield port.rdata.valid):
                    events.append((c, 3, pi, dict(c="RDATA", p=pi, d=tobytes((yield port.rdata.data), nb), t=c * nph)))
                    state["outstanding"] -= 1
            # ---- DFI side ----
            for i, p in enumerate(dfi.phases):
                csn = (yield p.cs_n)
                ras, cas, we = (yield p.ras_n), (yield p.cas_n), (yield p.we_n)
                rden, wren = (yield p.rddata_en), (yield p.wrdata_en)
                ranks = [r for r in range(nranks) if not (csn >> r) & 1]
                iscmd = bool(ranks) and (ras, cas, we) != (1, 1, 1)
                name = None
                if iscmd:
                    b, a = (yield p.bank), (yield p.address)
                    name = NAMES[(ras, cas, we)]
                    ap = bool((a >> 10) & 1)
                    if name == "PRE" and ap:
                        name = "PREA"
                    aa = a & ~(1 << 10) if name in ("RD", "WR", "PRE", "PREA") else a
                    events.append((c, 4, i, dict(c=name, t=c * nph + i, ph=i, ranks=ranks, b=b, a=aa, ap=ap,
                                                 rden=bool(rden), wren=bool(wren))))
                    for r in ranks:
                        if name == "ACT":
                            openrow[(r, b)] = a
                        elif name == "PRE":
                            openrow.pop((r, b), None)
                        elif name == "PREA":
                            for k in [k for k in openrow if k[0] == r]:
                                openrow.pop(k)
                        elif name == "WR":
                            wr_sched[c + wl_phy].append((r, b, openrow.get((r, b)), aa))
                            if ap:
                                openrow.pop((r, b), None)
                        elif name == "RD":
                            rd_sched[c + rl].append((r, b, openrow.get((r, b)), aa))
                            if ap:
                                openrow.pop((r, b), None)
                if (rden or wren) and name not in ("RD", "WR"):
                    events.append((c, 4, i, dict(c="STROBE", t=c * nph + i, ph=i, ranks=ranks, b=0, a=0, ap=False,
                                                 rden=bool(rden), wren=bool(wren))))
            # ---- write data present in cycle c ----
            for key in wr_sched.pop(c, []):
                d = m = 0
                for i, p in enumerate(dfi.phases):
                    d |= (yield p.wrdata) << (i * phw)
                    m |= (yield p.wrdata_mask) << (i * phw // 8)
                old = mem.get(key, initword(key))
                for j in range(nb):
                    if not (m >> j) & 1:
                        old = (old & ~(0xff << (8 * j))) | (d & (0xff << (8 * j)))
                mem[key] = old
            # ---- drive read data for cycle c+1 ----
            keys = rd_sched.pop(c + 1, [])
            if keys:
                v = mem.get(keys[0], initword(keys[0]))
                for i, p in enumerate(dfi.phases):
                    yield p.rddata.eq((v >> (i * phw)) & ((1 << phw) - 1))
                    yield p.rddata_valid.eq(1)
            else:
                gbg = rnd0.getrandbits(dw)
                for i, p in enumerate(dfi.phases):
                    yield p.rddata.eq((gbg >> (i * phw)) & ((1 << phw) - 1))
                    yield p.rddata_valid.eq(0)
            cyc[0] += 1
            yield

    def driver(pi, port, plan):
        """Obeys exactly the granted assumptions: holds cmd until accepted; offers the data of a write no later than the
        command itself, in order, held until taken; always accepts read data."""
        wq = collections.deque()
        pending = None
        idx = 0
        gap = plan[0][0] if plan else 0
        yield port.rdata.ready.eq(1)
        sweeping = False
        idle = 0
        while True:
            if cyc[0] > max_cycles or (stop_at is not None and cyc[0] > stop_at):
                break
            # observe the cycle that just ended
            if pending is not None and (yield port.cmd.valid) and (yield port.cmd.ready):
                pending = None
                if idx < len(plan):
                    gap = plan[idx][0]
            if wq and (yield port.wdata.valid) and (yield port.wdata.ready):
                wq.popleft()
            # choose what to drive next
            if pending is None and idx < len(plan):
                if gap > 0:
                    gap -= 1
                else:
                    _, we, a, d, m = plan[idx]
                    idx += 1
                    pending = (we, a)
                    if we:
                        wq.append((d, m))
            if pending is not None:
                yield port.cmd.valid.eq(1)
                yield port.cmd.we.eq(int(pending[0]))
                yield port.cmd.addr.eq(pending[1])
            else:
                yield port.cmd.valid.eq(0)
            if wq:
                yield port.wdata.valid.eq(1)
                yield port.wdata.data.eq(wq[0][0])
                yield port.wdata.we.eq(wq[0][1])
            else:
                yield port.wdata.valid.eq(0)
            if idx >= len(plan) and pending is None and not wq:
                state["done"][pi] = True
                if pi == 0 and not sweeping and not state["sweep_done"] and all(state["done"]) and state["outstanding"] == 0:
                    # read sweep over every touched address and its single-bit neighbours
                    sweeping = True
                    aw = port.address_width
                    addrs = sorted(touched)
                    cand = list(addrs)
                    r2 = random.Random(seed + 99)
                    for a in addrs:
                        for k in range(aw):
                            cand.append(a ^ (1 << k))
                    cand = list(dict.fromkeys(cand))
                    if len(cand) > cfg.get("sweep_max", 400):
                        cand = addrs[:cfg.get("sweep_max", 400) // 2] + r2.sample(cand, cfg.get("sweep_max", 400) // 2)
                    plan = plan + [(0, False, a, 0, 0) for a in cand]
                    state["done"][pi] = False
                    state["sweep_done"] = True
                    gap = 0
                    continue
                if all(state["done"]):
                    if state["outstanding"] == 0:
                        idle += 1
                        if idle > 40:
                            break
                    else:
                        idle += 1
                        if idle > drain:
                            break
            yield

    gens = [recorder()] + [driver(i, p, plans[i]) for i, p in enumerate(top.ports)]
    env.run_simulation(top, gens)
    events.sort(key=lambda e: (e[0], e[1], e[2]))
    evs = [e[3] for e in events]
    # onto-ness: the port must offer exactly the device's address space (rank + bank + row + burst-aligned column bits)
    evs.insert(0, dict(c="GEOM", aw=top.ports[0].address_width, t=0))
    changed = sum(1 for k, v in mem.items() if v != initword(k))
    evs.append(dict(c="DUMP", n=changed, t=cyc[0] * nph))
    evs.append(dict(c="END", t=cyc[0] * nph))
    kinds = collections.Counter(e["c"] for e in evs)
    return dict(header=hdr, events=evs, cycles=cyc[0], kinds=dict(kinds), timing={k: v for k, v in vars(mod.timing_settings).items() if k != 'self'},
                timed_out=cyc[0] > max_cycles)
