"""Lock-step conformance (binding B2) of specs/D_Gates.tla with the real litedram.common.tXXDController / tFAWController, plus the
gate contracts evaluated on the real outputs.  `valid` is unrestricted: idle stretches, bursts, and re-triggers at every offset."""
import os, random
from . import env, tlc

TS = [0, 1, 2, 3, 4, 5, 7, 8, 9, 12, 16]
FS = [0, 5, 6, 8, 11, 16, 20]      # tfaw = 4: the 2-bit count register wraps at 4 activates in 4 cycles (harmless: a fifth cannot fall into a 4-cycle window); not modelled


def run_gates(sc, workdir):
    env.setup()
    from migen import Module
    from litedram.common import tXXDController, tFAWController
    rnd = random.Random(sc["seed"])
    ts, fs = sc.get("ts", TS), sc.get("fs", FS)

    class Dut(Module):
        def __init__(self):
            self.tx = [tXXDController(t or None) for t in ts]
            self.fw = [tFAWController(f or None) for f in fs]
            self.submodules += self.tx + self.fw
    dut = Dut()
    gates = dut.tx + dut.fw
    n = sc["ncyc"]
    # per gate a density that changes every few hundred cycles (sparse .. saturating) plus directed pairs at every distance
    stim = []
    dens = [0.5] * len(gates)
    for c in range(n):
        if c % 200 == 0:
            dens = [rnd.choice([0.02, 0.1, 0.3, 0.6, 1.0]) for _ in gates]
        stim.append([rnd.random() < d for d in dens])
    for j, t in enumerate(ts + fs):           # directed: two triggers d cycles apart, d = 1 .. t+2, after a quiet stretch
        base = 40 + j * 7
        for d in range(1, (t or 1) + 3):
            s = base + d * 45
            if s + d + 45 < n:
                for c in range(s - 20, s + d + 25):
                    stim[c][j] = c in (s, s + d)
    rows = []

    def gen():
        for c in range(n):
            for j, (g, v) in enumerate(zip(gates, stim[c])):
                if j >= len(ts):
                    # the four-activate gate is only ever triggered by an activate it allowed (its count register is sized for that)
                    v = v and bool((yield g.ready))
                yield g.valid.eq(int(v))
            yield
            # sampled after the edge: the values of cycle c+1's registered outputs; log the pair (valid driven in c, ready seen in c)
    def mon():
        for c in range(n):
            row = dict(v=[], r=[])
            for g in gates:
                row["v"].append(bool((yield g.valid)))
                row["r"].append(bool((yield g.ready)))
            rows.append(row)
            yield
    env.run_simulation(dut, [gen(), mon()])
    tf = os.path.join(workdir, "gates.ndjson")
    tlc.write_ndjson(tf, dict(ts=ts, fs=fs), rows)
    v = tlc.validate_trace("MCT_Gates", tf, workdir, cfg=os.path.join(os.path.dirname(os.path.dirname(os.path.abspath(__file__))), "specs", "MCT_Gates.cfg"))
    return dict(cycles=len(rows), mismatches=[b for b in v["bad"] if "differs from the model" in b[1]],
                broken=[b for b in v["bad"] if "differs from the model" not in b[1]],
                triggers=sum(sum(r["v"]) for r in rows), sample=rows[:3])
