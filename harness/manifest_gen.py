"""Generates /verif/MANIFEST.json from the property modules that exist (keeps the file valid at all times)."""
import importlib, json, os, sys
sys.path.insert(0, os.path.dirname(os.path.dirname(os.path.abspath(__file__))))
VERIF = os.path.dirname(os.path.dirname(os.path.abspath(__file__)))

TEXT = {
 "C01": ("R_PortMem (TLA+ total monitor of native-port memory semantics) judged by TLC on every port event of whole-core executions of the real crossbar+controller over a DFI responder; exhaustive TLC runs of the design models of the core mechanisms", "5/C01"),
 "C02": ("R_DramDevice + R_BankLink (TLA+ device automaton and request linkage) judged by TLC on every DFI phase of whole-core executions; D_BankMachine explored exhaustively by TLC with the same device clauses and kept honest by lock-step conformance with the real BankMachine", "5/C02"),
 "C03": ("R_DramDevice timing clauses with requirements computed in TLA+ (BigNat) from the module's datasheet entry, judged by TLC on whole-core DFI traces incl. phase positions; D_BankMachine exhaustive with zero-slack timers", "5/C03"),
 "C04": ("R_Refresh bound (k+N)*tREFI+L in exact arithmetic judged by TLC on whole-core traces under saturating traffic; D_Refresher explored exhaustively by TLC; composition MC_MuxRef (multiplexer with refresh path + refresher + abstract bank machines that D_BankMachine is model-checked to refine): every refresh request is served (liveness)", "5/C04, 12.4"),
 "C05": ("R_Response bounds judged by TLC on victim/aggressor whole-core executions; liveness of D_Crossbar, MC_Multiplexer and (thorough) the composition MC_MuxRef checked by TLC under fairness", "5/C05, 12.4"),
 "C06": ("TLC proves injective/onto/walk-order/A10 theorems of R_AddrMap!Decode over geometry families; R_BankLink binds Decode to the rank/bank/row/column observed on the DFI bus of the real core for address sets per geometry", "5/C06"),
}


def main():
    props = [json.loads(l) for l in open(os.path.join(VERIF, "properties.jsonl"))]
    na_path = os.path.join(VERIF, "harness", "not_applicable.json")
    na = json.load(open(na_path)) if os.path.exists(na_path) else {}
    extra_path = os.path.join(VERIF, "harness", "manifest_text.json")
    extra = json.load(open(extra_path)) if os.path.exists(extra_path) else {}
    checks, napp = [], []
    for p in props:
        pid = p["id"]
        modpath = os.path.join(VERIF, "harness", "props", pid.lower() + ".py")
        enabled = os.path.exists(modpath) and pid in json.load(open(os.path.join(VERIF, "harness", "enabled.json")))
        if not enabled:
            napp.append(dict(property_id=pid, reason=na.get(pid, "check not yet built in this round (see DESIGN.md section 5/%s for the plan)" % pid)))
            continue
        mod = importlib.import_module("harness.props." + pid.lower())
        text, ref = extra.get(pid) or TEXT.get(pid, (getattr(mod, "RULE", ""), "5/" + pid))
        checks.append(dict(
            property_id=pid,
            quick_cmd="./check %s --tier quick" % pid,
            thorough_cmd="./check %s --tier thorough" % pid,
            evidence_file="/verif/evidence/%s.json" % pid,
            replay_cmd_template="./check %s --replay {path}" % pid,
            engine="tlc",
            level_claimed=dict(category=mod.LEVEL, text=text, design_ref="DESIGN.md section " + ref),
            level_note="; ".join(getattr(mod, "ASSUMPTIONS", [])) or "TLC/SANY, Migen simulator semantics",
            technique="explicit TLA+ specification checked by TLC: trace validation of executions of the real code against the requirement spec"
                      + (", plus exhaustive TLC model checking of the design model" if hasattr(mod, "models") else ""),
        ))
    man = dict(
        version=1,
        setup_cmd="cd /verif && /venv/bin/python -m compileall -q harness && /venv/bin/python -m harness.setup_check",
        hooks=dict(guard="LITEDRAM_VERIF", enable="checks export LITEDRAM_VERIF=1 before importing litedram from /repo (no build step: the generator is elaborated from the working tree on every run)",
                   baseline_off_cmd="cd /repo && env -u LITEDRAM_VERIF /venv/bin/python -m pytest -ra -q -p no:cacheprovider --timeout=900 --continue-on-collection-errors",
                   source_commits=[], add_only=True),
        engines=[dict(name="tlc", path="/verif/harness/tlc.py", serves_properties=[c["property_id"] for c in checks],
                      kind_free_text="TLC 1.8 model checker: exhaustive exploration of TLA+ design models and validation of traces recorded from the real Migen netlists against TLA+ requirement specifications")],
        checks=checks,
        notes="Exit 0 = held on everything explored (known findings printed as KNOWN-FINDING lines), 1 = VIOLATION property=<id> replay=<path>, 2 = machinery failure. VERIF_SEED seeds all random choices. See DESIGN.md.",
        not_applicable=napp,
    )
    with open(os.path.join(VERIF, "MANIFEST.json"), "w") as f:
        json.dump(man, f, indent=1)
    print("MANIFEST: %d checks, %d not_applicable" % (len(checks), len(napp)))


if __name__ == "__main__":
    main()
