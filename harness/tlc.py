"""Thin runner around TLC: exhaustive model checking, simulation, and trace validation.

Trace validation protocol (see specs/TraceLib.tla): the T_* spec reads IOEnv.TRACE_FILE (NDJSON, first
line = cfg record), consumes one line per step with a *total* monitor, and in the final state writes
{"consumed": n, "bad": [...]} to IOEnv.OUT_FILE.  A trace is accepted iff consumed == number of lines and
bad == [].  A missing/short OUT_FILE is a machinery failure, never a verdict.
"""
import json, os, re, shutil, subprocess, tempfile, time
from .env import SPECS

JAR = "/opt/veriftools/tla/tla2tools.jar:/opt/veriftools/tla/CommunityModules-deps.jar"


class TLCError(RuntimeError):
    pass


def _java(args, env=None, timeout=None, cwd=SPECS, xmx="3g", stack="64m", gc=("-XX:+UseSerialGC",)):
    # many TLC processes run side by side (one per scenario): keep each JVM to few threads
    cmd = ["java"] + list(gc) + ["-XX:CICompilerCount=2", "-XX:TieredStopAtLevel=4", "-Xmx" + xmx, "-Xss" + stack, "-cp", JAR] + args
    e = dict(os.environ)
    if env:
        e.update(env)
    try:
        p = subprocess.run(cmd, cwd=cwd, env=e, stdout=subprocess.PIPE, stderr=subprocess.STDOUT, timeout=timeout, text=True)
        return p.returncode, p.stdout
    except subprocess.TimeoutExpired as ex:
        out = ex.stdout if isinstance(ex.stdout, str) else (ex.stdout or b"").decode(errors="replace")
        return -9, out + "\nTIMEOUT"


def sany(module):
    rc, out = _java(["tla2sany.SANY", module + ".tla"])
    if rc != 0 or "Semantic errors" in out or "Parse Error" in out or "*** Errors" in out:
        raise TLCError("SANY failed for %s:\n%s" % (module, out[-3000:]))
    return True


_STATS = re.compile(r"(\d+) states generated, (\d+) distinct states found, (\d+) states left on queue")
_DEPTH = re.compile(r"The depth of the complete state graph search is (\d+)")


def parse_stats(out):
    gen = dist = left = 0
    for m in _STATS.finditer(out):
        gen, dist, left = int(m.group(1)), int(m.group(2)), int(m.group(3))
    d = _DEPTH.search(out)
    return dict(generated=gen, distinct=dist, queue=left, depth=int(d.group(1)) if d else None)


def model_check(module, cfg, workdir, workers=16, timeout=3600, extra=(), env=None, xmx="24g", coverage=False):
    """Run TLC exhaustively on specs/<module>.tla with cfg (path relative to specs/ or cfg text).
    Returns dict(ok, violated, stats, out, wall). ok means TLC finished with no error found."""
    os.makedirs(workdir, exist_ok=True)
    meta = tempfile.mkdtemp(prefix="meta_", dir=workdir)
    if "\n" in cfg or not cfg.endswith(".cfg"):
        cfgpath = os.path.join(meta, module + "_gen.cfg")
        with open(cfgpath, "w") as f:
            f.write(cfg)
    else:
        cfgpath = os.path.join(SPECS, cfg)
    args = ["tlc2.TLC", "-workers", str(workers), "-metadir", meta, "-noGenerateSpecTE", "-config", cfgpath]
    if coverage:
        args += ["-coverage", "1"]
    args += list(extra) + [module + ".tla"]
    t0 = time.time()
    rc, out = _java(args, env=env, timeout=timeout, xmx=xmx, gc=("-XX:+UseParallelGC", "-XX:ParallelGCThreads=%d" % max(2, min(4, workers))))
    wall = time.time() - t0
    shutil.rmtree(meta, ignore_errors=True)
    stats = parse_stats(out)
    violated = None
    m = re.search(r"Invariant (\S+) is violated", out)
    if m:
        violated = m.group(1)
    m = re.search(r"(Temporal propert(y|ies) .*violated|Action property (\S+) is violated|Deadlock reached)", out)
    if m and violated is None:
        violated = m.group(0)
    finished = "Model checking completed. No error has been found." in out
    if not finished and violated is None:
        raise TLCError("TLC did not finish cleanly for %s (rc=%s):\n%s" % (module, rc, out[-4000:]))
    return dict(ok=finished, violated=violated, stats=stats, out=out, wall=wall)


def simulate(module, cfg, workdir, num, depth, seed, out_prefix=None, timeout=600, env=None, workers=1):
    """tlc -simulate: returns raw output; with out_prefix the behaviours are written as files out_prefix_*."""
    os.makedirs(workdir, exist_ok=True)
    meta = tempfile.mkdtemp(prefix="meta_", dir=workdir)
    if "\n" in cfg or not cfg.endswith(".cfg"):
        cfgpath = os.path.join(meta, module + "_gen.cfg")
        with open(cfgpath, "w") as f:
            f.write(cfg)
    else:
        cfgpath = os.path.join(SPECS, cfg)
    sim = "num=%d" % num
    if out_prefix:
        sim = "file=%s,%s" % (out_prefix, sim)
    args = ["tlc2.TLC", "-workers", str(workers), "-metadir", meta, "-noGenerateSpecTE", "-config", cfgpath,
            "-simulate", sim, "-depth", str(depth), "-seed", str(seed), module + ".tla"]
    rc, out = _java(args, env=env, timeout=timeout, xmx="4g")
    shutil.rmtree(meta, ignore_errors=True)
    return rc, out


def validate_trace(tmodule, trace_file, workdir, cfg=None, timeout=1800, xmx="3g", env=None):
    """Validate one NDJSON trace file against specs/<tmodule>.tla (cfg defaults to <tmodule>.cfg).
    Returns dict(accepted, bad, consumed, lines, wall). Raises TLCError on machinery failure."""
    os.makedirs(workdir, exist_ok=True)
    meta = tempfile.mkdtemp(prefix="meta_", dir=workdir)
    outf = os.path.join(meta, "verdict.json")
    with open(trace_file) as f:
        nlines = sum(1 for _ in f)
    e = {"TRACE_FILE": os.path.abspath(trace_file), "OUT_FILE": outf}
    if env:
        e.update(env)
    args = ["tlc2.TLC", "-workers", "1", "-metadir", meta, "-noGenerateSpecTE",
            "-config", os.path.join(SPECS, cfg or (tmodule + ".cfg")), tmodule + ".tla"]
    t0 = time.time()
    rc, out = _java(args, env=e, timeout=timeout, xmx=xmx)
    wall = time.time() - t0
    try:
        if not os.path.exists(outf):
            raise TLCError("no verdict written by %s for %s (rc=%s):\n%s" % (tmodule, trace_file, rc, out[-4000:]))
        with open(outf) as f:
            v = json.load(f)
    finally:
        shutil.rmtree(meta, ignore_errors=True)
    if "No error has been found" not in out:
        raise TLCError("TLC reported an error while validating %s with %s:\n%s" % (trace_file, tmodule, out[-4000:]))
    if v["consumed"] != nlines:
        raise TLCError("trace not fully consumed: %s of %s lines (%s)" % (v["consumed"], nlines, trace_file))
    bad = v.get("bad", [])
    return dict(accepted=(len(bad) == 0), bad=bad, consumed=v["consumed"], lines=nlines, wall=wall,
                info=v.get("info"), states=parse_stats(out)["distinct"])


def write_ndjson(path, header, events):
    with open(path, "w") as f:
        f.write(json.dumps(header, separators=(",", ":")) + "\n")
        for ev in events:
            f.write(json.dumps(ev, separators=(",", ":")) + "\n")
    return 1 + len(events)
