"""Ideal native memory: the executable twin of specs/R_PortMem.tla, standing where the crossbar+controller would be.

It serves one or more LiteDRAMNativePort(s) (all in the clock domain the generator is run in) with the *pulse*
semantics of the real crossbar:
  * a command is accepted when cmd.valid & cmd.ready (ready is stalled at random);
  * `wdata.ready` is a ONE-cycle pulse at a chosen delay after the write command was accepted, regardless of
    `wdata.valid` (data not offered in that cycle is lost -> event WDROP);
  * `rdata.valid` is a ONE-cycle pulse regardless of `rdata.ready` (data not accepted is lost -> event RDROP);
  * commands of all served ports take effect in accept order; completions happen in command order, never earlier
    than `lat[0]` cycles after the accept (lat[0] >= 3 is the minimum the real core can produce: crossbar -> bank FIFO
    -> buffer -> command, then write_latency+1 / read_latency+1 delay stages).
It never judges: it logs events (cycle-stamped, in the vocabulary of R_PortMem) and keeps the contents in a dict.
`lenient=True` makes both data channels wait for valid/ready (only to reproduce the repository's own test stubs).
`eager=True` models a native port that sits behind a FIFO-like stage (clock-domain crossing, width converter): `wdata.ready`
is high at random REGARDLESS of outstanding commands (also before the write command is accepted), accepted beats queue up and
are paired with the write commands in order; a write takes effect when both its command and its beat have arrived.  Reads
keep the pulse semantics.  (The WDATA event of such a beat may precede its CMD event: use a monitor that allows early data,
e.g. R_Conv.)
"""
import collections, random, zlib


def tobytes(v, n):
    return [(v >> (8 * i)) & 0xff for i in range(n)]


class IdealMem:
    def __init__(self, ports, seed=0, lat=(3, 12), stall=0.3, lenient=False, init=None, max_outstanding=64, tag="m", eager=False, wready=0.7):
        self.ports = list(ports)
        self.rnd = random.Random(seed * 2654435761 % (1 << 32) + 17)
        self.lat = lat
        self.stall = stall
        self.lenient = lenient
        self.eager = eager
        self.wready = wready
        self.mem = {}
        self.initf = init
        self.events = []            # (cycle, class, port, dict)   class: 1 CMD, 2 WDATA/WDROP, 3 RDATA/RDROP
        self.cycle = 0
        self.tag = tag
        self.max_outstanding = max_outstanding
        self.dw = self.ports[0].data_width
        self.nb = self.dw // 8
        self.written = set()
        self.corrupt = {}           # addr -> value injected by tests (fault injection between phases)
        self.outstanding = 0

    def initword(self, a):
        if self.initf is not None:
            return self.initf(a) & ((1 << self.dw) - 1)
        return random.Random(zlib.crc32(("im%d" % a).encode())).getrandbits(self.dw)

    def read(self, a):
        return self.mem.get(a, self.initword(a))

    def write(self, a, d, we):
        old = self.read(a)
        for j in range(self.nb):
            if (we >> j) & 1:
                old = (old & ~(0xff << (8 * j))) | (d & (0xff << (8 * j)))
        self.mem[a] = old
        if we:
            self.written.add(a)

    def changed(self):
        return sum(1 for a, v in self.mem.items() if v != self.initword(a))

    def process(self):
        """Generator (wrap with migen.passive). One instance serves all ports."""
        from migen import passive  # noqa: F401
        q = collections.deque()     # [port index, we, addr, earliest completion cycle]
        ready = [0] * len(self.ports)
        pulse_w = [None] * len(self.ports)   # command being strobed this cycle
        pulse_r = [None] * len(self.ports)
        wfifo = [collections.deque() for _ in self.ports]      # eager mode: beats accepted ahead of / after their command
        wrdy = [0] * len(self.ports)
        while True:
            c = self.cycle
            # ---- observe cycle c ----
            for pi, port in enumerate(self.ports):
                if (yield port.cmd.valid) and ready[pi]:
                    we, a = (yield port.cmd.we), (yield port.cmd.addr)
                    self.events.append((c, 1, pi, dict(c="CMD", p=pi, we=bool(we), a=a, t=c)))
                    q.append([pi, bool(we), a, c + self.rnd.randint(*self.lat)])
                    self.outstanding += 1
                if self.eager and wrdy[pi] and (yield port.wdata.valid):
                    d, m = (yield port.wdata.data), (yield port.wdata.we)
                    wfifo[pi].append((d, m))
                    self.events.append((c, 2, pi, dict(c="WDATA", p=pi, d=tobytes(d, self.nb),
                                                       m=[(m >> j) & 1 for j in range(self.nb)], t=c)))
                if pulse_w[pi] is not None and not self.eager:
                    cmd = pulse_w[pi]
                    if (yield port.wdata.valid):
                        d, m = (yield port.wdata.data), (yield port.wdata.we)
                        self.write(cmd[2], d, m)
                        self.events.append((c, 2, pi, dict(c="WDATA", p=pi, d=tobytes(d, self.nb),
                                                           m=[(m >> j) & 1 for j in range(self.nb)], t=c)))
                        pulse_w[pi] = None
                        self.outstanding -= 1
                    elif not self.lenient:
                        self.events.append((c, 2, pi, dict(c="WDROP", p=pi, t=c)))
                        pulse_w[pi] = None
                        self.outstanding -= 1
                if pulse_r[pi] is not None:
                    cmd, data = pulse_r[pi]
                    if (yield port.rdata.ready) or not self.lenient:
                        if (yield port.rdata.ready):
                            self.events.append((c, 3, pi, dict(c="RDATA", p=pi, d=tobytes(data, self.nb), t=c)))
                        else:
                            self.events.append((c, 3, pi, dict(c="RDROP", p=pi, t=c)))
                        pulse_r[pi] = None
                        self.outstanding -= 1
            # ---- drive cycle c+1 ----
            # completions strictly in command order; at most one write pulse and one read pulse per port per cycle
            started_w, started_r = set(), set()
            while q and q[0][3] <= c + 1:
                pi, we, a, _ = q[0]
                if we and self.eager:
                    if not wfifo[pi]:
                        break                      # the beat of this write has not arrived yet
                    d, m = wfifo[pi].popleft()
                    self.write(a, d, m)
                    q.popleft()
                    self.outstanding -= 1
                    continue
                if we:
                    if pulse_w[pi] is not None or pi in started_w:
                        break
                    # a write may only complete after every earlier read has sampled its data (they did: reads sample at issue)
                    pulse_w[pi] = q.popleft()
                    started_w.add(pi)
                else:
                    if pulse_r[pi] is not None or pi in started_r:
                        break
                    # an earlier write whose data is being taken in cycle c+1 is not yet in memory: wait
                    if any(p is not None for p in pulse_w):
                        break
                    cmd = q.popleft()
                    pulse_r[pi] = (cmd, self.corrupt.get(a, self.read(a)))
                    started_r.add(pi)
            for pi, port in enumerate(self.ports):
                ready[pi] = int(self.rnd.random() >= self.stall and self.outstanding < self.max_outstanding)
                yield port.cmd.ready.eq(ready[pi])
                if self.eager:
                    wrdy[pi] = int(self.rnd.random() < self.wready and len(wfifo[pi]) < 8)
                    yield port.wdata.ready.eq(wrdy[pi])
                else:
                    yield port.wdata.ready.eq(1 if pulse_w[pi] is not None else 0)
                if pulse_r[pi] is not None:
                    yield port.rdata.valid.eq(1)
                    yield port.rdata.data.eq(pulse_r[pi][1])
                else:
                    yield port.rdata.valid.eq(0)
                    yield port.rdata.data.eq(self.rnd.getrandbits(self.dw))     # garbage when not valid
            self.cycle += 1
            yield

    def sorted_events(self):
        return [e[3] for e in sorted(self.events, key=lambda e: (e[0], e[1], e[2]))]
