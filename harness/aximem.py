"""Ideal AXI slave memory for single-beat masters (the DMA engines behind the BIST on an AXI port): proper valid/ready
handshakes on all five channels with random stalls and latencies; word-addressed dict contents shared with the caller
(fault injection between phases).  It never judges; it logs CMD / WDATA / RDATA events (byte addresses, bytes LSB first)
in the vocabulary of specs/R_Bist.tla.  Bursts (len > 0) are not served: a command with len != 0 is logged as LOST."""
import collections, random, zlib


def tobytes(v, n):
    return [(v >> (8 * i)) & 0xff for i in range(n)]


class AxiMem:
    def __init__(self, ports, seed=0, lat=(1, 8), stall=0.3):
        self.ports = list(ports)
        self.rnd = random.Random(seed * 40503 % (1 << 32) + 29)
        self.lat, self.stall = lat, stall
        self.dw = self.ports[0].data_width
        self.nb = self.dw // 8
        self.mem = {}
        self.events = []          # (cycle, class, port, dict)
        self.cycle = 0

    def initword(self, a):
        return random.Random(zlib.crc32(("ax%d" % a).encode())).getrandbits(self.dw)

    def read(self, a):
        return self.mem.get(a, self.initword(a))

    def process(self):
        P = len(self.ports)
        awq = [collections.deque() for _ in range(P)]
        wq = [collections.deque() for _ in range(P)]
        bq = [collections.deque() for _ in range(P)]       # ids of responses to give
        arq = [collections.deque() for _ in range(P)]      # [addr, id, due cycle]
        rcur = [None] * P
        rdy = [dict(aw=0, w=0, ar=0) for _ in range(P)]
        bval = [0] * P
        while True:
            c = self.cycle
            for pi, ax in enumerate(self.ports):
                if (yield ax.aw.valid) and rdy[pi]["aw"]:
                    a, ln = (yield ax.aw.addr), (yield ax.aw.len)
                    self.events.append((c, 1, pi, dict(c="CMD", p=pi, we=True, ab=a, t=c)))
                    if ln:
                        self.events.append((c, 1, pi, dict(c="LOST", what="burst write command (len=%d) on the ideal AXI memory" % ln, t=c)))
                    awq[pi].append((a, (yield ax.aw.id)))
                if (yield ax.w.valid) and rdy[pi]["w"]:
                    d, m = (yield ax.w.data), (yield ax.w.strb)
                    self.events.append((c, 2, pi, dict(c="WDATA", p=pi, d=tobytes(d, self.nb), t=c)))
                    wq[pi].append((d, m))
                while awq[pi] and wq[pi]:
                    (a, i), (d, m) = awq[pi].popleft(), wq[pi].popleft()
                    wa = a // self.nb
                    old = self.read(wa)
                    for j in range(self.nb):
                        if (m >> j) & 1:
                            old = (old & ~(0xff << (8 * j))) | (d & (0xff << (8 * j)))
                    self.mem[wa] = old
                    bq[pi].append(i)
                if bval[pi] and (yield ax.b.ready):
                    bq[pi].popleft()
                    bval[pi] = 0
                if (yield ax.ar.valid) and rdy[pi]["ar"]:
                    a, ln = (yield ax.ar.addr), (yield ax.ar.len)
                    self.events.append((c, 1, pi, dict(c="CMD", p=pi, we=False, ab=a, t=c)))
                    if ln:
                        self.events.append((c, 1, pi, dict(c="LOST", what="burst read command (len=%d) on the ideal AXI memory" % ln, t=c)))
                    arq[pi].append([a, (yield ax.ar.id), c + self.rnd.randint(*self.lat)])
                if rcur[pi] is not None and (yield ax.r.ready):
                    self.events.append((c, 3, pi, dict(c="RDATA", p=pi, d=tobytes(rcur[pi][0], self.nb), t=c)))
                    rcur[pi] = None
            for pi, ax in enumerate(self.ports):
                for ch, room in (("aw", len(awq[pi]) < 8), ("w", len(wq[pi]) < 8), ("ar", len(arq[pi]) < 32)):
                    rdy[pi][ch] = int(self.rnd.random() >= self.stall and room)
                yield ax.aw.ready.eq(rdy[pi]["aw"])
                yield ax.w.ready.eq(rdy[pi]["w"])
                yield ax.ar.ready.eq(rdy[pi]["ar"])
                if not bval[pi] and bq[pi]:
                    bval[pi] = 1
                    yield ax.b.id.eq(bq[pi][0])
                yield ax.b.valid.eq(bval[pi])
                yield ax.b.resp.eq(0)
                if rcur[pi] is None and arq[pi] and arq[pi][0][2] <= c + 1:
                    a, i, _ = arq[pi].popleft()
                    rcur[pi] = (self.read(a // self.nb), i)
                if rcur[pi] is not None:
                    yield ax.r.valid.eq(1)
                    yield ax.r.data.eq(rcur[pi][0])
                    yield ax.r.id.eq(rcur[pi][1])
                    yield ax.r.last.eq(1)
                    yield ax.r.resp.eq(0)
                else:
                    yield ax.r.valid.eq(0)
                    yield ax.r.data.eq(self.rnd.getrandbits(self.dw))
            self.cycle += 1
            yield

    def sorted_events(self):
        return [e[3] for e in sorted(self.events, key=lambda e: (e[0], e[1], e[2]))]
