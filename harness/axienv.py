"""AXI environment for C09: builds the REAL LiteDRAMAXI2Native bridge in front of the ideal native memory
(harness/idealmem.py, pulse semantics), drives it with an AXI4 master that follows the AXI rules exactly
(VALID and payload held until READY; WVALID never waits for AWREADY; five independent channel processes) and records
every handshake on the five AXI channels plus the native-side events of the memory.  It never judges: the trace goes
to TLC (specs/T_AxiMem.tla, requirement specs/R_AxiMem.tla).

Program = dict(writes=[...], reads=[...]); an item may carry dep=[["B", k], ["R", j]]: it is offered only after the k-th
write burst's response / the j-th read burst's last beat has been received by the master (strictly later cycle).
"""
import random
from . import env
from .idealmem import IdealMem, tobytes

FIXED, INCR, WRAP = 0, 1, 2
BNAME = {0: "FIXED", 1: "INCR", 2: "WRAP"}


class DriverError(RuntimeError):
    """The harness itself broke an AXI rule (machinery failure, never a verdict)."""


def build(cfg):
    env.setup()
    from litedram.common import LiteDRAMNativePort
    from litedram.frontend.axi import LiteDRAMAXIPort, LiteDRAMAXI2Native
    axi = LiteDRAMAXIPort(data_width=cfg["dw"], address_width=32, id_width=cfg["idw"])
    port = LiteDRAMNativePort("both", address_width=32, data_width=cfg["dw"])
    dut = LiteDRAMAXI2Native(axi, port, w_buffer_depth=cfg["wdepth"], r_buffer_depth=cfg["rdepth"],
                             base_address=cfg["base"], with_read_modify_write=bool(cfg["rmw"]))
    return dut, axi, port


# ------------------------------------------------------------------------------------------------ traffic generation
def log2(n):
    r = 0
    while (1 << r) < n:
        r += 1
    return r


def beat_addrs(addr, ln, size, burst):
    """AXI4 beat addresses (A3.4.1) -- used only to keep generated bursts inside the window / for lane selection."""
    sz = 1 << size
    al = addr // sz * sz
    out = []
    for i in range(ln + 1):
        if burst == FIXED or i == 0:
            a = addr
        elif burst == INCR:
            a = al + i * sz
        else:
            tot = sz * (ln + 1)
            wb = addr // tot * tot
            a = wb + (addr - wb + i * sz) % tot
        out.append(a)
    return out


def lanes(a, size, nb):
    """active byte lanes of a beat at byte address a."""
    sz = 1 << size
    lo = a % nb
    hi = (a // sz * sz + sz - 1) % nb
    return range(lo, hi + 1)


def gen_burst(rnd, p, nb):
    """one random legal AXI4 burst header inside the window [base, base + nwords*nb)."""
    base, nwords = p["base"], p["nwords"]
    full = log2(nb)
    size = full
    if p.get("narrow") and rnd.random() < p["narrow"]:
        size = rnd.randrange(0, full + 1)
    sz = 1 << size
    kinds = p.get("kinds", [INCR, INCR, WRAP, FIXED])
    burst = rnd.choice(kinds)
    maxlen = p.get("maxlen", 7)
    win = nwords * nb
    for _ in range(200):
        if burst == WRAP:
            ln = rnd.choice([x for x in (1, 3, 7, 15) if x <= max(1, maxlen) and sz * (x + 1) <= win])
            tot = sz * (ln + 1)
            blk = rnd.randrange(win // tot) * tot
            addr = base + blk + rnd.randrange(ln + 1) * sz
        elif burst == FIXED:
            ln = rnd.randint(0, min(15, maxlen))
            addr = base + rnd.randrange(win // sz) * sz
            if p.get("unaligned") and rnd.random() < p["unaligned"]:
                addr = base + rnd.randrange(win)
        else:
            ln = rnd.randint(0, maxlen)
            if p.get("long") and rnd.random() < p["long"]:
                ln = rnd.randint(maxlen, p.get("longmax", 40))
            addr = base + rnd.randrange(win // sz) * sz
            if p.get("unaligned") and rnd.random() < p["unaligned"]:
                addr = base + rnd.randrange(win)
            last = addr // sz * sz + (ln + 1) * sz - 1
            if last >= base + win or last // 4096 != addr // 4096:
                continue
        return dict(addr=addr, len=ln, size=size, burst=burst)
    raise DriverError("could not place a burst")


def gap(rnd, prof):
    if prof == "b2b":
        return 0
    if prof == "fast":
        return 0 if rnd.random() < 0.7 else rnd.randint(1, 3)
    if prof == "slow":
        return rnd.randint(0, 12)
    return 0 if rnd.random() < 0.4 else rnd.randint(1, 6)          # "rand"


def gen_program(p, seed):
    """random legal traffic; p: nops, base, nwords, dw, idw, maxlen, kinds, pwrite, strb ('full'|'mixed'|'partial'),
    awgap/wgap/argap profiles, pdep (probability that an op waits for the completion of an earlier op of the other
    direction), narrow, unaligned."""
    rnd = random.Random(seed * 7919 + 13)
    nb = p["dw"] // 8
    writes, reads = [], []
    recent = []     # (kind, index) of recent ops for dependencies
    for n in range(p["nops"]):
        h = gen_burst(rnd, p, nb)
        h["id"] = rnd.randrange(1 << p["idw"]) if not p.get("oneid") else 1
        isw = rnd.random() < p.get("pwrite", 0.5)
        dep = []
        if recent and rnd.random() < p.get("pdep", 0.3):
            cands = [r for r in recent[-6:] if r[0] == ("R" if isw else "B")]
            if cands:
                k = rnd.choice(cands)
                dep.append([k[0], k[1]])
        h["dep"] = dep
        if isw:
            addrs = beat_addrs(h["addr"], h["len"], h["size"], h["burst"])
            data, strb = [], []
            mode = p.get("strb", "mixed")
            if mode == "phased":          # segments of full-strobe and of strictly partial writes, separated by a wait for B
                seg = len(writes) // p.get("seglen", 8)
                mode = "full" if seg % 2 == 0 else "ppartial"
                if writes and len(writes) % p.get("seglen", 8) == 0:
                    dep.append(["B", len(writes) - 1])
            for a in addrs:
                act = list(lanes(a, h["size"], nb))
                r = rnd.random()
                if mode == "full" or (mode == "mixed" and r < 0.6):
                    s = sum(1 << j for j in act)
                elif r > 0.97:
                    s = 0
                else:
                    s = sum(1 << j for j in act if rnd.random() < 0.5)
                if mode == "ppartial" and s == (1 << nb) - 1:
                    s &= ~(1 << rnd.randrange(nb))
                data.append(rnd.getrandbits(p["dw"]))
                strb.append(s)
            h.update(data=data, strb=strb, gap=gap(rnd, p.get("awgap", "rand")),
                     wgap=[gap(rnd, p.get("wgap", "rand")) for _ in addrs])
            recent.append(("B", len(writes)))
            writes.append(h)
        else:
            h["gap"] = gap(rnd, p.get("argap", "rand"))
            recent.append(("R", len(reads)))
            reads.append(h)
    return dict(writes=writes, reads=reads)


def sweep_reads(base, nwords, nb, idw, dep=None, chunk=8):
    """read bursts covering the whole window (final check of 'exactly the addressed beats')."""
    out = []
    a = 0
    while a < nwords:
        n = min(chunk, nwords - a)
        out.append(dict(id=(a // chunk) % (1 << idw), addr=base + a * nb, len=n - 1, size=log2(nb), burst=INCR, gap=0,
                        dep=list(dep or [])))
        a += n
    return out


# ------------------------------------------------------------------------------------------------ the master + recorder
class ReadyGen:
    """READY pattern of a master-side input channel (B, R). spec: ["always"] | ["rand", p] | ["wait", p] |
    ["block", period, duration] | ["never_until", cycle]"""

    def __init__(self, spec, rnd):
        self.spec = list(spec)
        self.rnd = rnd
        self.hold = 0

    def next(self, cycle, valid_seen):
        k = self.spec[0]
        if k == "always":
            return 1
        if k == "rand":
            return int(self.rnd.random() >= self.spec[1])
        if k == "wait":        # READY only after VALID has been seen, then with probability 1-p per cycle
            return int(valid_seen and self.rnd.random() >= self.spec[1])
        if k == "block":
            return int((cycle % self.spec[1]) >= self.spec[2])
        if k == "never_until":
            return int(cycle >= self.spec[1])
        raise DriverError("unknown ready spec %r" % (self.spec,))


class AxiRun:
    def __init__(self, cfg, prog, seed, bready=("rand", 0.3), rready=("rand", 0.3), wlead=0, max_cycles=20000, drain=60,
                 mem=None, wmax_out=None):
        self.cfg = cfg
        self.prog = prog
        self.nb = cfg["dw"] // 8
        self.rnd = random.Random(seed * 1000003 + 5)
        self.dut, self.axi, self.port = build(cfg)
        m = dict(mem or {})
        self.mem = IdealMem([self.port], seed=seed, lat=tuple(m.get("lat", (3, 12))), stall=m.get("stall", 0.3),
                            max_outstanding=m.get("max_outstanding", 64))
        self.bgen = ReadyGen(bready, random.Random(seed + 101))
        self.rgen = ReadyGen(rready, random.Random(seed + 202))
        self.wlead = wlead
        self.wmax_out = wmax_out      # issuing capability of the master: write bursts without a response (None = unlimited)
        self.max_cycles = max_cycles
        self.drain = drain
        self.cycle = 0
        self.events = []           # (cycle, class, dict)
        self.aw_asserted = 0       # number of write bursts whose AWVALID has been asserted
        self.nb_done = 0           # B handshakes seen by the master
        self.nr_done = 0           # read bursts whose last beat has been received (counted by RLAST handshakes)
        self.w_done = 0
        self.ar_done = 0
        self.aw_done = 0
        self.timed_out = False
        self.driver_errors = []

    # -- dependency test: strictly earlier cycle (the counters are updated by the recorder at the end of a cycle) --
    def deps_ok(self, item):
        for kind, k in item.get("dep", ()):
            if kind == "B" and self.nb_done <= k:
                return False
            if kind == "R" and self.nr_done <= k:
                return False
        return True

    def aw_proc(self):
        axi = self.axi
        for k, w in enumerate(self.prog["writes"]):
            g = w.get("gap", 0)
            while g > 0 or not self.deps_ok(w) or (self.wmax_out is not None and k - self.nb_done >= self.wmax_out):
                g -= 1
                yield
            yield axi.aw.valid.eq(1)
            yield axi.aw.addr.eq(w["addr"])
            yield axi.aw.burst.eq(w["burst"])
            yield axi.aw.len.eq(w["len"])
            yield axi.aw.size.eq(w["size"])
            yield axi.aw.id.eq(w["id"])
            self.aw_asserted = k + 1
            yield
            while not (yield axi.aw.ready):
                yield
            yield axi.aw.valid.eq(0)
            self.aw_done = k + 1
        while True:
            yield

    def w_proc(self):
        axi = self.axi
        for k, w in enumerate(self.prog["writes"]):
            for i, (d, s) in enumerate(zip(w["data"], w["strb"])):
                g = w["wgap"][i]
                # WVALID never waits for AWREADY; it may only be ordered after the *assertion* of AWVALID (wlead = 0)
                # or run ahead of it by up to wlead bursts
                while g > 0 or k >= self.aw_asserted + self.wlead or (self.wlead == 0 and i == 0 and not self.deps_ok(w)):
                    g -= 1
                    yield
                yield axi.w.valid.eq(1)
                yield axi.w.data.eq(d)
                yield axi.w.strb.eq(s)
                yield axi.w.last.eq(int(i == w["len"]))
                yield
                while not (yield axi.w.ready):
                    yield
                yield axi.w.valid.eq(0)
            self.w_done = k + 1
        while True:
            yield

    def ar_proc(self):
        axi = self.axi
        for k, r in enumerate(self.prog["reads"]):
            g = r.get("gap", 0)
            while g > 0 or not self.deps_ok(r):
                g -= 1
                yield
            yield axi.ar.valid.eq(1)
            yield axi.ar.addr.eq(r["addr"])
            yield axi.ar.burst.eq(r["burst"])
            yield axi.ar.len.eq(r["len"])
            yield axi.ar.size.eq(r["size"])
            yield axi.ar.id.eq(r["id"])
            yield
            while not (yield axi.ar.ready):
                yield
            yield axi.ar.valid.eq(0)
            self.ar_done = k + 1
        while True:
            yield

    def ready_proc(self, ch, gen):
        seen = False
        while True:
            v = (yield ch.valid)
            r = (yield ch.ready)
            if v and r:
                seen = False
            elif v:
                seen = True
            yield ch.ready.eq(gen.next(self.cycle, seen))
            yield

    def recorder(self):
        """passive observer of the five channels; also maintains the master's completion counters."""
        axi, nb = self.axi, self.nb
        since = dict(aw=None, w=None, ar=None, b=None, r=None)
        held = dict(aw=None, w=None, ar=None, b=None, r=None)
        c = 0
        while True:
            for name, cls in (("aw", 4), ("w", 5), ("ar", 6), ("b", 7), ("r", 8)):
                ch = getattr(axi, name)
                v = (yield ch.valid)
                if not v:
                    if since[name] is not None:
                        if name in ("b", "r"):
                            self.events.append((c, cls, dict(c=name.upper() + "GONE", t=c)))
                        else:
                            self.driver_errors.append("%sVALID withdrawn before %sREADY at cycle %d" % (name.upper(), name.upper(), c))
                        since[name] = None
                        held[name] = None
                    continue
                if name in ("aw", "ar"):
                    pl = dict(id=(yield ch.id), addr=(yield ch.addr), len=(yield ch.len), size=(yield ch.size), burst=(yield ch.burst))
                elif name == "w":
                    s = (yield ch.strb)
                    pl = dict(d=tobytes((yield ch.data), nb), s=[(s >> j) & 1 for j in range(nb)], last=(yield ch.last))
                elif name == "b":
                    pl = dict(id=(yield ch.id), resp=(yield ch.resp))
                else:
                    pl = dict(id=(yield ch.id), d=tobytes((yield ch.data), nb), last=(yield ch.last), resp=(yield ch.resp))
                if since[name] is None:
                    since[name] = c
                    held[name] = pl
                elif pl != held[name]:
                    if name in ("b", "r"):
                        # slave changed the payload of a waiting transfer: log the stalled offer, the spec judges
                        self.events.append((c, cls, dict(pl, c=name.upper() + "CHG", t=c)))
                        held[name] = pl
                    else:
                        self.driver_errors.append("%s payload changed while waiting at cycle %d" % (name.upper(), c))
                if (yield ch.ready):
                    self.events.append((c, cls, dict(pl, c=name.upper(), t=c, t0=since[name])))
                    since[name] = None
                    held[name] = None
                    if name == "b":
                        self.nb_done += 1
                    elif name == "r" and pl["last"]:
                        self.nr_done += 1
            c += 1
            self.cycle = c
            yield

    def supervisor(self):
        nw, nr = len(self.prog["writes"]), len(self.prog["reads"])
        quiet = 0
        while self.cycle < self.max_cycles:
            done = (self.aw_done == nw and self.w_done == nw and self.ar_done == nr and self.nb_done >= nw and self.nr_done >= nr
                    and self.mem.outstanding == 0)
            quiet = quiet + 1 if done else 0
            if quiet > self.drain:
                return
            yield
        self.timed_out = True

    def run(self):
        from migen import passive
        gens = [self.supervisor(), passive(self.aw_proc)(), passive(self.w_proc)(), passive(self.ar_proc)(),
                passive(self.ready_proc)(self.axi.b, self.bgen), passive(self.ready_proc)(self.axi.r, self.rgen),
                passive(self.recorder)(), passive(self.mem.process)()]
        env.run_simulation(self.dut, gens)
        if self.driver_errors:
            raise DriverError("; ".join(self.driver_errors[:5]))
        return self.trace()

    def trace(self):
        cfg, nb = self.cfg, self.nb
        evs = list(self.events)
        for (c, cls, pi, e) in self.mem.events:
            e = dict(e)
            e.pop("p", None)
            if "we" in e and e["c"] == "CMD":
                e["we"] = bool(e["we"])
            evs.append((c, cls, e))
        evs.sort(key=lambda x: (x[0], x[1]))
        out = []
        words = set(range(cfg["nwords"])) | set(self.mem.mem.keys())
        for a in sorted(words):
            out.append(dict(c="INIT", a=a, d=tobytes(self.mem.initword(a), nb)))
        out += [e for _, _, e in evs]
        tend = self.cycle
        out.append(dict(c="END", t=tend, timeout=bool(self.timed_out)))
        for a in sorted(words):
            out.append(dict(c="DUMP", a=a, d=tobytes(self.mem.read(a), nb), t=tend))
        header = dict(nb=nb, base=cfg["base"], rmw=bool(cfg["rmw"]), nwords=cfg["nwords"], wdepth=cfg["wdepth"], rdepth=cfg["rdepth"],
                      idw=cfg["idw"])
        return header, out
