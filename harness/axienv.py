"""AXI environment for C09: builds the REAL LiteDRAMAXI2Native bridge in front of the ideal native memory
(harness/idealmem.py, pulse semantics), drives it with an AXI4 master that follows the AXI rules exactly
(VALID and payload held until READY; WVALID never waits for AWREADY; five independent channel processes) and records
every handshake on the five AXI channels plus the native-side events of the memory.  It never judges: the trace goes
to TLC (specs/T_AxiMem.tla, requirement specs/R_AxiMem.tla).

Program = dict(writes=[...], reads=[...]); an item may carry dep=[["B", k], ["R", j]]: it is offered only after the k-th
write burst's response / the j-th read burst's last beat has been received by the master (strictly later cycle).
"""
import random
from . import env
from .idealmem import IdealMem, tobytes

FIXED, INCR, WRAP = 0, 1, 2
BNAME = {0: "FIXED", 1: "INCR", 2: "WRAP"}


class DriverError(RuntimeError):
    """The harness itself broke an AXI rule (machinery failure, never a verdict)."""


def build(cfg):
    env.setup()
    from litedram.common import LiteDRAMNativePort
    from litedram.frontend.axi import LiteDRAMAXIPort, LiteDRAMAXI2Native
    axi = LiteDRAMAXIPort(data_width=cfg["dw"], address_width=32, id_width=cfg["idw"])
    port = LiteDRAMNativePort("both", address_width=32, data_width=cfg["dw"])
    dut = LiteDRAMAXI2Native(axi, port, w_buffer_depth=cfg["wdepth"], r_buffer_depth=cfg["rdepth"],
                             base_address=cfg["base"], with_read_modify_write=bool(cfg["rmw"]))
    return dut, axi, port


# ------------------------------------------------------------------------------------------------ traffic generation
def log2(n):
    r = 0
    while (1 << r) < n:
        r += 1
    return r


def beat_addrs(addr, ln, size, burst):
    """AXI4 beat addresses (A3.4.1) -- used only to keep generated bursts inside the window / for lane selection."""
    sz = 1 << size
    al = addr // sz * sz
    out = []
    for i in range(ln + 1):
        if burst == FIXED or i == 0:
            a = addr
        elif burst == INCR:
            a = al + i * sz
        else:
            tot = sz * (ln + 1)
            wb = addr // tot * tot
            a = wb + (addr - wb + i * sz) % tot
        out.append(a)
    return out


def lanes(a, size, nb):
    """active byte lanes of a beat at byte address a."""
    sz = 1 << size
    lo = a % nb
    hi = (a // sz * sz + sz - 1) % nb
    return range(lo, hi + 1)


def gen_burst(rnd, p, nb):
    """one random legal AXI4 burst header inside the window [base, base + nwords*nb)."""
    base, nwords = p["base"], p["nwords"]
    full = log2(nb)
    size = full
    if p.get("narrow") and rnd.random() < p["narrow"]:
        size = rnd.randrange(0, full + 1)
    sz = 1 << size
    kinds = p.get("kinds", [INCR, INCR, WRAP, FIXED])
    burst = rnd.choice(kinds)
    maxlen = p.get("maxlen", 7)
    win = nwords * nb
    for _ in range(200):
        if burst == WRAP:
            ln = rnd.choice([x for x in (1, 3, 7, 15) if x <= max(1, maxlen) and sz * (x + 1) <= win])
            tot = sz * (ln + 1)
            blk = rnd.randrange(win // tot) * tot
            addr = base + blk + rnd.randrange(ln + 1) * sz
        elif burst == FIXED:
            ln = rnd.randint(0, min(15, maxlen))
            addr = base + rnd.randrange(win // sz) * sz
            if p.get("unaligned") and rnd.random() < p["unaligned"]:
                addr = base + rnd.randrange(win)
        else:
            ln = rnd.randint(0, maxlen)
            if p.get("long") and rnd.random() < p["long"]:
                ln = rnd.randint(maxlen, p.get("longmax", 40))
            addr = base + rnd.randrange(win // sz) * sz
            if p.get("unaligned") and rnd.random() < p["unaligned"]:
                addr = base + rnd.randrange(win)
            last = addr // sz * sz + (ln + 1) * sz - 1
            if last >= base + win or last // 4096 != addr // 4096:
                continue
        return dict(addr=addr, len=ln, size=size, burst=burst)
    raise DriverError("could not place a burst")


def gap(rnd, prof):
    if prof == "b2b":
        return 0
    if prof == "fast":
        return 0 if rnd.random() < 0.7 else rnd.randint(1, 3)
    if prof == "slow":
        return rnd.randint(0, 12)
    return 0 if rnd.random() < 0.4 else rnd.randint(1, 6)          # "rand"


def gen_program(p, seed):
    """random legal traffic; p: nops, base, nwords, dw, idw, maxlen, kinds, pwrite, strb ('full'|'mixed'|'partial'),
    awgap/wgap/argap profiles, pdep (probability that an op waits for the completion of an earlier op of the other
    direction), narrow, unaligned."""
    rnd = random.Random(seed * 7919 + 13)
    nb = p["dw"] // 8
    writes, reads = [], []
    recent = []     # (kind, index) of recent ops for dependencies
    for n in range(p["nops"]):
        h = gen_burst(rnd, p, nb)
        h["id"] = rnd.randrange(1 << p["idw"]) if not p.get("oneid") else 1
        isw = rnd.random() < p.get("pwrite", 0.5)
        while isw and h["len"] < p.get("wminlen", 0):      # (extra draws only when a minimum write-burst length is asked for)
            i_ = h["id"]
            h = gen_burst(rnd, p, nb)
            h["id"] = i_
        dep = []
        if recent and rnd.random() < p.get("pdep", 0.3):
            cands = [r for r in recent[-6:] if r[0] == ("R" if isw else "B")]
            if cands:
                k = rnd.choice(cands)
                dep.append([k[0], k[1]])
        h["dep"] = dep
        if isw:
            addrs = beat_addrs(h["addr"], h["len"], h["size"], h["burst"])
            data, strb = [], []
            mode = p.get("strb", "mixed")
            if mode == "phased":          # segments of full-strobe and of strictly partial writes, separated by a wait for B
                seg = len(writes) // p.get("seglen", 8)
                mode = "full" if seg % 2 == 0 else "ppartial"
                if writes and len(writes) % p.get("seglen", 8) == 0:
                    dep.append(["B", len(writes) - 1])
            for a in addrs:
                act = list(lanes(a, h["size"], nb))
                r = rnd.random()
                if mode == "full" or (mode == "mixed" and r < 0.6):
                    s = sum(1 << j for j in act)
                elif r > 0.97:
                    s = 0
                else:
                    s = sum(1 << j for j in act if rnd.random() < 0.5)
                if mode == "ppartial" and s == (1 << nb) - 1:
                    s &= ~(1 << rnd.randrange(nb))
                data.append(rnd.getrandbits(p["dw"]))
                strb.append(s)
            h.update(data=data, strb=strb, gap=gap(rnd, p.get("awgap", "rand")),
                     wgap=[gap(rnd, p.get("wgap", "rand")) for _ in addrs])
            recent.append(("B", len(writes)))
            writes.append(h)
        else:
            h["gap"] = gap(rnd, p.get("argap", "rand"))
            recent.append(("R", len(reads)))
            reads.append(h)
    return dict(writes=writes, reads=reads)


def sweep_reads(base, nwords, nb, idw, dep=None, chunk=8):
    """read bursts covering the whole window (final check of 'exactly the addressed beats')."""
    out = []
    a = 0
    while a < nwords:
        n = min(chunk, nwords - a)
        out.append(dict(id=(a // chunk) % (1 << idw), addr=base + a * nb, len=n - 1, size=log2(nb), burst=INCR, gap=0,
                        dep=list(dep or [])))
        a += n
    return out


# ------------------------------------------------------------------------------------------------ the master + recorder
class ReadyGen:
    """READY pattern of a master-side input channel (B, R). spec: ["always"] | ["rand", p] | ["wait", p] |
    ["block", period, duration] | ["never_until", cycle]"""

    def __init__(self, spec, rnd):
        self.spec = list(spec)
        self.rnd = rnd
        self.hold = 0

    def next(self, cycle, valid_seen):
        k = self.spec[0]
        if k == "always":
            return 1
        if k == "rand":
            return int(self.rnd.random() >= self.spec[1])
        if k == "wait":        # READY only after VALID has been seen, then with probability 1-p per cycle
            return int(valid_seen and self.rnd.random() >= self.spec[1])
        if k == "block":
            return int((cycle % self.spec[1]) >= self.spec[2])
        if k == "never_until":
            return int(cycle >= self.spec[1])
        raise DriverError("unknown ready spec %r" % (self.spec,))


class AxiRun:
    def __init__(self, cfg, prog, seed, bready=("rand", 0.3), rready=("rand", 0.3), wlead=0, max_cycles=20000, drain=60,
                 mem=None, wmax_out=None):
        self.cfg = cfg
        self.prog = prog
        self.nb = cfg["dw"] // 8
        self.rnd = random.Random(seed * 1000003 + 5)
        self.dut, self.axi, self.port = build(cfg)
        m = dict(mem or {})
        kw = dict(eager=True, wready=m.get("wready", 0.7)) if m.get("eager") else {}
        self.mem = IdealMem([self.port], seed=seed, lat=tuple(m.get("lat", (3, 12))), stall=m.get("stall", 0.3),
                            max_outstanding=m.get("max_outstanding", 64), **kw)
        self.bgen = ReadyGen(bready, random.Random(seed + 101))
        self.rgen = ReadyGen(rready, random.Random(seed + 202))
        self.wlead = wlead
        self.wmax_out = wmax_out      # issuing capability of the master: write bursts without a response (None = unlimited)
        self.max_cycles = max_cycles
        self.drain = drain
        self.cycle = 0
        self.events = []           # (cycle, class, dict)
        self.aw_asserted = 0       # number of write bursts whose AWVALID has been asserted
        self.nb_done = 0           # B handshakes seen by the master
        self.nr_done = 0           # read bursts whose last beat has been received (counted by RLAST handshakes)
        self.w_done = 0
        self.ar_done = 0
        self.aw_done = 0
        self.timed_out = False
        self.driver_errors = []

    # -- dependency test: strictly earlier cycle (the counters are updated by the recorder at the end of a cycle) --
    def deps_ok(self, item):
        for kind, k in item.get("dep", ()):
            if kind == "B" and self.nb_done <= k:
                return False
            if kind == "R" and self.nr_done <= k:
                return False
        return True

    def aw_proc(self):
        axi = self.axi
        for k, w in enumerate(self.prog["writes"]):
            g = w.get("gap", 0)
            while g > 0 or not self.deps_ok(w) or (self.wmax_out is not None and k - self.nb_done >= self.wmax_out):
                g -= 1
                yield
            yield axi.aw.valid.eq(1)
            yield axi.aw.addr.eq(w["addr"])
            yield axi.aw.burst.eq(w["burst"])
            yield axi.aw.len.eq(w["len"])
            yield axi.aw.size.eq(w["size"])
            yield axi.aw.id.eq(w["id"])
            self.aw_asserted = k + 1
            yield
            while not (yield axi.aw.ready):
                yield
            yield axi.aw.valid.eq(0)
            self.aw_done = k + 1
        while True:
            yield

    def w_proc(self):
        axi = self.axi
        for k, w in enumerate(self.prog["writes"]):
            for i, (d, s) in enumerate(zip(w["data"], w["strb"])):
                g = w["wgap"][i]
                # WVALID never waits for AWREADY; it may only be ordered after the *assertion* of AWVALID (wlead = 0)
                # or run ahead of it by up to wlead bursts
                while g > 0 or k >= self.aw_asserted + self.wlead or (self.wlead == 0 and i == 0 and not self.deps_ok(w)):
                    g -= 1
                    yield
                yield axi.w.valid.eq(1)
                yield axi.w.data.eq(d)
                yield axi.w.strb.eq(s)
                yield axi.w.last.eq(int(i == w["len"]))
                yield
                while not (yield axi.w.ready):
                    yield
                yield axi.w.valid.eq(0)
            self.w_done = k + 1
        while True:
            yield

    def ar_proc(self):
        axi = self.axi
        for k, r in enumerate(self.prog["reads"]):
            g = r.get("gap", 0)
            while g > 0 or not self.deps_ok(r):
                g -= 1
                yield
            yield axi.ar.valid.eq(1)
            yield axi.ar.addr.eq(r["addr"])
            yield axi.ar.burst.eq(r["burst"])
            yield axi.ar.len.eq(r["len"])
            yield axi.ar.size.eq(r["size"])
            yield axi.ar.id.eq(r["id"])
            yield
            while not (yield axi.ar.ready):
                yield
            yield axi.ar.valid.eq(0)
            self.ar_done = k + 1
        while True:
            yield

    def ready_proc(self, ch, gen):
        seen = False
        while True:
            v = (yield ch.valid)
            r = (yield ch.ready)
            if v and r:
                seen = False
            elif v:
                seen = True
            yield ch.ready.eq(gen.next(self.cycle, seen))
            yield

    def recorder(self):
        """passive observer of the five channels; also maintains the master's completion counters."""
        axi, nb = self.axi, self.nb
        since = dict(aw=None, w=None, ar=None, b=None, r=None)
        held = dict(aw=None, w=None, ar=None, b=None, r=None)
        c = 0
        while True:
            for name, cls in (("aw", 4), ("w", 5), ("ar", 6), ("b", 7), ("r", 8)):
                ch = getattr(axi, name)
                v = (yield ch.valid)
                if not v:
                    if since[name] is not None:
                        if name in ("b", "r"):
                            self.events.append((c, cls, dict(c=name.upper() + "GONE", t=c)))
                        else:
                            self.driver_errors.append("%sVALID withdrawn before %sREADY at cycle %d" % (name.upper(), name.upper(), c))
                        since[name] = None
                        held[name] = None
                    continue
                if name in ("aw", "ar"):
                    pl = dict(id=(yield ch.id), addr=(yield ch.addr), len=(yield ch.len), size=(yield ch.size), burst=(yield ch.burst))
                elif name == "w":
                    s = (yield ch.strb)
                    pl = dict(d=tobytes((yield ch.data), nb), s=[(s >> j) & 1 for j in range(nb)], last=(yield ch.last))
                elif name == "b":
                    pl = dict(id=(yield ch.id), resp=(yield ch.resp))
                else:
                    pl = dict(id=(yield ch.id), d=tobytes((yield ch.data), nb), last=(yield ch.last), resp=(yield ch.resp))
                if since[name] is None:
                    since[name] = c
                    held[name] = pl
                elif pl != held[name]:
                    if name in ("b", "r"):
                        # slave changed the payload of a waiting transfer: log the stalled offer, the spec judges
                        self.events.append((c, cls, dict(pl, c=name.upper() + "CHG", t=c)))
                        held[name] = pl
                    else:
                        self.driver_errors.append("%s payload changed while waiting at cycle %d" % (name.upper(), c))
                if (yield ch.ready):
                    self.events.append((c, cls, dict(pl, c=name.upper(), t=c, t0=since[name])))
                    since[name] = None
                    held[name] = None
                    if name == "b":
                        self.nb_done += 1
                    elif name == "r" and pl["last"]:
                        self.nr_done += 1
            c += 1
            self.cycle = c
            yield

    def supervisor(self):
        nw, nr = len(self.prog["writes"]), len(self.prog["reads"])
        quiet = 0
        while self.cycle < self.max_cycles:
            done = (self.aw_done == nw and self.w_done == nw and self.ar_done == nr and self.nb_done >= nw and self.nr_done >= nr
                    and self.mem.outstanding == 0)
            quiet = quiet + 1 if done else 0
            if quiet > self.drain:
                return
            yield
        self.timed_out = True

    def run(self):
        from migen import passive
        gens = [self.supervisor(), passive(self.aw_proc)(), passive(self.w_proc)(), passive(self.ar_proc)(),
                passive(self.ready_proc)(self.axi.b, self.bgen), passive(self.ready_proc)(self.axi.r, self.rgen),
                passive(self.recorder)(), passive(self.mem.process)()]
        env.run_simulation(self.dut, gens)
        if self.driver_errors:
            raise DriverError("; ".join(self.driver_errors[:5]))
        return self.trace()

    def trace(self):
        cfg, nb = self.cfg, self.nb
        evs = list(self.events)
        for (c, cls, pi, e) in self.mem.events:
            e = dict(e)
            e.pop("p", None)
            if "we" in e and e["c"] == "CMD":
                e["we"] = bool(e["we"])
            evs.append((c, cls, e))
        evs.sort(key=lambda x: (x[0], x[1]))
        out = []
        words = set(range(cfg["nwords"])) | set(self.mem.mem.keys())
        for a in sorted(words):
            out.append(dict(c="INIT", a=a, d=tobytes(self.mem.initword(a), nb)))
        out += [e for _, _, e in evs]
        tend = self.cycle
        out.append(dict(c="END", t=tend, timeout=bool(self.timed_out)))
        for a in sorted(words):
            out.append(dict(c="DUMP", a=a, d=tobytes(self.mem.read(a), nb), t=tend))
        header = dict(nb=nb, base=cfg["base"], rmw=bool(cfg["rmw"]), nwords=cfg["nwords"], wdepth=cfg["wdepth"], rdepth=cfg["rdepth"],
                      idw=cfg["idw"])
        return header, out


# ------------------------------------------------------------------------------------------------ spec -> code (binding B3)
# Behaviours of the design model specs/D_Axi2Native.tla (TLC -simulate) are turned into stimuli for the REAL bridge.  The
# script only fixes *intentions* (when each burst/beat is first offered, the BREADY/RREADY/cmd.ready bit of every cycle, the
# cycles in which the memory strobes a data phase); the drivers still obey the AXI rules by themselves (VALID held until the
# real READY, a data phase only for an accepted command that is old enough), so a replay is legal traffic even if the code
# and the model disagree on a cycle.  The real trace is judged by R_AxiMem like any other; the handshake times of the code are
# additionally compared with the model's (lock-step statistics, never a verdict).
import re as _re

_VAR = _re.compile(r"^/\\ (\w+) = (.*)$")


def parse_tlc_behaviour(path, wanted):
    """parse a file written by `tlc -simulate file=...`: list of dicts {var: python value} for the wanted variables."""
    states, cur, name = [], None, None
    with open(path) as f:
        for line in f:
            line = line.rstrip("\n")
            if line.startswith("STATE_"):
                cur = {}
                states.append(cur)
                name = None
                continue
            if cur is None:
                continue
            m = _VAR.match(line)
            if m:
                name = m.group(1)
                cur[name] = m.group(2)
            elif name is not None and line.strip() and not line.startswith("\\*"):
                cur[name] += " " + line.strip()
    out = []
    for st in states:
        d = {}
        for k in wanted:
            v = st[k].strip()
            if v in ("TRUE", "FALSE"):
                d[k] = v == "TRUE"
            elif _re.fullmatch(r"-?\d+", v):
                d[k] = int(v)
            elif v.startswith("<<") and _re.fullmatch(r"<<[-\d, ]*>>", v):
                d[k] = [int(x) for x in v[2:-2].split(",") if x.strip()]
            elif v.startswith("["):
                d[k] = {m.group(1): m.group(2) == "TRUE" for m in _re.finditer(r"(\w+) \|-> (TRUE|FALSE)", v)}
            else:
                d[k] = v
        out.append(d)
    return out


def script_from_behaviour(states):
    """states[c] describes cycle c.  -> dict(wlen, rlen, aw_at[k], w_at[(k,i)], ar_at[k], bready[c], rready[c], cmdrdy[c], pulse[c], hs)"""
    n = len(states)
    wlen, rlen = states[0]["wlen"], states[0]["rlen"]
    aw_at, w_at, ar_at = {}, {}, {}
    hs = dict(AW=[], W=[], AR=[], B=[], R=[])
    for c in range(n):
        s = states[c]
        if s["awv"] and s["awn"] not in aw_at:
            aw_at[s["awn"]] = c
        if s["wv"] and (s["wb"] - 1, s["wi"]) not in w_at:
            w_at[(s["wb"] - 1, s["wi"])] = c
        if s["arv"] and s["arn"] not in ar_at:
            ar_at[s["arn"]] = c
        if c + 1 < n:
            t = states[c + 1]
            if t["awn"] > s["awn"]:
                hs["AW"].append(c)
            if (t["wb"], t["wi"]) != (s["wb"], s["wi"]):
                hs["W"].append(c)
            if t["arn"] > s["arn"]:
                hs["AR"].append(c)
            if t["nbr"] > s["nbr"]:
                hs["B"].append(c)
            if t["nrr"] > s["nrr"]:
                hs["R"].append(c)
    io = [states[c + 1]["io"] if c + 1 < n else dict(cmdrdy=True, bready=True, rready=True, pulse=True) for c in range(n)]
    return dict(wlen=wlen, rlen=rlen, aw_at=aw_at, w_at=w_at, ar_at=ar_at, n=n, hs=hs,
                bready=[int(x["bready"]) for x in io], rready=[int(x["rready"]) for x in io],
                cmdrdy=[int(x["cmdrdy"]) for x in io], pulse=[int(x["pulse"]) for x in io])


class ScriptMem:
    """native memory with the pulse semantics of idealmem.IdealMem, but cmd.ready and the data-phase strobes follow a script
    (guarded: a strobe only for the oldest accepted command and not earlier than lmin cycles after its accept)."""

    def __init__(self, port, cmdrdy, pulse, lmin=3, init=None):
        self.port, self.cmdrdy, self.pulse, self.lmin = port, cmdrdy, pulse, lmin
        self.nb = port.data_width // 8
        self.mem = {}
        self.initf = init or (lambda a: 0)
        self.events = []
        self.outstanding = 0
        self.skipped = 0

    def initword(self, a):
        return self.initf(a)

    def read(self, a):
        return self.mem.get(a, self.initword(a))

    def process(self):
        """at its c-th execution a generator observes cycle c and drives cycle c + 1 (same convention as IdealMem/recorder)"""
        port, q, pulse, ready, c = self.port, [], None, 0, 0
        while True:
            # observe cycle c
            t = c
            if (yield port.cmd.valid) and ready:
                we, a = (yield port.cmd.we), (yield port.cmd.addr)
                self.events.append((t, 1, 0, dict(c="CMD", we=bool(we), a=a, t=t)))
                q.append([bool(we), a, t])
                self.outstanding += 1
            if pulse is not None:
                we, a = pulse[0], pulse[1]
                if we:
                    if (yield port.wdata.valid):
                        d, m, old = (yield port.wdata.data), (yield port.wdata.we), self.read(a)
                        for j in range(self.nb):
                            if (m >> j) & 1:
                                old = (old & ~(0xff << (8 * j))) | (d & (0xff << (8 * j)))
                        self.mem[a] = old
                        self.events.append((t, 2, 0, dict(c="WDATA", d=tobytes(d, self.nb), m=[(m >> j) & 1 for j in range(self.nb)], t=t)))
                    else:
                        self.events.append((t, 2, 0, dict(c="WDROP", t=t)))
                else:
                    if (yield port.rdata.ready):
                        self.events.append((t, 3, 0, dict(c="RDATA", d=tobytes(pulse[3], self.nb), t=t)))
                    else:
                        self.events.append((t, 3, 0, dict(c="RDROP", t=t)))
                pulse = None
                self.outstanding -= 1
            # drive cycle c + 1
            n = c + 1
            want = self.pulse[n] if n < len(self.pulse) else 1
            if want and q and n - q[0][2] >= self.lmin:
                pulse = q.pop(0)
                if not pulse[0]:
                    pulse = pulse + [self.read(pulse[1])]
            elif want and q and n < len(self.pulse):      # the model strobed a command the code has not issued that early
                self.skipped += 1
            ready = self.cmdrdy[n] if n < len(self.cmdrdy) else 1
            yield port.cmd.ready.eq(ready)
            yield port.wdata.ready.eq(int(pulse is not None and pulse[0]))
            yield port.rdata.valid.eq(int(pulse is not None and not pulse[0]))
            yield port.rdata.data.eq(pulse[3] if pulse is not None and not pulse[0] else 0x5a5a5a5a)
            c += 1
            yield


class ScriptRun(AxiRun):
    """replays one model behaviour (see script_from_behaviour) into the real bridge."""

    def __init__(self, cfg, script, max_cycles=600, drain=30):
        nb = cfg["dw"] // 8
        full = (1 << nb) - 1
        sz = log2(nb)
        self.script = script
        writes = [dict(id=k + 1, addr=cfg["base"], len=ln, size=sz, burst=INCR, data=[(k + 1) * 16 + i for i in range(ln + 1)],
                       strb=[full] * (ln + 1), at=script["aw_at"].get(k, script["n"]),
                       wat=[script["w_at"].get((k, i), script["n"]) for i in range(ln + 1)]) for k, ln in enumerate(script["wlen"])]
        reads = [dict(id=k + 1, addr=cfg["base"], len=ln, size=sz, burst=INCR, at=script["ar_at"].get(k, script["n"]))
                 for k, ln in enumerate(script["rlen"])]
        AxiRun.__init__(self, cfg, dict(writes=writes, reads=reads), seed=0, bready=("script", script["bready"]),
                        rready=("script", script["rready"]), max_cycles=max_cycles, drain=drain)
        self.mem = ScriptMem(self.port, script["cmdrdy"], script["pulse"])

    def aw_proc(self):
        axi, c = self.axi, 0
        for k, w in enumerate(self.prog["writes"]):
            while c < w["at"] - 1:          # a write issued at the c-th execution is seen in cycle c + 1
                c += 1
                yield
            yield axi.aw.valid.eq(1); yield axi.aw.addr.eq(w["addr"]); yield axi.aw.burst.eq(w["burst"])
            yield axi.aw.len.eq(w["len"]); yield axi.aw.size.eq(w["size"]); yield axi.aw.id.eq(w["id"])
            self.aw_asserted = k + 1
            c += 1
            yield
            while not (yield axi.aw.ready):
                c += 1
                yield
            yield axi.aw.valid.eq(0)
            self.aw_done = k + 1
        while True:
            yield

    def w_proc(self):
        axi, c = self.axi, 0
        for k, w in enumerate(self.prog["writes"]):
            for i, (d, s) in enumerate(zip(w["data"], w["strb"])):
                while c < w["wat"][i] - 1:
                    c += 1
                    yield
                yield axi.w.valid.eq(1); yield axi.w.data.eq(d); yield axi.w.strb.eq(s); yield axi.w.last.eq(int(i == w["len"]))
                c += 1
                yield
                while not (yield axi.w.ready):
                    c += 1
                    yield
                yield axi.w.valid.eq(0)
            self.w_done = k + 1
        while True:
            yield

    def ar_proc(self):
        axi, c = self.axi, 0
        for k, r in enumerate(self.prog["reads"]):
            while c < r["at"] - 1:
                c += 1
                yield
            yield axi.ar.valid.eq(1); yield axi.ar.addr.eq(r["addr"]); yield axi.ar.burst.eq(r["burst"])
            yield axi.ar.len.eq(r["len"]); yield axi.ar.size.eq(r["size"]); yield axi.ar.id.eq(r["id"])
            c += 1
            yield
            while not (yield axi.ar.ready):
                c += 1
                yield
            yield axi.ar.valid.eq(0)
            self.ar_done = k + 1
        while True:
            yield

    def ready_proc(self, ch, gen):
        bits, c = gen.spec[1], 0
        while True:
            yield ch.ready.eq(bits[c + 1] if c + 1 < len(bits) else 1)
            c += 1
            yield

    def lockstep(self):
        """(equal, total): handshake cycles of the real code vs. the model, per channel, over the scripted cycles."""
        real = dict(AW=[], W=[], AR=[], B=[], R=[])
        for (c, cls, e) in self.events:
            if e["c"] in real and c < self.script["n"] - 1:
                real[e["c"]].append(c)
        eq = sum(1 for k in real if real[k] == self.script["hs"][k])
        return eq, len(real), real
