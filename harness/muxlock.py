"""Lock-step conformance (binding B2) of specs/D_Multiplexer.tla with the real litedram.core.multiplexer.Multiplexer."""
import os, random
from . import env, tlc

KIND = {"RD": dict(cas=1, ras=0, we=0, is_read=1, is_write=0, is_cmd=0),
        "WR": dict(cas=1, ras=0, we=1, is_read=0, is_write=1, is_cmd=0),
        "ACT": dict(cas=0, ras=1, we=0, is_read=0, is_write=0, is_cmd=1),
        "PRE": dict(cas=0, ras=1, we=1, is_read=0, is_write=0, is_cmd=1)}
DFIK = {(1, 1, 1): "NONE", (0, 1, 0): "WR", (0, 1, 1): "RD", (1, 0, 1): "ACT", (1, 0, 0): "PRE",    # (cas_n, ras_n, we_n)
        (0, 0, 1): "REF", (1, 1, 0): "ZQCS"}


def run_mux(sc, workdir, with_refresh=False):
    env.setup()
    from migen import Module, Signal, passive
    from litex.soc.interconnect import stream
    from litedram.common import Settings, cmd_request_rw_layout, LiteDRAMInterface
    from litedram.phy import dfi as dfimod
    from litedram.core.multiplexer import Multiplexer

    class S(Settings):
        def __init__(self, **kw):
            self.set_attributes(kw)
    p = sc["params"]
    nb, nph = p["nb"], p["nph"]
    bankbits = max(1, (nb - 1).bit_length())
    st = S(read_time=p["read_time"], write_time=p["write_time"], with_bandwidth=False)
    st.phy = S(nphases=nph, rdphase=p["rdphase"], wrphase=p["wrphase"], read_latency=p["read_latency"], cwl=p["cwl"], nranks=1,
               databits=16, dfi_databits=32, memtype="DDR2")
    st.geom = S(bankbits=bankbits, rowbits=13, colbits=10, addressbits=13)
    st.timing = S(tWTR=p["tWTR"], tFAW=p["tFAW"], tCCD=p["tCCD"], tRRD=p["tRRD"])

    class BM:
        def __init__(self):
            self.cmd = stream.Endpoint(cmd_request_rw_layout(a=13, ba=bankbits))
            self.refresh_req = Signal()
            self.refresh_gnt = Signal()

    class Ref:
        def __init__(self):
            self.cmd = stream.Endpoint(cmd_request_rw_layout(a=13, ba=bankbits))

    class DUT(Module):
        def __init__(self):
            self.bms = [BM() for _ in range(2 ** bankbits)]
            self.ref = Ref()
            self.dfi = dfimod.Interface(addressbits=13, bankbits=bankbits, nranks=1, databits=32, nphases=nph)
            self.interface = LiteDRAMInterface(3, st)
            self.submodules.mux = Multiplexer(st, self.bms, self.ref, self.dfi, self.interface)
    dut = DUT()
    nbm = len(dut.bms)
    rnd = random.Random(sc["seed"])
    rows = []
    cur = ["NONE"] * nbm
    opn = [False] * nbm
    stim = sc.get("stimulus")

    @passive
    def mon():
        while True:
            ready, reqs = [], []
            for bm in dut.bms:
                ready.append(bool((yield bm.cmd.valid) and (yield bm.cmd.ready)))
                if not (yield bm.cmd.valid):
                    reqs.append("NONE")
                elif (yield bm.cmd.is_read):
                    reqs.append("RD")
                elif (yield bm.cmd.is_write):
                    reqs.append("WR")
                else:
                    reqs.append("PRE" if (yield bm.cmd.we) else "ACT")
            ph = []
            for phs in dut.dfi.phases:
                k = DFIK.get(((yield phs.cas_n), (yield phs.ras_n), (yield phs.we_n)), "OTHER")
                ph.append(dict(kind=k, bm=(yield phs.bank)))
            row = dict(req=reqs, ready=ready, dfi=ph)
            if with_refresh:
                rk = {(1, 0, 1): "PREA", (1, 1, 0): "REF", (0, 0, 1): "ZQCS", (0, 0, 0): "NOP"}.get(
                    ((yield dut.ref.cmd.ras), (yield dut.ref.cmd.cas), (yield dut.ref.cmd.we)), "OTHER")
                g = True
                for bm in dut.bms:
                    g = g and bool((yield bm.refresh_gnt))
                row["rin"] = dict(valid=bool((yield dut.ref.cmd.valid)), last=bool((yield dut.ref.cmd.last)), kind=rk, gnt=g)
                row["refready"] = bool((yield dut.ref.cmd.ready))
                for d in ph:
                    if d["kind"] == "OTHER":
                        # refresher opcodes on the DFI pins: (cas_n, ras_n, we_n)
                        pass
            rows.append(row)
            yield
    mon.cur = list(cur)

    rstate = dict(phase=0, t=0, gnt=[0] * nbm, gdelay=[0] * nbm)

    def drv():
        n = len(stim) if stim else sc["ncyc"]
        for c in range(n):
            if with_refresh:
                # refresher + bank-machine refresh protocol (the environment of the multiplexer's REFRESH path)
                ready = (yield dut.ref.cmd.ready)
                if rstate["phase"] == 0 and rnd.random() < p.get("pref", 0.02):
                    rstate["phase"] = 1                     # request
                    rstate["gdelay"] = [rnd.randrange(0, 6) for _ in range(nbm)]
                elif rstate["phase"] == 1 and ready:
                    rstate["phase"], rstate["t"] = 2, 0      # granted: play PREA .. REF .. last
                elif rstate["phase"] == 2:
                    rstate["t"] += 1
                    if rstate["t"] > 2 + p.get("trp", 2) + p.get("trfc", 3):
                        rstate["phase"] = 0
                        rstate["gnt"] = [0] * nbm
                ph_, t_ = rstate["phase"], rstate["t"]
                kind = "NOP"
                if ph_ == 2 and t_ == 1:
                    kind = "PREA"
                elif ph_ == 2 and t_ == 1 + p.get("trp", 2):
                    kind = "REF"
                last = int(ph_ == 2 and t_ == 2 + p.get("trp", 2) + p.get("trfc", 3))
                yield dut.ref.cmd.valid.eq(int(ph_ in (1, 2) and not last))
                yield dut.ref.cmd.last.eq(last)
                yield dut.ref.cmd.ras.eq(int(kind in ("PREA", "REF")))
                yield dut.ref.cmd.cas.eq(int(kind == "REF"))
                yield dut.ref.cmd.we.eq(int(kind == "PREA"))
                for i, bm in enumerate(dut.bms):
                    if ph_ == 0:
                        rstate["gnt"][i] = 0
                    elif ph_ == 1 and not rstate["gnt"][i] and cur[i] in ("NONE", "RD", "WR"):
                        # a bank machine in REGULAR drops what it presents and grants after its timers (random delay)
                        if rstate["gdelay"][i] <= 0:
                            rstate["gnt"][i] = 1
                            cur[i] = "NONE"
                        else:
                            rstate["gdelay"][i] -= 1
                    yield bm.refresh_gnt.eq(rstate["gnt"][i])
            # observe acceptance of the cycle that just ended, then choose the next requests (legal per bank, held until accepted)
            for i, bm in enumerate(dut.bms):
                acc = (yield bm.cmd.valid) and (yield bm.cmd.ready)
                if acc:
                    if cur[i] == "ACT":
                        opn[i] = True
                    if cur[i] == "PRE":
                        opn[i] = False
                    cur[i] = "NONE"
            for i, bm in enumerate(dut.bms):
                if stim:
                    cur[i] = stim[c][i]
                elif cur[i] == "NONE" and rnd.random() < p.get("pnew", 0.6) and not (with_refresh and rstate["phase"] != 0):
                    cur[i] = rnd.choice(["RD", "WR", "RD", "WR", "PRE"] if opn[i] else ["ACT"])
                k = cur[i]
                yield bm.cmd.valid.eq(int(k != "NONE"))
                f = KIND.get(k, dict(cas=0, ras=0, we=0, is_read=0, is_write=0, is_cmd=0))
                for name, v in f.items():
                    yield getattr(bm.cmd, name).eq(v)
                yield bm.cmd.ba.eq(i)
            mon.cur = list(cur)
            yield
    env.run_simulation(dut, [drv(), mon()])
    write_latency = -(-p["cwl"] // nph)
    consts = dict(NB=nbm, Nph=nph, RdPhase=p["rdphase"], WrPhase=p["wrphase"], tRRD=p["tRRD"] or 0, tFAW=p["tFAW"] or 0,
                  tCCD=p["tCCD"] or 0, tWTRc=p["tWTR"] + write_latency + (p["tCCD"] or 0), ReadLatency=p["read_latency"],
                  ReadTime=p["read_time"], WriteTime=p["write_time"])
    tmod = "T_MultiplexerR" if with_refresh else "T_Multiplexer"
    if with_refresh:
        consts["WtrNeedsRead"] = "FALSE"
    cfgp = os.path.join(workdir, tmod + ".cfg")
    with open(cfgp, "w") as f:
        f.write("SPECIFICATION TSpec\nINVARIANT AtEnd\nCHECK_DEADLOCK FALSE\nCONSTANTS\n" +
                "\n".join(" %s = %s" % kv for kv in consts.items()) + "\n")
    tf = os.path.join(workdir, "mux.ndjson")
    tlc.write_ndjson(tf, dict(consts=consts), rows)
    v = tlc.validate_trace(tmod, tf, workdir, cfg=cfgp)
    ncmd = sum(1 for r in rows for d in r["dfi"] if d["kind"] != "NONE")
    return dict(cycles=len(rows), commands=ncmd, mismatches=v["bad"], consts=consts, sample=rows[:3])
