"""Shared by C01..C05: execute one whole-core scenario on the real code and have TLC judge the trace (T_Core.tla)."""
import json, os
from .. import core, tlc

BASE = {
    "SDR":   dict(memtype="SDR", rate="1:1", clk_khz=100000, nbanks=4, nrows=2048, ncols=64),
    "SDR166": dict(memtype="SDR", rate="1:1", clk_khz=166000, nbanks=4, nrows=2048, ncols=64),
    "DDR":   dict(memtype="DDR", rate="1:2", clk_khz=100000, nbanks=4, nrows=2048, ncols=64),
    "LPDDR": dict(memtype="LPDDR", rate="1:2", clk_khz=83000, nbanks=4, nrows=2048, ncols=64),
    "DDR2":  dict(memtype="DDR2", rate="1:2", clk_khz=125000, nbanks=8, nrows=2048, ncols=64),
    "DDR3":  dict(memtype="DDR3", rate="1:4", clk_khz=100000, nbanks=8, nrows=2048, ncols=64),
    "DDR3_200": dict(memtype="DDR3", rate="1:4", clk_khz=200000, nbanks=8, nrows=2048, ncols=64),
    "DDR3_half": dict(memtype="DDR3", rate="1:2", clk_khz=150000, nbanks=8, nrows=2048, ncols=64),
    "DDR4":  dict(memtype="DDR4", rate="1:4", clk_khz=150000, nbanks=16, nrows=2048, ncols=64),
    "DDR4_300": dict(memtype="DDR4", rate="1:4", clk_khz=300000, nbanks=16, nrows=2048, ncols=64),   # tRAS - tRCD > 4 controller cycles
}


def scenario(name, base, ports, seed, **over):
    sc = dict(BASE[base])
    sc["name"] = name
    sc["ports"] = ports
    sc["seed"] = seed
    sc.setdefault("tech", {})
    sc.update(over)
    return sc


def execute_core(sc, workdir, prop, monitors, tags=None):
    """Run the scenario, validate, return the runner's result dict restricted to clauses of `prop`."""
    r = core.run_core(sc, monitors=monitors)
    tf = os.path.join(workdir, "trace.ndjson")
    tlc.write_ndjson(tf, r["header"], r["events"])
    v = tlc.validate_trace("T_Core", tf, workdir)
    tags = set(tags or [prop])
    mine = [[prop] + b[2:] for b in v["bad"] if b[1] in tags]   # drop the line number: [prop, clause, ...]
    lines = [b[0] for b in v["bad"] if b[1] in tags]
    hint = None
    if lines and not sc.get("confirm_hint"):
        # event on trace line n is events[n-2] (line 1 = header); stop the confirmation run a little after the earliest moment at
        # which some clause of this property is already broken.  End-of-run clauses ("never accepted", "overdue at end") are
        # broken as soon as their bound has passed, long before the (possibly hung) run ends.
        cands = []
        for b in v["bad"]:
            if b[1] not in tags:
                continue
            t = r["events"][b[0] - 2].get("t", 0)
            clause = str(b[2])
            try:
                if "never" in clause and len(b) >= 7:          # [line, prop, clause, port, t0, t_end, bound, ...]
                    t = min(t, int(b[4]) + int(b[6]) + 1)
                elif "overdue at end" in clause and len(b) >= 6:   # [line, prop, clause, k, t_end, due]
                    t = min(t, int(b[5]) + 1)
            except (TypeError, ValueError):
                pass
            cands.append(t)
        hint = min(cands) // r["header"]["nphases"] + 64
    others = sorted({(b[1], b[2]) for b in v["bad"] if b[1] not in tags})
    if r["timed_out"] and not v["bad"]:
        # a run that does not terminate must be explained by some rejected clause (lost strobe, starvation, ...)
        raise RuntimeError("simulation hit max_cycles without any rejected clause (%s)" % sc["name"])
    kinds = r["kinds"]
    sample = dict(cycles=r["cycles"], events=len(r["events"]), kinds=kinds, info=v["info"],
                  first_events=r["events"][:6], other_property_clauses=[list(x) for x in others][:10])
    if not os.environ.get("VERIF_KEEP"):
        os.remove(tf)
    return dict(confirm_hint=hint, bad=mine, evaluations=len(r["events"]), sample=sample, traces=1,
                stats=dict(cycles=r["cycles"], events=len(r["events"]), **{"n_" + k: n for k, n in kinds.items()}),
                info=v["info"], kinds=kinds, header=r["header"])


def shrink_candidates(sc):
    """Smaller variants of a whole-core scenario (fewer commands per port, then fewer ports), most aggressive first."""
    if sc.get("kind") or not sc.get("ports"):
        return
    ports = sc["ports"]
    for f in (0.25, 0.5):
        if any(p.get("ncmd", 200) * f >= 20 for p in ports):
            yield dict(sc, name=sc["name"], ports=[dict(p, ncmd=max(20, int(p.get("ncmd", 200) * f))) for p in ports])
    if len(ports) > 1:
        for drop in range(len(ports)):
            yield dict(sc, name=sc["name"], ports=[p for i, p in enumerate(ports) if i != drop])
