"""C05 -- no deadlock, no starved port, no starved direction.  R-spec: R_Response via T_Core."""
from .corecommon import scenario, execute_core

ID = "C05"
LEVEL = "model_checking"
CONFIRM_STOCK = True
RULE = ("victim/aggressor whole-core executions: aggressor ports run continuous same-bank / same-row / alternating-row / "
        "all-write / all-read streams much longer than the bounds, the victim issues sparse commands of the opposite direction "
        "to the same or another bank; every offer->accept and accept->data latency is judged by R_Response against Bacc/Bdat "
        "(closed forms over the configuration only). Non-trivial = distinct (config, aggressor profile, victim kind).")
ASSUMPTIONS = ["Bacc/Bdat are the closed forms in R_Response (generous; a violation means a wait several times any legitimate service time)",
               "Migen simulator semantics (violations re-confirmed on the stock interpreter)"]

AGGR = {
    "samebank": dict(profile="samebank_rows", gap=0, bank=1, rank=0),
    "samerow": dict(profile="samerow", gap=0, bank=1, rank=0),
    "altrow": dict(profile="samebank_altrow", gap=0, bank=1, rank=0),
    "allwrite": dict(profile="uniform", gap=0, dir="w"),
    "allread": dict(profile="uniform", gap=0, dir="r"),
    # continuous single-direction streams that never leave a gap in read/write availability at the multiplexer:
    # one port streams inside one row, a second one hops rows in another bank (keeps the command chooser busy)
    # streams with a one-cycle bubble after every access: read/write availability drops for a single cycle again and again, so the
    # direction FSM starts (and must finish) a turn-around while the stream is still running
    "rbubble": dict(profile="samerow", gap=1, dir="r", bank=0, rank=0),
    "wbubble": dict(profile="samerow", gap=1, dir="w", bank=0, rank=0),
    "wstream": [dict(profile="samerow", gap=0, dir="w", bank=0, rank=0), dict(profile="samebank_altrow", gap=0, dir="w", bank=3, rank=0)],
    "rstream": [dict(profile="samerow", gap=0, dir="r", bank=0, rank=0), dict(profile="samebank_altrow", gap=0, dir="r", bank=3, rank=0)],
}
# (read_time, write_time) budgets used by every other thorough scenario: 2^k+1, 2^k-1, odd, asymmetric, large
RT = [(33, 17), (17, 9), (9, 5), (31, 15), (5, 3), (65, 33), (12, 40), (7, 7)]
VICTIM = {
    "same_r": dict(profile="samebank_rows", bank=1, rank=0, dir="r", gap=40),
    "same_w": dict(profile="samebank_rows", bank=1, rank=0, dir="w", gap=40),
    "other_r": dict(profile="samebank_rows", bank=2, rank=0, dir="r", gap=40),
    "other_w": dict(profile="samebank_rows", bank=2, rank=0, dir="w", gap=40),
    "mixed": dict(profile="uniform", gap=25),
}


def scenarios(tier, seed):
    if tier == "quick":
        plan = [("SDR", "samebank", "same_r", 2), ("SDR", "allwrite", "other_r", 2), ("DDR3", "allread", "other_w", 3),
                ("DDR3", "altrow", "same_w", 2), ("DDR", "samerow", "same_r", 2), ("DDR3_200", "allwrite", "mixed", 4),
                ("DDR4", "samebank", "other_r", 3), ("DDR2", "allread", "same_w", 2),
                ("DDR3_half", "allwrite", "other_r", 3), ("DDR3_half", "allread", "other_w", 3),
                ("DDR3_half", "wstream", "other_r", 3), ("DDR3_half", "rstream", "other_w", 3), ("SDR", "wstream", "other_r", 3),
                ("SDR", "altrow", "other_r", 2), ("DDR3", "altrow", "other_w", 3), ("DDR", "rstream", "other_w", 3),
                ("SDR", "rbubble", "other_w", 2), ("DDR3", "wbubble", "other_r", 2), ("DDR3_half", "rbubble", "other_w", 2),
                # anti-starvation budgets that are not powers of two (2^k+1: the end value of a counter sized for the budget
                # minus one no longer fits) -- seeded change C05-g
                ("SDR", "allwrite", "other_r", 2, dict(read_time=33, write_time=17)),
                ("DDR3", "wstream", "other_r", 3, dict(read_time=17, write_time=9)),
                ("DDR3_half", "allread", "other_w", 3, dict(read_time=9, write_time=33))]
        ncmd = 6000
    else:
        plan = []
        i = 0
        for b in ["SDR", "SDR166", "DDR", "LPDDR", "DDR2", "DDR3", "DDR3_200", "DDR3_half", "DDR4"]:
            for a in AGGR:
                for v in VICTIM:
                    if (i % 3) == 0 or (a in ("wstream", "rstream", "altrow", "rbubble", "wbubble") and v.startswith("other")):
                        plan.append((b, a, v, 2 + (i % 4)))
                    i += 1
        plan += [("SDR", "allwrite", "other_r", 2, dict(read_time=33, write_time=17)),
                 ("DDR3", "wstream", "other_r", 3, dict(read_time=17, write_time=9)),
                 ("DDR3_half", "allread", "other_w", 3, dict(read_time=9, write_time=33))]
        plan += [(b, a, v, 2, dict(read_time=r, write_time=w)) for (r, w), (b, a, v) in zip(RT, [("SDR", "allwrite", "other_r"), ("DDR3", "allwrite", "other_r"),
                 ("SDR", "allread", "other_w"), ("DDR", "allwrite", "other_r"), ("DDR3_half", "allwrite", "other_r"), ("SDR", "wstream", "other_r"),
                 ("DDR2", "allread", "other_w"), ("DDR3", "allwrite", "other_r")])]
        ncmd = 9000
    out = []
    plan = [pl for j, pl in enumerate(plan) if pl not in plan[:j]]
    for i, pl in enumerate(plan):
        b, a, v, nports = pl[:4]
        times = pl[4] if len(pl) > 4 else {}
        ports = [dict(VICTIM[v], ncmd=ncmd // 60, seed=9, partial=0.1)]
        for k in range(nports - 1):
            ag = AGGR[a][k % len(AGGR[a])] if isinstance(AGGR[a], list) else AGGR[a]
            ports.append(dict(ag, ncmd=ncmd * (2 if isinstance(AGGR[a], list) else 1), seed=20 + k))
        norefresh = a in ("wstream", "rstream") and i % 2 == 0
        out.append(scenario("%s-%s-%s-%dp%s%s" % (b, a, v, nports, "-noref" if norefresh else "",
                                                  "-rt%dwt%d" % (times["read_time"], times["write_time"]) if times else ""), b, ports, seed * 7 + i, tech=dict(tREFI=2000),
                            ctrl=dict(times, cmd_buffer_depth=[8, 4, 2][i % 3], with_refresh=not norefresh), max_cycles=600000, drain=60000, sweep_max=40))
    from . import c03, c01
    return out + c03.mux_lockstep_scenarios(tier, seed)[:2] + c03.muxr_lockstep_scenarios(tier, seed)[:2] + c01.xbar_lockstep_scenarios(tier, seed)[:2]


def models(tier, seed):
    return [dict(module="D_Crossbar", cfg="MC_Crossbar_live.cfg", label="crossbar: global progress under fair bank service (liveness)", workers=2, timeout=1800),
            dict(module="D_Crossbar", cfg="MC_Crossbar_d6.cfg", label="known finding D6 on the model: one master can be starved by another streaming to the same bank",
                 workers=2, timeout=1800, expect_violation=True),
            dict(module="MC_Multiplexer", cfg="MC_Multiplexer_live.cfg", label="multiplexer: pending reads/writes are served despite a continuous opposite stream (liveness)", workers=2, timeout=1800),
            dict(module="MC_Multiplexer", cfg="MC_Multiplexer_neg_starve.cfg", label="negative control: anti-starvation time-outs disabled", workers=2, timeout=1800, expect_violation=True)] + (
        [dict(module="MC_MuxRef", cfg="MC_MuxRef_live.cfg", label="multiplexer+refresher+bank machines: requests are accepted and refresh served (liveness)", workers=3, timeout=2400)]
        if tier == "thorough" else [])


def execute(sc, workdir):
    if sc.get("kind") in ("lockstep-mux", "lockstep-muxr"):
        from . import c03
        return c03._lockstep_mux(sc, workdir)
    if sc.get("kind") == "b3-mux":
        from . import c03
        return c03._b3_mux(sc, workdir)
    if sc.get("kind") == "lockstep-xbar":
        from . import c01
        return c01._lockstep_xbar(sc, workdir)
    r = execute_core(sc, workdir, ID, ("rsp",))
    r["nontrivial"] = [[sc["memtype"], sc["clk_khz"]] + sc["name"].split("-")[1:3]]
    r["stats"]["worst_accept_wait_tck"] = 0
    r["sample"]["worst"] = dict(acc=r["info"]["worstAcc"], dat=r["info"]["worstDat"], bacc=r["info"]["bacc"], bdat=r["info"]["bdat"])
    return r


def finding_key(entry, sc):
    # entry = ["C05", clause, port, t_offer, t_accept, bound, nholders, nruns]
    if entry[1] in ("offered command accepted later than Bacc", "offered command never accepted") and len(entry) >= 8:
        nh, nr = entry[6], entry[7]
        if nh >= 1 and nr == nh:
            return "%s|bank held by other port(s) in uninterrupted streams meanwhile" % entry[1]
        return "%s|bank served %d other port(s) in %d runs meanwhile" % (entry[1], nh, nr)
    return str(entry[1])


def shrink(sc):
    from .corecommon import shrink_candidates
    return shrink_candidates(sc)
