"""C03 -- datasheet timing minimums on the DRAM bus.  R-spec: specs/R_DramDevice.tla (timing clauses) via T_Core.tla."""
from .corecommon import scenario, execute_core

ID = "C03"
LEVEL = "model_checking"
CONFIRM_STOCK = True
RULE = ("whole-core executions of the real crossbar+controller under adversarial traffic profiles; every DFI command is "
        "judged by R_DramDevice against requirements derived in TLA+ from the module's declared datasheet entry. "
        "Non-trivial = a distinct (configuration, rule, command pair) whose spacing was actually exercised with slack < 2 tCK... "
        "counted here as distinct (config, command kind) pairs observed.")
ASSUMPTIONS = ["Migen simulator semantics (violations are re-confirmed on the stock interpreter)",
               "datasheet entry = what the selected SDRAMModule declares; requirement computed in TLA+ (BigNat), not from controller cycle counts",
               "tRTP is not in the module library and is not required"]


def scenarios(tier, seed):
    out = []
    n = 250 if tier == "quick" else 600
    profs = [
        [dict(profile="samebank_altrow", ncmd=n), dict(profile="pingpong", ncmd=n, seed=1)],
        [dict(profile="wrw", ncmd=n), dict(profile="uniform", ncmd=n, seed=2)],
        [dict(profile="uniform", ncmd=n), dict(profile="hot", ncmd=n, seed=3), dict(profile="samebank_rows", ncmd=n, seed=4)],
    ]
    bases = ["SDR", "SDR166", "DDR3", "DDR3_200"] if tier == "quick" else ["SDR", "SDR166", "DDR", "LPDDR", "DDR2", "DDR3", "DDR3_200", "DDR3_half", "DDR4"]
    for b in bases:
        for i, ports in enumerate(profs if tier == "thorough" else profs[:2]):
            out.append(scenario("%s-p%d" % (b, i), b, ports, seed * 131 + i, tech=dict(tREFI=1800 + 37 * i)))
    # four-activate window binding (tFAW > 4 x tRRD in controller cycles): activates to many banks in quick succession
    # (a master holds commands in one bank at a time, so five activates in a row need at least five ports)
    faw = [dict(profile="random", ncmd=max(120, n // 2), gap=0, seed=j) for j in range(8)]
    for b in (["DDR3"] if tier == "quick" else ["DDR3", "DDR3_half", "DDR4", "DDR2"]):
        out.append(scenario("%s-faw" % b, b, faw, seed * 5 + 2, tech=dict(tREFI=2000, tRRD=[4, 2.5]), speed=dict(tFAW=[None, 50])))
    # the schedule named in the property: a row opened just before the refresh request. A port issues one row-miss command every
    # (tREFI - 3) cycles, so the distance between its ACT and the refresher's precharge-all slides through every offset.
    for b, refi_ns, clk in ([("SDR166", 1200, 166000), ("DDR3_200", 1000, 200000), ("DDR4_300", 800, 300000)] if tier == "quick" else
                            [("SDR", 1500, 100000), ("SDR166", 1200, 166000), ("DDR", 1500, 100000), ("DDR3", 1500, 100000), ("DDR3_200", 1000, 200000), ("DDR4", 1200, 150000), ("DDR4_300", 800, 300000)]):
        cyc = int(refi_ns * clk / 1e6)
        out.append(scenario("%s-refresh-race" % b, b, [dict(profile="samebank_altrow", ncmd=cyc + 40, gap=cyc - 3, partial=0.0),
                                                     dict(profile="pingpong", ncmd=(cyc + 40) // 2, gap=2 * cyc - 7, seed=5)],
                            seed * 3 + 1, tech=dict(tREFI=refi_ns), max_cycles=400000))
    # re-trigger sweep: a second write at every offset inside the first one's write-recovery / write-to-read count-down
    for b, then, ap in ([("DDR3", "pre", False), ("DDR3", "wtr", True), ("SDR", "pre", True)] if tier == "quick" else
                        [(b, t, ap) for b in ("SDR", "DDR", "DDR2", "DDR3", "DDR3_half", "DDR4") for t in ("pre", "wtr") for ap in (False, True)]):
        out.append(scenario("%s-gapsweep-%s-%s" % (b, then, "ap" if ap else "noap"), b,
                            [dict(profile="gapsweep", ncmd=4 * 32, span=32, then=then, partial=0.0)], seed + 3,
                            tech=dict(tREFI=3000), ctrl=dict(with_auto_precharge=ap)))
    from . import c02
    out.append(dict(name="lockstep-gates", kind="lockstep-gates", seed=seed * 5 + 1, ncyc=4000 if tier == "quick" else 20000))
    out.append(dict(name="apalache-txxd-inductive", kind="apalache-txxd", seed=seed))
    return out + c02.lockstep_scenarios(tier, seed)[:2] + mux_lockstep_scenarios(tier, seed) + muxr_lockstep_scenarios(tier, seed)[2:]


def mux_lockstep_scenarios(tier, seed):
    variants = [dict(nb=2, nph=2, rdphase=0, wrphase=1, read_latency=3, cwl=2, tWTR=1, tFAW=None, tCCD=1, tRRD=2, read_time=3, write_time=2),
                dict(nb=4, nph=1, rdphase=0, wrphase=0, read_latency=4, cwl=2, tWTR=2, tFAW=6, tCCD=2, tRRD=2, read_time=8, write_time=4),
                dict(nb=8, nph=4, rdphase=2, wrphase=3, read_latency=5, cwl=5, tWTR=2, tFAW=5, tCCD=1, tRRD=None, read_time=32, write_time=16),
                dict(nb=4, nph=2, rdphase=1, wrphase=0, read_latency=6, cwl=3, tWTR=3, tFAW=4, tCCD=2, tRRD=3, read_time=0, write_time=0)]
    out = [dict(name="lockstep-multiplexer-%d" % j, kind="lockstep-mux", seed=seed * 23 + j, ncyc=4000 if tier == "quick" else 15000, params=v)
           for j, v in enumerate(variants if tier == "quick" else variants * 3)]
    # parameters of the real module that correspond to MC_Multiplexer_quick.cfg
    out.append(dict(name="b3-multiplexer", kind="b3-mux", seed=seed, cfg="MC_Multiplexer_quick.cfg", num=25 if tier == "quick" else 250, depth=80,
                    params=dict(nb=2, nph=2, rdphase=0, wrphase=1, read_latency=3, cwl=2, tWTR=0, tFAW=None, tCCD=1, tRRD=2, read_time=3, write_time=2)))
    return out


def muxr_lockstep_scenarios(tier, seed):
    """Multiplexer including its REFRESH path (refresher stub + bank-machine grants as environment) against D_MultiplexerR."""
    variants = [dict(nb=2, nph=2, rdphase=0, wrphase=1, read_latency=3, cwl=2, tWTR=1, tFAW=None, tCCD=1, tRRD=2, read_time=3, write_time=2, pref=0.03),
                dict(nb=4, nph=1, rdphase=0, wrphase=0, read_latency=4, cwl=2, tWTR=2, tFAW=6, tCCD=2, tRRD=2, read_time=8, write_time=4, pref=0.02),
                dict(nb=8, nph=4, rdphase=2, wrphase=3, read_latency=5, cwl=5, tWTR=2, tFAW=5, tCCD=1, tRRD=None, read_time=32, write_time=16, pref=0.02),
                dict(nb=4, nph=4, rdphase=1, wrphase=0, read_latency=6, cwl=4, tWTR=3, tFAW=4, tCCD=2, tRRD=3, read_time=16, write_time=8, pref=0.04)]
    return [dict(name="lockstep-multiplexer-refresh-%d" % j, kind="lockstep-muxr", seed=seed * 29 + j, ncyc=3000 if tier == "quick" else 12000, params=v)
            for j, v in enumerate(variants if tier == "quick" else variants * 3)]


def _lockstep_gates(sc, workdir):
    """tXXDController / tFAWController against D_Gates (whose contract TLC checks in MC_Gates): a note, never a verdict."""
    from .. import gatelock
    r = gatelock.run_gates(sc, workdir)
    notes = []
    if r["mismatches"] or r["broken"]:
        x = (r["broken"] or r["mismatches"])[0]
        notes.append("MODEL-DRIFT module=tXXDController/tFAWController cycle=%s %s (D_Gates no longer equals the code; the gate contract checked by "
                     "TLC is not bound)" % (x[0], x[1:]))
    return dict(bad=[], evaluations=r["cycles"], nontrivial=[["lockstep", sc["name"]]], traces=1,
                sample=dict(triggers=r["triggers"], first=r["sample"][:2]), notes=notes,
                lockstep=r["cycles"], stats=dict(lockstep_cycles=r["cycles"], gate_triggers=r["triggers"]))


def _lockstep_mux(sc, workdir):
    from .. import muxlock
    r = muxlock.run_mux(sc, workdir, with_refresh=sc.get("kind") == "lockstep-muxr")
    notes = []
    if r["mismatches"]:
        notes.append("MODEL-DRIFT module=Multiplexer cycle=%s signal=%s (D_Multiplexer%s no longer equals the code; exhaustive result not bound)"
                     % (r["mismatches"][0][0], r["mismatches"][0][1:], "R" if sc.get("kind") == "lockstep-muxr" else ""))
    return dict(bad=[], evaluations=r["cycles"], nontrivial=[["lockstep", sc["name"]]] if r["commands"] > 50 else [], traces=1,
                sample=dict(consts=r["consts"], commands=r["commands"], first=r["sample"][:2]), notes=notes,
                lockstep=r["cycles"], stats=dict(lockstep_cycles=r["cycles"], lockstep_commands=r["commands"]))


def _b3_mux(sc, workdir):
    """Spec -> code: TLC-generated behaviours of MC_Multiplexer (what every bank machine presents per cycle) replayed into the real
    Multiplexer and compared in lock-step."""
    from .. import b3, muxlock
    behs = b3.behaviours("MC_Multiplexer", sc["cfg"], workdir, num=sc["num"], depth=sc["depth"], seed=sc["seed"] + 1, var="req", kind="func")
    cyc = cmds = 0
    notes = []
    for i, b in enumerate(behs):
        r = muxlock.run_mux(dict(seed=0, params=sc["params"], stimulus=b), workdir)
        cyc += r["cycles"]; cmds += r["commands"]
        if r["mismatches"] and not notes:
            notes.append("MODEL-DRIFT module=Multiplexer (TLC behaviour %d) cycle=%s signal=%s" % (i, r["mismatches"][0][0], r["mismatches"][0][1:]))
    return dict(bad=[], evaluations=cyc, nontrivial=[["b3", sc["name"], i] for i in range(len(behs))], traces=len(behs),
                sample=dict(behaviours=len(behs), commands=cmds, first_requests=behs[0][:6]), notes=notes, lockstep=cyc,
                stats=dict(lockstep_cycles=cyc, lockstep_commands=cmds, tlc_behaviours_replayed=len(behs)))


def _apalache_txxd(sc, workdir):
    """Unbounded side argument (not on the verdict path): Apalache discharges an inductive invariant of the tXXDController logic
    (the TxxdNext operator of the lock-step bound D-models) for every period 1..10^6: the gate never opens early."""
    import os, subprocess
    spec = os.path.join(os.path.dirname(os.path.dirname(os.path.dirname(os.path.abspath(__file__)))), "specs", "apalache")
    obligations = [("Init => IndInv", "--init=Init --inv=IndInv --length=0"),
                   ("IndInv /\\ Next => IndInv'", "--init=IndInit --inv=IndInv --length=1"),
                   ("IndInv => Safe", "--init=IndInit --inv=Safe --length=0")]
    done = 0
    for name, args in obligations:
        out = subprocess.run("timeout 600 apalache-mc check --cinit=ConstInit %s --out-dir=%s Txxd.tla" % (args, os.path.join(workdir, "apa")),
                             shell=True, cwd=spec, stdout=subprocess.PIPE, stderr=subprocess.STDOUT, text=True).stdout
        if "The outcome is: NoError" not in out:
            raise RuntimeError("Apalache obligation '%s' not discharged:\n%s" % (name, out[-1500:]))
        done += 1
    return dict(bad=[], evaluations=done, nontrivial=[["apalache", o[0]] for o in obligations], traces=0,
                sample=dict(obligations=[o[0] for o in obligations], range="T in 1..10^6"), stats=dict(apalache_obligations_discharged=done))


def mux_models(tier, seed):
    return [dict(module="MC_Gates", cfg="MC_Gates.cfg", label="tXXD / tFAW gates: ready only txxd cycles after the last trigger (re-triggers included), at most four activates per window", workers=2, timeout=900),
            dict(module="MC_Multiplexer", cfg="MC_Multiplexer_quick.cfg", label="multiplexer gates tRRD/tCCD/tWTR, phases (2 banks, 2 phases, zero slack)", workers=3, timeout=2400),
            dict(module="MC_Multiplexer", cfg="MC_Multiplexer_neg_wtr.cfg", label="negative control: write-to-read gate one cycle short", workers=2, timeout=1800, expect_violation=True),
            dict(module="MC_Multiplexer", cfg="MC_Multiplexer_cover_rtw.cfg", label="cover: RTW turn-around", workers=1, timeout=900, expect_violation=True),
            dict(module="MC_Multiplexer", cfg="MC_Multiplexer_cover_wtr.cfg", label="cover: WTR waiting for the gate", workers=1, timeout=900, expect_violation=True)]


def models(tier, seed):
    from . import c02
    return c02.models(tier, seed) + mux_models(tier, seed)


def execute(sc, workdir):
    if sc.get("kind") == "lockstep":
        from . import c02
        return c02._lockstep(sc, workdir)
    if sc.get("kind") == "b3":
        from . import c02
        return c02._b3(sc, workdir)
    if sc.get("kind") in ("lockstep-mux", "lockstep-muxr"):
        return _lockstep_mux(sc, workdir)
    if sc.get("kind") == "b3-mux":
        return _b3_mux(sc, workdir)
    if sc.get("kind") == "apalache-txxd":
        return _apalache_txxd(sc, workdir)
    if sc.get("kind") == "lockstep-gates":
        return _lockstep_gates(sc, workdir)
    r = execute_core(sc, workdir, ID, ("dev",))
    r["nontrivial"] = [[sc["memtype"], sc["clk_khz"], k] for k in r["kinds"] if k in ("ACT", "PRE", "PREA", "RD", "WR", "REF", "ZQCS")]
    return r


def finding_key(entry, sc):
    # entry = ["C03", clause, cmd, rank, bank, have, need]
    return "%s:%s" % (entry[1], entry[2])


def shrink(sc):
    from .corecommon import shrink_candidates
    return shrink_candidates(sc)
