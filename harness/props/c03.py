"""C03 -- datasheet timing minimums on the DRAM bus.  R-spec: specs/R_DramDevice.tla (timing clauses) via T_Core.tla."""
from .corecommon import scenario, execute_core

ID = "C03"
LEVEL = "model_checking"
CONFIRM_STOCK = True
RULE = ("whole-core executions of the real crossbar+controller under adversarial traffic profiles; every DFI command is "
        "judged by R_DramDevice against requirements derived in TLA+ from the module's declared datasheet entry. "
        "Non-trivial = a distinct (configuration, rule, command pair) whose spacing was actually exercised with slack < 2 tCK... "
        "counted here as distinct (config, command kind) pairs observed.")
ASSUMPTIONS = ["Migen simulator semantics (violations are re-confirmed on the stock interpreter)",
               "datasheet entry = what the selected SDRAMModule declares; requirement computed in TLA+ (BigNat), not from controller cycle counts",
               "tRTP is not in the module library and is not required"]


def scenarios(tier, seed):
    out = []
    n = 250 if tier == "quick" else 600
    profs = [
        [dict(profile="samebank_altrow", ncmd=n), dict(profile="pingpong", ncmd=n, seed=1)],
        [dict(profile="wrw", ncmd=n), dict(profile="uniform", ncmd=n, seed=2)],
        [dict(profile="uniform", ncmd=n), dict(profile="hot", ncmd=n, seed=3), dict(profile="samebank_rows", ncmd=n, seed=4)],
    ]
    bases = ["SDR", "SDR166", "DDR3", "DDR3_200"] if tier == "quick" else ["SDR", "SDR166", "DDR", "LPDDR", "DDR2", "DDR3", "DDR3_200", "DDR3_half", "DDR4"]
    for b in bases:
        for i, ports in enumerate(profs if tier == "thorough" else profs[:2]):
            out.append(scenario("%s-p%d" % (b, i), b, ports, seed * 131 + i, tech=dict(tREFI=1800 + 37 * i)))
    from . import c02
    return out + c02.lockstep_scenarios(tier, seed)[:2]


def models(tier, seed):
    from . import c02
    return c02.models(tier, seed)


def execute(sc, workdir):
    if sc.get("kind") == "lockstep":
        from . import c02
        return c02._lockstep(sc, workdir)
    r = execute_core(sc, workdir, ID, ("dev",))
    r["nontrivial"] = [[sc["memtype"], sc["clk_khz"], k] for k in r["kinds"] if k in ("ACT", "PRE", "PREA", "RD", "WR", "REF", "ZQCS")]
    return r


def finding_key(entry, sc):
    # entry = ["C03", clause, cmd, rank, bank, have, need]
    return "%s:%s" % (entry[1], entry[2])
