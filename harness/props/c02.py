"""C02 -- DRAM command stream obeys the bank state machine.  R-specs: R_DramDevice (state clauses) + R_BankLink via T_Core."""
from .corecommon import scenario, execute_core

ID = "C02"
LEVEL = "model_checking"
CONFIRM_STOCK = True
RULE = ("whole-core executions incl. two-rank configurations; every DFI phase decoded and judged by the device automaton "
        "(ACT only on idle bank, RD/WR only on the open row the request addressed, REF/ZQCS only with all banks idle, "
        "phase/strobe placement, chip selects) and linked to the accepted port command by R_BankLink. Non-trivial = distinct "
        "(config, command kind) observed.")
ASSUMPTIONS = ["the address map used for linking is R_AddrMap.Decode (property C06); a C06 defect would show here too",
               "Migen simulator semantics (violations re-confirmed on the stock interpreter)"]


def scenarios(tier, seed):
    n = 220 if tier == "quick" else 500
    sets = [
        [dict(profile="uniform", ncmd=n), dict(profile="samebank_rows", ncmd=n, seed=1)],
        [dict(profile="pingpong", ncmd=n), dict(profile="hot", ncmd=n, seed=2), dict(profile="random", ncmd=n, seed=3)],
        [dict(profile="samebank_altrow", ncmd=n), dict(profile="samerow", ncmd=n, seed=4)],
    ]
    bases = ["SDR", "DDR", "DDR3", "DDR4"] if tier == "quick" else ["SDR", "SDR166", "DDR", "LPDDR", "DDR2", "DDR3", "DDR3_200", "DDR3_half", "DDR4"]
    out = []
    i = 0
    for b in bases:
        for si, ports in enumerate(sets if tier == "thorough" else sets[:2]):
            for ap in ([True, False] if tier == "thorough" else [bool((i + si) % 2)]):
                out.append(scenario("%s-s%d-%s" % (b, si, "ap" if ap else "noap"), b, ports, seed * 31 + i,
                                    tech=dict(tREFI=1500 + 53 * (i % 7)), ctrl=dict(with_auto_precharge=ap, cmd_buffer_depth=[8, 4, 2][i % 3])))
                i += 1
    # two ranks
    for b in (["DDR3"] if tier == "quick" else ["SDR", "DDR3", "DDR4"]):
        out.append(scenario("%s-2ranks" % b, b, sets[1], seed * 31 + 77, tech=dict(tREFI=1700), nranks=2))
    # different read/write phases
    out.append(scenario("DDR3-phases", "DDR3", sets[0], seed + 5, tech=dict(tREFI=1600), phy=dict(cl_cwl=[7, 6])))
    if tier == "thorough":
        out.append(scenario("DDR3-phases2", "DDR3", sets[1], seed + 6, tech=dict(tREFI=1600), phy=dict(cl_cwl=[10, 7])))
        out.append(scenario("DDR4-phases", "DDR4", sets[0], seed + 7, tech=dict(tREFI=1600), phy=dict(cl_cwl=[11, 9])))
    return out


def execute(sc, workdir):
    r = execute_core(sc, workdir, ID, ("dev", "link"))
    r["nontrivial"] = [[sc["memtype"], sc["rate"], sc.get("nranks", 1), k] for k in r["kinds"]
                       if k in ("ACT", "PRE", "PREA", "RD", "WR", "REF", "ZQCS")]
    return r


def finding_key(entry, sc):
    return str(entry[1])
