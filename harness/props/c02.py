"""C02 -- DRAM command stream obeys the bank state machine.  R-specs: R_DramDevice (state clauses) + R_BankLink via T_Core."""
from .corecommon import scenario, execute_core

ID = "C02"
LEVEL = "model_checking"
CONFIRM_STOCK = True
RULE = ("whole-core executions incl. two-rank configurations; every DFI phase decoded and judged by the device automaton "
        "(ACT only on idle bank, RD/WR only on the open row the request addressed, REF/ZQCS only with all banks idle, "
        "phase/strobe placement, chip selects) and linked to the accepted port command by R_BankLink. Non-trivial = distinct "
        "(config, command kind) observed.")
ASSUMPTIONS = ["the address map used for linking is R_AddrMap.Decode (property C06); a C06 defect would show here too",
               "Migen simulator semantics (violations re-confirmed on the stock interpreter)"]


def scenarios(tier, seed):
    n = 220 if tier == "quick" else 500
    sets = [
        [dict(profile="uniform", ncmd=n), dict(profile="samebank_rows", ncmd=n, seed=1)],
        [dict(profile="pingpong", ncmd=n), dict(profile="hot", ncmd=n, seed=2), dict(profile="random", ncmd=n, seed=3)],
        [dict(profile="samebank_altrow", ncmd=n), dict(profile="samerow", ncmd=n, seed=4)],
    ]
    bases = ["SDR", "DDR", "DDR3", "DDR4"] if tier == "quick" else ["SDR", "SDR166", "DDR", "LPDDR", "DDR2", "DDR3", "DDR3_200", "DDR3_half", "DDR4"]
    out = []
    i = 0
    for b in bases:
        for si, ports in enumerate(sets if tier == "thorough" else sets[:2]):
            for ap in ([True, False] if tier == "thorough" else [bool((i + si) % 2)]):
                out.append(scenario("%s-s%d-%s" % (b, si, "ap" if ap else "noap"), b, ports, seed * 31 + i,
                                    tech=dict(tREFI=1500 + 53 * (i % 7)), ctrl=dict(with_auto_precharge=ap, cmd_buffer_depth=[8, 4, 2][i % 3])))
                i += 1
    # two ranks
    for b in (["DDR3"] if tier == "quick" else ["SDR", "DDR3", "DDR4"]):
        out.append(scenario("%s-2ranks" % b, b, sets[1], seed * 31 + 77, tech=dict(tREFI=1700), nranks=2))
    # different read/write phases
    out.append(scenario("DDR3-phases", "DDR3", sets[0], seed + 5, tech=dict(tREFI=1600), phy=dict(cl_cwl=[7, 6])))
    # write data phase 0 on a multi-phase PHY: the write-side command phase wraps around to the last phase
    out.append(scenario("DDR3_200-wrphase0", "DDR3_200", sets[1], seed + 8, tech=dict(tREFI=1600), ctrl=dict(with_auto_precharge=False)))
    # tCCD of two controller cycles (DDR3 at 1:2) with same-row streams: a column command held back by the tCCD gate must not strobe
    out.append(scenario("DDR3_half-tccd2", "DDR3_half", sets[2], seed + 11, tech=dict(tREFI=1600), ctrl=dict(with_auto_precharge=True)))
    # more than 10 column bits: column bit 10 must travel on A11 (A10 is the auto-precharge / all-banks flag)
    out.append(scenario("DDR3-cols2048", "DDR3", sets[1], seed + 9, tech=dict(tREFI=1600), ncols=2048, nrows=8192,
                        ctrl=dict(with_auto_precharge=False)))
    if tier == "thorough":
        out.append(scenario("DDR-cols4096", "DDR", sets[0], seed + 10, tech=dict(tREFI=1600), ncols=4096, nrows=8192))
        out.append(scenario("DDR3-phases2", "DDR3", sets[1], seed + 6, tech=dict(tREFI=1600), phy=dict(cl_cwl=[10, 7])))
        out.append(scenario("DDR4-phases", "DDR4", sets[0], seed + 7, tech=dict(tREFI=1600), phy=dict(cl_cwl=[11, 9])))
    return out + lockstep_scenarios(tier, seed)


def _lockstep(sc, workdir):
    from .. import bmlock
    r = bmlock.run_bm(sc, workdir)
    notes = []
    if r["mismatches"]:
        notes.append("MODEL-DRIFT module=BankMachine cycle=%s signal=%s (D_BankMachine no longer equals the code; exhaustive result not bound)"
                     % (r["mismatches"][0][0], r["mismatches"][0][1]))
    return dict(bad=[], evaluations=r["cycles"], nontrivial=[["lockstep", sc["name"]]] if r["issued"] > 50 else [], traces=1,
                sample=dict(consts=r["consts"], issued=r["issued"], first=r["sample"][:2]), notes=notes,
                lockstep=r["cycles"], stats=dict(lockstep_cycles=r["cycles"], lockstep_commands=r["issued"]))


def _b3(sc, workdir):
    """Spec -> code: TLC-generated behaviours of MC_BankMachine become stimuli of the real BankMachine (lock-step compared)."""
    from .. import b3, bmlock
    behs = b3.behaviours("MC_BankMachine", sc["cfg"], workdir, num=sc["num"], depth=sc["depth"], seed=sc["seed"] + 1)
    cyc = issued = 0
    notes, kinds = [], set()
    for i, b in enumerate(behs):
        r = bmlock.run_bm(dict(seed=0, params=sc["params"], stimulus=b), workdir)
        cyc += r["cycles"]; issued += r["issued"]
        if r["mismatches"] and not notes:
            notes.append("MODEL-DRIFT module=BankMachine (TLC behaviour %d) cycle=%s signal=%s" % (i, r["mismatches"][0][0], r["mismatches"][0][1]))
        kinds.add((r["issued"] > 0, any(x["refreq"] for x in b)))
    return dict(bad=[], evaluations=cyc, nontrivial=[["b3", sc["name"], i] for i in range(len(behs))], traces=len(behs),
                sample=dict(behaviours=len(behs), first_inputs=behs[0][:4]), notes=notes, lockstep=cyc,
                stats=dict(lockstep_cycles=cyc, lockstep_commands=issued, tlc_behaviours_replayed=len(behs)))


def lockstep_scenarios(tier, seed):
    out = []
    variants = [dict(depth=2, ap=True, tRP=2, tRCD=2, tWR=2, tCCD=1, tRC=5, tRAS=3, cwl=2, nphases=2, colbits=3, align=2, nrows=2),
                dict(depth=2, ap=False, tRP=3, tRCD=2, tWR=1, tCCD=1, tRC=6, tRAS=3, cwl=1, nphases=1, colbits=4, align=2, nrows=3),
                dict(depth=4, ap=True, tRP=1, tRCD=1, tWR=2, tCCD=2, tRC=None, tRAS=None, cwl=3, nphases=4, colbits=3, align=2, nrows=2),
                dict(depth=8, ap=True, tRP=4, tRCD=3, tWR=3, tCCD=1, tRC=9, tRAS=6, cwl=5, nphases=4, colbits=4, align=3, nrows=4)]
    for j, v in enumerate(variants if tier == "quick" else variants * 3):
        out.append(dict(name="lockstep-bankmachine-%d" % j, kind="lockstep", seed=seed * 19 + j,
                        ncyc=5000 if tier == "quick" else 20000, params=dict(v, pref=0.03 + 0.02 * (j % 3), pready=0.4 + 0.15 * (j % 4))))
    # parameters of the real module that correspond to MC_BankMachine_quick.cfg
    out.append(dict(name="b3-bankmachine", kind="b3", seed=seed, cfg="MC_BankMachine_quick.cfg", num=30 if tier == "quick" else 300, depth=80,
                    params=dict(depth=2, ap=True, tRP=2, tRCD=2, tWR=1, tCCD=1, tRC=4, tRAS=2, cwl=1, nphases=1, colbits=2, align=2, nrows=2)))
    return out


def models(tier, seed):
    ms = [dict(module="MC_BankMachine", cfg="MC_BankMachine_quick.cfg", label="bank machine + device observer (auto-precharge); every step refines A_BankMachine", workers=4, timeout=2400),
          dict(module="MC_BankMachine", cfg="MC_BankMachine_neg_twtp.cfg", label="negative control: write-to-precharge one cycle short", workers=2, timeout=2400, expect_violation=True),
          dict(module="MC_BankMachine", cfg="MC_BankMachine_neg_reftras.cfg", label="negative control: refresh granted without waiting tRAS (defect fixed in 7014c8e)", workers=2, timeout=2400, expect_violation=True),
          dict(module="MC_BankMachine", cfg="MC_BankMachine_cover_ap.cfg", label="cover: AUTOPRECHARGE state", workers=1, timeout=1200, expect_violation=True),
          dict(module="MC_BankMachine", cfg="MC_BankMachine_cover_ref.cfg", label="cover: refresh requested inside tRAS", workers=1, timeout=1200, expect_violation=True)]
    if tier == "thorough":
        ms += [dict(module="MC_BankMachine", cfg="MC_BankMachine_noap.cfg", label="bank machine without auto-precharge", workers=4, timeout=3000),
               dict(module="MC_BankMachine", cfg="MC_BankMachine_thorough.cfg", label="bank machine 2 rows x 2 columns, longer timers", workers=8, timeout=3400, xmx="20g")]
    return ms


def execute(sc, workdir):
    if sc.get("kind") == "lockstep":
        return _lockstep(sc, workdir)
    if sc.get("kind") == "b3":
        return _b3(sc, workdir)
    r = execute_core(sc, workdir, ID, ("dev", "link"))
    r["nontrivial"] = [[sc["memtype"], sc["rate"], sc.get("nranks", 1), k] for k in r["kinds"]
                       if k in ("ACT", "PRE", "PREA", "RD", "WR", "REF", "ZQCS")]
    return r


def finding_key(entry, sc):
    return str(entry[1])


def shrink(sc):
    from .corecommon import shrink_candidates
    return shrink_candidates(sc)
