"""C12 / C13, design level: (i) the TLC runs of the design models (exhaustive + negative controls), (ii) spec -> code:
behaviours of the design models (TLC -simulate, and the shortest behaviours reaching named cover goals) turned into
stimuli for the REAL modules.  For D_DmaReader / D_DmaWriter / D_FifoCtrl the replay is cycle-exact (every environment
input of every cycle comes from the behaviour) and the events of the real module are also compared with the model's
prediction (model drift is reported in the evidence, never a verdict); for D_FifoMode (inner DRAM FIFO abstracted) the
behaviour is projected onto producer / consumer / per-port stall schedules."""
import glob, os
from .. import tlc, tlaparse


def _set(vals):
    return "{" + ", ".join(_v(v) for v in vals) + "}"


def _v(v):
    if isinstance(v, bool):
        return "TRUE" if v else "FALSE"
    if isinstance(v, str):
        return '"%s"' % v
    if isinstance(v, (list, tuple, set)):
        return _set(v)
    return str(v)


def cfg_text(consts, invariants=("Holds", "TypeOK"), view=True, deadlock=True):
    lines = ["SPECIFICATION Spec", "CONSTANTS"]
    lines += [" %s = %s" % (k, _v(v)) for k, v in consts.items()]
    lines += ["INVARIANT %s" % i for i in invariants]
    if view:
        lines.append("VIEW View")
    lines.append("CHECK_DEADLOCK %s" % ("TRUE" if deadlock else "FALSE"))
    return "\n".join(lines) + "\n"


# ---------------------------------------------------------------------------------------------- model configurations
def _reader(tier, bug="none", **over):
    c = dict(Depths=[1, 2] if tier == "quick" else [1, 2, 3], Buffereds=[False, True], Lmins=[1, 2] if tier == "quick" else [1, 3],
             Addrs=[0, 1], Bug=bug)
    c.update(over)
    return c


def _writer(tier, bug="none", **over):
    # a buffered data FIFO shows a word two cycles after it was written: the memory must not strobe earlier (Lmin >= 2)
    c = dict(Depths=[1, 2] if tier == "quick" else [1, 2, 3], Buffereds=[False, True], Lmins=[2] if tier == "quick" else [2, 3],
             Addrs=[0, 1], Datas=[1, 2], Bug=bug)
    c.update(over)
    return c


def _ctrl(tier, bug="none", **over):
    c = dict(Depths=[2, 3] if tier == "quick" else [2, 3, 4], WDepths=[1, 2] if tier != "quick" else [2], RDepths=[1, 2] if tier != "quick" else [2], Lmins=[1],
             Base=4, Bug=bug)
    c.update(over)
    return c


def _mode(R, fix, bug="none", dcap=2, pre=None, post=None):
    return dict(R=R, PreDepth=pre or 2 * R, PostDepth=post or 2 * R, DCap=dcap, Fix=fix, Bug=bug)


def models(pid, tier):
    w = 4
    to = 900 if tier == "quick" else 2400
    out = []

    def add(module, consts, label, expect=False, **kw):
        out.append(dict(module=module, cfg=cfg_text(consts), workers=w, timeout=to, label=label, expect_violation=expect, **kw))

    if pid == "C12":
        add("MC_DmaReader", _reader(tier), "D_DmaReader exhaustive (all depths x buffered x Lmin)")
        add("MC_DmaWriter", _writer(tier), "D_DmaWriter exhaustive (all depths x buffered x Lmin>=2)")
        if tier == "thorough":
            add("MC_DmaReader", _reader(tier, Depths=[4], Lmins=[1, 2]), "D_DmaReader exhaustive, depth 4")
            add("MC_DmaWriter", _writer(tier, Depths=[4], Lmins=[2]), "D_DmaWriter exhaustive, depth 4")
            add("MC_DmaWriter", _writer(tier, Depths=[1, 2, 3], Buffereds=[False], Lmins=[1]), "D_DmaWriter unbuffered, Lmin=1")
        one = dict(Depths=[2], Lmins=[1])
        add("MC_DmaReader", _reader(tier, "res_released_on_fill", Buffereds=[False], **one), "NEG D_DmaReader: reservation released when the word enters the FIFO", True)
        if tier == "thorough":
            add("MC_DmaReader", _reader(tier, "no_reservation", Buffereds=[False], **one), "NEG D_DmaReader: command issued without a reservation", True)
            add("MC_DmaReader", _reader(tier, "last_from_offer", Buffereds=[True], **one), "NEG D_DmaReader: last taken from the sink instead of the reservation FIFO", True)
        add("MC_DmaWriter", _writer(tier, "push_without_cmd", Buffereds=[False], Depths=[2], Lmins=[2]), "NEG D_DmaWriter: data enqueued without the command being accepted", True)
        if tier == "thorough":
            add("MC_DmaWriter", _writer(tier, "cmd_ignores_fifo", Buffereds=[False], Depths=[2], Lmins=[2]), "NEG D_DmaWriter: command offered although the data FIFO is full", True)
            add("MC_DmaWriter", _writer(tier, Depths=[2], Buffereds=[True], Lmins=[1]), "NEG env: buffered writer FIFO with a memory strobing 1 cycle after the command", True)
    else:
        add("MC_FifoCtrl", _ctrl(tier), "D_FifoCtrl exhaustive (depths x DMA FIFO depths)")
        if tier == "thorough":
            add("MC_FifoCtrl", _ctrl(tier, Depths=[2, 3], WDepths=[2], RDepths=[2], Lmins=[3]), "D_FifoCtrl exhaustive, memory latency >= 3")
        add("MC_FifoCtrl", _ctrl(tier, "level_read_wins", Depths=[3], WDepths=[2], RDepths=[2], Lmins=[1]), "NEG D_FifoCtrl: level update race (read wins over simultaneous write)", True)
        if tier == "thorough":
            add("MC_FifoCtrl", _ctrl(tier, "inc_no_wrap", Depths=[3], WDepths=[2], RDepths=[2], Lmins=[1]), "NEG D_FifoCtrl: pointer does not wrap at depth", True)
            add("MC_FifoCtrl", _ctrl(tier, "writable_off_by_one", Depths=[2], WDepths=[2], RDepths=[2], Lmins=[1]), "NEG D_FifoCtrl: writable while level = depth", True)
        add("MC_FifoMode", _mode(1, False), "D_FifoMode ratio 1, code as pinned")
        small = dict(dcap=1, post=2) if tier == "quick" else {}
        add("MC_FifoMode", _mode(2, True, **small), "D_FifoMode ratio 2 with the proposed repair (C13_fix.diff)")
        add("MC_FifoMode", _mode(2, False, **small), "DEFECT D_FifoMode ratio 2, code as pinned: TLC reproduces the genuine defect", True)
        add("MC_FifoMode", _mode(2, True, "no_upidle", **small), "NEG D_FifoMode: back to bypass with a full word waiting in the pre-converter", True)
        if tier == "thorough":
            add("MC_FifoMode", _mode(1, False, "empty_off_by_one"), "NEG D_FifoMode: back to bypass with one word still in DRAM", True)
        if tier == "thorough":
            add("MC_FifoMode", _mode(1, False, dcap=3, pre=3, post=3), "D_FifoMode ratio 1, deeper FIFOs")
            add("MC_FifoMode", _mode(2, True, dcap=3), "D_FifoMode ratio 2 repaired, DCap 3")
            # (ratio 4 with PreDepth = PostDepth = 8, DCap 2 was run once: 979 300 states / 15.7 M transitions, no error, 24 min)
            add("MC_FifoMode", _mode(4, True, dcap=1, pre=6, post=4), "D_FifoMode ratio 4 repaired")
            add("MC_FifoMode", _mode(4, False, dcap=1, pre=6, post=4), "DEFECT D_FifoMode ratio 4, code as pinned", True)
    return out


# ---------------------------------------------------------------------------------------------- spec -> code
GEN = {
    "C12": [
        dict(name="gen-reader", module="MC_DmaReader", kind="reader", consts=lambda t: _reader(t, Depths=[1, 2, 3] if t == "quick" else [1, 2, 3, 4], Lmins=[1, 3], Addrs=[0, 1, 2]), covers=["NeverFullStall"],
             cfg=dict(kind="reader", port="native", depth=0)),
        dict(name="gen-writer", module="MC_DmaWriter", kind="writer", consts=lambda t: _writer(t, Depths=[1, 2, 3] if t == "quick" else [1, 2, 3, 4], Lmins=[2, 3]), covers=["NeverFull"],
             cfg=dict(kind="writer", port="native", depth=0)),
    ],
    "C13": [
        dict(name="gen-fifoctrl", module="MC_FifoCtrl", kind="fifoctrl", consts=lambda t: _ctrl(t, WDepths=[1, 2], RDepths=[1, 2], Lmins=[1, 3]), covers=["NeverFull", "NeverWrap"],
             cfg=dict(kind="fifoctrl", bypass=0, ratio=1, depth=0)),
        dict(name="gen-fifomode-r1", module="MC_FifoMode", kind="fifomode", consts=lambda t: _mode(1, False), covers=["NeverBackToBypass", "NeverDramFull"],
             cfg=dict(kind="fifo", bypass=1, ratio=1, depth=2)),
        dict(name="gen-fifomode-r2", module="MC_FifoMode", kind="fifomode", consts=lambda t: _mode(2, True), covers=["NeverPump", "NeverBackToBypass", "Holds@unfixed"],
             cfg=dict(kind="fifo", bypass=1, ratio=2, depth=2)),
    ],
}


def generated_scenarios(pid, tier, seed):
    out = []
    for g in GEN[pid]:
        out.append(dict(name=g["name"], generate=dict(pid=pid, name=g["name"], tier=tier, seed=seed,
                                                      num=(30 if tier == "quick" else 150) if g["kind"] != "fifomode" else (10 if tier == "quick" else 60),
                                                      depth=70 if tier == "quick" else 160),
                        cfg=dict(g["cfg"])))
    return out


def _behaviours(g, gen, workdir):
    """[(label, [state dicts])]: random walks (-simulate) + the shortest behaviour reaching each cover goal."""
    consts = g["consts"](gen["tier"])
    out = []
    pre = os.path.join(workdir, "beh")
    rc, txt = tlc.simulate(g["module"], cfg_text(consts, invariants=(), view=False, deadlock=False), workdir,
                           num=gen["num"], depth=gen["depth"], seed=gen["seed"] + 1, out_prefix=pre, timeout=600)
    files = sorted(glob.glob(pre + "*"))
    if not files:
        raise RuntimeError("TLC -simulate produced no behaviour for %s:\n%s" % (g["module"], txt[-2000:]))
    only = {"inp", "off", "seq", "ev", "cf"}
    for f in files:
        with open(f) as fh:
            sts = tlaparse.parse_states(fh.read(), only=only)
        os.remove(f)
        if len(sts) > 2:
            out.append(("simulate", sts))
    for goal in g["covers"]:
        c2 = dict(consts)
        inv = goal
        if goal.endswith("@unfixed"):
            inv = goal.split("@")[0]
            c2["Fix"] = False
        r = tlc.model_check(g["module"], cfg_text(c2, invariants=(inv,), view=False), workdir, workers=2, timeout=600, xmx="4g")
        if r["ok"]:
            raise RuntimeError("cover goal %s of %s is unreachable (vacuous model?)" % (goal, g["module"]))
        sts = tlaparse.parse_states(r["out"], only=only)
        if len(sts) > 2:
            out.append(("cover:" + goal, sts))
    return out


def _flat(ev):
    out = []
    for e in ev:
        d = dict(e)
        out.append(d)
    return out


def materialise(sc, workdir):
    gen = sc["generate"]
    g = [x for x in GEN[gen["pid"]] if x["name"] == gen["name"]][0]
    behs = _behaviours(g, gen, workdir)
    runs = []
    kind = g["kind"]
    for label, sts in behs:
        n = len(sts) - 1
        if kind in ("reader", "writer", "fifoctrl"):
            cf = sts[0]["cf"]
            script, mev = [], []
            for i in range(1, n + 1):
                off, inp = sts[i - 1]["off"], sts[i]["inp"]
                if kind == "reader":
                    script.append(dict(v=off["v"], a=off["a"], last=off["last"], cmdReady=inp["cmdReady"], srcReady=inp["srcReady"], ret=inp["ret"]))
                elif kind == "writer":
                    script.append(dict(v=off["v"], a=off["a"], d=off["d"], cmdReady=inp["cmdReady"], strobe=inp["strobe"]))
                else:
                    script.append(dict(v=off, d=sts[i - 1]["seq"], wReady=inp["wReady"], rReady=inp["rReady"], srcReady=inp["srcReady"], done=inp["done"]))
                mev.append(_flat(sts[i]["ev"]))
            run = dict(script=script, model_ev=mev, lmin=cf["lmin"], depth=cf["depth"], dw=8, label=label)
            if kind == "fifoctrl":
                run.update(wdepth=cf["wdepth"], rdepth=cf["rdepth"], base=g["consts"](gen["tier"])["Base"])
            else:
                run.update(buffered=int(cf["buffered"]), port="native")
            runs.append(run)
        else:
            consts = g["consts"](gen["tier"])
            prod = [int(bool(s["off"])) for s in sts[:-1]]
            cons = [int(bool(s["inp"]["srcReady"])) for s in sts[1:]]
            wr = [int(bool(s["inp"]["dRdy"])) for s in sts[1:]]
            rr = [int(bool(s["inp"]["dShow"])) for s in sts[1:]]
            for stretch in (1, 3):       # the real inner FIFO is slower than the abstraction: also replay a stretched copy
                def st(x):
                    return [v for v in x for _ in range(stretch)]
                runs.append(dict(kind="fifo", dw=8, ratio=consts["R"], depth=max(consts["DCap"], 2), base=8, bypass=1,
                                 pre=consts["PreDepth"], post=consts["PostDepth"], n=sum(prod) * stretch + 24, seed=gen["seed"],
                                 prod=["list", st(prod), 1], cons=["list", st(cons), 1], mready=[["list", st(wr), 1], ["list", st(rr), 1]],
                                 lat=[3, 3], label=label))
    out = dict(sc)
    out["runs"] = runs
    out["cfg"] = dict(sc["cfg"])
    return out
