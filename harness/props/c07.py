"""C07 -- width-converted ports behave like one memory at the narrower or wider width.

R-spec: specs/R_Conv.tla (on top of R_PortMem) via T_Conv.tla; D-models: specs/D_UpConverter.tla, D_DownConverter.tla
(+ D_ConvEnv.tla, MC_*.cfg).  DUT: the real LiteDRAMNativePortConverter (direct, and as LiteDRAMCrossbar.get_port creates
it) between the C07 master and the ideal native memory (harness/convdut.py)."""
import glob, json, os, shutil

from .. import convdut, tlc, tlaparse

ID = "C07"
LEVEL = "model_checking"
CONFIRM_STOCK = True
RULE = ("(a) random + directed user traffic (ascending / descending / repeated / random / line-crossing address runs, "
        "byte enables, cmd.last, flush pulses, arbitrary idle payload, early write data) through the real converter for "
        "ratios 1:2..1:32 and 2:1..8:1, modes both/write/read, reverse, direct and via crossbar.get_port, memory-side stall and "
        "latency profiles; (b) TLC behaviours of the design models (-simulate, and the counter-example of the pinned "
        "up-converter model) replayed cycle by cycle into the real converter and compared in lock-step. Every trace is "
        "judged by T_Conv (R_Conv/R_PortMem). Non-trivial case = distinct (direction, ratio, mode, type transition WW/WR/RW/RR, "
        "relation of consecutive accepted commands inside/across a wide word, cmd.last of the first) observed in a real trace.")
ASSUMPTIONS = [
    "master as granted by the property: holds cmd until accepted, queues the data of a write no later than the cycle its command is first offered (possibly earlier), holds it until taken, rdata.ready = 1",
    "memory side = ideal native memory with the real crossbar's pulse semantics, completion latency >= 3 cycles (the minimum the real core produces), in command order",
    "at the end of a run the master asserts flush until everything has drained (the up-converter documents that an incomplete last burst needs cmd.last/flush); commands still sitting in the converter before that are not counted as lost",
    "byte view: user word a = bytes a*ub..a*ub+ub-1 of the memory's byte space (little-endian chunk order); reverse=True = reversed chunk order inside a wide word, as documented for StrideConverter(reverse)",
    "Migen simulator semantics (violations are re-confirmed on the stock interpreter)",
    "wdata.last / rdata.last / cmd.first are not driven",
]
NONASC = "|up:after-nonascending-inword-pair"


# ------------------------------------------------------------------------------------------------ model configurations

def up_cfg(R=2, NW=2, MaxCmds=3, Lmin=3, Lmax=3, Fix=False, Orders="asc", Bug="none", Wes=(True, False), Masks=(1,),
           Flush=False, Stall=False, invariants=True):
    b = lambda x: "TRUE" if x else "FALSE"
    return "\n".join([
        "SPECIFICATION Spec", "VIEW View", "CONSTANTS",
        "  R = %d" % R, "  NW = %d" % NW, "  MaxCmds = %d" % MaxCmds, "  Lmin = %d" % Lmin, "  Lmax = %d" % Lmax,
        "  Fix = %s" % b(Fix), '  Orders = "%s"' % Orders, '  Bug = "%s"' % Bug,
        "  Wes = {%s}" % ", ".join(b(x) for x in Wes), "  Masks = {%s}" % ", ".join(str(x) for x in Masks),
        "  Flush = %s" % b(Flush), "  Stall = %s" % b(Stall),
        "INVARIANTS ReqOK FinalOK TypeOK" if invariants else "", "CHECK_DEADLOCK FALSE", ""])


def down_cfg(R=2, NA=2, MaxCmds=3, Lmin=3, Lmax=4, Bug="none", Wes=(True, False), Masks=(3, 1, 2), Stall=True, invariants=True):
    b = lambda x: "TRUE" if x else "FALSE"
    return "\n".join([
        "SPECIFICATION Spec", "VIEW View", "CONSTANTS",
        "  R = %d" % R, "  NA = %d" % NA, "  MaxCmds = %d" % MaxCmds, "  Lmin = %d" % Lmin, "  Lmax = %d" % Lmax,
        '  Bug = "%s"' % Bug, "  Wes = {%s}" % ", ".join(b(x) for x in Wes), "  Masks = {%s}" % ", ".join(str(x) for x in Masks),
        "  Stall = %s" % b(Stall),
        "INVARIANTS ReqOK FinalOK TypeOK" if invariants else "", "CHECK_DEADLOCK FALSE", ""])


CFGS = {   # specs/<name>.cfg: written by write_cfgs() (python -m harness.props.c07 --write-cfgs), read by TLC
    "MC_UpConverter_asc_quick":     lambda: up_cfg(MaxCmds=3, Masks=(1,), Flush=True),
    "MC_UpConverter_fix_quick":     lambda: up_cfg(Fix=True, Orders="any", MaxCmds=3, Masks=(1,), Flush=True),
    "MC_UpConverter_pinned_any":    lambda: up_cfg(Orders="any", MaxCmds=3),
    "MC_UpConverter_neg_selkeep":   lambda: up_cfg(Fix=True, Orders="any", Bug="selkeep", MaxCmds=3),
    "MC_DownConverter_quick":       lambda: down_cfg(MaxCmds=3, Masks=(3, 1, 2), Stall=False, Lmax=3),
    "MC_DownConverter_neg_shortburst": lambda: down_cfg(Bug="shortburst", MaxCmds=3, Stall=False, Lmax=3),
    "MC_UpConverter_asc_c4":        lambda: up_cfg(MaxCmds=4, Masks=(1,), Flush=True),
    "MC_UpConverter_fix_c4":        lambda: up_cfg(Fix=True, Orders="any", MaxCmds=4, Masks=(1,), Flush=True),
    "MC_UpConverter_asc_env":       lambda: up_cfg(MaxCmds=3, Masks=(0, 1), Flush=False, Stall=True, Lmax=4),
    "MC_UpConverter_fix_env":       lambda: up_cfg(Fix=True, Orders="any", MaxCmds=3, Masks=(0, 1), Flush=False, Stall=True, Lmax=4),
    "MC_UpConverter_r4_asc":        lambda: up_cfg(R=4, MaxCmds=3, Masks=(1,), Flush=True),
    "MC_UpConverter_r4_fix":        lambda: up_cfg(R=4, Fix=True, Orders="any", MaxCmds=3, Masks=(1,), Flush=True),
    "MC_UpConverter_r4_pinned_any": lambda: up_cfg(R=4, Orders="any", MaxCmds=3),
    "MC_UpConverter_nolock":        lambda: up_cfg(Fix=True, Orders="any", Bug="nolock", MaxCmds=4, Masks=(1,), Flush=True),
    "MC_DownConverter_c4":          lambda: down_cfg(MaxCmds=4, Masks=(3, 1, 2), Stall=True, Lmax=4),
    "MC_DownConverter_r4":          lambda: down_cfg(R=4, MaxCmds=3, Masks=(15, 5, 8), Stall=True, Lmax=4),
    "MC_DownConverter_neg_muxstuck": lambda: down_cfg(Bug="muxstuck", MaxCmds=3, Stall=False, Lmax=3),
    "MC_UpConverter_asc_lat8":      lambda: up_cfg(MaxCmds=4, Masks=(1,), Flush=True, Lmin=8, Lmax=8),
    "MC_UpConverter_fix_lat8":      lambda: up_cfg(Fix=True, Orders="any", MaxCmds=4, Masks=(1,), Flush=True, Lmin=8, Lmax=8),
    # vacuity guards: TLC must REACH these (the invariant is the negated cover goal)
    "MC_UpConverter_cover_settled": lambda: _cover(up_cfg(MaxCmds=3, Masks=(1,), Flush=True), "CoverSettled"),
    "MC_UpConverter_cover_merge":   lambda: _cover(up_cfg(MaxCmds=3, Masks=(1,), Flush=True), "CoverMerge"),
    "MC_UpConverter_cover_lock":    lambda: _cover(up_cfg(MaxCmds=3, Masks=(1,), Flush=True), "CoverLock"),
    "MC_UpConverter_cover_twowrites": lambda: _cover(up_cfg(MaxCmds=3, Masks=(1,), Flush=True, Wes=(True,), Lmin=8, Lmax=8), "CoverTwoWrites"),
    "MC_DownConverter_cover_settled": lambda: _cover(down_cfg(MaxCmds=3, Masks=(3, 1, 2), Stall=False, Lmax=3), "CoverSettled"),
}


def _cover(cfg, goal):
    return cfg.replace("INVARIANTS ReqOK FinalOK TypeOK", "INVARIANTS " + goal)


def write_cfgs():
    from ..env import SPECS
    for name, f in CFGS.items():
        with open(os.path.join(SPECS, name + ".cfg"), "w") as fh:
            fh.write(f())


def models(tier, seed):
    if os.environ.get("C07_NOMODELS"):         # development aid
        return []
    q = tier == "quick"

    def m(cfg, label, workers=4, expect=False, timeout=None):
        return dict(module=cfg.split("_")[0] + "_" + cfg.split("_")[1], cfg=cfg + ".cfg", label=label, workers=workers,
                    timeout=timeout or (900 if q else 6000), expect_violation=expect)
    out = [
        m("MC_UpConverter_asc_quick", "up r2, pinned design, ascending in-word orders (documented usage), 3 cmds"),
        m("MC_UpConverter_fix_quick", "up r2 with the proposed next_cmd term, ALL orders, 3 cmds"),
        m("MC_UpConverter_pinned_any", "up r2, pinned design, all orders: descending/repeated sub-word addresses break R_Conv (D4 at design level)", 2, True),
        m("MC_UpConverter_neg_selkeep", "negative control: seeded model bug (sel not cleared in NEW)", 2, True),
        m("MC_DownConverter_quick", "down r2, 3 cmds"),
        m("MC_DownConverter_neg_shortburst", "negative control: seeded model bug (burst one command short)", 2, True),
        m("MC_UpConverter_cover_settled", "vacuity guard: the settled state in which FinalOK is evaluated is reachable (up)", 2, True),
        m("MC_DownConverter_cover_settled", "vacuity guard: the settled state in which FinalOK is evaluated is reachable (down)", 2, True),
    ]
    if not q:
        out += [
            m("MC_UpConverter_asc_c4", "up r2, pinned design, ascending orders, 4 cmds"),
            m("MC_UpConverter_fix_c4", "up r2 with the proposed term, ALL orders, 4 cmds"),
            m("MC_UpConverter_asc_env", "up r2, pinned design, ascending orders, masks {0,1}, memory stalls, latency 3..4"),
            m("MC_UpConverter_fix_env", "up r2 with the proposed term, ALL orders, masks {0,1}, memory stalls, latency 3..4"),
            m("MC_UpConverter_r4_asc", "up r4, pinned design, ascending orders, 3 cmds"),
            m("MC_UpConverter_r4_fix", "up r4 with the proposed term, ALL orders, 3 cmds"),
            m("MC_UpConverter_r4_pinned_any", "up r4, pinned design, all orders (D4 at design level)", 2, True),
            m("MC_UpConverter_nolock", "up r2 with read_lock removed still satisfies R_Conv (the write command always precedes the read: read_lock is redundant behind an in-order memory)"),
            m("MC_DownConverter_c4", "down r2, 4 cmds, memory stalls, latency 3..4"),
            m("MC_DownConverter_r4", "down r4, 3 cmds"),
            m("MC_DownConverter_neg_muxstuck", "negative control: seeded model bug (wdata mux never advances)", 2, True),
            m("MC_UpConverter_asc_lat8", "up r2, pinned design, ascending orders, latency 8 (two wide writes buffered)"),
            m("MC_UpConverter_fix_lat8", "up r2 with the proposed term, ALL orders, latency 8"),
            m("MC_UpConverter_cover_merge", "vacuity guard: two commands merged into one wide access is reachable", 2, True),
            m("MC_UpConverter_cover_lock", "vacuity guard: read_lock set is reachable", 2, True),
            m("MC_UpConverter_cover_twowrites", "vacuity guard: two wide write words buffered is reachable", 2, True),
        ]
    return out


# ------------------------------------------------------------------------------------------------ scenarios

UP = {2: (16, 32), 4: (8, 32), 8: (32, 256), 16: (8, 128), 32: (8, 256)}
DOWN = {2: (32, 16), 4: (32, 8), 8: (64, 8)}
ENVS = [dict(lat=[3, 3], stall=0.0), dict(lat=[3, 12], stall=0.3), dict(lat=[6, 20], stall=0.6), dict(lat=[3, 5], stall=0.1)]
IDLES = ["random", "hold", "zero"]


def scenarios(tier, seed):
    """A 'rand' scenario = several executions (runs) of one direction/ratio/order family, judged together in one trace file."""
    q = tier == "quick"
    n = 220 if q else 700
    out = []
    k = 0

    def run(name, **kw):
        nonlocal k
        k += 1
        e = ENVS[k % len(ENVS)]
        rc = dict(name=name, seed=seed * 7919 + k, ncmd=n, idle=IDLES[k % 3], maw=10 + (k % 3) * 4, **e)
        rc.update(kw)
        return rc

    reps = 1 if q else 3
    for R, (u, m) in UP.items():
        for r in range(reps):
            c = dict(udw=u, mdw=m)
            out.append(dict(name="up%d-asc-%d" % (R, r), kind="rand", runs=[
                run("both", mode="both", orders="asc", **c), run("write", mode="write", orders="asc", **c),
                run("read", mode="read", orders="asc", **c), run("rev", mode="both", orders="asc", reverse=True, **c),
                run("getport", mode="both", orders="asc", via="getport", reverse=bool(r & 1), **c),
                run("b2b", mode="both", orders="asc", lat=[3, 3], stall=0.0, pflush=0.0, plast=0.0, idle="hold", **c),
                run("flushy", mode="both", orders="asc", pflush=0.08, plast=0.4, **c)]))
            out.append(dict(name="up%d-any-%d" % (R, r), kind="rand", runs=[
                run("both", mode="both", orders="any", **c), run("write", mode="write", orders="any", **c),
                run("read", mode="read", orders="any", **c)]))
    for R, (u, m) in DOWN.items():
        for r in range(reps):
            c = dict(udw=u, mdw=m)
            out.append(dict(name="down%d-%d" % (R, r), kind="rand", runs=[
                run("both", mode="both", **c), run("partial", mode="both", partial=0.7, **c), run("write", mode="write", **c),
                run("read", mode="read", **c), run("rev", mode="both", reverse=True, **c),
                run("getport", mode="both", via="getport", reverse=bool(r & 1), **c)]))
    for sc in out:
        if not q or sc["name"] in ("up4-asc-0", "up2-any-0", "down4-0"):
            sc["diff_stock"] = [0] if q else [0, len(sc["runs"]) - 1]
    if not q:
        out.append(dict(name="up-widths-asc", kind="rand", runs=[
            run("w%d-%d" % (u, m), udw=u, mdw=m, mode="both", orders="asc") for u, m in [(32, 64), (64, 128), (16, 256), (32, 512), (128, 256)]]))
        out.append(dict(name="down-widths", kind="rand", runs=[
            run("w%d-%d" % (u, m), udw=u, mdw=m, mode="both") for u, m in [(64, 32), (128, 32), (256, 64), (512, 64), (128, 64)]]))
    # spec -> code: TLC behaviours of the design models replayed into the real converter (lock-step compared).
    # The up-converter scenarios replay behaviours of BOTH model variants (pinned tree / proposed next_cmd term): every
    # replay is a legal stimulus judged by T_Conv; MODEL-DRIFT is reported only if NEITHER variant is lock-step equal to the code.
    nb, dp = (12, 90) if q else (40, 140)
    nc = 8 if q else 12
    for R in ((2, 4) if q else (2, 4, 8)):
        for orders in ("asc", "any"):
            com = dict(R=R, MaxCmds=nc, Orders=orders, Masks=[0, 1], Flush=True, Stall=True, Lmax=5)
            out.append(dict(name="tlcsim-up%d-%s" % (R, orders), kind="tlcsim", model="up", R=R, num=nb, depth=dp, seed=seed + 11 * R + (orders == "any"),
                            variants=[["pinned", dict(com, Fix=False)], ["fix", dict(com, Fix=True)]]))
        out.append(dict(name="tlcsim-down%d" % R, kind="tlcsim", model="down", R=R, num=nb, depth=dp, seed=seed + 19 * R,
                        variants=[["code", dict(R=R, MaxCmds=nc, Masks=[2 ** R - 1, 1, 2 ** R - 2], Lmax=5)]]))
    out.append(dict(name="tlccex-up2-pinnedmodel", kind="tlccex", model="up", R=2, seed=seed, mc=dict(R=2, MaxCmds=3, Orders="any")))
    only = os.environ.get("C07_ONLY")          # development aid: substring filter
    if only:
        out = [x for x in out if any(y in x["name"] for y in only.split(","))]
    return out


# ------------------------------------------------------------------------------------------------ execution

def _relation(p, c, R, up):
    if not up:
        return "same" if p["a"] == c["a"] else "adjacent" if abs(p["a"] - c["a"]) == 1 else "other"
    if p["a"] // R != c["a"] // R:
        return "other-line"
    d = c["a"] % R - p["a"] % R
    return "inword-asc" if d > 0 else "inword-repeat" if d == 0 else "inword-desc"


def _keys(hdr, cmds):
    up, R = hdr["kind"] == "up", hdr["ratio"]
    ks = set()
    for p, c in zip(cmds, cmds[1:]):
        ks.add((hdr["kind"], R, hdr["mode"], "WR"[not p["we"]] + "WR"[not c["we"]], _relation(p, c, R, up), int(bool(p["last"]))))
    return ks


def _tag(bad, runs):
    """bad: TLC entries [line, clause, ...]; runs: list of (first_line, last_line, header, cmds).  Returns entries
    [clause(+NONASC), line, ...]: the suffix marks clauses of an up-converter execution that come after a pair of consecutive
    same-type commands inside one wide word whose second sub-address is not above the first (first without cmd.last)."""
    out = []
    for b in sorted(bad, key=lambda x: x[0]):
        line, clause, rest = b[0], b[1], b[2:]
        tag = ""
        for lo, hi, hdr, cmds in runs:
            if lo <= line <= hi and hdr["kind"] == "up":
                na = convdut.nonascending_pairs(cmds, hdr["ratio"])
                if na and cmds[na[0]]["line"] <= line:
                    tag = NONASC
        out.append([clause + tag, line] + list(rest))
    return out


def _judge(workdir, runs_raw):
    """runs_raw: list of convdut.run results; writes ONE trace (NEW separators), validates with T_Conv."""
    tf = os.path.join(workdir, "trace.ndjson")
    events, runs = [], []
    line = 1
    for i, r in enumerate(runs_raw):
        if i:
            events.append(dict(c="NEW", **r["header"]))
            line += 1
        lo = line + 1
        for cm in r["cmds"]:
            cm["line"] += line - 1
        events += r["events"]
        line += len(r["events"])
        runs.append((lo, line, r["header"], r["cmds"]))
    tlc.write_ndjson(tf, runs_raw[0]["header"], events)
    v = tlc.validate_trace("T_Conv", tf, workdir)
    if not os.environ.get("VERIF_KEEP"):
        os.remove(tf)
    return v, _tag(v["bad"], runs), len(events)


def _exec_rand(sc, workdir):
    raws = [convdut.run(dict(rc, name="%s/%s" % (sc["name"], rc["name"]))) for rc in sc["runs"]]
    ndiff = 0
    if sc.get("diff_stock") and os.environ.get("VERIF_FASTSIM", "1") != "0":
        # differential guard for the accelerated evaluator: same stimulus on the stock Migen interpreter, identical events
        os.environ["VERIF_FASTSIM"] = "0"
        try:
            for i in sc["diff_stock"]:
                r2 = convdut.run(dict(sc["runs"][i], name="stock"))
                if r2["events"] != raws[i]["events"] or r2["mem_events"] != raws[i]["mem_events"]:
                    raise RuntimeError("accelerated and stock simulator disagree on %s/%s" % (sc["name"], sc["runs"][i]["name"]))
                ndiff += 1
        finally:
            os.environ["VERIF_FASTSIM"] = "1"
    v, bad, nev = _judge(workdir, raws)
    keys, na = set(), 0
    for r in raws:
        keys |= _keys(r["header"], r["cmds"])
        if r["header"]["kind"] == "up":
            na += len(convdut.nonascending_pairs(r["cmds"], r["header"]["ratio"]))
    r0 = raws[0]
    sample = dict(header=r0["header"], runs=[rc["name"] for rc in sc["runs"]], cycles=[r["cycles"] for r in raws],
                  user_cmds=[len(r["cmds"]) for r in raws], mem_cmds=[r["mem_cmds"] for r in raws], final_words=[r["nfinal"] for r in raws],
                  nonascending_pairs=na, first_events=r0["events"][r0["npre"]:r0["npre"] + 6], tlc=v["info"])
    return dict(bad=bad, evaluations=nev, nontrivial=[list(k) for k in sorted(keys)], traces=len(raws), sample=sample,
                stats=dict(cycles=sum(r["cycles"] for r in raws), user_cmds=sum(len(r["cmds"]) for r in raws),
                           mem_cmds=sum(r["mem_cmds"] for r in raws), events=nev, final_words=sum(r["nfinal"] for r in raws),
                           nonascending_pairs=na, executions=len(raws), stock_differential_runs=ndiff))


def _replay(sc, groups, workdir, drift_matters=True):
    """groups: list of (variant name, list of behaviours (parsed TLC states)).  Replays every behaviour into the real
    converter, judges all real traces with T_Conv in one file, compares each replay in lock-step with its model variant."""
    kind, R = sc["model"], sc["R"]
    if kind == "up":
        base = dict(udw=8, mdw=8 * R, mode="both", maw=10, lat=[3, 5], seed=sc.get("seed", 0))
        amap = [5, 1023]
    else:
        base = dict(udw=8 * R, mdw=8, mode="both", maw=10, lat=[3, 5], seed=sc.get("seed", 0))
        amap = [3, (1 << (10 - convdut.log2(R))) - 1]
    raws, keys, per = [], set(), {}
    for vname, sl in groups:
        cyc, mism, first = 0, 0, None
        for i, st in enumerate(sl):
            if len(st) < 3:
                continue
            s2 = dict(base, name="%s/%s#%d" % (sc["name"], vname, i), script=convdut.script_from_behaviour(st, kind, R, amap))
            r = convdut.run(s2)
            n, mm = convdut.lockstep(st, r, kind, R, amap)
            if mm:
                mism += 1
                first = first or dict(behaviour=i, **mm)
            else:
                cyc += n
            raws.append(r)
            keys |= _keys(r["header"], r["cmds"])
        per[vname] = dict(replays=len(sl), lockstep_cycles=cyc, mismatching_replays=mism, first_mismatch=first)
    if not raws:
        raise RuntimeError("TLC produced no behaviour for %s" % sc["name"])
    v, bad, nev = _judge(workdir, raws)
    bound = sorted(k for k, x in per.items() if x["mismatching_replays"] == 0)
    notes = []
    if drift_matters and not bound:
        notes.append("MODEL-DRIFT module=%s scenario=%s no model variant is lock-step equal to the code: %s" % (
            "D_UpConverter" if kind == "up" else "D_DownConverter", sc["name"], json.dumps({k: x["first_mismatch"] for k, x in per.items()})[:400]))
    ls = sum(per[k]["lockstep_cycles"] for k in bound)
    sample = dict(replays=len(raws), variants=per, lockstep_equal_variants=bound, tlc=v["info"])
    return dict(bad=bad, evaluations=nev, nontrivial=[list(k) for k in sorted(keys)], traces=len(raws), sample=sample, notes=notes,
                stats=dict(cycles=sum(r["cycles"] for r in raws), user_cmds=sum(len(r["cmds"]) for r in raws), events=nev,
                           replays=len(raws)),
                lockstep=ls if drift_matters else 0, bound=dict(scenario=sc["name"], variants=bound, all=sorted(per)))


ONLY = {"pend", "flush", "mready", "io", "ncmd"}


def _exec_tlcsim(sc, workdir):
    mod = "MC_UpConverter" if sc["model"] == "up" else "MC_DownConverter"
    groups = []
    for vi, (vname, mc) in enumerate(sc["variants"]):
        cfg = (up_cfg if sc["model"] == "up" else down_cfg)(invariants=False, **{k: (tuple(v) if isinstance(v, list) else v) for k, v in mc.items()})
        d = os.path.join(workdir, "sim%d" % vi)
        shutil.rmtree(d, ignore_errors=True)
        rc, out = tlc.simulate(mod, cfg, d, num=sc["num"], depth=sc["depth"], seed=sc["seed"] + 1 + vi, out_prefix=os.path.join(d, "beh"), timeout=900)
        files = sorted(glob.glob(os.path.join(d, "beh_*")))
        if rc != 0 or not files:
            raise RuntimeError("tlc -simulate failed for %s: %s" % (sc["name"], out[-1500:]))
        sl = []
        for f in files:
            with open(f) as fh:
                sl.append(tlaparse.parse_states(fh.read(), only=ONLY))
        shutil.rmtree(d, ignore_errors=True)
        groups.append((vname, sl))
    return _replay(sc, groups, workdir)


def _exec_tlccex(sc, workdir):
    """Spec -> code: TLC's counter-example to `pinned up-converter model satisfies R_Conv for all orders` becomes a stimulus.
    (Lock-step is informative only here: once the repair is in the tree the code no longer follows the pinned model.)"""
    cfg = up_cfg(**sc["mc"])
    r = tlc.model_check("MC_UpConverter", cfg, os.path.join(workdir, "mc"), workers=2, timeout=900, xmx="4g")
    if r["ok"]:
        raise RuntimeError("expected a counter-example from the pinned up-converter model")
    st = tlaparse.parse_states(r["out"], only=ONLY)
    res = _replay(sc, [("pinned", [st])], workdir, drift_matters=False)
    res["sample"]["model_invariant_violated"] = r["violated"]
    res["sample"]["counterexample_states"] = len(st)
    return res


def execute(sc, workdir):
    kind = sc.get("kind", "rand")
    if kind == "rand":
        return _exec_rand(sc, workdir)
    if kind == "tlcsim":
        return _exec_tlcsim(sc, workdir)
    if kind == "tlccex":
        return _exec_tlccex(sc, workdir)
    raise ValueError(kind)


def finding_key(entry, sc):
    return entry[0]


def post(ctx, results, mresults):
    """Which model variant the tree is bound to (B2), per replay scenario; design_model_bound / lockstep_cycles themselves
    are computed by the runner from `lockstep` and MODEL-DRIFT notes."""
    bound = {r["bound"]["scenario"]: r["bound"]["variants"] for _, r in results if not r.get("error") and r.get("bound")}
    return dict(lockstep_equal_model_variants=bound)


if __name__ == "__main__":
    import sys
    if "--write-cfgs" in sys.argv:
        write_cfgs()
        print("wrote %d cfg files" % len(CFGS))
