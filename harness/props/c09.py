"""C09 -- AXI port: protocol-correct responses and memory semantics (litedram/frontend/axi.py LiteDRAMAXI2Native + LiteX
AXIBurst2Beat).  Requirement: specs/R_AxiMem.tla (from the AXI4 standard), trace spec specs/T_AxiMem.tla, design models
specs/D_Axi2Native.tla (MC_Axi2Native*.cfg) and specs/MC_AxiB2B.tla.  Environment: harness/axienv.py (AXI4 master that holds
VALID+payload until READY, five independent channel processes) in front of the REAL bridge, harness/idealmem.py behind it.

Scenario families (the family is part of the finding key, so that a known finding of one regime never hides a violation in
another):
  std     plain mode inside the regime every configuration must serve: the master has at most `wdepth` write bursts without
          a response (issuing capability) and the native side keeps at most `wdepth` commands waiting for their data phase
  dir     directed mini-programs (back-to-back single-beat writes, WRAP around the boundary for every length/offset, reads
          racing writes to one address, every single-lane strobe, FIXED bursts), batched into one trace, same regime
  rmw     with_read_modify_write=True, same regime, strobes per burst segment either all set or strictly partial
  deep    plain mode, native side lets more than `wdepth` write commands wait for data (slow controller / refresh)
  bstall  plain mode, master stalls BREADY while more than `wdepth` write bursts complete
  rmwmix  read-modify-write mode with full-strobe and partial beats back to back
  rmwlead read-modify-write mode with W data offered before the AW of its burst
"""
import json, os
from .. import tlc, axienv

# Many short JVM runs on a shared machine: keep each JVM's GC thread pool small (inherited by the TLC subprocesses of this check only)
os.environ.setdefault("JAVA_TOOL_OPTIONS", "-XX:ParallelGCThreads=2")
_TRACE_JVM = {"JAVA_TOOL_OPTIONS": "-XX:ParallelGCThreads=2 -XX:TieredStopAtLevel=1"}      # short runs: C1 only

ID = "C09"
LEVEL = "model_checking"
CONFIRM_STOCK = True
RULE = ("random legal AXI4 traffic (FIXED/INCR/WRAP, all lengths up to 40 beats + WRAP 2/4/8/16, full-width and narrow sizes, "
        "aligned and unaligned starts, random IDs/strobes) with independent stall processes on AW, W, B, AR, R and on the native "
        "cmd/wdata/rdata side, plus directed programs, executed on the REAL bridge; every handshake is judged by R_AxiMem under "
        "TLC. Non-trivial case = distinct (direction, burst type, AxLEN, AxSIZE, start lane, wrap offset) header actually "
        "transferred; racy / ordered read beats are counted by the monitor itself (nRacy: more than one value allowed, "
        "nOrdered: a completed write must be observed).")
ASSUMPTIONS = [
    "Migen simulator semantics (violations are re-confirmed on the stock interpreter)",
    "native side = harness/idealmem.py: pulse semantics of the crossbar, data phase >= 3 cycles after the command, in command order",
    "AXI4 master rules: VALID and payload held until READY, WVALID independent of AWREADY, no WID, W beats in AW order; "
    "bursts legal per A3.4.1 (WRAP 2/4/8/16 beats aligned, INCR within 4 KB, FIXED <= 16 beats), addresses >= base_address",
    "supported sizes: every AxSIZE up to the bus width. Decision: the bridge feeds AxSIZE into AXIBurst2Beat and serves each beat "
    "with one full-width native access, so narrow transfers are meant to work (and do, in the std regime); read data is "
    "checked on the active byte lanes only, write strobes are generated inside the active lanes only",
    "different-ID writes that are in flight together are unordered (AXI4 A5/A6); a read must observe every write whose B was "
    "received before ARVALID was asserted and may observe any write that exists when the R beat is transferred",
    "B responses are additionally required in AW order (the bridge documents 'no reordering'); R bursts in AR order",
    "buffer depths >= 2 (stream.SyncFIFO(depth=1) exposes no level: w_buffer_depth=1 can never issue a write; not a property case)",
    "addresses < 2^31 (TLC integers); data widths 32/64/128",
    "D_Axi2Native models with_read_modify_write=False only; the RMW FSM is covered by real-code traces (families rmw*)",
]

FULL = {32: 2, 64: 3, 128: 4}


def _cfg(dw=32, idw=4, wdepth=4, rdepth=4, base=0, rmw=0, nwords=16):
    return dict(dw=dw, idw=idw, wdepth=wdepth, rdepth=rdepth, base=base, rmw=rmw, nwords=nwords)


def _run(cfg, seed, gen=None, prog=None, bready=("rand", 0.3), rready=("rand", 0.3), wlead=0, wmax="depth", mo="depth",
         lat=(3, 12), stall=0.3, max_cycles=None, sweep=True):
    wm = cfg["wdepth"] if wmax == "depth" else wmax
    m = cfg["wdepth"] if mo == "depth" else mo
    if max_cycles is None:      # generous: the slowest profiles need ~25 cycles per burst; a hang is a verdict, slowness is not
        nops = gen["nops"] if gen else len(prog["writes"]) + len(prog["reads"])
        max_cycles = 6000 + 150 * nops
    return dict(cfg=cfg, seed=seed, gen=gen, prog=prog, bready=list(bready), rready=list(rready), wlead=wlead, wmax_out=wm,
                mem=dict(lat=list(lat), stall=stall, max_outstanding=m), max_cycles=max_cycles, sweep=sweep)


def _gen(cfg, nops, **kw):
    g = dict(nops=nops, base=cfg["base"], nwords=cfg["nwords"], dw=cfg["dw"], idw=cfg["idw"], maxlen=5, strb="mixed", pdep=0.3)
    g.update(kw)
    return g


# ------------------------------------------------------------------------------------------------ directed programs
def _w(addr, data, strb, id=0, burst=axienv.INCR, size=2, gap=0, wgap=0, dep=()):
    return dict(id=id, addr=addr, len=len(data) - 1, size=size, burst=burst, data=list(data), strb=list(strb), gap=gap,
                wgap=[wgap] * len(data), dep=[list(d) for d in dep])


def _r(addr, ln, id=0, burst=axienv.INCR, size=2, gap=0, dep=()):
    return dict(id=id, addr=addr, len=ln, size=size, burst=burst, gap=gap, dep=[list(d) for d in dep])


def directed_programs(cfg, seed):
    """list of (label, prog, run-kwargs); 32-bit bus assumed (size 2 = full width)."""
    import random
    rnd = random.Random(seed + 77)
    base, nb = cfg["base"], cfg["dw"] // 8
    full = (1 << nb) - 1
    sz = FULL[cfg["dw"]]
    out = []
    d = lambda: rnd.getrandbits(cfg["dw"])
    # 1. back-to-back single-beat writes to one address, different IDs, then a read after the last B (and one racing)
    ws = [_w(base + 4 * nb, [d()], [full], id=i % (1 << cfg["idw"]), size=sz) for i in range(6)]
    rs = [_r(base + 4 * nb, 0, id=1, size=sz, gap=5), _r(base + 4 * nb, 0, id=2, size=sz, dep=[("B", 5)])]
    out.append(("b2b-single", dict(writes=ws, reads=rs), dict(bready=("always",), rready=("always",), stall=0.0)))
    out.append(("b2b-single-stalled", dict(writes=ws, reads=rs), dict(bready=("wait", 0.7), rready=("wait", 0.7), stall=0.5)))
    # 2. WRAP around the boundary: every length and every start offset, write then read back with WRAP and with INCR
    ws, rs = [], []
    for ln in (1, 3, 7, 15):
        if (ln + 1) > cfg["nwords"]:
            continue
        for off in range(ln + 1):
            k = len(ws)
            a = base + off * nb
            ws.append(_w(a, [d() for _ in range(ln + 1)], [full] * (ln + 1), id=k % (1 << cfg["idw"]), burst=axienv.WRAP, size=sz,
                         dep=[("R", len(rs) - 1)] if rs else ()))
            rs.append(_r(a, ln, id=(k + 1) % (1 << cfg["idw"]), burst=axienv.WRAP, size=sz, dep=[("B", k)]))
            rs.append(_r(base, ln, id=(k + 2) % (1 << cfg["idw"]), burst=axienv.INCR, size=sz, dep=[("B", k)]))
    out.append(("wrap-all", dict(writes=ws, reads=rs), dict()))
    # 3. reads racing writes to one address: AR offered at every distance around the write
    ws, rs = [], []
    for g in range(0, 14):
        k = len(ws)
        ws.append(_w(base + 8 * nb, [d()], [full], id=k % (1 << cfg["idw"]), size=sz, dep=[("R", len(rs) - 1)] if rs else (), gap=6))
        rs.append(_r(base + 8 * nb, 0, id=3, size=sz, dep=[("R", len(rs) - 1)] if rs else (), gap=g))
        rs.append(_r(base + 8 * nb, 0, id=4, size=sz, dep=[("B", k)]))
    out.append(("race", dict(writes=ws, reads=rs), dict(stall=0.2)))
    # 4. every single-lane strobe and its complement, read back after B
    ws, rs = [], []
    for j in range(nb):
        for s in (1 << j, full & ~(1 << j)):
            k = len(ws)
            ws.append(_w(base + (k % cfg["nwords"]) * nb, [d()], [s], id=k % (1 << cfg["idw"]), size=sz))
            rs.append(_r(base + (k % cfg["nwords"]) * nb, 0, id=5 % (1 << cfg["idw"]), size=sz, dep=[("B", k)]))
    out.append(("strobes", dict(writes=ws, reads=rs), dict()))
    # 5. FIXED bursts: several beats with different strobes into one word; INCR burst over the window edge words
    ws, rs = [], []
    for n in (1, 3, 7, 15):
        k = len(ws)
        st = [full if cfg["rmw"] else (rnd.randrange(1, full + 1)) for _ in range(n + 1)]
        ws.append(_w(base + 2 * nb, [d() for _ in range(n + 1)], st, id=k, burst=axienv.FIXED, size=sz))
        rs.append(_r(base + 2 * nb, n, id=k, burst=axienv.FIXED, size=sz, dep=[("B", k)]))
    out.append(("fixed", dict(writes=ws, reads=rs), dict()))
    return out


# ------------------------------------------------------------------------------------------------ scenarios
def scenarios(tier, seed):
    """One scenario = one trace file = one TLC run; it batches several independent executions (runs) of one family."""
    S = []
    q = tier == "quick"
    n = 120 if q else 400
    s0 = seed * 1009

    def add(name, family, runs):
        S.append(dict(name=name, family=family, runs=runs))

    # ---- std: plain mode, regime every configuration must serve
    c1 = _cfg(wdepth=4, rdepth=4)
    c2 = _cfg(wdepth=2, rdepth=2, idw=2)
    c3 = _cfg(wdepth=3, rdepth=5, idw=8)
    add("std-uniform", "std", [_run(c1, s0 + 1, gen=_gen(c1, n)),
                               _run(c2, s0 + 2, gen=_gen(c2, n), bready=("wait", 0.6), rready=("wait", 0.6)),
                               _run(c3, s0 + 3, gen=_gen(c3, n, pdep=0.5), mo=3)])
    c1 = _cfg(wdepth=16, rdepth=16, nwords=32)
    c2 = _cfg(wdepth=8, rdepth=2)
    c3 = _cfg(wdepth=4, rdepth=4)
    add("std-stalls", "std", [_run(c1, s0 + 4, gen=_gen(c1, n, maxlen=1, awgap="b2b", wgap="b2b", argap="b2b", pwrite=0.6),
                                   bready=("always",), rready=("always",), stall=0.0, lat=(3, 5)),
                              _run(c2, s0 + 5, gen=_gen(c2, n, maxlen=3), bready=("block", 150, 120), rready=("wait", 0.85)),
                              _run(c3, s0 + 12, gen=_gen(c3, n, awgap="b2b", wgap="slow", pwrite=0.7), lat=(3, 3), stall=0.0,
                                   bready=("always",))])
    c1 = _cfg(wdepth=4, rdepth=4)
    c2 = _cfg(wdepth=4, rdepth=4)
    c3 = _cfg(wdepth=8, rdepth=8, nwords=64)
    add("std-shapes", "std", [_run(c1, s0 + 6, gen=_gen(c1, n, awgap="slow", wgap="fast"), wlead=3),
                              _run(c2, s0 + 7, gen=_gen(c2, n, narrow=0.6, unaligned=0.4)),
                              _run(c3, s0 + 8, gen=_gen(c3, n // 2, long=0.4, longmax=40, maxlen=15), lat=(3, 6))])
    c1 = _cfg(wdepth=4, rdepth=4, idw=1, nwords=8)
    c2 = _cfg(dw=64, wdepth=4, rdepth=4, base=0x10000000)
    c3 = _cfg(wdepth=5, rdepth=3, base=0x40000000)
    add("std-configs", "std", [_run(c1, s0 + 9, gen=_gen(c1, n, oneid=True, pdep=0.5, maxlen=3)),
                               _run(c2, s0 + 10, gen=_gen(c2, n, narrow=0.2)),
                               _run(c3, s0 + 11, gen=_gen(c3, n), lat=(3, 40), stall=0.7)])
    if not q:
        k = 20
        grp = []
        for dw in (32, 64, 128):
            for (wd, rd) in ((2, 2), (3, 3), (4, 8), (7, 2), (16, 16)):
                for base in (0, 0x1000, 0x40000000):
                    k += 1
                    c = _cfg(dw=dw, wdepth=wd, rdepth=rd, base=base, idw=1 + k % 8, nwords=16 + 16 * (k % 3))
                    prof = [dict(), dict(narrow=0.5, unaligned=0.3), dict(maxlen=1, awgap="b2b", wgap="b2b", argap="b2b"),
                            dict(long=0.3, maxlen=15)][k % 4]
                    grp.append(_run(c, s0 + k, gen=_gen(c, n // 2, **prof), wlead=k % 3,
                                    bready=[("rand", 0.3), ("wait", 0.7), ("block", 90, 60)][k % 3],
                                    rready=[("rand", 0.5), ("always",), ("wait", 0.8)][k % 3], stall=[0.3, 0.0, 0.6][k % 3],
                                    lat=[(3, 12), (3, 4), (5, 30)][k % 3]))
                    if len(grp) == 3:
                        add("std-grid-%d" % k, "std", grp)
                        grp = []
    # ---- dir: directed programs, one trace
    c = _cfg(wdepth=4, rdepth=4, nwords=16)
    add("dir-plain", "dir", [_run(c, s0 + 30 + i, prog=prog, **kw) for i, (_, prog, kw) in enumerate(directed_programs(c, s0))])
    c = _cfg(wdepth=2, rdepth=3, nwords=16, base=0x1000)
    add("dir-plain-d2", "dir", [_run(c, s0 + 40 + i, prog=prog, **kw) for i, (_, prog, kw) in enumerate(directed_programs(c, s0 + 1))])
    # ---- rmw: read-modify-write mode inside its working regime
    c1 = _cfg(wdepth=4, rdepth=4, rmw=1)
    c2 = _cfg(wdepth=2, rdepth=2, rmw=1, idw=2)
    c3 = _cfg(wdepth=8, rdepth=8, rmw=1)
    add("rmw-random", "rmw", [_run(c1, s0 + 50, gen=_gen(c1, n, strb="phased")),
                              _run(c2, s0 + 51, gen=_gen(c2, n * 2 // 3, strb="ppartial", maxlen=3), bready=("wait", 0.5)),
                              _run(c3, s0 + 52, gen=_gen(c3, n * 2 // 3, strb="ppartial", narrow=0.7, unaligned=0.3))])
    c = _cfg(wdepth=4, rdepth=4, rmw=1, nwords=16)
    add("dir-rmw", "rmw", [_run(c, s0 + 60 + i, prog=prog, **kw) for i, (lbl, prog, kw) in enumerate(directed_programs(c, s0 + 2))
                           if lbl in ("strobes", "fixed", "wrap-all")])
    if not q:
        grp = []
        for k, (wd, rd, dw) in enumerate(((3, 3, 32), (16, 16, 64), (5, 2, 128), (2, 7, 32))):
            c = _cfg(dw=dw, wdepth=wd, rdepth=rd, rmw=1, base=[0, 0x1000][k % 2])
            grp.append(_run(c, s0 + 70 + k, gen=_gen(c, n // 2, strb=["phased", "ppartial"][k % 2], narrow=0.2 * (k % 2))))
        add("rmw-grid", "rmw", grp)
    # ---- regimes outside: each exercises one trigger
    c1 = _cfg(wdepth=4, rdepth=4)
    c2 = _cfg(wdepth=3, rdepth=3)
    add("deep", "deep", [_run(c1, s0 + 80, gen=_gen(c1, n, maxlen=1, awgap="b2b", wgap="b2b", pwrite=0.8), bready=("always",),
                              lat=(6, 12), stall=0.05, mo=64, wmax=None, max_cycles=3000 + 40 * n),
                         _run(c2, s0 + 81, gen=_gen(c2, n // 2, maxlen=3, awgap="b2b", wgap="b2b", pwrite=0.8), bready=("always",),
                              lat=(6, 12), stall=0.05, mo=64, wmax=None, max_cycles=2000 + 40 * n)])
    c = _cfg(wdepth=4, rdepth=4)
    add("bstall", "bstall", [_run(c, s0 + 82, gen=_gen(c, n // 2, maxlen=1), bready=("block", 200, 180), lat=(3, 4), wmax=None,
                                  max_cycles=3000 + 60 * n)])
    c = _cfg(wdepth=8, rdepth=8, rmw=1)
    add("rmwmix", "rmwmix", [_run(c, s0 + 83, gen=_gen(c, n // 2, strb="mixed", wgap="b2b"))])
    c = _cfg(wdepth=4, rdepth=4, rmw=1)
    add("rmwlead", "rmwlead", [_run(c, s0 + 84, gen=_gen(c, n // 3, strb="ppartial", awgap="slow", wgap="fast"), wlead=2,
                                    max_cycles=2000 + 40 * n)])
    return S


# ------------------------------------------------------------------------------------------------ execution
def _header_keys(events, nb):
    keys = set()
    for e in events:
        if e.get("c") in ("AW", "AR"):
            sz = 1 << e["size"]
            keys.add((e["c"], axienv.BNAME.get(e["burst"], "?"), e["len"], e["size"], e["addr"] % nb,
                      (e["addr"] // sz) % (e["len"] + 1) if e["burst"] == axienv.WRAP else 0))
    return keys


def execute(sc, workdir):
    lines = []          # NDJSON lines after the header
    header = None
    bounds = []         # (first line number, label) per run
    keys = set()
    cycles = 0
    timeouts = []
    for i, r in enumerate(sc["runs"]):
        cfg = r["cfg"]
        nb = cfg["dw"] // 8
        if r.get("prog") is not None:
            prog = dict(writes=[dict(w) for w in r["prog"]["writes"]], reads=[dict(x) for x in r["prog"]["reads"]])
        else:
            prog = axienv.gen_program(r["gen"], r["seed"])
        if r.get("sweep", True):
            nw = len(prog["writes"])
            dep = ([["B", nw - 1]] if nw else []) + ([["R", len(prog["reads"]) - 1]] if prog["reads"] else [])
            prog["reads"] = prog["reads"] + axienv.sweep_reads(cfg["base"], cfg["nwords"], nb, cfg["idw"], dep=dep)
        run = axienv.AxiRun(cfg, prog, seed=r["seed"], bready=r["bready"], rready=r["rready"], wlead=r["wlead"],
                            max_cycles=r["max_cycles"], mem=r["mem"], wmax_out=r["wmax_out"])
        h, evs = run.run()
        cycles += run.cycle
        timeouts.append(run.timed_out)
        keys |= _header_keys(evs, nb)
        if header is None:
            header = h
        else:
            lines.append(dict(h, c="NEW"))
        bounds.append(len(lines) + 2)
        lines += evs
    tf = os.path.join(workdir, "trace.ndjson")
    tlc.write_ndjson(tf, header, lines)
    mut = os.environ.get("C09_CORRUPT")          # binding demonstration: corrupt one recorded field of the real trace
    if mut:
        _corrupt(tf, mut)
    v = tlc.validate_trace("T_AxiMem", tf, workdir, env=_TRACE_JVM)
    bad = []
    env = []
    for b in v["bad"]:
        ln, clause = b[0], b[1]
        ri = max(i for i, s in enumerate(bounds) if s <= ln) if ln >= bounds[0] else 0
        if isinstance(clause, str) and clause.startswith("ENV:"):
            env.append(b)
        else:
            bad.append([clause, ri] + [x for x in b[2:]][:4] + [ln])
    if env:
        raise RuntimeError("driver broke an AXI rule (machinery failure): %s" % json.dumps(env[:3]))
    for i, to in enumerate(timeouts):
        if to and not any(x[1] == i for x in bad):
            raise RuntimeError("run %d of %s hit max_cycles but the monitor reported nothing (harness problem)" % (i, sc["name"]))
    bad.sort(key=lambda x: x[-1])
    info = v["info"] or {}
    sample = dict(cycles=cycles, lines=v["lines"], info=info, first_bad=bad[:4],
                  first_events=[e for e in lines if e.get("c") not in ("INIT",)][:6])
    if not os.environ.get("VERIF_KEEP"):
        os.remove(tf)
    # one entry per distinct clause is enough for the verdict and keeps the replay files readable
    seen, short = set(), []
    for b in bad:
        if b[0] not in seen:
            seen.add(b[0])
            short.append(b)
    return dict(bad=short, evaluations=v["lines"] - 1, nontrivial=[list(k) for k in sorted(keys)], traces=len(sc["runs"]), sample=sample,
                stats=dict(cycles=cycles, events=v["lines"] - 1, r_beats=info.get("nR", 0), r_beats_racy=info.get("nRacy", 0),
                           r_beats_ordered=info.get("nOrdered", 0), b_responses=info.get("nB", 0), w_beats=info.get("nW", 0),
                           words_dumped=info.get("nDump", 0), clause_instances=len(bad)))


def _corrupt(path, what):
    """C09_CORRUPT=rdata|bid|rlast|drop_b : modify ONE recorded field (used only for the binding demonstration)."""
    with open(path) as f:
        L = [json.loads(x) for x in f]
    idx = [i for i, e in enumerate(L) if e.get("c") == {"rdata": "R", "bid": "B", "rlast": "R", "drop_b": "B"}[what]]
    i = idx[len(idx) // 2]
    if what == "rdata":
        L[i]["d"][0] ^= 0x10
    elif what == "bid":
        L[i]["id"] ^= 1
    elif what == "rlast":
        L[i]["last"] ^= 1
    elif what == "drop_b":
        del L[i]
    with open(path, "w") as f:
        for e in L:
            f.write(json.dumps(e, separators=(",", ":")) + "\n")


def finding_key(entry, sc):
    return "%s:%s" % (sc.get("family", "?"), entry[0])


# ------------------------------------------------------------------------------------------------ design-level models
_BASE = """SPECIFICATION Spec
CONSTANTS
 D = %(D)s
 NW = %(NW)s
 NR = %(NR)s
 MaxLen = %(MaxLen)s
 Lmin = 3
 MaxOut = %(MaxOut)s
 WMaxOut = %(WMaxOut)s
 WLead = 1
 Observe = %(Observe)s
 Bug = "%(Bug)s"
 Fix = "%(Fix)s"
%(inv)s
CHECK_DEADLOCK FALSE
"""
_INV = ["DesignOk", "TypeOk", "WReservation", "RReservation"]


def _mc(label, inv=None, expect=False, workers=4, timeout=900, **kw):
    d = dict(D=2, NW=2, NR=0, MaxLen=1, MaxOut=2, WMaxOut=2, Observe="TRUE", Bug="none", Fix="none")
    d.update(kw)
    d["inv"] = "\n".join("INVARIANT %s" % x for x in (inv or _INV))
    return dict(module="MC_Axi2Native", cfg=_BASE % d, workers=workers, timeout=timeout, label=label, expect_violation=expect)


def models(tier, seed):
    q = tier == "quick"
    M = [dict(module="MC_AxiB2B", cfg="MC_AxiB2B_quick.cfg" if q else "MC_AxiB2B_thorough.cfg", workers=2, timeout=900,
              label="AXIBurst2Beat recurrence = AXI4 beat addresses (all legal headers of the domain)"),
         # the bridge inside the regime, observed by R_AxiMem (same monitor as the real-code traces)
         _mc("D_Axi2Native write path D=2, 2 bursts x <=2 beats, R_AxiMem observer", NW=2),
         _mc("D_Axi2Native write+read (arbiter) D=2, 1+1 bursts" + ("" if q else ", R_AxiMem observer"), NW=1, NR=1,
             Observe="FALSE" if q else "TRUE"),
         # negative control: seeded model bug must be found
         _mc("NEGATIVE CONTROL can_write uses >= (command without buffered data)", NW=2, Bug="can_write_ge", expect=True, workers=2),
         # vacuity: the traffic completes (every handshake kind reachable); more goals in the thorough tier
         _mc("COVER all traffic completes (1 write + 1 read burst)", NW=1, NR=1, Observe="FALSE", inv=["CoverDone"], expect=True, workers=2),
         # the model of the code AS IT IS leaves the regime: TLC reproduces the findings of families deep / bstall
         _mc("FINDING id_buffer overflow with D+1 write commands waiting (model of the unpatched code)", NW=3, MaxLen=0, MaxOut=3,
             WMaxOut=3, Observe="FALSE", expect=True, workers=2),
         # the proposed patch removes them for an unrestricted environment
         _mc("proposed fix, unrestricted native side and master, D=2, 3 single-beat bursts", NW=3, MaxLen=0, MaxOut=4, WMaxOut=4,
             Observe="FALSE", Fix="proposed", workers=2)]
    if not q:
        M += [_mc("D_Axi2Native read path D=2, 2 bursts x <=2 beats, R_AxiMem observer", NW=0, NR=2, workers=2),
              _mc("FINDING w_buffer_level wraps at D=3 (model of the unpatched code)", D=3, NW=1, MaxLen=3, MaxOut=4, WMaxOut=4,
                  Observe="FALSE", expect=True, workers=2),
              _mc("FINDING resp_buffer overflow when B is stalled (model of the unpatched code)", NW=3, MaxLen=0, WMaxOut=3,
                  Observe="FALSE", expect=True, workers=2),
              _mc("D_Axi2Native write path D=2, 3 bursts x <=2 beats", NW=3, Observe="FALSE", workers=4, timeout=1100),
              _mc("D_Axi2Native write+read D=2, 2+1 bursts, R_AxiMem observer", NW=2, NR=1, workers=8, timeout=1100),
              _mc("D_Axi2Native write path D=3 inside the regime, 2 bursts x <=3 beats", D=3, NW=2, MaxLen=2, MaxOut=3, WMaxOut=3,
                  Observe="FALSE", workers=4, timeout=1100),
              _mc("D_Axi2Native read path D=3, 2 bursts x <=4 beats, R_AxiMem observer", D=3, NW=0, NR=2, MaxLen=3, MaxOut=3, workers=4,
                  timeout=1100),
              _mc("NEGATIVE CONTROL response queued at the last command instead of the last data", NW=2, Bug="resp_on_cmd", expect=True),
              _mc("NEGATIVE CONTROL can_read uses <= (reservation off by one)", NW=0, NR=2, MaxLen=2, MaxOut=3, Bug="can_read_le", expect=True),
              _mc("proposed fix, unrestricted native side and master, D=3", D=3, NW=1, MaxLen=3, MaxOut=5, WMaxOut=5, Observe="FALSE",
                  Fix="proposed"),
              _mc("proposed fix, unrestricted environment, D=2, 3 bursts x <=2 beats", NW=3, MaxOut=4, WMaxOut=4, Observe="FALSE",
                  Fix="proposed", workers=4, timeout=1100)]
        for g, kw in (("CoverWFull", dict(NW=2)), ("CoverRLimit", dict(NW=0, NR=2)), ("CoverSwitchMidBurst", dict(NW=1, NR=1)),
                      ("CoverRespFull", dict(NW=2)), ("CoverIdFull", dict(NW=2)), ("CoverWLead", dict(NW=2))):
            M.append(_mc("COVER " + g, Observe="FALSE", inv=[g], expect=True, workers=2, **kw))
    return M


def post(ctx, results, mresults):
    fams = {}
    for sc, r in results:
        if not r.get("error"):
            fams[sc["family"]] = fams.get(sc["family"], 0) + 1
    return dict(families=fams, exhaustive=False)
