"""C15 -- ECC port corrects any single and flags any double bit error.  R-spec: specs/R_Ecc.tla via T_Ecc.tla.

Fault enumeration on the REAL LiteDRAMNativePortECC netlist: write through port_from, flip stored bits in the ideal
memory behind port_to, read back through port_from, record (data, flip sets, returned data, sec/ded counters and
sticky flags, granularity-error counter).  TLC validates every record against R_Ecc and checks the cover condition.
The flip domain itself is enumerated by TLC (MC_EccGen.tla, operators Singles/Pairs of R_Ecc): spec -> code."""
import json, os, random
from .. import env, tlc, levelsim
from ..idealmem import IdealMem, tobytes

ID = "C15"
LEVEL = "fault_enumeration"
CONFIRM_STOCK = True
RULE = ("per configuration (data bits k per ECC word, stored lane width, lanes = burst cycles): every single stored-bit flip "
        "of every lane in isolation, every pair of stored bits of an ECC word in isolation (rotating over the lanes in the "
        "quick tier, on every lane in the thorough tier) and again in parallel on all lanes, mixed single+double words, "
        "clean reads, each with several data words (zeros, ones, walking, checkerboard, random); byte-enable patterns "
        "(full, none, every single byte off/on, whole lanes off, random). The flip domain is produced by TLC from R_Ecc "
        "and TLC checks that the records cover it. Non-trivial = distinct (config, lane, flip set) with a non-empty flip "
        "set, or distinct (config, byte-enable pattern) that is not the full pattern.")
ASSUMPTIONS = [
    "Migen simulator semantics; the levelised evaluator (harness/levelsim.py) is compared with the stock interpreter on a "
    "sample in every run and every violation is re-confirmed on the stock interpreter",
    "compat shim (harness/shim.py): CSR names and CSR.wr_stb = re; the clear strobe is driven on ecc.clear.re",
    "memory behind port_to = harness/idealmem.py (pulse semantics of the crossbar, latency >= 3); the user keeps "
    "rdata.ready = 1 and offers write data together with the command",
    "an ECC word = the CodeBits(k) low bits of each stored lane (bits above it in a wider lane are never flipped)",
    "which stored bit is the overall parity bit is not assumed: at most one single-flip position per lane may go uncounted",
    "counts: one read of one port word counts between 1 and (number of faulty ECC words) errors of a kind",
    "data words are sampled (code linearity), flip sets are exhaustive; ECC decoding stays enabled (reset value)",
]

GAP = 3          # settle cycles between the read data and sampling the counters


def _cfgname(c):
    return "k%dw%dx%d" % (c["k"], c["wto"], c["bc"])


def _configs(tier):
    q = [dict(k=8, wto=13, bc=8), dict(k=8, wto=16, bc=8), dict(k=16, wto=22, bc=8), dict(k=32, wto=39, bc=8),
         dict(k=64, wto=72, bc=8), dict(k=8, wto=16, bc=1), dict(k=16, wto=24, bc=1), dict(k=32, wto=40, bc=1),
         dict(k=64, wto=72, bc=1)]
    if tier == "quick":
        return q
    return q + [dict(k=16, wto=24, bc=8), dict(k=32, wto=40, bc=8), dict(k=16, wto=24, bc=2), dict(k=32, wto=40, bc=4),
                dict(k=64, wto=72, bc=2), dict(k=8, wto=16, bc=4)]


def codebits(k):
    m = 1
    while 2 ** m < m + k + 1:
        m += 1
    return k + m + 1


def _pair_chunks(n1, nch):
    """split 0..n1-2 (smaller position of a pair) into nch ranges holding about the same number of pairs"""
    npairs = n1 * (n1 - 1) // 2
    bounds, acc, lo = [], 0, 0
    for a in range(n1 - 1):
        acc += n1 - 1 - a
        if acc >= npairs / nch or a == n1 - 2:
            bounds.append((lo, a))
            lo, acc = a + 1, 0
    return bounds


def scenarios(tier, seed):
    out = []
    thorough = tier == "thorough"
    for ci, c in enumerate(_configs(tier)):
        # cases per scenario, scaled by netlist size (cycles/s of the simulation fall with k*lanes)
        target = (2500 if thorough else 800) / max(0.25, c["k"] * c["bc"] / 512.0)
        n1 = codebits(c["k"])          # only used to size the chunks; TLC recomputes it (CodeBits) for the verdict
        name = _cfgname(c)
        big = c["k"] * c["bc"] >= 256
        base = dict(c, seed=seed * 1009 + ci)
        npairs = n1 * (n1 - 1) // 2
        # all single positions of a lane stay in ONE trace (the "at most one uncounted position per lane" clause needs them together)
        S = dict(kind="S", words=(4 if thorough else (2 if big else 3)))
        W = dict(kind="W", nrandom=(60 if thorough else 20))
        pw = 2 if thorough else 1
        sS = n1 * c["bc"] * S["words"] + 2 * n1
        sP = npairs * (c["bc"] if thorough else 1) * pw + npairs // c["bc"]
        if sS + sP <= target:
            out.append(dict(base, name=name + "-all", parts=[S, W, dict(kind="P", plo=0, phi=n1 - 2, all_lanes=thorough, words=pw)],
                            timing=dict(lat=[3, 6], stall=0.15), clear_every=5))
            continue
        # singles: all positions of a lane stay in one trace; lanes may be spread over several traces
        ns = max(1, min(c["bc"], round(sS / target)))
        per = -(-c["bc"] // ns)
        for j, lo in enumerate(range(0, c["bc"], per)):
            hi = min(c["bc"], lo + per) - 1
            out.append(dict(base, name="%s-singles%d" % (name, j), seed=base["seed"] * 17 + j,
                            parts=[dict(S, lanes=[lo, hi])] + ([W] if j == 0 else []),
                            timing=dict(lat=[3, 3], stall=0.0), clear_every=5))
        for j, (plo, phi) in enumerate(_pair_chunks(n1, max(1, round(sP / target)))):
            slow = (j % 3 == 1)
            out.append(dict(base, name="%s-pairs%d" % (name, j), seed=base["seed"] * 31 + j,
                            parts=[dict(kind="P", plo=plo, phi=phi, all_lanes=thorough, words=pw)],
                            timing=dict(lat=[3, 9], stall=0.3) if slow else dict(lat=[3, 3], stall=0.0),
                            clear_every=(1 if j % 2 else 7)))
    # evaluator differential: same small scenario on the levelised evaluator and on Migen's stock interpreter
    out.append(dict(k=8, wto=16, bc=2, seed=seed + 77, name="evaluator-differential", diff=True,
                    parts=[dict(kind="P", plo=0, phi=1, all_lanes=False, words=1), dict(kind="S", words=1), dict(kind="W", nrandom=3)],
                    timing=dict(lat=[3, 7], stall=0.3), clear_every=3))
    return out


# ------------------------------------------------------------------------------------------------------------------

_DOMCACHE = {}


def _domain(k, workdir):
    """TLC enumerates the flip domain from R_Ecc (spec -> code): all singles and all pairs of one ECC word."""
    if k in _DOMCACHE:
        return _DOMCACHE[k]
    shared = os.path.join(os.path.dirname(os.path.abspath(workdir)), "c15_domain_k%d.json" % k)
    if not os.path.exists(shared):
        of = os.path.join(workdir, "domain_k%d.json" % k)
        os.makedirs(workdir, exist_ok=True)
        r = tlc.model_check("MC_EccGen", "INIT Init\nNEXT Next\n", workdir, workers=1, timeout=300, xmx="1g",
                            env={"K": str(k), "PLO": "0", "PHI": str(codebits(k) - 2), "OUT_FILE": of})
        if not r["ok"]:
            raise RuntimeError("MC_EccGen failed: " + r["out"][-2000:])
        os.replace(of, shared)          # scenarios of the same configuration share it within one run (work dir is per run)
    with open(shared) as f:
        d = json.load(f)
    singles = sorted(sorted(x) for x in d["singles"])
    pairs = sorted(sorted(x) for x in d["pairs"])
    _DOMCACHE[k] = (d["n1"], singles, pairs)
    return _DOMCACHE[k]


def _word(rnd, i, nbits):
    sel = i % 8
    full = (1 << nbits) - 1
    if sel == 0:
        return rnd.getrandbits(nbits)
    if sel == 1:
        return 0
    if sel == 2:
        return full
    if sel == 3:
        return 1 << rnd.randrange(nbits)
    if sel == 4:
        return full ^ (1 << rnd.randrange(nbits))
    if sel == 5:
        return int("aa" * (nbits // 8), 16)
    if sel == 6:
        return int("55" * (nbits // 8), 16)
    return rnd.getrandbits(nbits)


def _cases(sc, n1, singles, pairs_all):
    rnd = random.Random(sc["seed"] * 7919 + 3)
    bc, nb = sc["bc"], sc["k"] * sc["bc"]
    cases = []

    def rd(F):
        cases.append(dict(kind="RD", data=_word(rnd, len(cases) + rnd.randrange(8), nb), F=F))

    def iso(lane, f):
        return [list(f) if i == lane else [] for i in range(bc)]
    for part in sc["parts"]:
        kind = part["kind"]
        if kind == "S":
            slo, shi = part.get("lanes", [0, bc - 1])
            for w in range(part["words"]):
                for lane in range(slo, shi + 1):
                    for f in singles:
                        rd(iso(lane, f))
            if bc > 1:
                for f in singles:                                   # same position on all lanes at once
                    rd([list(f) for _ in range(bc)])
                for _ in range(max(8, n1)):                         # different positions per lane
                    rd([list(rnd.choice(singles)) for _ in range(bc)])
            for _ in range(16):                                     # clean reads
                rd([[] for _ in range(bc)])
        elif kind == "P":
            pairs = [f for f in pairs_all if part["plo"] <= f[0] <= part["phi"]]
            lanes = list(range(bc))
            for w in range(part["words"]):
                for j, f in enumerate(pairs):
                    for lane in (lanes if part["all_lanes"] else [(j + w + sc["seed"]) % bc]):
                        rd(iso(lane, f))
            if bc > 1:
                sh = pairs[:]
                rnd.shuffle(sh)
                for j in range(0, len(sh), bc):                     # a different pair on every lane at once
                    grp = sh[j:j + bc]
                    while len(grp) < bc:
                        grp.append(rnd.choice(pairs))
                    rd([list(f) for f in grp])
                for _ in range(max(6, len(pairs) // 16)):           # mixed: clean / single / double lanes
                    rd([sorted(rnd.sample(range(n1), rnd.choice([0, 1, 2]))) for _ in range(bc)])
            for _ in range(8):
                rd([[] for _ in range(bc)])
        elif kind == "W":
            nwe = nb // 8
            full = (1 << nwe) - 1
            lb = sc["k"] // 8
            pats = [full, 0, full, full]
            pats += [full ^ (1 << j) for j in range(nwe)]
            pats += [1 << j for j in range(nwe)]
            for lane in range(bc):
                lm = ((1 << lb) - 1) << (lane * lb)
                pats += [full ^ lm, lm]
            for _ in range(part["nrandom"]):
                pats.append(rnd.getrandbits(nwe))
                pats.append(full)
            for pt in pats:
                cases.append(dict(kind="WE", data=_word(rnd, rnd.randrange(8), nb), we=pt))
        else:
            raise ValueError(kind)
    rnd.shuffle(cases)
    return cases


def _build(sc):
    from migen import Module
    from litedram.common import LiteDRAMNativePort
    from litedram.frontend.ecc import LiteDRAMNativePortECC

    class DUT(Module):
        def __init__(self):
            self.port_from = LiteDRAMNativePort("both", 24, sc["k"] * sc["bc"])
            self.port_to = LiteDRAMNativePort("both", 24, sc["wto"] * sc["bc"])
            self.submodules.ecc = LiteDRAMNativePortECC(self.port_from, self.port_to, burst_cycles=sc["bc"],
                                                        with_error_injection=False, with_we_error_detection=True)
    return DUT()


def _run(sc, cases, batch=12):
    """Drive the real netlist through `cases`; return the list of event records (one per case) + cycle count."""
    from migen import passive
    dut = _build(sc)
    ecc, p = dut.ecc, dut.port_from
    k, wto, bc = sc["k"], sc["wto"], sc["bc"]
    nb = k * bc
    mem = IdealMem([dut.port_to], seed=sc["seed"], lat=tuple(sc["timing"]["lat"]), stall=sc["timing"]["stall"])
    rnd = random.Random(sc["seed"] * 31 + 5)
    events = []
    state = dict(wdata_seen=0, lost=0, since_clear=0)
    LIMIT = 4000

    def sample():
        return dict(s=(yield ecc.sec_errors.status), d=(yield ecc.ded_errors.status), w=(yield ecc.we_errors.status),
                    sf=(yield ecc.sec_detected), df=(yield ecc.ded_detected))

    def mem_progress():
        # account for the memory's log: WDATA = stored, WDROP = strobe without data (the word is lost)
        n = 0
        for e in mem.events[state.get("evpos", 0):]:
            if e[3]["c"] == "WDATA":
                n += 1
            elif e[3]["c"] == "WDROP":
                state["lost"] += 1
                events.append(dict(c="LOST", what="WDROP", t=e[0]))
                n += 1
        state["evpos"] = len(mem.events)
        state["wdata_seen"] += n

    def write(addr, data, we, issued):
        yield p.cmd.valid.eq(1)
        yield p.cmd.we.eq(1)
        yield p.cmd.addr.eq(addr)
        yield p.wdata.valid.eq(1)
        yield p.wdata.data.eq(data)
        yield p.wdata.we.eq(we)
        cd = wd = False
        n = 0
        while not (cd and wd):
            yield
            n += 1
            if n > LIMIT:
                raise RuntimeError("write not accepted (%s)" % sc["name"])
            if not cd and (yield p.cmd.ready):
                cd = True
                yield p.cmd.valid.eq(0)
            if not wd and (yield p.wdata.ready):
                wd = True
                yield p.wdata.valid.eq(0)
        issued[0] += 1

    def wait_stored(issued):
        n = 0
        while True:
            mem_progress()
            if state["wdata_seen"] >= issued[0]:
                return
            yield
            n += 1
            if n > LIMIT:
                raise RuntimeError("write data never taken by the memory (%s)" % sc["name"])

    def read(addr):
        yield p.cmd.valid.eq(1)
        yield p.cmd.we.eq(0)
        yield p.cmd.addr.eq(addr)
        n = 0
        while True:
            yield
            n += 1
            if n > LIMIT:
                raise RuntimeError("read not accepted (%s)" % sc["name"])
            if (yield p.cmd.ready):
                break
        yield p.cmd.valid.eq(0)
        while not (yield p.rdata.valid):
            yield
            n += 1
            if n > LIMIT:
                raise RuntimeError("no read data (%s)" % sc["name"])
        return (yield p.rdata.data)

    def clear():
        yield ecc.clear.re.eq(1)
        yield
        yield ecc.clear.re.eq(0)
        yield
        state["since_clear"] = 0

    def lanes_bytes(v):
        return [tobytes((v >> (i * k)) & ((1 << k) - 1), k // 8) for i in range(bc)]

    def main():
        issued = [0]
        yield p.rdata.ready.eq(1)
        yield
        i = 0
        while i < len(cases):
            grp = [c for c in cases[i:i + batch]]
            i += len(grp)
            rds = [c for c in grp if c["kind"] == "RD"]
            addrs = rnd.sample(range(1 << 24), len(grp))
            amap = {id(c): a for c, a in zip(grp, addrs)}
            # ---- full writes of all RD cases of the batch, then the flips ----
            for c in rds:
                yield from write(amap[id(c)], c["data"], (1 << (nb // 8)) - 1, issued)
            yield from wait_stored(issued)
            for c in rds:
                a = amap[id(c)]
                mask = 0
                for lane, f in enumerate(c["F"]):
                    for pos in f:
                        mask ^= 1 << (lane * wto + pos)
                mem.mem[a] = mem.read(a) ^ mask
            for c in grp:
                if state["since_clear"] >= sc["clear_every"]:
                    yield from clear()
                state["since_clear"] += 1
                if c["kind"] == "RD":
                    b = yield from sample()
                    got = yield from read(amap[id(c)])
                    for _ in range(GAP):
                        yield
                    a = yield from sample()
                    events.append(dict(c="RD", id=c["idx"], wd=lanes_bytes(c["data"]), rd=lanes_bytes(got), F=c["F"],
                                       s0=b["s"], s1=a["s"], d0=b["d"], d1=a["d"], sf0=b["sf"], sf1=a["sf"],
                                       df0=b["df"], df1=a["df"], w0=b["w"], w1=a["w"]))
                else:
                    b = yield from sample()
                    yield from write(amap[id(c)], c["data"], c["we"], issued)
                    yield from wait_stored(issued)
                    for _ in range(GAP):
                        yield
                    a = yield from sample()
                    lb = k // 8
                    events.append(dict(c="WE", id=c["idx"], w0=b["w"], w1=a["w"],
                                       we=[[(c["we"] >> (lane * lb + j)) & 1 for j in range(lb)] for lane in range(bc)]))
        for _ in range(4):
            yield

    sim = levelsim.run_simulation(dut, [main(), passive(mem.process)()])
    return events, mem.cycle, sim


def _records(sc, workdir):
    n1, singles, pairs = _domain(sc["k"], workdir)
    cases = _cases(sc, n1, singles, pairs)
    for i, c in enumerate(cases):
        c["idx"] = i
    hint = sc.get("confirm_hint")
    if hint:
        cases = [c for c in cases if c["idx"] in set(hint)]
    return n1, cases


def execute(sc, workdir):
    os.makedirs(workdir, exist_ok=True)
    n1, cases = _records(sc, workdir)
    hint = sc.get("confirm_hint")
    events, cycles, sim = _run(sc, cases)
    if sc.get("diff") and env.fastsim_enabled():
        # same cases on Migen's stock interpreter: the records must be identical
        prev = os.environ.get("VERIF_FASTSIM")
        os.environ["VERIF_FASTSIM"] = "0"
        try:
            ev2, cyc2, _ = _run(sc, [dict(c) for c in cases])
        finally:
            if prev is None:
                del os.environ["VERIF_FASTSIM"]
            else:
                os.environ["VERIF_FASTSIM"] = prev
        if ev2 != events or cyc2 != cycles:
            raise RuntimeError("levelised evaluator and stock interpreter disagree on %s" % sc["name"])
        if sim is None or not getattr(sim, "levelised", False):
            raise RuntimeError("levelised evaluator fell back: %s" % getattr(sim, "why_not", "?"))
    pp = [p for p in sc["parts"] if p["kind"] == "P"]
    assert len(pp) <= 1
    sp = [p for p in sc["parts"] if p["kind"] == "S"]
    assert len(sp) <= 1
    needS = bool(sp) and not hint
    slo, shi = sp[0].get("lanes", [0, sc["bc"] - 1]) if sp else (0, sc["bc"] - 1)
    plo, phi, allL = (pp[0]["plo"], pp[0]["phi"], pp[0]["all_lanes"]) if pp and not hint else (1, 0, False)
    header = dict(k=sc["k"], lanes=sc["bc"], wto=sc["wto"], needS=bool(needS), slo=slo, shi=shi, allLanes=bool(allL), plo=plo, phi=phi,
                  name=sc["name"])
    tf = os.path.join(workdir, "trace.ndjson")
    tlc.write_ndjson(tf, header, events + [dict(c="END")])
    v = tlc.validate_trace("T_Ecc", tf, workdir, xmx="4g")
    info = v["info"]
    if info["envbad"]:
        raise RuntimeError("harness produced malformed records: %s" % info["envbad"][:3])
    if not hint and not (info["coverS"] and info["coverP"]):
        raise RuntimeError("cover condition not met in %s (coverS=%s coverP=%s)" % (sc["name"], info["coverS"], info["coverP"]))
    if info["n1"] != n1:
        raise RuntimeError("CodeBits mismatch")
    bad = [b[2:] + [b[0]] for b in v["bad"]]           # [clause, ..., line]
    lines = sorted({b[0] for b in v["bad"]})
    ids = []
    for ln in lines:
        e = (events + [dict(c="END")])[ln - 2]
        if "id" in e:
            ids.append(e["id"])
        elif e["c"] == "END":
            for b in v["bad"]:
                if b[0] == ln:
                    lane, poss = b[3], set(b[4])
                    for ev in events:
                        if ev["c"] == "RD" and sum(1 for f in ev["F"] if f) == 1 and len(ev["F"][lane]) == 1 \
                                and ev["F"][lane][0] in poss and ev["s1"] == ev["s0"]:
                            ids.append(ev["id"])
    nontriv = []
    cname = _cfgname(sc)
    for e in events:
        if e["c"] == "RD":
            ne = [(i, f) for i, f in enumerate(e["F"]) if f]
            if len(ne) == 1:
                nontriv.append("%s/l%d/%s" % (cname, ne[0][0], ",".join(map(str, ne[0][1]))))
            elif ne:
                nontriv.append("%s/multi/%s" % (cname, ";".join(",".join(map(str, f)) for f in e["F"])))
        elif e["c"] == "WE" and not all(all(x) for x in e["we"]):
            nontriv.append("%s/we/%s" % (cname, "".join(str(b) for ln in e["we"] for b in ln)))
    if not os.environ.get("VERIF_KEEP"):
        os.remove(tf)
    cnt = info["cnt"]
    sample = dict(cfg=header, n1=n1, cycles=cycles, counts=cnt, isolated=info["isolated"], uncounted=info["uncounted"],
                  first_records=events[:2])
    return dict(bad=bad, confirm_hint=(sorted(set(ids))[:2] if ids else None), evaluations=cnt["rd"] + cnt["we"],
                nontrivial=nontriv, traces=1, sample=sample,
                stats=dict(cycles=cycles, rd=cnt["rd"], we=cnt["we"], clean=cnt["clean"], isolated_single=cnt["single"],
                           isolated_double=cnt["double"], multi_lane=cnt["multi"], lost=sum(1 for e in events if e["c"] == "LOST")),
                cover=dict(cfg=cname, diff=bool(sc.get("diff")), n1=n1, lanes=sc["bc"], needS=bool(needS), slo=slo, shi=shi, plo=plo, phi=phi, all_lanes=bool(allL),
                           coverS=info["coverS"], coverP=info["coverP"]))


def finding_key(entry, sc):
    return str(entry[0])


def models(tier, seed):
    """D_Ecc: the SECDED construction, ALL data words x ALL flip sets of <= 2 stored bits, judged by RdJudge of R_Ecc."""
    ms = [dict(module="MC_Ecc", cfg="MC_Ecc_k4.cfg", workers=2, timeout=1800, label="D_Ecc k=4 all data x all flips<=2", xmx="2g"),
          dict(module="MC_Ecc", cfg="MC_Ecc_k8.cfg", workers=4, timeout=3000, label="D_Ecc k=8 all data x all flips<=2", xmx="4g"),
          dict(module="MC_Ecc", cfg="MC_Ecc_neg.cfg", workers=2, timeout=1800, label="D_Ecc negative control (no overall-parity check)",
               expect_violation=True, xmx="2g")]
    if tier == "thorough":
        ms.append(dict(module="MC_Ecc", cfg="MC_Ecc_k11.cfg", workers=8, timeout=6000, label="D_Ecc k=11 all data x all flips<=2", xmx="8g"))
    return ms


def post(ctx, results, mresults):
    """exhaustive = for every configuration all singles (every lane) and all pairs 0..n1-1 were certified by TLC's cover check"""
    per = {}
    for sc, r in results:
        if r.get("error") or "cover" not in r or r["cover"]["diff"]:
            continue
        c = r["cover"]
        d = per.setdefault(c["cfg"], dict(n1=c["n1"], S=False, slanes=set(), nlanes=c["lanes"], ranges=[], all_lanes=True))
        if c["needS"] and c["coverS"]:
            d["slanes"] |= set(range(c["slo"], c["shi"] + 1))
            d["S"] = d["slanes"] >= set(range(d["nlanes"]))
        if c["plo"] <= c["phi"] and c["coverP"]:
            d["ranges"].append((c["plo"], c["phi"]))
            d["all_lanes"] = d["all_lanes"] and c["all_lanes"]
    ok, detail = bool(per), {}
    for name, d in per.items():
        covered = set()
        for lo, hi in d["ranges"]:
            covered |= set(range(lo, hi + 1))
        full = covered >= set(range(d["n1"] - 1))
        detail[name] = dict(code_bits=d["n1"], singles_all_lanes=d["S"], pairs_all=full, pairs_on_every_lane=bool(d["all_lanes"] and full),
                            flip_sets=d["n1"] + d["n1"] * (d["n1"] - 1) // 2)
        ok = ok and d["S"] and full
    expected = {_cfgname(c) for c in _configs(ctx["tier"])}
    ok = ok and expected <= set(per)
    return dict(exhaustive=ok, exhaustive_scope="all single and all double stored-bit flips of an ECC word, per configuration; data words sampled",
                configs=detail)
