"""C14 -- BIST reports exactly the words that differ.  R-spec: specs/R_Bist.tla via T_Bist.tla.

The REAL generator / checker (CSR-less cores and, through the shim, the CSR wrappers; native and AXI ports; one
clock-domain-crossing wrapper) run over an ideal memory; corruption sets are injected between generator and checker
runs; port traffic + done / errors / ticks are recorded and TLC judges every session.  The grid of settings is
enumerated by TLC from the property's assumptions (MC_BistGen.tla, LegalSetting of R_Bist): spec -> code."""
import json, os, random
from .. import env, tlc
from ..idealmem import IdealMem, tobytes
from ..aximem import AxiMem

ID = "C14"
LEVEL = "exploration"
CONFIRM_STOCK = True
RULE = ("sessions = (variant: core/CSR wrapper/CDC wrapper x native/AXI port, data width, memory timing, setting) with the "
        "setting drawn (seeded, stratified over length <,=,> range and the four random flags) from the grid TLC enumerates "
        "under the property's assumptions; per session one generator run and several checker runs, each after injecting a "
        "corruption set: none, every single written location (all of them for short runs), random k-subsets, all locations, "
        "locations outside the written set, rewrites with the same value, swaps of two written words. Non-trivial = distinct "
        "(variant, width, setting, corruption set) with a non-empty corruption set or a repeating address sequence.")
ASSUMPTIONS = [
    "Migen simulator semantics (accelerated evaluator; violations are re-confirmed on the stock interpreter)",
    "compat shim (harness/shim.py) for the CSR wrappers: CSR names, CSR.wr_stb = re",
    "base, end and length are byte quantities (docstrings: 'DRAM address'); base and length are multiples of the port word, "
    "end - base is a power of two and at least one word, length >= one word (LegalSetting in R_Bist.tla)",
    "memory: harness/idealmem.py (native, pulse semantics, latency >= 3) or harness/aximem.py (AXI, single beats)",
    "reset is pulsed before every run, settings are stable during a run; with the clock-domain-crossing wrapper the "
    "driver waits 24 cycles after reset and after start before it polls done (status crosses the domains with a lag)",
    "random ADDRESS sequences are not pinned to PRBS31, only to [base, end) and to generator/checker agreement; "
    "random DATA is pinned to PRBS31 as documented in the code (x^31+x^28+1, inverted, zero start, 31 shifts/word)",
    "ticks is recorded but nothing is required of it",
]

VARIANTS = {
    "core-native": dict(ctl="core", port="native"),
    "csr-native": dict(ctl="csr", port="native"),
    "core-axi": dict(ctl="core", port="axi"),
    "csr-axi": dict(ctl="csr", port="axi"),
    "cdc-native": dict(ctl="csr", port="native", cd="bist"),
}


def scenarios(tier, seed):
    th = tier == "thorough"
    out = []
    plan = [("core-native", 8), ("core-native", 32), ("core-native", 64), ("core-native", 128), ("core-native", 256),
            ("csr-native", 16), ("csr-native", 32), ("core-axi", 32), ("core-axi", 64), ("core-axi", 128), ("csr-axi", 32),
            ("cdc-native", 32), ("core-native", 16), ("core-axi", 8), ("csr-native", 128), ("core-native", 512)]
    if th:
        plan += [("csr-native", 8), ("csr-native", 64), ("csr-axi", 64), ("csr-axi", 256), ("core-axi", 16), ("core-axi", 256),
                 ("cdc-native", 64), ("cdc-native", 8), ("core-native", 32), ("core-native", 64), ("core-axi", 32), ("core-axi", 512)]
    timings = [dict(lat=[3, 3], stall=0.0), dict(lat=[3, 12], stall=0.3), dict(lat=[3, 6], stall=0.6), dict(lat=[8, 20], stall=0.1)]
    for i, (v, dw) in enumerate(plan):
        out.append(dict(name="%s-%d-%d" % (v, dw, i), variant=v, dw=dw, seed=seed * 977 + i, timing=timings[i % len(timings)],
                        sessions=(40 if th else 12), single_all_upto=(48 if th else 16), budget=(40000 if th else 8000)))
    # evaluator differential: one small scenario on the accelerated evaluator and on Migen's stock interpreter
    out.append(dict(name="evaluator-differential", variant="csr-native", dw=32, seed=seed + 5, timing=timings[1], sessions=3,
                    single_all_upto=4, budget=1500, diff=True))
    return out


# ------------------------------------------------------------------------------------------------------------------

def _grid(bpw, workdir):
    shared = os.path.join(os.path.dirname(os.path.abspath(workdir)), "c14_grid_bpw%d.json" % bpw)
    if not os.path.exists(shared):
        of = os.path.join(workdir, "grid_bpw%d.json" % bpw)
        r = tlc.model_check("MC_BistGen", "INIT Init\nNEXT Next\n", workdir, workers=1, timeout=600, xmx="1g",
                            env={"BPW": str(bpw), "OUT_FILE": of})
        if not r["ok"]:
            raise RuntimeError("MC_BistGen failed: " + r["out"][-2000:])
        os.replace(of, shared)
    with open(shared) as f:
        g = json.load(f)["grid"]
    return sorted(g, key=lambda s: (s["base"], s["rng"], s["length"], s["rd"], s["ra"]))


def _pick(sc, grid):
    """seeded, stratified sample of settings: (length <, =, > range) x (rd, ra), short runs preferred"""
    rnd = random.Random(sc["seed"] * 104729 + 11)
    strata = {}
    for s in grid:
        nw, rw = s["length"] // s["bpw"], s["rng"] // s["bpw"]
        rel = 0 if nw < rw else (1 if nw == rw else 2)
        strata.setdefault((rel, s["rd"], s["ra"]), []).append(s)
    keys = sorted(strata)
    rnd.shuffle(keys)
    out = []
    i = 0
    while len(out) < sc["sessions"]:
        k = keys[i % len(keys)]
        i += 1
        cand = strata[k]
        s = rnd.choice(cand)
        if s["length"] // s["bpw"] > 40 and rnd.random() < 0.7:      # long runs are rarer
            s = rnd.choice(cand)
        out.append(s)
    return out


def _build(sc):
    from migen import Module, ClockDomain
    from litedram.common import LiteDRAMNativePort
    from litedram.frontend.axi import LiteDRAMAXIPort
    from litedram.frontend import bist
    v = VARIANTS[sc["variant"]]
    cd = v.get("cd", "sys")

    class DUT(Module):
        def __init__(self):
            if v["port"] == "native":
                self.wp = LiteDRAMNativePort("both", 22, sc["dw"], clock_domain=cd)
                self.rp = LiteDRAMNativePort("both", 22, sc["dw"], clock_domain=cd)
            else:
                self.wp = LiteDRAMAXIPort(sc["dw"], 28, id_width=2, clock_domain=cd)
                self.rp = LiteDRAMAXIPort(sc["dw"], 28, id_width=2, clock_domain=cd)
            if v["ctl"] == "core":
                self.submodules.gen = bist._LiteDRAMBISTGenerator(self.wp)
                self.submodules.chk = bist._LiteDRAMBISTChecker(self.rp)
            else:
                self.submodules.gen = bist.LiteDRAMBISTGenerator(self.wp)
                self.submodules.chk = bist.LiteDRAMBISTChecker(self.rp)
            if cd != "sys":
                self.clock_domains.cd_bist = ClockDomain(cd)
    return DUT(), v, cd


class _Ctl:
    """drives one generator / checker through its public control interface"""
    def __init__(self, m, kind, cdc):
        self.m, self.kind, self.cdc = m, kind, cdc

    def configure(self, s):
        m = self.m
        if self.kind == "core":
            yield m.base.eq(s["base"])
            yield m.end.eq(s["base"] + s["rng"])
            yield m.length.eq(s["length"])
            yield m.random_data.eq(s["rd"])
            yield m.random_addr.eq(s["ra"])
        else:
            yield from m.base.write(s["base"])
            yield from m.end.write(s["base"] + s["rng"])
            yield from m.length.write(s["length"])
            yield from m.random.write(s["rd"] | (s["ra"] << 1))

    def pulse(self, what):
        m = self.m
        if self.kind == "core":
            sig = getattr(m, what)
            yield sig.eq(1)
            yield
            yield sig.eq(0)
            yield
        else:
            yield from getattr(m, what).write(1)
            yield
        if self.cdc:
            for _ in range(24):
                yield

    def get(self, what):
        if self.kind == "core":
            return (yield getattr(self.m, what))
        return (yield getattr(self.m, what).status)

    def reset(self):
        yield from self.pulse("reset")

    def run(self, s, bound):
        yield from self.configure(s)
        yield from self.pulse("start")
        n = 0
        while not (yield from self.get("done")):
            yield
            n += 1
            if n > bound:
                return False
        for _ in range(8 if not self.cdc else 24):
            yield
        return True


def _run(sc, settings):
    from migen import passive
    dut, v, cd = _build(sc)
    bpw = sc["dw"] // 8
    rnd = random.Random(sc["seed"] * 31 + 7)
    if v["port"] == "native":
        mem = IdealMem([dut.wp, dut.rp], seed=sc["seed"], lat=tuple(sc["timing"]["lat"]), stall=sc["timing"]["stall"])
    else:
        mem = AxiMem([dut.wp, dut.rp], seed=sc["seed"], lat=tuple(sc["timing"]["lat"]), stall=sc["timing"]["stall"])
    events = []
    keys = []
    mark = [0]
    cdc = cd != "sys"
    gen, chk = _Ctl(dut.gen, v["ctl"], cdc), _Ctl(dut.chk, v["ctl"], cdc)

    def collect():
        evs = sorted(mem.events[mark[0]:], key=lambda e: (e[0], e[1], e[2]))
        mark[0] = len(mem.events)
        for _, _, pi, e in evs:
            u = "g" if pi == 0 else "c"
            if e["c"] == "CMD":
                events.append(dict(c="CMD", u=u, we=bool(e["we"]), ab=(e["a"] * bpw if "a" in e else e["ab"])))
            elif e["c"] in ("WDATA", "RDATA"):
                events.append(dict(c=e["c"], u=u, d=e["d"]))
            elif e["c"] in ("WDROP", "RDROP"):
                events.append(dict(c="LOST", what=e["c"] + " on the %s port" % ("generator" if pi == 0 else "checker")))
            elif e["c"] == "LOST":
                events.append(dict(c="LOST", what=e["what"]))

    def quiesce(prev_failed):
        """after the reset pulse: wait until the port is silent; traffic seen here belongs to no run"""
        for _ in range(60):
            n0 = len(mem.events)
            for _ in range(30 if cdc else 12):
                yield
            if len(mem.events) == n0 and getattr(mem, "outstanding", 0) == 0:
                break
        else:
            raise RuntimeError("port traffic does not stop after reset (%s)" % sc["name"])
        if prev_failed[0]:
            mark[0] = len(mem.events)       # leftovers of a run already reported as not finishing
            prev_failed[0] = False
        else:
            collect()                       # R_Bist flags any traffic outside a run

    def corrupt(wa, val):
        mem.mem[wa] = val
        events.append(dict(c="CORRUPT", ab=wa * bpw, d=tobytes(val, bpw)))

    def main():
        yield
        used = 0
        failed = [False]
        for si, s in enumerate(settings):
            nw = s["length"] // bpw
            if used > sc["budget"]:
                break
            bound = 400 + 60 * nw
            st = dict(bpw=bpw, base=s["base"], end=s["base"] + s["rng"], length=s["length"], rd=s["rd"], ra=s["ra"])
            events.append(dict(c="NEW", set=st))
            yield from gen.reset()
            yield from quiesce(failed)
            events.append(dict(c="GSTART"))
            e0 = len(events)
            ok = yield from gen.run(s, bound)
            collect()
            failed[0] = not ok
            events.append(dict(c="GDONE", ok=bool(ok), ticks=(yield from gen.get("ticks"))))
            written = [e["ab"] // bpw for e in events[e0:] if e["c"] == "CMD" and e["we"]]
            locs = sorted(set(written))
            used += len(events) - e0
            if not ok or not locs:
                yield from gen.reset()
                continue
            mask = (1 << sc["dw"]) - 1
            # ---- corruption sets ----
            sets = [("none", [])]
            if len(locs) <= sc["single_all_upto"]:
                sets += [("single", [a]) for a in locs]
            else:
                sets += [("single", [a]) for a in rnd.sample(locs, 6)] + [("single", [locs[0]]), ("single", [locs[-1]])]
            for k in sorted({2, 3, 5, max(1, len(locs) // 2)}):
                if k <= len(locs):
                    sets.append(("k%d" % k, rnd.sample(locs, k)))
            sets.append(("all", list(locs)))
            sets.append(("outside", [max(locs) + 1 + rnd.randrange(4), max(0, min(locs) - 1 - rnd.randrange(4))]))
            sets.append(("samevalue", rnd.sample(locs, min(2, len(locs)))))
            if len(locs) >= 2:
                sets.append(("swap", rnd.sample(locs, 2)))
            sets.append(("none", []))
            for kind, addrs in sets:
                if used > sc["budget"] and kind != "none":
                    continue
                saved = {a: mem.mem.get(a) for a in addrs}
                if kind == "samevalue":
                    for a in addrs:
                        corrupt(a, mem.read(a))
                elif kind == "swap":
                    x, y = mem.read(addrs[0]), mem.read(addrs[1])
                    corrupt(addrs[0], y)
                    corrupt(addrs[1], x)
                else:
                    for a in addrs:
                        old = mem.read(a)
                        mode = rnd.randrange(3)
                        new = old ^ (1 << rnd.randrange(sc["dw"])) if mode == 0 else (rnd.getrandbits(sc["dw"]) if mode == 1 else (~old & mask))
                        if new == old:
                            new = old ^ 1
                        corrupt(a, new)
                yield from chk.reset()
                yield from quiesce(failed)
                events.append(dict(c="CSTART"))
                e1 = len(events)
                ok = yield from chk.run(s, bound)
                collect()
                failed[0] = not ok
                events.append(dict(c="CDONE", ok=bool(ok), errors=(yield from chk.get("errors")), ticks=(yield from chk.get("ticks"))))
                used += len(events) - e1
                if addrs or len(written) != len(locs):
                    keys.append("%s/%d/b%d.r%d.l%d.%d%d/%s:%s" % (sc["variant"], sc["dw"], s["base"], s["rng"], s["length"], s["rd"], s["ra"],
                                                               kind, ",".join(map(str, sorted(addrs)))))
                # restore
                for a, val in saved.items():
                    if val is None:
                        if a in mem.mem:
                            del mem.mem[a]
                            events.append(dict(c="CORRUPT", ab=a * bpw, d=tobytes(mem.read(a), bpw)))
                    elif mem.mem.get(a) != val:
                        corrupt(a, val)
        for _ in range(4):
            yield

    if cdc:
        gens = {"sys": [main()], cd: [passive(mem.process)()]}
        env.run_simulation(dut, gens, clocks={"sys": 10, cd: (7, 3)})
    else:
        env.run_simulation(dut, [main(), passive(mem.process)()])
    return events, mem.cycle, keys


def execute(sc, workdir):
    os.makedirs(workdir, exist_ok=True)
    bpw = sc["dw"] // 8
    grid = _grid(bpw, workdir)
    settings = _pick(sc, grid)
    hint = sc.get("confirm_hint")
    if hint is not None:
        # confirmation run on the stock interpreter: replay the PREFIX of sessions up to the first failing one
        # (memory contents and previously latched settings are history, so sessions are not replayed in isolation)
        settings = settings[:max(hint) + 1]
    events, cycles, keys = _run(sc, settings)
    if sc.get("diff") and env.fastsim_enabled():
        prev = os.environ.get("VERIF_FASTSIM")
        os.environ["VERIF_FASTSIM"] = "0"
        try:
            ev2, cyc2, _ = _run(sc, settings)
        finally:
            if prev is None:
                del os.environ["VERIF_FASTSIM"]
            else:
                os.environ["VERIF_FASTSIM"] = prev
        if ev2 != events or cyc2 != cycles:
            raise RuntimeError("accelerated evaluator and stock interpreter disagree on %s" % sc["name"])
    header = dict(variant=sc["variant"], dw=sc["dw"], name=sc["name"], timing=sc["timing"])
    tf = os.path.join(workdir, "trace.ndjson")
    tlc.write_ndjson(tf, header, events + [dict(c="END")])
    v = tlc.validate_trace("T_Bist", tf, workdir, xmx="4g")
    info = v["info"]
    vbad = v["bad"]
    truncated = None
    if info["envbad"]:
        # the memory model of the monitor and the ideal memory disagree from some line on.  Clauses broken BEFORE that
        # line were judged in an intact environment and stand; without any, this is a machinery failure, not a verdict.
        truncated = min(b[0] for b in info["envbad"])
        vbad = [b for b in vbad if b[0] < truncated]
        if not vbad:
            raise RuntimeError("environment condition broken (harness / ideal memory): %s" % info["envbad"][:3])
    # session index of every line (for the stock-interpreter confirmation run)
    sess, idx = [], -1
    for e in events:
        if e["c"] == "NEW":
            idx += 1
        sess.append(idx)
    bad, hints = [], []
    for b in vbad:
        ln = b[0]
        e_idx = ln - 2
        si = sess[e_idx] if 0 <= e_idx < len(sess) else 0
        st = None
        for j in range(min(e_idx, len(events) - 1), -1, -1):
            if events[j]["c"] == "NEW":
                st = events[j]["set"]
                break
        bad.append(b[2:] + [dict(line=ln, session=si, set=st)])
        hints.append(si)
    if not os.environ.get("VERIF_KEEP"):
        os.remove(tf)
    stt = info["stats"]
    nsess = sum(1 for e in events if e["c"] == "NEW")
    sample = dict(cfg=header, cycles=cycles, sessions=nsess, stats=stt, first_events=events[:8])
    if truncated:
        sample["verdict_limited_to_lines_before"] = truncated
    return dict(bad=bad, confirm_hint=([min(hints)] if hints else None), evaluations=stt["runs"] + nsess, nontrivial=keys,
                traces=1, sample=sample,
                stats=dict(cycles=cycles, events=len(events), sessions=nsess, checker_runs=stt["runs"], runs_expect0_norepeat=stt["clean0"],
                           runs_corrupted=stt["corrupted"], sessions_with_repeated_addresses=stt["repeats"]),
                info=info)


def models(tier, seed):
    """D_Bist: the checker's command FSM / data FSM / reservation + data FIFOs over a memory with every stall and latency
    schedule and every corruption set (small constants); observer = BistStep of R_Bist.  Not lock-step bound to the
    netlist, hence LEVEL stays "exploration"."""
    main = "MC_Bist_thorough.cfg" if tier == "thorough" else "MC_Bist_quick.cfg"
    return [dict(module="MC_Bist", cfg=main, workers=(8 if tier == "thorough" else 4), timeout=4000, label="D_Bist " + main, xmx="8g"),
            dict(module="MC_Bist", cfg="MC_Bist_neg_beats.cfg", workers=2, timeout=1800, expect_violation=True, xmx="2g",
                 label="D_Bist negative control: errors counts beats"),
            dict(module="MC_Bist", cfg="MC_Bist_neg_ceaddr.cfg", workers=2, timeout=1800, expect_violation=True, xmx="2g",
                 label="D_Bist negative control: checker address generator free-running"),
            dict(module="MC_Bist", cfg="MC_Bist_cover_errors.cfg", workers=2, timeout=1800, expect_violation=True, xmx="2g",
                 label="D_Bist cover goal reachable: a run ends with errors > 0"),
            dict(module="MC_Bist", cfg="MC_Bist_cover_full.cfg", workers=2, timeout=1800, expect_violation=True, xmx="2g",
                 label="D_Bist cover goal reachable: reservation FIFO full while the command FSM runs")]


def post(ctx, results, mresults):
    cells, strata = set(), {}
    for sc, r in results:
        if r.get("error"):
            continue
        cells.add("%s/%d" % (sc["variant"], sc["dw"]))
        for k in r.get("nontrivial", []):
            kind = k.rsplit("/", 1)[1].split(":")[0]
            strata[kind] = strata.get(kind, 0) + 1
    return dict(exhaustive=False,
                exhaustive_scope="settings are a seeded stratified sample of the TLC-enumerated grid; single-location corruption is "
                                 "complete for runs of up to %d words" % (48 if ctx["tier"] == "thorough" else 16),
                variant_width_cells=sorted(cells), corruption_kinds=strata)


def finding_key(entry, sc):
    # entry = [clause, ..., {line, session, set}] ; the key names the clause and the addressing mode / width class
    st = entry[-1].get("set") if isinstance(entry[-1], dict) else None
    if st and entry[0] in ("generator write outside [base, end)", "sequential generator address is not base + (i mod range)"):
        nw, rw = st["length"] // st["bpw"], (st["end"] - st["base"]) // st["bpw"]
        key = "%s [%s addresses, %s, length %s range]" % (entry[0], "random" if st["ra"] else "sequential",
                                                          "byte-wide port" if st["bpw"] == 1 else "port wider than a byte",
                                                          "<=" if nw <= rw else ">")
    else:
        key = str(entry[0])
    if VARIANTS[sc["variant"]].get("cd"):
        key += " [cdc wrapper]"
    return key
