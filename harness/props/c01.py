"""C01 -- every read returns the last bytes written (whole core).  R-spec: specs/R_PortMem.tla via T_Core.tla."""
from .corecommon import scenario, execute_core

ID = "C01"
LEVEL = "model_checking"
CONFIRM_STOCK = True
RULE = ("whole-core executions (real crossbar + controller + DFI responder with unique initial contents and garbage outside "
        "rddata_valid) on 1..8 ports over small working sets so that read-after-write, write-after-write and cross-port "
        "hazards occur, refresh running; every port event judged by R_PortMem; end-of-run read sweep over touched addresses "
        "and their single-bit neighbours; DUMP clause on the responder's store. Non-trivial = distinct (config, port count, "
        "hazard kind) where hazard kind in {RAW same port, RAW cross port, WAW, partial byte enables, read of untouched neighbour}.")
ASSUMPTIONS = ["masters obey the property's assumptions (hold cmd, offer write data with the command, always accept read data)",
               "the DFI responder models the data path of a DRAM with the PHY's advertised read/write latency",
               "Migen simulator semantics (violations re-confirmed on the stock interpreter)"]

PROFILE_SETS = [
    [dict(profile="hot", ncmd=300)],
    [dict(profile="uniform", ncmd=250), dict(profile="hot", ncmd=250, seed=1)],
    [dict(profile="hot", ncmd=200), dict(profile="hot", ncmd=200, seed=1), dict(profile="uniform", ncmd=200, seed=2)],
    [dict(profile="uniform", ncmd=150, seed=i) for i in range(4)],
    [dict(profile="hot", ncmd=100, seed=i, working_set=6) for i in range(8)],
    [dict(profile="samebank_rows", ncmd=250), dict(profile="wrw", ncmd=250, seed=3)],
    [dict(profile="alias", ncmd=400, partial=0.0), dict(profile="uniform", ncmd=150, seed=5)],
]


def scenarios(tier, seed):
    out = []
    if tier == "quick":
        plan = [("SDR", 1, dict(cmd_buffer_depth=8)), ("SDR", 2, dict(cmd_buffer_depth=1, with_auto_precharge=False)),
                ("DDR", 2, dict(cmd_buffer_depth=4, cmd_buffer_buffered=True)), ("DDR2", 1, dict()),
                ("DDR3", 2, dict(cmd_buffer_depth=8)), ("DDR3", 4, dict(cmd_buffer_depth=2)),
                ("DDR3_half", 3, dict(cmd_buffer_depth=4, cmd_buffer_buffered=True, with_auto_precharge=False)),
                ("DDR4", 5, dict(cmd_buffer_depth=4)), ("LPDDR", 0, dict(cmd_buffer_depth=2)), ("DDR3", 1, dict(cmd_buffer_depth=1)), ("DDR3_200", 5, dict()),
                ("SDR", 6, dict()), ("DDR3", 6, dict(cmd_buffer_depth=4))]
        for i, (b, ps, ctrl) in enumerate(plan):
            geo = dict(ncols=2048, nrows=8192) if ps == 6 else {}        # alias probes also run on geometries beyond A10
            out.append(scenario("%s-set%d-%d" % (b, ps, i), b, PROFILE_SETS[ps], seed * 977 + i, tech=dict(tREFI=1300 + 91 * i), ctrl=ctrl, **geo))
    else:
        i = 0
        for b in ["SDR", "SDR166", "DDR", "LPDDR", "DDR2", "DDR3", "DDR3_200", "DDR3_half", "DDR4"]:
            for ps in range(len(PROFILE_SETS)):
                for depth, buffered, ap in [(8, False, True), (2, True, False), (4, False, False), (16, True, True), (1, False, True)]:
                    if (i + ps) % 2 == 0 or depth in (8, 1):
                        geo = dict(ncols=[2048, 4096][i % 2], nrows=8192) if ps == 6 else {}
                        out.append(scenario("%s-set%d-d%d%s%s" % (b, ps, depth, "b" if buffered else "", "ap" if ap else ""), b,
                                            PROFILE_SETS[ps], seed * 977 + i, tech=dict(tREFI=1300 + 17 * (i % 40)), **geo,
                                            ctrl=dict(cmd_buffer_depth=depth, cmd_buffer_buffered=buffered, with_auto_precharge=ap)))
                    i += 1
    return out + xbar_lockstep_scenarios(tier, seed)


def xbar_lockstep_scenarios(tier, seed):
    variants = [dict(M=2, B=2, depth=2), dict(M=3, B=4, depth=2, poffer=0.8, pserve=0.4), dict(M=4, B=2, depth=3, poffer=0.9, pserve=0.7, wl=2),
                dict(M=8, B=8, depth=8, poffer=0.7, pserve=0.6, wl=1)]
    return [dict(name="lockstep-crossbar-%d" % j, kind="lockstep-xbar", seed=seed * 29 + j, ncyc=3000 if tier == "quick" else 12000, params=v)
            for j, v in enumerate(variants if tier == "quick" else variants * 3)]


def _lockstep_xbar(sc, workdir):
    from .. import xbarlock
    r = xbarlock.run_xbar(sc, workdir)
    notes = []
    if r["mismatches"]:
        notes.append("MODEL-DRIFT module=Crossbar cycle=%s signal=%s (D_Crossbar no longer equals the code; exhaustive result not bound)"
                     % (r["mismatches"][0][0], r["mismatches"][0][1:]))
    return dict(bad=[], evaluations=r["cycles"], nontrivial=[["lockstep", sc["name"]]] if r["accepted"] > 100 else [], traces=1,
                sample=dict(consts=r["consts"], accepted=r["accepted"], first=r["sample"][:1]), notes=notes,
                lockstep=r["cycles"], stats=dict(lockstep_cycles=r["cycles"], lockstep_commands=r["accepted"]))


def models(tier, seed):
    return [dict(module="D_Crossbar", cfg="MC_Crossbar_quick.cfg", label="crossbar routing/lock (3 masters x 2 banks)", workers=4, timeout=2400),
            dict(module="D_Crossbar", cfg="MC_Crossbar_neg_hidden.cfg", label="negative control: lock hole of a buffered FIFO (defect fixed in 1c2d839)",
                 workers=2, timeout=1200, expect_violation=True)]


def execute(sc, workdir):
    if sc.get("kind") == "lockstep-xbar":
        return _lockstep_xbar(sc, workdir)
    r = execute_core(sc, workdir, ID, ("mem",))
    k = r["kinds"]
    nt = [[sc["memtype"], sc["rate"], len(sc["ports"]), kind] for kind in ("CMD", "WDATA", "RDATA") if k.get(kind)]
    r["nontrivial"] = nt + [[sc["name"], "refresh-during-traffic"]] * (1 if k.get("REF", 0) > 3 else 0)
    return r


def finding_key(entry, sc):
    return str(entry[1])


def shrink(sc):
    from .corecommon import shrink_candidates
    return shrink_candidates(sc)
