"""C06 -- port addresses map one-to-one onto DRAM locations.
Spec level: TLC proves Injective/Onto/InRange/WalkOrder of R_AddrMap!Decode over families of geometries (MC_AddrMap).
Binding: the REAL crossbar+controller are driven with address sets per geometry; R_BankLink compares the rank/bank/row of the
ACT and the rank/bank/column of the RD/WR observed on the DFI bus with Decode(address) for every accepted command."""
import random
from .corecommon import scenario, execute_core
from ..core import AddrCodec

ID = "C06"
LEVEL = "model_checking"
CONFIRM_STOCK = True
RULE = ("per geometry (bankbits 1..4, colbits 8..12 on both sides of A10, burst alignments 0/1/2/3, ranks 1..2, "
        "bank_byte_alignment none/row/2 rows/4 rows): addresses zero, all-ones, every single-bit address, pairs of bits, "
        "block/bank/rank wrap boundaries +-1, random; each accepted command is linked to the ACT/RD/WR that serves it. "
        "Non-trivial = distinct (geometry, address) pairs judged.")
ASSUMPTIONS = ["per-bank FIFO order of accepted commands (property C01/C02) is used to link a port command to its DRAM commands",
               "Migen simulator semantics (violations re-confirmed on the stock interpreter)"]

# (base config name, nbanks, ncols, nranks, bank_byte_alignment in rows (0 = none))
GEOMS_QUICK = [("SDR", 4, 256, 1, 0), ("SDR", 2, 2048, 1, 0), ("DDR", 4, 1024, 1, 2), ("DDR2", 8, 512, 1, 0),
               ("DDR3", 8, 1024, 1, 0), ("DDR3", 8, 2048, 2, 0), ("DDR3", 4, 4096, 1, 1), ("DDR4", 16, 1024, 1, 4),
               ("DDR3_half", 8, 2048, 1, 2), ("LPDDR", 2, 512, 2, 0), ("SDR2", 4, 2048, 1, 0), ("DDR4", 16, 4096, 2, 0),
               # large alignments: the bank-select field near / at the top of the row bits (nrows = 2048)
               ("SDR", 4, 256, 1, 512), ("DDR3", 8, 1024, 1, 1024), ("DDR", 4, 512, 2, 2048)]


def addr_set(aw, rnd, nrand):
    s = [0, (1 << aw) - 1]
    s += [1 << k for k in range(aw)]
    s += [((1 << aw) - 1) ^ (1 << k) for k in range(aw)]
    pairs = [(i, j) for i in range(aw) for j in range(i + 1, aw)]
    rnd.shuffle(pairs)
    s += [(1 << i) | (1 << j) for i, j in pairs[:3 * aw]]
    for k in range(1, aw):
        s += [(1 << k) - 1, (1 << k) + 1]
    s += [rnd.randrange(1 << aw) for _ in range(nrand)]
    return list(dict.fromkeys(a % (1 << aw) for a in s))


def _mk(i, g, seed, nrand):
    base, nbanks, ncols, nranks, bba_rows = g
    over = {}
    if base == "SDR2":
        base = "SDR"
        over = dict(rate="1:2")
    sc = scenario("g%d-%s-b%d-c%d-r%d-bba%d" % (i, g[0], nbanks, ncols, nranks, bba_rows), base, [dict()], seed + i,
                  nbanks=nbanks, ncols=ncols, nranks=nranks, tech=dict(tREFI=3000), bba_rows=bba_rows, nrand=nrand, **over)
    return sc


def scenarios(tier, seed):
    if tier == "quick":
        return [_mk(i, g, seed, 60) for i, g in enumerate(GEOMS_QUICK)]
    rnd = random.Random(seed + 606)
    geoms = list(GEOMS_QUICK)
    for base in ["SDR", "SDR2", "DDR", "LPDDR", "DDR2", "DDR3", "DDR3_half", "DDR4"]:
        for ncols in [256, 512, 1024, 2048, 4096]:
            geoms.append((base, rnd.choice([2, 4, 8, 16]), ncols, rnd.choice([1, 1, 2]), rnd.choice([0, 0, 1, 2, 4, 64, 256, 512, 1024, 2048])))
    return [_mk(i, g, seed, 150) for i, g in enumerate(dict.fromkeys(geoms))]


def execute(sc, workdir):
    from .. import core, env
    env.setup()
    sc = dict(sc)
    # bank_byte_alignment is given in rows: bytes = rows * ncols_words * bytes-per-word; resolve via a first elaboration
    top, mod, ps = core.build(dict(sc, ports=[dict()]))
    dw = top.ports[0].data_width
    import math
    align = int(math.log2(ps.nphases if mod.memtype == "SDR" else {"DDR": 4, "LPDDR": 4, "DDR2": 4, "DDR3": 8, "DDR4": 8}[mod.memtype]))   # from the configuration, not from the code under test
    g = mod.geom_settings
    if sc.get("bba_rows"):
        sc["ctrl"] = dict(sc.get("ctrl") or {}, bank_byte_alignment=sc["bba_rows"] * (2 ** (g.colbits - align)) * (dw // 8))
    aw = top.ports[0].address_width
    rnd = random.Random(sc["seed"])
    addrs = addr_set(aw, rnd, sc.get("nrand", 60))
    items = [(0, int(rnd.random() < 0.5), a) for a in addrs]
    sc["ports"] = [dict(profile="list", items=items, ncmd=len(items), partial=0.0)]
    sc["sweep_max"] = 0
    r = execute_core(sc, workdir, ID, ("dev", "link"), tags=("C02",))
    # only the linkage clauses belong to C06 (device-state clauses are C02's)
    link = {"RD/WR without a pending request", "RD/WR direction differs from the request", "column differs from the request's column",
            "open row is not the row the request addressed", "ACT without a pending request",
            "ACT row is not the row of the oldest pending request", "request never served",
            "port address width differs from the device's address space"}
    r["bad"] = [b for b in r["bad"] if b[1] in link]
    gname = "b%d-r%d-c%d-al%d-rk%d-bba%d" % (g.bankbits, g.rowbits, g.colbits, align, ps.nranks, sc.get("bba_rows", 0))
    r["nontrivial"] = [[gname, a] for a in addrs]
    r["evaluations"] = len(addrs)
    r["sample"]["geometry"] = gname
    r["sample"]["addresses"] = addrs[:12]
    return r


def models(tier, seed):
    if tier == "quick":
        return [dict(module="MC_AddrMap", cfg="MC_AddrMap_quick.cfg", workers=4, timeout=900, label="AddrMap theorems (quick family)")]
    return [dict(module="MC_AddrMap", cfg="MC_AddrMap_thorough.cfg", workers=8, timeout=3000, label="AddrMap theorems (full family)", xmx="16g"),
            dict(module="MC_AddrMap", cfg="MC_AddrMap_quick.cfg", workers=4, timeout=900, label="AddrMap theorems (quick family)")]


def finding_key(entry, sc):
    return str(entry[1])
