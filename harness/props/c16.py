"""C16 -- cycle counts derived from datasheets are never on the unsafe side (litedram/modules.py).

R-spec: specs/R_TimingConv.tla (exact arithmetic via BigNat; independent SPD decoder), trace spec: specs/T_TimingConv.tla.
A "trace" is a batch of call records of the REAL code: every SDRAMModule subclass found by introspection x speedgrade
x DDR4 fine-refresh mode ("block", one D line with the library's declared datasheet entry read from the raw class
attributes) x rate x controller clock (one F line each with the timing_settings the real constructor handed out).
Python never compares a cycle count with a requirement; TLC does, for every record.
"""
import csv, glob, inspect, json, os, random
from fractions import Fraction

from .. import env, tlc

ID = "C16"
LEVEL = "exploration"
RULE = ("every SDRAMModule subclass of litedram.modules (introspection) x every speedgrade key (incl. default) x DDR4 "
        "fine-refresh modes x rates x controller clocks: a regular kHz grid over 25..400 MHz plus, per declared timing, "
        "the integer-kHz clocks straddling each exact break-point of the ns->cycle ceil (where one lost cycle is visible); "
        "all SPD images in test/spd_data through SDRAMModule.from_spd_data plus derived images with re-drawn timing bytes, the "
        "break-points there being computed from the values TLC's own SPD decoder returns (spec -> code). One evaluation = one real constructor call judged by TLC "
        "(R_TimingConv!ConvBad / SpdBad). Non-trivial = a (class, speedgrade, fine-refresh, rate) block for which TLC saw at "
        "least one 'tight' record (lowering a handed minimum by one cycle would break a clause); sums.tight_records counts them.")
ASSUMPTIONS = [
    "datasheet entry = what the library declares in the raw class attributes technology_timings / speedgrade_timings "
    "(scalar = ns, tuple = (clocks, ns), dict = per fine-refresh mode); declared values are exact multiples of 1 ps / 0.001 clock",
    "tRC requirement = tRP + tRAS (both parts), as JEDEC defines it; the library declares no separate tRC",
    "clock-count clause is c*n >= ck without a phase term (property wording); ns clause uses the least favourable phases c*n-(n-1)",
    "SPD: ns values from an independent TLA+ decoder (JEDEC 21-C annex K/L byte map); the controller's single tRRD/tWTR/tCCD "
    "must cover the same-bank-group (_L) DDR4 values; clock-count minimums are not in SPD and are checked against the module's declaration; "
    "tREFI against 64 ms / 8192 (and /2, /4 for DDR4 fine refresh)",
    "controller clock is an integer number of kHz (passed to the real code as an exact integer in Hz)",
    "clock dimension is sampled (grid + break-points), not exhaustive; module class x speedgrade x rate x fine-refresh is complete when post() says so",
]

MIN_NAMES = ["tRP", "tRCD", "tWR", "tRFC", "tWTR", "tFAW", "tCCD", "tRRD", "tRAS", "tZQCS"]
TECH = {"tREFI", "tWTR", "tCCD", "tRRD", "tZQCS"}
FMIN, FMAX = 25000, 400000          # kHz
JVM_ENV = None      # harness/tlc.py already starts trace-validation JVMs with serial GC and two compiler threads
VALID_RATES = {"SDR": [1, 2], "DDR": [2], "LPDDR": [2], "DDR2": [2], "DDR3": [2, 4], "RPC": [4], "DDR4": [4], "LPDDR4": [8]}
SPD_RATE = {"DDR3": 4, "DDR4": 4}


# ------------------------------------------------------------------------------------------------ library introspection
def library():
    """[(name, cls)] of every concrete SDRAMModule subclass of litedram.modules."""
    env.setup()
    import litedram.modules as M
    out = []
    for name, cls in vars(M).items():
        if inspect.isclass(cls) and issubclass(cls, M.SDRAMModule) and all(hasattr(cls, a) for a in ("memtype", "nbanks", "nrows", "ncols")):
            out.append((name, cls))
    return out


def blocks_of_library():
    """[(clsname, speedgrade-key, frm)]; frm is None except for DDR4."""
    out = []
    for name, cls in library():
        if not hasattr(cls, "speedgrade_timings") or not hasattr(cls, "technology_timings"):
            raise RuntimeError("module %s does not use technology_timings/speedgrade_timings; harness cannot read its declaration" % name)
        for sg in cls.speedgrade_timings:
            for frm in (["1x", "2x", "4x"] if cls.memtype == "DDR4" else [None]):
                out.append((name, sg, frm))
    return out


def _exact(x, what):
    v = Fraction(x).limit_denominator(10**6) * 1000
    r = round(v)
    if abs(float(x) * 1000 - r) > 1e-6:
        raise RuntimeError("declared value %r (%s) is not a multiple of 0.001" % (x, what))
    return int(r)


def _entry(raw, frm, what):
    """raw class attribute -> [ckm, ps, declared]"""
    if isinstance(raw, dict):
        raw = raw[frm or "1x"]
    if raw is None:
        return [0, 0, 0]
    if isinstance(raw, tuple):
        ck, ns = raw
    else:
        ck, ns = None, raw
    return [_exact(ck, what) if ck else 0, _exact(ns, what) if ns else 0, 1]


def declaration(tech, sgt, frm, what):
    d = []
    for nm in MIN_NAMES:
        raw = getattr(tech, nm) if nm in TECH else getattr(sgt, nm)
        d.append(_entry(raw, frm, "%s.%s" % (what, nm)))
    refi = tech.tREFI
    if isinstance(refi, dict):
        refi = refi[frm or "1x"]
    return d, _exact(refi, what + ".tREFI")


def handed(ts):
    o = []
    for nm in MIN_NAMES + ["tRC", "tREFI"]:
        v = getattr(ts, nm)
        if v is None:
            o.append(-1)
        else:
            if int(v) != v:
                raise RuntimeError("non-integer cycle count %r for %s" % (v, nm))
            o.append(int(v))
    return o


# ------------------------------------------------------------------------------------------------ clock selection (stimuli)
def breakpoints(ps_list, n, cap, rnd):
    """integer-kHz clocks straddling the exact clocks at which ps * f + (n-1)/n crosses an integer (the ceil's steps)."""
    out = set()
    for ps in ps_list:
        if ps <= 0:
            continue
        ks = []
        k = 1
        while True:
            num = (k * n - (n - 1)) * 10**9
            den = n * ps
            f = num // den
            if f > FMAX:
                break
            if f >= FMIN:
                ks.append((f, num % den == 0))
            k += 1
        if cap and len(ks) > cap:
            keep = set(rnd.sample(range(len(ks)), cap - 4)) | {0, 1, len(ks) - 2, len(ks) - 1}
            ks = [x for i, x in enumerate(ks) if i in keep]
        for f, exact in ks:
            out.update((f, f + 1))
            if exact:
                out.add(f - 1)
    return {f for f in out if FMIN <= f <= FMAX}


def refi_points(ps, cap, rnd):
    """a few clocks where tREFI is an exact number of cycles (the only clocks where rounding direction does not matter)."""
    out = set()
    # ps * f / 1e9 integer  <=>  f multiple of 1e9 / gcd(ps, 1e9)
    from math import gcd
    step = 10**9 // gcd(ps, 10**9)
    f = (FMIN + step - 1) // step * step
    while f <= FMAX and len(out) < cap:
        out.add(f)
        f += step * max(1, ((FMAX - FMIN) // step) // cap)
    return out


def clocks(d, refi, n, p, rnd):
    grid = set(range(FMIN + p["goff"], FMAX + 1, p["gstep"]))
    pss = [e[1] for e in d] + ([d[0][1] + d[8][1]] if d[0][2] and d[8][2] else [])
    return sorted(grid | breakpoints(pss, n, p["bpcap"], rnd) | refi_points(refi, 4, rnd))


# ------------------------------------------------------------------------------------------------ scenarios
TIERS = {
    "quick":    dict(gstep=10000, bpcap=6, nscen=14, rates="valid", spdstep=20000, spdgroups=2, spdvar=3),
    "thorough": dict(gstep=2000, bpcap=0, nscen=96, rates="all", spdstep=2000, spdgroups=10, spdvar=8),
}


def scenarios(tier, seed):
    p = TIERS[tier]
    blocks = blocks_of_library()
    # round-robin so that every scenario mixes cheap and expensive (tRFC-heavy) blocks
    groups = [blocks[i::p["nscen"]] for i in range(p["nscen"])]
    out = []
    for i, g in enumerate(groups):
        if g:
            out.append(dict(name="lib-%02d" % i, kind="lib", blocks=[list(b) for b in g], tier=tier, seed=seed * 1000 + i,
                            goff=(seed * 7 + i * 13) % p["gstep"]))
    images = [os.path.basename(x) for x in sorted(glob.glob(os.path.join(spd_dir(), "*.csv")))]
    k = min(p["spdgroups"], len(images))
    for i in range(k):
        g = images[i::k]
        out.append(dict(name="spd-%d-%s" % (i, g[0][:-4]), kind="spd", images=g, tier=tier, seed=seed))
    return out


def spd_dir():
    """SPD images are test data, not implementation: a scratch copy given by VERIF_REPO usually holds only litedram/."""
    d = os.path.join(env.REPO, "test", "spd_data")
    return d if os.path.isdir(d) else "/repo/test/spd_data"


def load_spd_csv(path):
    """Micron reference SPD CSV -> 512 bytes (single-byte rows only; ranges carry no timing data)."""
    data = [0] * 512
    with open(path) as f:
        for row in csv.DictReader(f):
            a = row["Byte Number"]
            if "-" not in a:
                data[int(a)] = int(row["Byte Value"], 16)
    return data


# ------------------------------------------------------------------------------------------------ execution
def _rates(memtype, p):
    if p["rates"] == "valid":
        return VALID_RATES.get(memtype, [1, 2, 4])
    return sorted(set([1, 2, 4] + VALID_RATES.get(memtype, [])))


def _lib_records(sc):
    p = dict(TIERS[sc["tier"]], goff=sc.get("goff", 0))
    rnd = random.Random(sc["seed"])
    lib = dict(library())
    lines, meta = [], {}
    for name, sg, frm in sc["blocks"]:
        cls = lib[name]
        d, refi = declaration(cls.technology_timings, cls.speedgrade_timings[sg], frm, "%s[%s]" % (name, sg))
        lines.append(dict(k="D", cls=name, sg=sg, frm=frm or "1x", mt=cls.memtype, d=d, refi=refi))
        blk = len(lines) + 1                      # trace line number of this D record (line 1 = header)
        meta[blk] = (name, sg, frm)
        for n in _rates(cls.memtype, p):
            for f in clocks(d, refi, n, p, rnd):
                m = cls(clk_freq=f * 1000, rate="1:%d" % n, speedgrade=None if sg == "default" else sg,
                        fine_refresh_mode=None if (frm == "1x" and sg == "default") else frm)
                lines.append(dict(k="F", n=n, f=f, o=handed(m.timing_settings)))
    return lines, meta


def spd_variants(data, k, rnd):
    """The test data's images have, e.g., equal tRAS / tRC upper nibbles and small fine offsets.  Derived images with the
    timing bytes re-drawn (type, geometry, timebases and tCK untouched, so the real parser still accepts them) make the
    byte map itself observable.  Stimulus only: TLC decodes every image on its own."""
    out = []
    ddr4 = data[2] == 0x0c
    for _ in range(k):
        d = list(data)
        if ddr4:
            for i in list(range(24, 27)) + list(range(38, 41)):          # one-byte MTB counts
                d[i] = rnd.randrange(8, 200)
            for i in (28, 29, 30, 32, 34, 37, 42, 44, 45):               # LSBs of the 12 / 16 bit counts
                d[i] = rnd.randrange(0, 256)
            d[27] = rnd.randrange(0, 3)                                  # tRAS upper nibble (tRC is set below)
            d[31], d[33], d[35] = rnd.randrange(1, 12), rnd.randrange(1, 9), rnd.randrange(1, 6)
            d[36] = rnd.randrange(0, 2)
            d[41] = rnd.randrange(0, 2)
            d[43] = rnd.randrange(0, 2) * 16 + rnd.randrange(0, 2)
            for i in range(117, 124):                                    # fine offsets, signed
                d[i] = rnd.choice([0, 1, 5, 50, 127, 128, 200, 250, 255])
            trc = (d[27] % 16) * 256 + d[28] + d[26]                     # tRCmin = tRASmin + tRPmin (JEDEC identity), same fine offset as tRP
            d[27] = (trc // 256) * 16 + d[27] % 16
            d[29] = trc % 256
            d[120] = d[121]
        else:
            for i in (16, 17, 18, 19, 20, 26, 27):
                d[i] = rnd.randrange(8, 200)
            for i in (22, 23, 24, 29):
                d[i] = rnd.randrange(0, 256)
            d[21] = rnd.randrange(0, 3)
            d[25] = rnd.randrange(0, 12)
            d[28] = rnd.randrange(0, 3)
            div = d[9] % 16
            for i in range(35, 39):
                v = rnd.choice([0, 2, 6, 50, 126, 128, 200, 250, 254])
                d[i] = v if (div == 1 or (v if v < 128 else v - 256) * (d[9] // 16) % div == 0) else 0
            trc = (d[21] % 16) * 256 + d[22] + d[20]
            d[21] = (trc // 256) * 16 + d[21] % 16
            d[23] = trc % 256
            d[38] = d[37]
        out.append(d)
    return out


def _spd_module(data, f, frm):
    from litedram.modules import SDRAMModule
    return SDRAMModule.from_spd_data(data, f * 1000, fine_refresh_mode=frm)


def _spd_records(sc, workdir):
    p = TIERS[sc["tier"]]
    rnd = random.Random(sc["seed"])
    heads = []
    for image in sc["images"]:
        base = load_spd_csv(os.path.join(spd_dir(), image))
        mt = {0x0b: "DDR3", 0x0c: "DDR4"}[base[2]]
        for vi, data in enumerate([base] + spd_variants(base, p["spdvar"], rnd)):
            for frm in (["1x", "2x", "4x"] if mt == "DDR4" else [None]):
                m = _spd_module(data, 100000, frm)
                sgt = m.speedgrade_timings[m.speedgrade]
                name = image if vi == 0 else "%s#%d" % (image, vi)
                d, refi = declaration(m.technology_timings, sgt, frm, "spd:" + name)
                heads.append((name, data, mt, frm, dict(k="S", cls=name, sg=str(m.speedgrade), frm=frm or "1x", mt=mt, d=d, refi=refi, b=data[:256])))
    # pass 1 (spec -> code): TLC decodes the SPD bytes; the clocks are derived from ITS values
    t1 = os.path.join(workdir, "spd_decode.ndjson")
    tlc.write_ndjson(t1, dict(prop="C16", scenario=sc["name"], mode="decode"), [h[4] for h in heads])
    v1 = tlc.validate_trace("T_TimingConv", t1, workdir, env=JVM_ENV)
    if v1["info"]["env"]:
        raise RuntimeError("SPD decode pass: %s" % v1["info"]["env"])
    spds = v1["info"]["spds"]
    if len(spds) != len(heads):
        raise RuntimeError("SPD decode pass returned %d of %d images" % (len(spds), len(heads)))
    os.remove(t1)
    lines, meta = [], {}
    for (image, data, mt, frm, head), sp in zip(heads, spds):
        n = SPD_RATE[mt]
        s = sp["spd"]
        rfc = s["tRFC"][{"1x": "x1", "2x": "x2", "4x": "x4"}[frm or "1x"]]
        pss = [s[k] for k in ("tRP", "tRCD", "tWR", "tWTR", "tFAW", "tCCD", "tRRD", "tRAS", "tRC")] + [rfc, s["tRP"] + s["tRAS"]]
        fs = set(range(FMIN + sc["seed"] % p["spdstep"], FMAX + 1, p["spdstep"])) | breakpoints(pss, n, p["bpcap"], rnd) | refi_points(sp["refi"], 4, rnd)
        lines.append(head)
        meta[len(lines) + 1] = (image, head["sg"], frm)
        for f in sorted(fs):
            m = _spd_module(data, f, frm)
            lines.append(dict(k="F", n=n, f=f, o=handed(m.timing_settings)))
    return lines, meta, spds


def execute(sc, workdir):
    env.setup()
    spds = None
    if sc["kind"] == "lib":
        lines, meta = _lib_records(sc)
    else:
        lines, meta, spds = _spd_records(sc, workdir)
    corrupt = sc.get("corrupt")          # binding demonstration only: {"line": i, "index": j, "delta": k} on an F record
    if corrupt:
        lines[corrupt["line"]]["o"][corrupt["index"]] += corrupt["delta"]
    tf = os.path.join(workdir, "calls.ndjson")
    tlc.write_ndjson(tf, dict(prop="C16", scenario=sc["name"], tier=sc["tier"]), lines)
    v = tlc.validate_trace("T_TimingConv", tf, workdir, xmx="4g", env=JVM_ENV)
    info = v["info"]
    if info["env"]:
        raise RuntimeError("trace rejected as malformed by T_TimingConv: %s" % info["env"][:3])
    nF = sum(1 for x in lines if x["k"] == "F")
    if info["nF"] != nF:
        raise RuntimeError("TLC judged %s F records, %s were written" % (info["nF"], nF))
    bad = []
    for clause, timing, first, cnt, have, need, blk in v["bad"]:
        ex = lines[first - 2]
        name, sg, frm = meta[blk]
        bad.append([clause, timing, dict(records=cnt, first=dict(cls=name, speedgrade=sg, fine_refresh=frm, rate="1:%d" % ex["n"],
                                                                    clk_khz=ex["f"], handed=ex["o"], have=have, need=need))])
    nontrivial = [[meta[b][0], meta[b][1], meta[b][2]] for b in info["tightblocks"]]
    visited = [[meta[b][0], meta[b][1], meta[b][2]] for b in info["blocks"]]
    sample = dict(first_block=lines[0] if sc["kind"] == "lib" else dict(lines[0], b="<%d bytes>" % len(lines[0]["b"])),
                  first_calls=lines[1:4], spd_decoded_by_tlc=spds)
    if not os.environ.get("VERIF_KEEP"):
        os.remove(tf)
    return dict(bad=bad, evaluations=nF, nontrivial=nontrivial, traces=1, sample=sample, visited=visited, kind=sc["kind"],
                rates=sorted({x["n"] for x in lines if x["k"] == "F"}),
                stats=dict(records=nF, tight_records=info["nTight"], blocks=len(info["blocks"]), tlc_wall=v["wall"]))


def models(tier, seed):
    # Lemma check of the arithmetic R_TimingConv evaluates (two-limb form == BigNat reference; least-c characterisation)
    return [dict(module="MC_TimingConv", cfg="MC_TimingConv_%s.cfg" % tier, workers=1, timeout=2400, label="arith-lemma-" + tier, xmx="2g"),
            dict(module="MC_TimingConv", cfg="MC_TimingConv_neg.cfg", workers=1, timeout=300, label="arith-lemma-negative-control",
                 expect_violation=True, xmx="2g")]


def finding_key(entry, sc):
    # entry = [clause, timing, {...}] -> "<timing>:<clause>"; module-, speedgrade-, rate- and clock-independent
    return "%s:%s" % (entry[1], entry[0])


def post(ctx, results, mresults):
    want = {tuple(b) for b in blocks_of_library()}
    seen = set()
    spd_images = set()
    for sc, r in results:
        if r.get("error"):
            continue
        for b in r.get("visited", []):
            (seen.add(tuple(b)) if r.get("kind") == "lib" else None)
        if r.get("kind") == "spd":
            spd_images |= {b[0] for b in r.get("visited", []) if "#" not in b[0]}
    nspd = len(glob.glob(os.path.join(spd_dir(), "*.csv")))
    spd_seen = len(spd_images)
    cover = want <= seen and spd_seen == nspd
    return dict(exhaustive=bool(cover),
                exhaustive_over="module class x speedgrade x fine-refresh mode x rate set of the tier, all SPD images (clock: grid + ceil break-points, sampled)",
                library_blocks=len(want), library_blocks_visited=len(want & seen), spd_images=nspd, spd_images_visited=spd_seen)
