"""C11 -- Avalon-MM port: bursts and single accesses keep memory semantics.
R-spec: specs/R_AvlMem.tla (+ R_ByteMem) via T_AvlMem.tla.  D-model: D_Avl2Native in MC_Avl2Native.tla; lock-step binding
T_Avl2NativeLock.tla.  DUT: the real LiteDRAMAvalonMM2Native in front of the ideal native memory (pulse semantics)."""
from .. import busmem

ID = "C11"
LEVEL = "model_checking"
CONFIRM_STOCK = True
RULE = ("random Avalon-MM traffic (single and burst reads/writes, burst counts 1..max_burst_length, byte enables, commands held "
        "against waitrequest, next command with or without idle cycles, idle gaps between the beats of a write burst, junk "
        "address/burstcount after the first beat) against the real bridge for width ratios 1/8..8, base addresses, "
        "max_burst_length 2..16, memory-side command stalls and pulse latencies long enough to fill both FIFOs; every bus cycle "
        "is judged by R_AvlMem under TLC, final backing-memory contents included.  A case is distinct per (path, kind, "
        "burstcount class, first/later beat, gap length, cycles held by waitrequest).  Exhaustive: TLC on D_Avl2Native "
        "(3-4 addresses, bursts <= 3-4, FIFO depth 2-3) against the same R_AvlMem operators; the model is bound to the code by "
        "per-cycle lock-step traces.")
ASSUMPTIONS = [
    "Avalon-MM master per the Avalon Interface Specification: command held unchanged while waitrequest is high; address and burstcount significant on the first beat of a burst only (constantBurstBehavior = false); no read inside a write burst; burstcount 1..max_burst_length (the long-burst family goes up to 3*max_burst_length+2 <= 255, which the bridge's waitrequest back-pressure is built for)",
    "the address is a word address of the Avalon data width (as the bridge and the repository's tests use it)",
    "native side = ideal memory with the crossbar's pulse semantics (one wdata.ready / rdata.valid strobe per command, >= 3 cycles after the accept)",
    "a command not accepted / read beats not returned within `bound` (1500; 300 in the defect families) cycles count as never",
    "read data is judged on the byte lanes enabled by the read's byteenable",
    "Migen simulator semantics (violations are re-confirmed on the stock interpreter)",
]

EQUAL = [(32, 32), (8, 8), (64, 64), (16, 16), (128, 128)]
DOWN = [(64, 32), (32, 8), (64, 8), (128, 16), (32, 16), (256, 32)]
UP = [(8, 32), (32, 64), (16, 128), (8, 64), (32, 256), (64, 128)]
BASES = [0, 0x10000000, 0x4000, 0x01000000]


def _sc(name, avw, pw, seed, **kw):
    d = dict(name=name, kind="avl", avw=avw, pw=pw, base=0, seed=seed, runs=3, nops=160)
    d.update(kw)
    return d


def scenarios(tier, seed):
    q = tier == "quick"
    out = []
    s = seed * 977
    eqs = EQUAL[:3] if q else EQUAL
    dns = DOWN[:3] if q else DOWN
    ups = UP[:3] if q else UP
    profiles = [dict(), dict(lat=(10, 30), stall=0.7, maxburst=4)] if q else \
        [dict(), dict(lat=(10, 30), stall=0.7, maxburst=4), dict(lat=(3, 3), stall=0.0), dict(lat=(20, 40), stall=0.85, maxburst=2),
         dict(maxburst=2), dict(maxburst=8, stall=0.5)]
    # ---- family "main": no idle gaps inside write bursts; equal and down-converting paths
    for pi, prof in enumerate(profiles):
        for i, (w, p) in enumerate(eqs):
            out.append(_sc("equal-%d-%d-p%d" % (w, p, pi), w, p, s + i + 100 * pi, base=BASES[(i + pi) % 4], p_gap=0.0,
                           runs=3 if q else 5, **prof))
        for i, (w, p) in enumerate(dns):
            out.append(_sc("down-%d-%d-p%d" % (w, p, pi), w, p, s + 20 + i + 100 * pi, base=BASES[(i + 1 + pi) % 4], p_gap=0.0,
                           runs=2 if q else 4, nops=120, **prof))
    # ---- bursts longer than the bridge's FIFOs (burstcount > max_burst_length, legal up to 255): back-pressure inside a burst
    for i, (w, p, mb) in enumerate([(32, 32, 2), (64, 32, 4)] if q else [(32, 32, 2), (64, 32, 4), (8, 8, 3), (32, 8, 2), (64, 64, 8)]):
        out.append(_sc("long-burst-%d-%d-mb%d" % (w, p, mb), w, p, s + 50 + i, base=BASES[i % 4], p_gap=0.0, p_burst=0.7, maxburst=mb,
                       long_bursts=True, runs=3 if q else 5, nops=70, lat=(6, 25), stall=0.2, bound=3000))
    # ---- family "eager": FIFO-like native side (wdata.ready high at random whether or not a write command is outstanding)
    for i, (w, p) in enumerate([(32, 32), (64, 32), (8, 32)] if q else [(32, 32), (64, 32), (8, 32), (8, 8), (32, 8)]):
        out.append(_sc("eager-%d-%d" % (w, p), w, p, s + 500 + i, base=BASES[i % 4], eager=True, stall=0.75, p_gap=0.0,
                       runs=2 if q else 5, nops=120))
    # ---- narrower Avalon (up-converter): single accesses
    for i, (w, p) in enumerate(ups):
        out.append(_sc("up-single-%d-%d" % (w, p), w, p, s + 40 + i, base=BASES[(i + 2) % 4], p_burst=0.0, runs=3 if q else 5))
    # ---- family "gap": idle gaps between the beats of write bursts (short runs)
    for i, (w, p) in enumerate([(32, 32), (64, 32)] if q else [(32, 32), (64, 32), (8, 8), (32, 8), (64, 64)]):
        out.append(_sc("gap-%d-%d" % (w, p), w, p, s + 60 + i, base=BASES[i % 4], p_gap=0.5, p_burst=0.7, runs=4 if q else 10,
                       nops=50, bound=300, lat=(3, 6), gaps=[2, 6, 12, 25, 40, 80]))
    # ---- family "up-burst": bursts through the up-converter (short runs)
    for i, (w, p) in enumerate([(8, 32), (32, 64)] if q else ups):
        out.append(_sc("up-burst-%d-%d" % (w, p), w, p, s + 70 + i, p_gap=0.0, p_burst=0.6, runs=4 if q else 10, nops=40, bound=300))
    # ---- lock-step binding of the design model (8-bit Avalon, 8-bit port, base 0)
    out.append(_sc("lockstep-mb4", 8, 8, s + 90, runs=1, nops=200, window=12, maxburst=4, p_gap=0.0, lockstep=True))
    out.append(_sc("lockstep-mb2-gaps", 8, 8, s + 91, runs=1, nops=200, window=12, maxburst=2, p_gap=0.4, lockstep=True, bound=300))
    return out


def execute(sc, workdir):
    return busmem.execute_bus(sc, workdir, "avl")


def finding_key(entry, sc):
    # entry = [clause, context ("plain" | "after-burst" | "after-gap-in-write-burst"), ...]; key = clause|context|path
    ctx = entry[1] if len(entry) > 1 and entry[1] in ("plain", "after-burst", "after-gap-in-write-burst") else "plain"
    return "%s|%s|%s" % (entry[0], ctx, busmem.avl_path(sc))


def models(tier, seed):
    q = tier == "quick"
    ms = [
        dict(module="MC_Avl2Native", cfg="MC_Avl2Native_nogap.cfg" if q else "MC_Avl2Native_nogap_thorough.cfg", workers=4 if q else 8,
             timeout=1800 if q else 3400, label="D_Avl2Native (code as read), no idle gaps in write bursts, vs R_AvlMem (exhaustive)"),
        dict(module="MC_Avl2Native", cfg="MC_Avl2Native_gap_fixed.cfg" if q else "MC_Avl2Native_gap_fixed_thorough.cfg",
             workers=4 if q else 8, timeout=1800 if q else 3400,
             label="D_Avl2Native with the proposed burst-end repair, idle gaps allowed, vs R_AvlMem (exhaustive)"),
        dict(module="MC_Avl2Native", cfg="MC_Avl2Native_gap_asis.cfg", workers=2, timeout=1500, expect_violation=True,
             label="D_Avl2Native code as read, idle gaps allowed: TLC exhibits the write-burst gap defect (expected violation)"),
        dict(module="MC_Avl2Native", cfg="MC_Avl2Native_neg_noinc.cfg", workers=2, timeout=1500, expect_violation=True,
             label="negative control: burst address not incremented"),
        dict(module="MC_Avl2Native", cfg="MC_Avl2Native_neg_endearly.cfg", workers=2, timeout=1500, expect_violation=True,
             label="negative control: read burst ends one beat early"),
        dict(module="MC_Avl2Native", cfg="MC_Avl2Native_neg_wfull.cfg", workers=2, timeout=1500, expect_violation=True,
             label="negative control: beat accepted while the data FIFO is full"),
        dict(module="MC_Avl2Native", cfg="MC_Avl2Native_cover.cfg", workers=2, timeout=1500, expect_violation=True,
             extra=("-simulate", "num=4000", "-depth", "400"),
             label="vacuity guard: FIFO full, stalled commands, gaps, draining, outstanding commands are reachable"),
    ]
    return ms


def post(ctx, results, mresults):
    lock = [(sc["name"], r.get("lockstep_detail")) for sc, r in results if not r.get("error") and r.get("lockstep_detail")]
    return dict(lockstep_detail=[dict(scenario=n, cycles=l["cycles"], matches_model_variant=l["variant"]) for n, l in lock])
