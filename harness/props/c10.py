"""C10 -- Wishbone port: one acknowledge per access and memory semantics.
R-spec: specs/R_WbMem.tla (+ R_ByteMem) via T_WbMem.tla.  D-models: D_Wb2Native (narrow-bus merge buffer / read cache),
D_WbEq (equal-width CMD/WRITE/READ path) in MC_Wb2Native.tla; lock-step binding T_Wb2NativeLock.tla.
DUT: the real LiteDRAMWishbone2Native in front of the ideal native memory (pulse semantics), harness/busmem.py."""
import os

from .. import busmem

ID = "C10"
LEVEL = "model_checking"
CONFIRM_STOCK = True
RULE = ("random + directed Wishbone B4 traffic (classic, constant, incrementing-burst cycles, STB gaps, back-to-back accesses, "
        "byte selects, aborts = CYC/STB negated n cycles into an access, early burst ends) against the real bridge for width "
        "ratios 1/8..8 and several base addresses, memory-side command stalls and 3..12(30)-cycle pulse latencies; every bus "
        "cycle is judged by R_WbMem under TLC, final backing-memory contents included.  A case is non-trivial/distinct per "
        "(path, we, CTI, outcome ack|abort, cycles waited).  Exhaustive: TLC on D_Wb2Native (ratio 2, 2 wide words, all master "
        "behaviours incl. aborts at every cycle) and D_WbEq against the same R_WbMem operators; the models are bound to the "
        "code by per-cycle lock-step traces.")
ASSUMPTIONS = [
    "Wishbone master obeys B4: STB only with CYC, request stable until ACK; CTI is a per-access hint (any address / direction / CTI may follow a CTI=010 beat, also inside a held cycle); an abort negates CYC and STB together for >= 1 cycle",
    "native side = ideal memory with the crossbar's pulse semantics (one wdata.ready / rdata.valid strobe per command, >= 3 cycles after the accept, regardless of valid/ready)",
    "an access not acknowledged within `bound` (1500; 300 in the abort family) cycles counts as never acknowledged",
    "an aborted write may take effect per byte; once a read has shown a byte's value the other alternative is gone",
    "an ACK while STB is low is counted (ack-without-access) but not judged: a conforming master ignores it",
    "read data is judged on the selected byte lanes only",
    "Migen simulator semantics (violations are re-confirmed on the stock interpreter)",
]

NARROW = [(8, 64), (8, 32), (16, 64), (32, 64), (16, 32), (32, 128), (8, 16), (64, 128), (32, 256)]
EQUAL = [(32, 32), (8, 8), (64, 64), (16, 16), (128, 128)]
WIDE = [(64, 32), (32, 8), (64, 8), (128, 16), (32, 16), (128, 64), (256, 32), (16, 8)]
BASES = [0, 0x10000000, 0x4000, 0x01000000]


def _sc(name, wbw, pw, seed, **kw):
    d = dict(name=name, kind="wb", wbw=wbw, pw=pw, base=0, seed=seed, runs=3, nops=220)
    d.update(kw)
    return d


def _sweep_plans(wbw, path, we, offs):
    """Directed: one run per abort offset k: write A; access B aborted k cycles in; re-read/rewrite around it."""
    plans = []
    full = (1 << (wbw // 8)) - 1

    def acc(a, w, d=0, abort=None, cti=0):
        return dict(pre=("idle", 2), beats=[dict(a=a, we=w, sel=full, d=d, cti=cti, abort=abort, stbgap=0)], drop_after=False)
    for k in offs:
        v = (0x0123456789abcdef0123456789abcdef * (k + 1)) & ((1 << wbw) - 1)
        p = [acc(3, 1, v), acc(4, 1, ~v & ((1 << wbw) - 1)),
             acc(3, we, (v * 7 + 1) & ((1 << wbw) - 1), abort=k),
             acc(4, 0), acc(3, 0), acc(3, 1, (v + 5) & ((1 << wbw) - 1)), acc(3, 0), acc(5, 0)]
        # the same inside an incrementing burst
        p.append(dict(pre=("idle", 1), drop_after=False, beats=[
            dict(a=8, we=we, sel=full, d=v, cti=2, abort=None, stbgap=0),
            dict(a=9, we=we, sel=full, d=v ^ 0x55, cti=2, abort=k, stbgap=0),
            dict(a=10, we=we, sel=full, d=v ^ 0xaa, cti=7, abort=None, stbgap=0)]))
        p += [acc(8, 0), acc(9, 0), acc(10, 0)]
        plans.append(p)
    return plans


def scenarios(tier, seed):
    q = tier == "quick"
    out = []
    s = seed * 977
    # ---- family "main": everything except write aborts on the equal / wide paths
    nar = NARROW[:5] if q else NARROW
    eqs = EQUAL[:3] if q else EQUAL
    wid = WIDE[:4] if q else WIDE
    profiles = [dict()] if q else [dict(), dict(lat=(3, 3), stall=0.0), dict(lat=(8, 30), stall=0.6), dict(stall=0.8, lat=(3, 5))]
    for pi, prof in enumerate(profiles):
        for i, (w, p) in enumerate(nar):
            out.append(_sc("narrow-%d-%d-p%d" % (w, p, pi), w, p, s + i + 100 * pi, base=BASES[(i + pi) % 4], p_abort_w=0.1,
                           p_abort_r=0.12, runs=3 if q else 5, **prof))
        for i, (w, p) in enumerate(eqs):
            out.append(_sc("equal-%d-%d-p%d" % (w, p, pi), w, p, s + 20 + i + 100 * pi, base=BASES[(i + 1 + pi) % 4], p_abort_w=0.0,
                           p_abort_r=0.12, runs=3 if q else 5, **prof))
        for i, (w, p) in enumerate(wid):
            out.append(_sc("wide-%d-%d-p%d" % (w, p, pi), w, p, s + 40 + i + 100 * pi, base=BASES[(i + 2 + pi) % 4], p_abort_w=0.0,
                           p_abort_r=0.12, runs=2 if q else 4, nops=160, **prof))
    # ---- family "mixed": long held cycles mixing reads and writes with an arbitrary CTI per access (merge buffer vs. read cache)
    for i, (w, p) in enumerate([(32, 128), (8, 16), (8, 32), (32, 32), (64, 32)] if q else [(32, 128), (8, 16), (8, 32), (16, 64), (32, 64), (8, 64), (32, 32), (64, 32), (32, 8)]):
        path = busmem.wb_path(dict(wbw=w, pw=p))
        out.append(_sc("mixed-%d-%d" % (w, p), w, p, s + 140 + i, base=BASES[i % 4], mixed=True, runs=3 if q else 8, nops=250,
                       p_abort_w=0.03 if path == "narrow" else 0.0, p_abort_r=0.03))
    # ---- directed abort sweeps: every offset 1..14 of reads on all paths and of writes on the narrow path
    offs = list(range(1, 15))
    for (w, p) in [(8, 32), (32, 32), (64, 32)] + ([] if q else [(32, 64), (8, 8), (32, 8)]):
        path = busmem.wb_path(dict(wbw=w, pw=p))
        out.append(_sc("sweep-read-abort-%d-%d" % (w, p), w, p, s + 60, plans=_sweep_plans(w, path, 0, offs), lat=(3, 9)))
        if path == "narrow":
            out.append(_sc("sweep-write-abort-%d-%d" % (w, p), w, p, s + 61, plans=_sweep_plans(w, path, 1, offs), lat=(3, 9)))
    # ---- family "wabort": write aborts on the equal / wide paths (short runs: a hang ends a run)
    for i, (w, p) in enumerate([(32, 32), (64, 32), (32, 8)] if q else [(32, 32), (64, 32), (32, 8), (8, 8), (64, 64), (128, 16)]):
        out.append(_sc("wabort-%d-%d" % (w, p), w, p, s + 70 + i, p_abort_w=0.25, p_abort_r=0.1, runs=6 if q else 16, nops=60,
                       bound=300, base=BASES[i % 4]))
        path = busmem.wb_path(dict(wbw=w, pw=p))
        out.append(_sc("sweep-write-abort-%d-%d" % (w, p), w, p, s + 80 + i, plans=_sweep_plans(w, path, 1, offs if not q else offs[:8]),
                       lat=(3, 9), bound=300))
    # ---- family "eager": FIFO-like native side (port behind a clock-domain crossing / width converter): wdata.ready is high at random
    # whether or not a write command is outstanding and cmd.ready is stalled most of the time; no aborts (aborted writes on such
    # a port are outside what the bridge can undo)
    for i, (w, p) in enumerate([(32, 32), (64, 32), (8, 32)] if q else [(32, 32), (64, 32), (8, 32), (8, 8), (128, 16), (16, 64)]):
        out.append(_sc("eager-%d-%d" % (w, p), w, p, s + 150 + i, base=BASES[i % 4], eager=True, stall=0.75, p_abort_w=0.0, p_abort_r=0.0,
                       runs=2 if q else 5, nops=160))
    # ---- B3: stimuli generated by TLC from the design model (8-bit Wishbone, 16-bit port = the model's constants)
    for i, g in enumerate(busmem.WB_GOALS):
        out.append(_sc("tlc-goal-" + g, 8, 16, s + 110 + i, tlc=dict(goal=g, extra=3 if q else 12), stall=0.5, lat=(3, 6), bound=400))
    out.append(_sc("tlc-simulate", 8, 16, s + 120, tlc=dict(sim=40 if q else 400, depth=100), bound=400))
    # ---- reverse bridge LiteDRAMNative2Wishbone (native master in front, Wishbone slave memory behind)
    for i, (dw, base) in enumerate([(32, 0), (64, 0x10000000), (8, 0x400)] if q else [(32, 0), (64, 0x10000000), (8, 0x400), (16, 0x4000), (128, 0)]):
        out.append(dict(name="reverse-%d-%x" % (dw, base), kind="nat2wb", dw=dw, base=base, seed=s + 130 + i, runs=2 if q else 6, nops=150))
    # ---- lock-step binding of the design models (8-bit Wishbone, base 0)
    out.append(_sc("lockstep-narrow-r2", 8, 16, s + 90, runs=1, nops=260, window=8, p_abort_w=0.15, p_abort_r=0.2, lockstep=True))
    out.append(_sc("lockstep-narrow-r4", 8, 32, s + 91, runs=1, nops=260, window=12, p_abort_w=0.15, p_abort_r=0.2, lockstep=True))
    out.append(_sc("lockstep-equal", 8, 8, s + 92, runs=1, nops=260, window=8, p_abort_w=0.0, p_abort_r=0.2, lockstep=True))
    return out


def execute(sc, workdir):
    if sc.get("kind") == "nat2wb":
        return busmem.execute_nat2wb(sc, workdir)
    return busmem.execute_bus(sc, workdir, "wb")


def finding_key(entry, sc):
    # entry = [clause, context ("plain" | "after-aborted-write"), ...]; key = clause|context|path
    ctx = entry[1] if len(entry) > 1 and entry[1] in ("plain", "after-aborted-write") else "plain"
    return "%s|%s|%s" % (entry[0], ctx, "reverse" if sc.get("kind") == "nat2wb" else busmem.wb_path(sc))


def models(tier, seed):
    q = tier == "quick"
    ms = [
        dict(module="MC_Wb2Native", cfg="MC_Wb2Native_quick.cfg" if q else "MC_Wb2Native_thorough.cfg", workers=8,
             timeout=1800 if q else 3400, label="D_Wb2Native narrow path vs R_WbMem (exhaustive)"),
        dict(module="MC_Wb2Native", cfg="MC_WbEq_fixed.cfg", workers=2, timeout=1500,
             label="D_WbEq equal path with the proposed abort repair vs R_WbMem (exhaustive)"),
        dict(module="MC_Wb2Native", cfg="MC_WbEq_asis.cfg", workers=2, timeout=1500, expect_violation=True,
             label="D_WbEq equal path, code as read: TLC exhibits the aborted-write defect (expected violation)"),
        dict(module="MC_Wb2Native", cfg="MC_Wb2Native_neg_stale.cfg", workers=4, timeout=1500, expect_violation=True,
             label="negative control: read cache not invalidated by a write"),
        dict(module="MC_Wb2Native", cfg="MC_Wb2Native_neg_c10c.cfg", workers=3, timeout=1500, expect_violation=True,
             label="negative control: read cache invalidated only by a write that flushes (seeded C10-c)"),
        dict(module="MC_Wb2Native", cfg="MC_Wb2Native_cover.cfg", workers=2, timeout=1500, expect_violation=True,
             extra=("-simulate", "num=4000", "-depth", "400"),
             label="vacuity guard (narrow): cache hit, aborted read, merge, both flush causes, burst are reachable in one behaviour"),
        dict(module="MC_Wb2Native", cfg="MC_WbEq_cover.cfg", workers=2, timeout=1500, expect_violation=True,
             extra=("-simulate", "num=4000", "-depth", "400"),
             label="vacuity guard (equal): aborted write, access behind an aborted read, maybe-written byte are reachable"),
    ]
    if not q:
        ms += [
            dict(module="MC_Wb2Native", cfg="MC_Wb2Native_neg_ackwm.cfg", workers=2, timeout=1500, expect_violation=True,
                 label="negative control: unmergeable write acknowledged (lost)"),
            dict(module="MC_Wb2Native", cfg="MC_Wb2Native_neg_merge.cfg", workers=2, timeout=1500, expect_violation=True,
                 label="negative control: merge into an occupied lane"),
            dict(module="MC_Wb2Native", cfg="MC_Wb2Native_neg_bypass.cfg", workers=2, timeout=1500, expect_violation=True,
                 label="negative control: read overtakes a parked write"),
            dict(module="MC_Wb2Native", cfg="MC_Wb2Native_neg_lane.cfg", workers=2, timeout=900, expect_violation=True,
                 label="negative control: cache hit returns the wrong lane"),
            dict(module="MC_Wb2Native", cfg="MC_Wb2Native_thorough2.cfg", workers=8, timeout=3000,
                 label="D_Wb2Native narrow path, command stalls (STALL=1), vs R_WbMem (exhaustive)"),
            dict(module="MC_Wb2Native", cfg="MC_Wb2Native_neg_aborted.cfg", workers=2, timeout=900, expect_violation=True,
                 label="negative control: aborted flag ignored"),
            dict(module="MC_Wb2Native", cfg="MC_WbEq_neg_aborted.cfg", workers=2, timeout=900, expect_violation=True,
                 label="negative control (equal path): aborted flag ignored"),
        ]
    return ms


def post(ctx, results, mresults):
    lock = [(sc["name"], r.get("lockstep_detail")) for sc, r in results if not r.get("error") and r.get("lockstep_detail")]
    return dict(lockstep_detail=[dict(scenario=n, cycles=l["cycles"], matches_model_variant=l["variant"]) for n, l in lock])
