"""Shared by C12 / C13: one scenario = one configuration of the real DMA reader / writer / DRAM FIFO + a list of runs
(stall schedules, seeds, stimuli).  All runs of a scenario are recorded into ONE trace (NEW events) judged by one TLC
run against specs/R_Stream.tla through specs/T_Stream.tla."""
import json, os
from .. import tlc
from .. import streamenv as se


# short traces: the JVM start dominates; C1-only JIT and two GC threads cut the CPU cost of one validation by ~3x
JVM_ENV = {"JAVA_TOOL_OPTIONS": "-XX:TieredStopAtLevel=1 -XX:ParallelGCThreads=2 -XX:CICompilerCount=1"}


def execute_stream(sc, workdir):
    runs = sc["runs"]
    if sc.get("confirm_hint"):
        # confirmation on the stock simulator: only the first run that produced a rejected clause
        runs = [runs[i] for i in sc["confirm_hint"] if i < len(runs)]
    hdr, evs, line_of = None, [], []
    stats, cover, per_run, cover_by_run, drifts = {}, set(), [], [], []
    nline = 1
    for i, run in enumerate(runs):
        full = dict(sc["cfg"])
        full.update(run)
        full["name"] = "%s/%d" % (sc["name"], i)
        r = se.run_scripted(full) if "script" in full else se.run_stream(full)
        if hdr is None:
            hdr = r["cfg"]
        else:
            evs.append(r["cfg"])
            nline += 1
        first = nline + 1
        evs += r["events"]
        nline += len(r["events"])
        line_of.append((first, nline))
        for k, v in r["stats"].items():
            if k.startswith("max_") or k.startswith("longest"):
                stats[k] = max(stats.get(k, 0), v)
            else:
                stats[k] = stats.get(k, 0) + v
        cover |= set(r["cover"])
        cover_by_run.append((full, sorted(r["cover"])))
        per_run.append(dict(run=i, first_pump=r.get("first_pump"), stats=r["stats"], lines=[first, nline]))
        if r.get("first_drift") and len(drifts) < 3:
            drifts.append(dict(run=i, label=run.get("label"), first_drift=r["first_drift"]))
    tf = os.path.join(workdir, "trace.ndjson")
    tlc.write_ndjson(tf, hdr, evs)
    v = tlc.validate_trace("T_Stream", tf, workdir, env=JVM_ENV)
    bad = []
    for b in v["bad"]:
        line, x = b[0], b[1]
        ctx = dict(run=x, line=line)
        fp = per_run[x]["first_pump"] if x < len(per_run) else None
        # trace context for known-finding matching only: had the FIFO flushed a partial DRAM word before this event?
        ev = evs[line - 2] if 0 <= line - 2 < len(evs) else {}
        ctx["after_partial_flush"] = bool(fp is not None and ev.get("t", 0) >= fp)
        ctx["t"] = ev.get("t")
        bad.append([b[2], ctx] + list(b[3:]))
    sample = dict(info=v["info"], first_events=evs[:8], runs=per_run[:3], model_drift=drifts)
    stats["scripted_runs"] = sum(1 for r in runs if "script" in r)
    if not os.environ.get("VERIF_KEEP"):
        os.remove(tf)
    # runs to repeat on the stock interpreter: the first run of every distinct (clause, context class), not just the first bad run --
    # a scenario that also contains a known finding would otherwise be confirmed on that finding's run only and a new clause in a
    # later run reported as "not reproduced" (seeded change C13-h)
    first = {}
    for b in bad:
        ctx = b[1] if isinstance(b[1], dict) else {}
        first.setdefault((b[0], bool(ctx.get("after_partial_flush"))), b[1]["run"])
    hint = sorted(set(first.values())) or None
    return dict(confirm_hint=hint if not sc.get("confirm_hint") else None, bad=bad, evaluations=len(evs), traces=len(runs), sample=sample, stats=stats, cover=sorted(cover), cover_by_run=cover_by_run, info=v["info"])


def corrupt_and_validate(sc, workdir, mutate):
    """Binding self-test helper: record one run, apply `mutate(events)` and return TLC's verdict."""
    full = dict(sc["cfg"])
    full.update(sc["runs"][0])
    r = se.run_stream(full)
    evs = [json.loads(json.dumps(e)) for e in r["events"]]
    mutate(evs)
    tf = os.path.join(workdir, "trace_corrupt.ndjson")
    os.makedirs(workdir, exist_ok=True)
    tlc.write_ndjson(tf, r["cfg"], evs)
    return tlc.validate_trace("T_Stream", tf, workdir, env=JVM_ENV)
