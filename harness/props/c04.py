"""C04 -- refresh is never starved and keeps the datasheet rate.  R-specs: R_Refresh (+ device clauses) via T_Core."""
from .corecommon import scenario, execute_core

ID = "C04"
LEVEL = "model_checking"
CONFIRM_STOCK = True
RULE = ("whole-core executions under saturating / single-bank / all-write / all-read traffic with short custom tREFI values "
        "(exact and inexact multiples of the clock period, so a rounding error accumulates visibly within the run), "
        "postponing N in {1,2,4,8}, with and without ZQCS; the k-th REF/ZQCS time is judged by R_Refresh against "
        "(k+N)*tREFI_datasheet + L(cfg), exact arithmetic in TLA+ (BigNat). Non-trivial = distinct (config, N, traffic profile) "
        "with at least 20 refreshes observed.")
ASSUMPTIONS = ["service latency L(cfg) is the closed form R_Refresh!LService over datasheet numbers (generous, configuration-only)",
               "datasheet tREFI = what the selected module declares",
               "Migen simulator semantics (violations re-confirmed on the stock interpreter)"]

TRAFFIC = {
    "saturating": [dict(profile="uniform", ncmd=2500, gap=0), dict(profile="pingpong", ncmd=2500, gap=0, seed=1)],
    "singlebank": [dict(profile="samebank_altrow", ncmd=2500, gap=0), dict(profile="samebank_rows", ncmd=2500, gap=0, seed=2, bank=0)],
    "allwrite":   [dict(profile="uniform", ncmd=3000, gap=0, dir="w"), dict(profile="samerow", ncmd=3000, gap=0, dir="w", seed=3)],
    "allread":    [dict(profile="uniform", ncmd=3000, gap=0, dir="r"), dict(profile="samerow", ncmd=3000, gap=0, dir="r", seed=4)],
    "idle":       [dict(profile="bursty", ncmd=400)],
}


def scenarios(tier, seed):
    out = []
    if tier == "quick":
        plan = [("SDR", "saturating", 1, 1003), ("SDR", "singlebank", 2, 1250), ("SDR166", "allwrite", 4, 1207),
                ("DDR3", "allread", 1, 1507), ("DDR3", "saturating", 8, 1300), ("DDR", "idle", 2, 1111),
                ("DDR3_200", "singlebank", 1, 1003), ("DDR4", "saturating", 2, 1409)]
    else:
        plan = []
        refis = [1003, 1250, 1207, 1507, 1300, 1111, 1409, 2001]
        i = 0
        for b in ["SDR", "SDR166", "DDR", "LPDDR", "DDR2", "DDR3", "DDR3_200", "DDR3_half", "DDR4"]:
            for tr in TRAFFIC:
                plan.append((b, tr, [1, 2, 4, 8][i % 4], refis[i % len(refis)]))
                i += 1
    for i, (b, tr, n, refi) in enumerate(plan):
        ports = [dict(p) for p in TRAFFIC[tr]]
        if tier == "thorough":
            for p in ports:
                p["ncmd"] = int(p["ncmd"] * 1.5)
        ctrl = dict(refresh_postponing=n)
        if b.startswith("DDR3") or b.startswith("DDR4"):
            ctrl["refresh_zqcs_freq"] = 40000.0 if i % 2 == 0 else 15000.0
        out.append(scenario("%s-%s-N%d-refi%d" % (b, tr, n, refi), b, ports, seed * 13 + i, tech=dict(tREFI=refi), ctrl=ctrl,
                            max_cycles=250000))
    return out


def execute(sc, workdir):
    r = execute_core(sc, workdir, ID, ("dev", "ref"))
    nref = r["info"]["nref"]
    r["nontrivial"] = [[sc["name"].rsplit("-refi", 1)[0]]] if nref >= 20 else []
    r["stats"]["refreshes"] = nref
    r["stats"]["zqcs"] = r["info"]["nzq"]
    return r


def finding_key(entry, sc):
    return str(entry[1])
