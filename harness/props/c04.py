"""C04 -- refresh is never starved and keeps the datasheet rate.  R-specs: R_Refresh (+ device clauses) via T_Core."""
from .corecommon import scenario, execute_core

ID = "C04"
LEVEL = "model_checking"
CONFIRM_STOCK = True
RULE = ("whole-core executions under saturating / single-bank / all-write / all-read traffic with short custom tREFI values "
        "(exact and inexact multiples of the clock period, so a rounding error accumulates visibly within the run), "
        "postponing N in {1,2,4,8}, with and without ZQCS; the k-th REF/ZQCS time is judged by R_Refresh against "
        "(k+N)*tREFI_datasheet + L(cfg), exact arithmetic in TLA+ (BigNat). Non-trivial = distinct (config, N, traffic profile) "
        "with at least 20 refreshes observed.")
ASSUMPTIONS = ["service latency L(cfg) is the closed form R_Refresh!LService over datasheet numbers (generous, configuration-only)",
               "datasheet tREFI = what the selected module declares",
               "Migen simulator semantics (violations re-confirmed on the stock interpreter)"]

TRAFFIC = {
    "saturating": [dict(profile="uniform", ncmd=2500, gap=0), dict(profile="pingpong", ncmd=2500, gap=0, seed=1)],
    "singlebank": [dict(profile="samebank_altrow", ncmd=2500, gap=0), dict(profile="samebank_rows", ncmd=2500, gap=0, seed=2, bank=0)],
    "rowchange":  [dict(profile="samebank_altrow", ncmd=2500, gap=0, dir="r")],
    "rowchangew": [dict(profile="samebank_altrow", ncmd=2500, gap=0, dir="w")],   # one bank, every access to another row than the previous one
    "allwrite":   [dict(profile="uniform", ncmd=3000, gap=0, dir="w"), dict(profile="samerow", ncmd=3000, gap=0, dir="w", seed=3)],
    "allread":    [dict(profile="uniform", ncmd=3000, gap=0, dir="r"), dict(profile="samerow", ncmd=3000, gap=0, dir="r", seed=4)],
    "idle":       [dict(profile="bursty", ncmd=400)],
    "sparse":     [dict(profile="uniform", ncmd=450, gap=100)],       # long, cheap run: rounding errors of tREFI accumulate
}


def scenarios(tier, seed):
    out = []
    if tier == "quick":
        plan = [("SDR", "sparse", 1, 1001), ("SDR166", "sparse", 2, 1003), ("SDR", "saturating", 1, 1003), ("SDR", "singlebank", 2, 1250), ("SDR166", "allwrite", 4, 1207),
                ("DDR3", "allread", 1, 1507), ("DDR3", "saturating", 8, 1300), ("DDR", "idle", 2, 1111),
                ("DDR3_200", "singlebank", 1, 1003), ("DDR4", "saturating", 2, 1409),
                ("SDR", "rowchange", 1, 1100), ("DDR3", "rowchangew", 2, 1400)]
    else:
        plan = []
        refis = [1003, 1250, 1207, 1507, 1300, 1111, 1409, 2001]
        i = 0
        for b in ["SDR", "SDR166", "DDR", "LPDDR", "DDR2", "DDR3", "DDR3_200", "DDR3_half", "DDR4"]:
            for tr in TRAFFIC:
                plan.append((b, tr, [1, 2, 4, 8][i % 4], refis[i % len(refis)]))
                i += 1
    from .corecommon import BASE
    for i, (b, tr, n, refi) in enumerate(plan):
        refi = max(refi, 106000000 // BASE[b]["clk_khz"] + 1)      # the Refresher refuses tREFI below 100 controller cycles
        ports = [dict(p) for p in TRAFFIC[tr]]
        if tier == "thorough":
            for p in ports:
                p["ncmd"] = int(p["ncmd"] * 1.5)
        ctrl = dict(refresh_postponing=n)
        if b.startswith("DDR3") or b.startswith("DDR4"):
            ctrl["refresh_zqcs_freq"] = 40000.0 if i % 2 == 0 else 15000.0
        out.append(scenario("%s-%s-N%d-refi%d" % (b, tr, n, refi), b, ports, seed * 13 + i, tech=dict(tREFI=refi), ctrl=ctrl,
                            max_cycles=250000))
    for j, (n, zq) in enumerate([(1, False), (2, True), (4, True), (8, True)] if tier == "quick" else
                                [(n, zq) for n in (1, 2, 3, 4, 8) for zq in (False, True)]):
        out.append(dict(name="lockstep-refresher-N%d-%s" % (n, "zq" if zq else "nozq"), kind="lockstep", seed=seed * 17 + j,
                        ncyc=8000 if tier == "quick" else 30000,
                        params=dict(tREFI=100 + 7 * n + j, N=n, tRP=2 + j % 3, tRFC=9 + j, tZQCS=5 + j % 4, zq=zq, zqperiod=601 + 90 * j, dmax=25)))
    out.append(dict(name="b3-refresher", kind="b3", seed=seed, cfg="MC_Refresher_sim.cfg", num=6 if tier == "quick" else 60, depth=700,
                    params=dict(tREFI=100, N=2, tRP=2, tRFC=3, tZQCS=2, zq=True, zqperiod=331, dmax=6)))
    from . import c03
    return out + c03.muxr_lockstep_scenarios(tier, seed)


def _lockstep(sc, workdir):
    from .. import reflock
    r = reflock.run_ref(sc, workdir)
    notes = []
    if r["mismatches"]:
        notes.append("MODEL-DRIFT module=Refresher cycle=%s signal=%s (D_Refresher no longer equals the code; exhaustive result not bound)"
                     % (r["mismatches"][0][0], r["mismatches"][0][1]))
    return dict(bad=[], evaluations=r["cycles"], nontrivial=[["lockstep", sc["name"]]] if r["refs"] > 10 else [], traces=1,
                sample=dict(consts=r["consts"], refs=r["refs"], zqs=r["zqs"], first=r["sample"]), notes=notes,
                lockstep=r["cycles"], stats=dict(lockstep_cycles=r["cycles"]))


def _b3(sc, workdir):
    """Spec -> code: TLC-generated behaviours of MC_Refresher (the multiplexer-shaped environment's cmd.ready per cycle) are replayed
    into the real Refresher and compared in lock-step."""
    from .. import b3, reflock
    behs = b3.behaviours("MC_Refresher", sc["cfg"], workdir, num=sc["num"], depth=sc["depth"], seed=sc["seed"] + 1, var="ready", kind="scalar")
    cyc = refs = 0
    notes = []
    for i, b in enumerate(behs):
        r = reflock.run_ref(dict(seed=0, params=sc["params"], stimulus=b), workdir)
        cyc += r["cycles"]; refs += r["refs"]
        if r["mismatches"] and not notes:
            notes.append("MODEL-DRIFT module=Refresher (TLC behaviour %d) cycle=%s signal=%s" % (i, r["mismatches"][0][0], r["mismatches"][0][1]))
    return dict(bad=[], evaluations=cyc, nontrivial=[["b3", sc["name"], i] for i in range(len(behs))], traces=len(behs),
                sample=dict(behaviours=len(behs), refreshes=refs, first_ready=behs[0][:12]), notes=notes, lockstep=cyc,
                stats=dict(lockstep_cycles=cyc, tlc_behaviours_replayed=len(behs)))


def models(tier, seed):
    ms = [dict(module="MC_Refresher", cfg="MC_Refresher_quick.cfg", label="refresher N=2 +ZQCS", workers=3, timeout=2400),
          dict(module="MC_Refresher", cfg="MC_Refresher_n1.cfg", label="refresher N=1", workers=2, timeout=2400),
          dict(module="MC_Refresher", cfg="MC_Refresher_neg_zqpulse.cfg", label="negative control: one-cycle ZQCS request", workers=2, timeout=2400, expect_violation=True),
          dict(module="MC_Refresher", cfg="MC_Refresher_neg_ceil.cfg", label="negative control: timer period tREFI+1", workers=2, timeout=2400, expect_violation=True),
          dict(module="MC_Refresher", cfg="MC_Refresher_cover_zq.cfg", label="cover: ZQCS on the bus", workers=1, timeout=1200, expect_violation=True),
          dict(module="MC_Refresher", cfg="MC_Refresher_cover_burst.cfg", label="cover: last REF of a postponed burst", workers=1, timeout=1200, expect_violation=True),
          dict(module="MC_Refresher", cfg="MC_Refresher_cover_late.cfg", label="cover: grant after the worst delay", workers=1, timeout=1200, expect_violation=True)]
    # composition: D_MultiplexerR (lock-step bound) + D_Refresher (lock-step bound) + abstract bank machines
    ms += [dict(module="MC_BankMachine", cfg="MC_BankMachine_quick.cfg", label="D_BankMachine refines the abstract bank machine of the composition (action property)", workers=4, timeout=2400),
           dict(module="MC_BankMachineLive", cfg="MC_BankMachineLive.cfg", label="bank machine: a refresh request is eventually granted and a presented command eventually accepted, given cmd.ready infinitely often (liveness; discharges the bounded-wait assumption of A_BankMachine)", workers=3, timeout=2400),
           dict(module="MC_BankMachineLive", cfg="MC_BankMachineLive_neg.cfg", label="negative control: cmd.ready not fair", workers=2, timeout=2400, expect_violation=True),
           dict(module="MC_MuxRef", cfg="MC_MuxRef_live.cfg", label="multiplexer+refresher+bank machines: every refresh request is served, every bank-machine request accepted (liveness)", workers=3, timeout=2400),
           dict(module="MC_MuxRef", cfg="MC_MuxRef_neg_bmref.cfg", label="negative control: bank machines serve their command before looking at refresh_req", workers=2, timeout=2400, expect_violation=True),
           dict(module="MC_MuxRef", cfg="MC_MuxRef_neg_wtr.cfg", label="negative control: WTR left only with a read pending", workers=2, timeout=2400, expect_violation=True)]
    if tier == "thorough":
        ms += [dict(module="MC_MuxRef", cfg="MC_MuxRef_quick.cfg", label="composition: device clauses on the registered DFI phases around refresh (REF with banks closed, tRFC, tRRD/tCCD/tWTR)", workers=4, timeout=3000),
               dict(module="MC_MuxRef", cfg="MC_MuxRef_neg_rfc.cfg", label="negative control: device needs more tRFC than the refresher waits", workers=4, timeout=3000, expect_violation=True),
               dict(module="MC_MuxRef", cfg="MC_MuxRef_cover.cfg", label="cover: refresh requested while the multiplexer is in WTR", workers=2, timeout=1800, expect_violation=True)]
        ms += [dict(module="MC_Refresher", cfg="MC_Refresher_n3.cfg", label="refresher N=3 +ZQCS", workers=4, timeout=3000),
               dict(module="MC_Refresher", cfg="MC_Refresher_n8.cfg", label="refresher N=8 +ZQCS", workers=4, timeout=3000)]
    return ms


def execute(sc, workdir):
    if sc.get("kind") == "lockstep":
        return _lockstep(sc, workdir)
    if sc.get("kind") == "b3":
        return _b3(sc, workdir)
    if sc.get("kind") == "lockstep-muxr":
        from . import c03
        return c03._lockstep_mux(sc, workdir)
    r = execute_core(sc, workdir, ID, ("dev", "ref"))
    nref = r["info"]["nref"]
    r["nontrivial"] = [[sc["name"].rsplit("-refi", 1)[0]]] if nref >= 20 else []
    r["stats"]["refreshes"] = nref
    r["stats"]["zqcs"] = r["info"]["nzq"]
    return r


def finding_key(entry, sc):
    return str(entry[1])


def shrink(sc):
    from .corecommon import shrink_candidates
    return shrink_candidates(sc)
