"""C08 -- clock-domain-crossing ports preserve commands, data and order.
R-spec: specs/R_Crossing.tla (three streams: exactly once, in order, nothing left) + specs/R_PortMem.tla on the user port,
        via specs/T_Crossing.tla on handshake events recorded on BOTH sides of the real LiteDRAMNativePortCDC.
D-model: specs/D_AsyncFifo.tla (gray pointers, 2-stage synchronisers, independently enabled clock edges), checked by TLC in
        MC_AsyncFifo (all interleavings) against the same R_Crossing operators; bound to the real netlist by lock-step
        conformance at the channel interfaces (T_AsyncFifo) and by replaying TLC behaviours as explicit clock schedules.
"""
import glob, json, os, re

from .. import tlc, cdcdut, env

ID = "C08"
LEVEL = "model_checking"
CONFIRM_STOCK = True
RULE = ("real LiteDRAMNativePortCDC (bare, and as inserted by LiteDRAMCrossbar.get_port(clock_domain=...) in front of the real "
        "controller) between a user-port driver and a memory side in different clock domains; clock pairs equal/in phase, equal/"
        "out of phase, 1:3, 3:1, 7:10, 10:7, 9:10, 10:9, 31:10, 10:31, slowly drifting, plus explicit edge schedules (jitter, "
        "gated/pausing clocks, fine drift, TLC behaviours of the design model); traffic read/write/both, saturating/bursty/"
        "sparse, memory-side command stalls and latencies, user read stalls (only against a ready-honouring memory side). "
        "Every handshake on both sides is judged by TLC. Non-trivial = a distinct (clocking, mode, back-pressure profile, memory "
        "side kind) execution in which every channel in use carried words and the relative clock phase took the counted values.")
ASSUMPTIONS = [
    "Migen simulator semantics for two clocks: registers sample the values before the instant; coinciding edges are one instant "
    "(no metastability / no setup-hold modelling; gray-code single-bit-change is therefore not exercised beyond the interleaving model)",
    "the user offers the data of a write no later than the cycle its command is first offered (possibly earlier), holds cmd/data until taken",
    "memory side with pulse semantics (as the real crossbar: wdata.ready/rdata.valid are unconditional one-cycle strobes): the user "
    "keeps rdata.ready = 1, and the memory side has at most max_outstanding commands in flight with max_outstanding + cmd_depth + "
    "data offered ahead < data FIFO depth - 2; user read stalls are generated only against a memory side that honours ready (DESIGN D11)",
    "a write word the crossing takes before its command is accepted is bound to that command (k-th write word <-> k-th write command)",
    "whole-core runs: controller settings are legal ControllerSettings values; 'deepq' runs use cmd_buffer_depth=16, refresh_postponing=8",
    "D_AsyncFifo models migen.genlib.fifo.AsyncFIFO (outside /repo) and is bound at the channel interfaces only",
    "DESIGN D11 settled: with rdata.ready = 1 the rdata FIFO holds at most (reads the memory side can hold) + cmd_depth words for "
    "ANY clocking (TLC, MC_CrossingRd, bound tight); the crossing built by get_port (4/16/16) is therefore safe for the default "
    "cmd_buffer_depth = 8 (9 + 4 <= 16 when the controller stalls) and loses words for cmd_buffer_depth = 16 (the 'deepq' runs)",
]

PAIRS = {                       # (user [period, phase], sys [period, phase]); even periods (Migen halves them)
    "eq_inphase": ([20, 0], [20, 0]), "eq_outphase": ([20, 7], [20, 0]), "1to3": ([20, 0], [60, 0]), "3to1": ([60, 0], [20, 0]),
    "7to10": ([14, 3], [20, 0]), "10to7": ([20, 0], [14, 5]), "9to10": ([18, 0], [20, 0]), "10to9": ([20, 0], [18, 1]),
    "31to10": ([62, 0], [20, 0]), "10to31": ([20, 0], [62, 9]), "drift_up": ([100, 0], [102, 0]), "drift_dn": ([102, 0], [100, 0]),
    "2to1_q": ([40, 10], [20, 0]), "1to2_q": ([20, 0], [40, 30]),
}
SUBS = [                        # sub-runs batched per scenario
    dict(tag="both-strict-mixed", mode="both", strict=True, profile="mixed", lat=[3, 12], stall=0.3, max_outstanding=6),
    dict(tag="write-strict-sat-lead", mode="write", strict=True, profile="sat", lat=[3, 5], stall=0.1, max_outstanding=6, wlead=2),
    dict(tag="read-strict-sat", mode="read", strict=True, profile="sat", lat=[3, 30], stall=0.5, max_outstanding=8),
    dict(tag="both-lenient-rstall", mode="both", strict=False, profile="bursty", lat=[3, 20], stall=0.4, rstall=0.6, max_outstanding=24),
    dict(tag="both-strict-slowmem", mode="both", strict=True, profile="sat", lat=[8, 40], stall=0.8, max_outstanding=7, wlead=1),
    dict(tag="read-lenient-longstall", mode="read", strict=False, profile="sat", lat=[3, 6], stall=0.0, rstall=0.9, max_outstanding=40),
]
SCHEDS = {"jitter": dict(kind="jitter"), "pause": dict(kind="pause"), "drift_fine": dict(kind="drift", pu=1.0, ps=1.013),
          "drift_fine2": dict(kind="drift", pu=1.031, ps=1.0, phase=0.0)}
XBAR = {   # whole core behind the crossing (get_port path). 'deepq' = deep bank queues: see the finding in the final report
    "xbar-SDR-7to10": dict(base="SDR", clocks=PAIRS["7to10"], tech=dict(tREFI=1800), mode="both", profile="mixed", ncmd=350),
    "xbar-DDR3-3to1": dict(base="DDR3", clocks=PAIRS["3to1"], tech=dict(tREFI=1800), mode="both", profile="sat", ncmd=300),
    "xbar-DDR3_200-6to1-postpone8-read": dict(base="DDR3_200", clocks=([120, 0], [20, 0]), tech=dict(tREFI=1000), mode="read",
                                              profile="sat", ncmd=350, addr_range=8, ctrl=dict(refresh_postponing=8)),
    "xbar-DDR3_200-6to1-postpone8-write": dict(base="DDR3_200", clocks=([120, 0], [20, 0]), tech=dict(tREFI=1000), mode="write",
                                               profile="sat", ncmd=350, addr_range=8, ctrl=dict(refresh_postponing=8)),
    # crossing combined with width conversion in get_port (converter on the user side of the crossing, in the user domain)
    "xbar-conv-up2-SDR-7to10": dict(base="SDR", clocks=PAIRS["7to10"], tech=dict(tREFI=1800), mode="both", profile="mixed", ncmd=260, user_dw=8),
    "xbar-conv-up4-DDR3-3to1": dict(base="DDR3", clocks=PAIRS["3to1"], tech=dict(tREFI=1800), mode="both", profile="mixed", ncmd=260, user_dw=32),
    "xbar-conv-down2-SDR-1to3": dict(base="SDR", clocks=PAIRS["1to3"], tech=dict(tREFI=1800), mode="both", profile="mixed", ncmd=200, user_dw=32),
    "xbar-deepq-read": dict(base="DDR3_200", clocks=([120, 0], [20, 0]), tech=dict(tREFI=1000), mode="read", profile="sat", ncmd=350,
                            addr_range=8, ctrl=dict(cmd_buffer_depth=16, refresh_postponing=8), max_ucycles=700),
    "xbar-deepq-write": dict(base="DDR3_200", clocks=([120, 0], [20, 0]), tech=dict(tREFI=1000), mode="write", profile="sat", ncmd=350,
                             addr_range=8, ctrl=dict(cmd_buffer_depth=16, refresh_postponing=8), max_ucycles=700),
}
XBAR_THOROUGH = {
    "xbar-DDR4-10to9": dict(base="DDR4", clocks=PAIRS["10to9"], tech=dict(tREFI=1800), mode="both", profile="sat", ncmd=500),
    "xbar-DDR2-10to31": dict(base="DDR2", clocks=PAIRS["10to31"], tech=dict(tREFI=1800), mode="both", profile="mixed", ncmd=500),
    "xbar-SDR-31to10": dict(base="SDR", clocks=PAIRS["31to10"], tech=dict(tREFI=1800), mode="both", profile="sat", ncmd=400),
    "xbar-DDR3-drift": dict(base="DDR3", clocks=PAIRS["drift_up"], tech=dict(tREFI=1800), mode="both", profile="bursty", ncmd=600),
    "xbar-DDR3_200-10to1-postpone8": dict(base="DDR3_200", clocks=([200, 0], [20, 0]), tech=dict(tREFI=1000), mode="both",
                                          profile="sat", ncmd=350, addr_range=8, ctrl=dict(refresh_postponing=8)),
    "xbar-DDR3_200-4to1-buffered": dict(base="DDR3_200", clocks=([80, 0], [20, 0]), tech=dict(tREFI=1000), mode="read", profile="sat",
                                        ncmd=500, addr_range=8, ctrl=dict(refresh_postponing=8, cmd_buffer_buffered=True)),
}


def scenarios(tier, seed):
    out = []
    quick = tier == "quick"
    pairs = ["eq_inphase", "eq_outphase", "1to3", "3to1", "7to10", "drift_up"] if quick else list(PAIRS)
    ncmd = 200 if quick else 700
    for i, pn in enumerate(pairs):
        subs = [dict(s, ncmd=ncmd, seed=seed * 977 + 13 * i + j) for j, s in enumerate(SUBS if not quick else SUBS[:4])]
        out.append(dict(name="cdc-" + pn, kind="cdc", clocking=pn, clocks=dict(user=PAIRS[pn][0], sys=PAIRS[pn][1]), subs=subs,
                        lock_edges=1500 if quick else 6000))
    for i, (sn, sp) in enumerate(SCHEDS.items()):
        if quick and sn == "drift_fine2":
            continue
        subs = [dict(s, ncmd=ncmd, seed=seed * 977 + 101 * i + j) for j, s in enumerate(SUBS[:4] if quick else SUBS)]
        out.append(dict(name="cdc-sched-" + sn, kind="cdc", clocking=sn, schedule=dict(sp, n=60000), subs=subs,
                        lock_edges=2500 if quick else 6000))
    if not quick:
        # FIFO depths and data widths
        for i, (dp, dw) in enumerate([(dict(cmd_depth=8, wdata_depth=32, rdata_depth=32), 32), (dict(cmd_depth=4, wdata_depth=16, rdata_depth=16), 128),
                                      (dict(cmd_depth=4, wdata_depth=32, rdata_depth=16), 64), (dict(cmd_depth=16, wdata_depth=64, rdata_depth=64), 32)]):
            for pn in ("7to10", "3to1", "10to31", "drift_dn"):
                mo = min(dp["wdata_depth"], dp["rdata_depth"]) - dp["cmd_depth"] - 6
                subs = [dict(s, ncmd=ncmd, seed=seed * 977 + 500 + 7 * i + j, depths=dp, dw=dw,
                             max_outstanding=(min(s["max_outstanding"], mo) if s["strict"] else s["max_outstanding"]))
                        for j, s in enumerate(SUBS[:5])]
                out.append(dict(name="cdc-depths%d-%s" % (i, pn), kind="cdc", clocking=pn, clocks=dict(user=PAIRS[pn][0], sys=PAIRS[pn][1]),
                                subs=subs, lock_edges=3000))
    # B3: behaviours of the TLA+ design model replayed as explicit schedules
    for k in range(2 if quick else 8):
        out.append(dict(name="cdc-tlc-replay-%d" % k, kind="replay", clocking="tlc", nbeh=6 if quick else 30, depth=250 if quick else 400, seed=seed * 31 + k))
    xb = dict(XBAR)
    if not quick:
        xb.update(XBAR_THOROUGH)
    for n, x in xb.items():
        out.append(dict(name=n, kind="xbar", clocking=n, x=x, seed=seed + 5))
    only = os.environ.get("VERIF_ONLY")          # development aid: comma-separated name prefixes
    if only:
        out = [s for s in out if any(s["name"].startswith(p) for p in only.split(","))]
    return out


def _subcase(sc, sub):
    d = dict(sub)
    if sc.get("clocks"):
        d["clocks"] = sc["clocks"]
    if sc.get("schedule"):
        d["schedule"] = sc["schedule"]
    return d


def _phases(events, sc):
    """distinct relative phases of user-side events inside the sys period (periodic clocks only): measured schedule coverage"""
    if not sc.get("clocks"):
        return []
    ps = sc["clocks"]["sys"][0]
    return sorted({e["t"] % ps for e in events if e.get("s") == "u"})


def execute(sc, workdir):
    from ..props import corecommon
    hdr = dict(nports=1, uniq=True, memsem=True, tid=0)
    lines, lock, depths = [], [], None
    stats = dict(user_cycles=0, sys_cycles=0, words_cmd=0, words_wdata=0, words_rdata=0, lock_lines=0, timed_out=0)
    nontrivial = []
    tids = {}
    runs = []
    peaks = {}                     # peak occupancies seen in this scenario (reported in the sample, not summed)
    stop_at = sc.get("confirm_hint")
    if sc["kind"] == "cdc":
        for j, sub in enumerate(sc["subs"]):
            runs.append((sub["tag"], _subcase(sc, sub), sc["lock_edges"] if j == 0 else 0, True))
    elif sc["kind"] == "xbar":
        x = sc["x"]
        core = dict(corecommon.BASE[x["base"]], tech=x.get("tech", {}), ports=[{}], ctrl=x.get("ctrl", {}))
        d = dict(via="xbar", core=core, mode=x["mode"], clocks=dict(user=x["clocks"][0], sys=x["clocks"][1]), ncmd=x["ncmd"],
                 profile=x["profile"], seed=sc["seed"])
        for k in ("addr_range", "max_ucycles", "user_dw"):
            if k in x:
                d[k] = x[k]
        runs.append((x["mode"], d, 2500, True))
    else:
        # TLC generates the schedules
        pref = os.path.join(workdir, "beh")
        rc, out = tlc.simulate("MC_AsyncFifo", "MC_AsyncFifo_sim.cfg", workdir, num=sc["nbeh"], depth=sc["depth"], seed=sc["seed"] + 1,
                               out_prefix=pref, timeout=600)
        files = sorted(glob.glob(pref + "_*"))
        for j, fn in enumerate(files):
            with open(fn) as f:
                acts = re.findall(r'act = "([WRB][01]+)"', f.read())
            os.remove(fn)
            if len(acts) < 40:          # a behaviour file cut short by the TLC time-out: unusable, not an error
                continue
            runs.append(("beh%d" % j, dict(replay=acts, strict=False, mode="both", seed=sc["seed"] + j, ncmd=0), 10 ** 9, False))
    if not runs:
        raise RuntimeError("no usable behaviour from TLC -simulate")
    sample = None
    if stop_at is not None:
        # confirmation on the stock simulator: only the first two failing sub-runs, cut shortly after their first failure
        keep = [j for j in stop_at.get("runs", []) if j < len(runs)][:2] or [0]
        runs = [runs[j] for j in keep]
    for j, (tag, d, lock_edges, memsem) in enumerate(runs):
        if stop_at is not None:
            d = dict(d, max_ucycles=min(d.get("max_ucycles", 10 ** 9), stop_at["uc"]), stall_limit=1200)
            lock_edges = 0
        r = cdcdut.run_cdc(d, lock_edges=lock_edges)
        tid = j + 1
        tids[tid] = tag
        lines.append(dict(c="NEW", tid=tid, nports=1, uniq=d.get("dw", 32) >= 32 and not d.get("user_dw"), memsem=memsem,
                          nocross=bool(d.get("user_dw"))))
        lines.extend(r["events"])
        if r["lock"]:
            if depths is None:
                depths = r["depths"]
            if r["depths"] == depths:
                lock.append(dict(k="NEW"))
                lock.extend(r["lock"])
        n = {(c, s): 0 for c in ("CMD", "WDATA", "RDATA") for s in "um"}
        for e in r["events"]:
            if (e["c"], e.get("s")) in n:
                n[(e["c"], e["s"])] += 1
        for k in ("user_cycles", "sys_cycles", "timed_out"):
            stats[k] += r["stats"][k]
        stats["words_cmd"] += n[("CMD", "u")]; stats["words_wdata"] += n[("WDATA", "u")]; stats["words_rdata"] += n[("RDATA", "u")]
        for k in ("rdata_fifo_max", "wdata_fifo_max", "mem_outstanding_max"):
            peaks[k] = max(peaks.get(k, 0), r["stats"][k])
        mode = d.get("mode", "both")
        used = (n[("CMD", "u")] > 0 and (mode == "read" or n[("WDATA", "u")] > 0) and (mode == "write" or n[("RDATA", "u")] > 0))
        if used:
            nontrivial.append([sc["clocking"], tag if sc["kind"] != "replay" else "tlc-behaviour-%d-%d" % (sc["seed"], j)])
            for ph in _phases(r["events"], d)[:64]:
                nontrivial.append([sc["clocking"], "phase", ph])
        if sample is None:
            sample = dict(run=tag, stats=r["stats"], first_events=r["events"][:8])
    tf = os.path.join(workdir, "trace.ndjson")
    tlc.write_ndjson(tf, hdr, lines)
    v = tlc.validate_trace("T_Crossing", tf, workdir)
    bad = [[tids.get(b[1], b[1])] + list(b[2:]) for b in v["bad"]]
    hint = None
    if v["bad"] and not stop_at:
        # stop the stock-simulator confirmation run a little after the (user-clock) cycle of the last first-failing event
        # of any sub-run (line n of the trace file is lines[n - 2])
        first = {}
        for b in v["bad"]:
            first[b[1]] = min(first.get(b[1], 10 ** 9), b[0])
        worst = sorted(first)[:2]
        hint = dict(uc=max(lines[first[t] - 2].get("uc", 0) for t in worst) + 80, runs=[t - 1 for t in worst])
    drift = []
    if lock:
        lf = os.path.join(workdir, "lock.ndjson")
        tlc.write_ndjson(lf, dict(depth=depths), lock)
        lv = tlc.validate_trace("T_AsyncFifo", lf, workdir)
        drift = lv["bad"]
        stats["lock_lines"] = len(lock)
        if not os.environ.get("VERIF_KEEP"):
            os.remove(lf)
    if not os.environ.get("VERIF_KEEP"):
        os.remove(tf)
    stats["model_drift"] = len(drift)
    if sample is not None:
        sample["model_drift"] = drift[:3]
        sample["peaks"] = peaks
    return dict(bad=bad, evaluations=len(lines), nontrivial=nontrivial, traces=len(runs), sample=sample, stats=stats,
                confirm_hint=hint, drift=drift[:5])


def finding_key(entry, sc):
    # entry = [sub-run tag, clause, details...]; channel is the first detail of the stream clauses
    clause = entry[1]
    ch = entry[2] if len(entry) > 2 and entry[2] in ("cmd", "wdata", "rdata") else "-"
    cls = "deepq" if "deepq" in sc["name"] else sc["kind"]
    return "%s|%s|%s" % (clause, ch, cls)


def models(tier, seed):
    if os.environ.get("VERIF_NOMODELS"):       # development aid (mutation campaigns): skip the TLC design models
        return []
    q = tier == "quick"
    def cfg(depth, maxpush, bug="none", live=False, invs=("ReqOK", "NoOverrun", "FlagsSafe", "HeadIsOldest", "Settled")):
        s = "SPECIFICATION %s\nCONSTANTS Depth = %d\n MaxPush = %d\n Bug = \"%s\"\n" % ("FairSpec" if live else "Spec", depth, maxpush, bug)
        s += "".join("INVARIANT %s\n" % i for i in invs)
        if live:
            s += "PROPERTY Drains\n"
        return s
    ms = [dict(module="MC_AsyncFifo", cfg=cfg(4, 12 if q else 20), workers=4, timeout=900, label="AsyncFifo depth4 all interleavings", coverage=True),
          dict(module="MC_AsyncFifo", cfg=cfg(4, 6, live=True, invs=("ReqOK",)), workers=2, timeout=900, label="AsyncFifo depth4 liveness (drains)"),
          dict(module="MC_AsyncFifo", cfg=cfg(4, 9, bug="nofull", invs=("ReqOK",)), workers=2, timeout=600, label="NEG AsyncFifo full test dropped", expect_violation=True),
          dict(module="MC_AsyncFifo", cfg=cfg(4, 9, bug="stale_read", invs=("ReqOK",)), workers=2, timeout=600, label="NEG AsyncFifo stale read address", expect_violation=True),
          dict(module="MC_CrossingRd", cfg="MC_CrossingRd_quick.cfg" if q else "MC_CrossingRd_thorough.cfg", workers=4, timeout=1500,
               label="read path cmd FIFO -> memory -> rdata FIFO: occupancy bound under all interleavings"),
          dict(module="MC_CrossingRd", cfg="MC_CrossingRd_neg.cfg", workers=4, timeout=900, expect_violation=True,
               label="NEG read path: memory side holds more reads than the rdata FIFO is deep (overflow reachable)")]
    if not q:
        ms.append(dict(module="MC_AsyncFifo", cfg=cfg(8, 36), workers=4, timeout=1500, label="AsyncFifo depth8 all interleavings"))
        ms.append(dict(module="MC_AsyncFifo", cfg=cfg(16, 40), workers=4, timeout=1500, label="AsyncFifo depth16 all interleavings"))
        ms.append(dict(module="MC_AsyncFifo", cfg=cfg(8, 12, live=True, invs=("ReqOK",)), workers=2, timeout=1500, label="AsyncFifo depth8 liveness"))
    return ms


def post(ctx, results, mresults):
    drift = sum((r.get("stats") or {}).get("model_drift", 0) for _, r in results if not r.get("error"))
    lock = sum((r.get("stats") or {}).get("lock_lines", 0) for _, r in results if not r.get("error"))
    if drift:
        print("MODEL-DRIFT module=D_AsyncFifo mismatches=%d (design-model result not bound to this tree; verdicts unaffected)" % drift)
    return dict(design_model_bound=(drift == 0 and lock > 0), lockstep_lines=lock, lockstep_mismatches=drift)
