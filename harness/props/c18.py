"""C18 -- DFI plumbing is transparent: injector mux and rate converter.
R-specs: specs/R_DfiMux.tla (HW / EXT pass-through in the same cycle, SW = function of CSR state only) via T_DfiMux.tla on
         per-cycle records of the real DFIInjector (driven through a real LiteX CSR bank);
         specs/R_RateConv.tla (every slow-side slot appears exactly once on the fast side, in phase order, with the documented
         latencies; write/read bursts of the matching cycle) via T_RateConv.tla on per-cycle records of both interfaces of the
         real DFIRateConverter.
D-model: specs/D_RateConv.tla (serializers / deserializers / phase interleaving, one action per fast clock edge) checked by
         TLC in MC_RateConv for ALL input sequences over small value domains against the same R_RateConv operators.
"""
import os

from .. import tlc, dfidut

ID = "C18"
LEVEL = "model_checking"
CONFIRM_STOCK = True
RULE = ("every field of every phase of every interface driven each cycle with random / walking-one / walking-zero / all-ones / "
        "zero values; injector: phases 1/2/4, ranks 1/2, data 16..64 bit, clam-shell on/off, CSR writes (mode switch, command, "
        "address, bank, data, issue strobes incl. back-to-back) at arbitrary cycles through a real CSR bank, external-DFI select "
        "toggling; rate converter: ratios 2 and 4 x fast phase counts 1/2/4 x every write_delay x every read_delay, phase-aligned "
        "clocks. Every cycle of every interface is judged by TLC. Non-trivial = a (configuration, mode) with judged cycles, a "
        "(configuration, field) whose every bit was seen at 0 and at 1 while judged, a (configuration, fast slot) that carried a command.")
ASSUMPTIONS = [
    "Migen simulator semantics; the two clocks of the rate converter are phase aligned (as its docstring requires and test_dfi.py sets up)",
    "harness-side compat shim (CSR names, wr_stb/rd_stb aliases) and a LiteX CSRBank in front of the injector's CSRs",
    "software never programs cs_top and cs_bottom together and uses them only in clam-shell configurations with one rank per half",
    "clam-shell: PHY-side cke/odt bits above the controller's rank count are not judged (they are not driven from either source)",
    "hardware mode with ext_dfi_sel = 1 is judged as pass-through of the external interface (as the signal name documents)",
    "documented latencies = the class attributes Serializer.LATENCY / Deserializer.LATENCY exposed as ser_latency / des_latency",
    "rate-converter fast-side write data outside the selected burst cycle is not judged",
]

INJ = [   # addressbits, bankbits, nranks, databits, nphases, clam
    dict(n="p1-r1-d16", addressbits=13, bankbits=2, nranks=1, databits=16, nphases=1, clam=False),
    dict(n="p2-r1-d32", addressbits=14, bankbits=3, nranks=1, databits=32, nphases=2, clam=False),
    dict(n="p4-r1-d32-clam", addressbits=15, bankbits=3, nranks=1, databits=32, nphases=4, clam=True),
    dict(n="p4-r2-d64", addressbits=16, bankbits=3, nranks=2, databits=64, nphases=4, clam=False),
    dict(n="p2-r2-d16-clam", addressbits=14, bankbits=3, nranks=2, databits=16, nphases=2, clam=True),
    dict(n="p1-r1-d8-clam", addressbits=12, bankbits=2, nranks=1, databits=8, nphases=1, clam=True),
    dict(n="p4-r1-d24", addressbits=17, bankbits=4, nranks=1, databits=24, nphases=4, clam=False),
    dict(n="p2-r2-d32", addressbits=14, bankbits=3, nranks=2, databits=32, nphases=2, clam=False),
]


def _rc_configs(tier):
    out = []
    k = 0
    for ratio in (2, 4):
        for wd in range(ratio):
            for rd in range(ratio):
                ps = (1, 2, 4) if tier == "thorough" else ((1, 2, 4)[k % 3],)
                for P in ps:
                    D = {2: (32, 16), 4: (32, 64)}[ratio][k % 2]
                    out.append(dict(n="r%d-P%d-wd%d-rd%d-D%d" % (ratio, P, wd, rd, D), ratio=ratio, P=P, databits=D, write_delay=wd,
                                    read_delay=rd, nranks=1 + (k % 2), addressbits=14 + (k % 4), bankbits=3))
                k += 1
    return out


def scenarios(tier, seed):
    out = []
    quick = tier == "quick"
    cyc = 1200 if quick else 5000
    inj = INJ
    for i in range(0, len(inj), 2):
        out.append(dict(name="inj-%d" % (i // 2), kind="inj", cfgs=[dict(c, cycles=cyc, seed=seed * 7 + i + j, sw_prob=(0.5, 0.8)[j % 2])
                                                                    for j, c in enumerate(inj[i:i + 2])]))
    if not quick:
        for i in range(0, len(inj), 2):
            out.append(dict(name="inj-b-%d" % (i // 2), kind="inj", cfgs=[dict(c, cycles=cyc, seed=seed * 7 + 100 + i + j, sw_prob=(0.2, 0.6)[j % 2])
                                                                          for j, c in enumerate(inj[i:i + 2])]))
    rcs = _rc_configs(tier)
    per = 3 if quick else 4
    for i in range(0, len(rcs), per):
        out.append(dict(name="rc-%d" % (i // per), kind="rc", cfgs=[dict(c, slow_cycles=160 if quick else 500, seed=seed * 11 + i + j)
                                                                    for j, c in enumerate(rcs[i:i + per])]))
    only = os.environ.get("VERIF_ONLY")
    if only:
        out = [s for s in out if any(s["name"].startswith(p) for p in only.split(","))]
    return out


def _bits(v, width):
    if isinstance(v, list):
        x = 0
        for i, limb in enumerate(v):
            x |= limb << (16 * i)
        return x
    return v


def _toggle_cov(samples, width):
    """True iff every bit position was seen at 0 and at 1"""
    if not samples:
        return False
    ones = zeros = 0
    full = (1 << width) - 1
    for v in samples:
        ones |= v
        zeros |= (~v) & full
    return ones == full and zeros == full


def execute(sc, workdir):
    stop_at = sc.get("confirm_hint")
    lines, nontrivial, lock = [], [], []
    stats = dict(cycles=0, configs=len(sc["cfgs"]), lock_lines=0, model_drift=0)
    tids = {}
    if sc["kind"] == "inj":
        tspec = "T_DfiMux"
        hdr = None
        for j, c in enumerate(sc["cfgs"]):
            c = dict(c, tid=j + 1)
            if stop_at:
                c["cycles"] = min(c["cycles"], stop_at)
            r = dfidut.run_injector(c)
            tids[j + 1] = c["n"]
            hdr = hdr or r["cfg"]
            lines.append(dict(r["cfg"], c="NEW"))
            lines.extend(r["lines"])
            stats["cycles"] += len(r["lines"])
            # measured coverage
            widths = dict(address=c["addressbits"], bank=c["bankbits"], cas_n=1, cs_n=c["nranks"], ras_n=1, we_n=1, cke=c["nranks"], odt=c["nranks"],
                          reset_n=1, act_n=1, wrdata=c["databits"], wrdata_en=1, wrdata_mask=c["databits"] // 8, rddata_en=1)
            for mode, pred, src in (("HW", lambda o: o["sel"] == 1 and o["ext"] == 0, "slave"), ("EXT", lambda o: o["sel"] == 1 and o["ext"] == 1, "extif")):
                sel = [o for o in r["lines"] if pred(o)]
                if sel:
                    nontrivial.append([c["n"], mode])
                for f, w in widths.items():
                    if w and _toggle_cov([_bits(o[src][p][f], w) for o in sel for p in range(c["nphases"])], w):
                        nontrivial.append([c["n"], mode, f])
            sw = [o for o in r["lines"] if o["sel"] == 0]
            if sw:
                nontrivial.append([c["n"], "SW"])
                for p in range(c["nphases"]):
                    if any(o["csr"]["ph"][p]["issue"] for o in sw):
                        nontrivial.append([c["n"], "SW-issue", p])
                if any(o["sel"] == 0 and q["sel"] == 1 for o, q in zip(r["lines"], r["lines"][1:])) and \
                        any(o["sel"] == 1 and q["sel"] == 0 for o, q in zip(r["lines"], r["lines"][1:])):
                    nontrivial.append([c["n"], "mode-switch-both-ways"])
    else:
        tspec = "T_RateConv"
        hdr = None
        for j, c in enumerate(sc["cfgs"]):
            c = dict(c, tid=j + 1)
            if stop_at:
                c["slow_cycles"] = min(c["slow_cycles"], stop_at)
            r = dfidut.run_rateconv(c)
            tids[j + 1] = c["n"]
            hdr = hdr or r["cfg"]
            lines.append(r["cfg"])
            lines.extend(r["lines"])
            lock.extend(dfidut.rateconv_lock_lines(r["cfg"], r["lines"]))
            stats["cycles"] += len(r["lines"])
            nontrivial.append([c["n"], "run"])
            fast = [o for o in r["lines"] if o["k"] == "F"]
            for p in range(c["P"]):
                for jj in range(c["ratio"]):
                    if any(o["j"] == jj and o["ph"][p]["cs_n"] != (1 << c["nranks"]) - 1 for o in fast[c["ratio"] * 2:]):
                        nontrivial.append([c["n"], "slot", p, jj])
            slow = [o for o in r["lines"] if o["k"] == "S"]
            for f, w in (("address", c["addressbits"]), ("bank", c["bankbits"]), ("wrdata", c["databits"] // c["ratio"]), ("rddata", c["databits"] // c["ratio"])):
                if _toggle_cov([o["ph"][k][f] for o in slow for k in range(c["P"] * c["ratio"])], w):
                    nontrivial.append([c["n"], "field", f])
    tf = os.path.join(workdir, "trace.ndjson")
    tlc.write_ndjson(tf, hdr, lines)
    v = tlc.validate_trace(tspec, tf, workdir)
    fmt = [b for b in v["bad"] if len(b) > 2 and b[2] == "FORMAT"]
    if fmt:
        raise RuntimeError("recorded trace is malformed (harness defect, not a verdict): %r" % fmt[:3])
    bad = [[tids.get(b[1], b[1])] + list(b[2:]) for b in v["bad"]]
    hint = None
    if v["bad"] and not stop_at:
        hint = 400
    drift = []
    if lock:
        # B2: the design model D_RateConv stepped over the same edges must show the same outputs (never a verdict)
        lf = os.path.join(workdir, "lock.ndjson")
        tlc.write_ndjson(lf, lock[0], lock)
        drift = tlc.validate_trace("T_RateConvLock", lf, workdir)["bad"]
        stats["lock_lines"], stats["model_drift"] = len(lock), len(drift)
        if not os.environ.get("VERIF_KEEP"):
            os.remove(lf)
    if not os.environ.get("VERIF_KEEP"):
        os.remove(tf)
    sample = dict(kind=sc["kind"], configs=[c["n"] for c in sc["cfgs"]], info=v["info"], first_record=lines[1] if len(lines) > 1 else None,
                  model_drift=drift[:3])
    return dict(bad=bad, evaluations=len(lines) - len(sc["cfgs"]), nontrivial=nontrivial, traces=len(sc["cfgs"]), sample=sample, stats=stats,
                confirm_hint=hint)


def finding_key(entry, sc):
    # injector: [cfg, clause, text, phase, field, ...]   rate converter: [cfg, clause, text, cycle, phase, field?...]
    clause = entry[1]
    field = next((x for x in entry[3:] if isinstance(x, str)), "-")
    return "%s|%s|%s" % (sc["kind"], clause, field)


def models(tier, seed):
    if os.environ.get("VERIF_NOMODELS"):       # development aid (mutation campaigns): skip the TLC design models
        return []
    q = tier == "quick"

    def cfg(ratio, wd, rd, m2s, s2m, bug="none", fin="FinTwo", P=1, cmdvals="{0, 1}", chunkvals="{0, 1}"):
        return ("SPECIFICATION Spec\nCONSTANTS P = %d\n Ratio = %d\n WD = %d\n RD = %d\n CmdVals = %s\n ChunkVals = %s\n FinVals <- %s\n"
                " Bug = \"%s\"\n DriveM2S = %s\n DriveS2M = %s\nINVARIANT ReqOK\n" % (P, ratio, wd, rd, cmdvals, chunkvals, fin, bug,
                                                                                     "TRUE" if m2s else "FALSE", "TRUE" if s2m else "FALSE"))
    ms = [dict(module="MC_RateConv", cfg=cfg(2, 1, 0, True, False), workers=3, timeout=900, label="RateConv ratio2 controller->PHY, all sequences (wd=1)"),
          dict(module="MC_RateConv", cfg=cfg(2, 0, 1, False, True), workers=3, timeout=900, label="RateConv ratio2 PHY->controller, all sequences (rd=1)"),
          dict(module="MC_RateConv", cfg=cfg(2, 0, 0, True, False, bug="ser_order"), workers=2, timeout=600, label="NEG phase interleaving order reversed", expect_violation=True),
          dict(module="MC_RateConv", cfg=cfg(2, 1, 0, True, False, bug="wd_window"), workers=2, timeout=600, label="NEG write burst in the wrong window", expect_violation=True),
          dict(module="MC_RateConv", cfg=cfg(2, 0, 0, False, True, bug="rd_window"), workers=2, timeout=600, label="NEG read burst from the wrong window", expect_violation=True)]
    if not q:
        ms += [dict(module="MC_RateConv", cfg=cfg(2, 0, 1, True, False), workers=3, timeout=900, label="RateConv ratio2 controller->PHY (wd=0)"),
               dict(module="MC_RateConv", cfg=cfg(2, 1, 0, False, True), workers=3, timeout=900, label="RateConv ratio2 PHY->controller (rd=0)"),
               dict(module="MC_RateConv", cfg=cfg(2, 0, 1, False, True, fin="FinFour"), workers=4, timeout=1500, label="RateConv ratio2 PHY->controller, valid independent of data"),
               dict(module="MC_RateConv", cfg=cfg(2, 1, 1, True, False, P=2, chunkvals="{0}"), workers=4, timeout=1500, label="RateConv ratio2, 2 fast phases, commands"),
               dict(module="MC_RateConv", cfg=cfg(2, 1, 1, True, False, P=2, cmdvals="{0}"), workers=4, timeout=1500, label="RateConv ratio2, 2 fast phases, write bursts"),
               dict(module="MC_RateConv", cfg=cfg(4, 2, 0, True, False, chunkvals="{0}"), workers=4, timeout=1500, label="RateConv ratio4, commands"),
               dict(module="MC_RateConv", cfg=cfg(4, 2, 0, True, False, cmdvals="{0}"), workers=4, timeout=1500, label="RateConv ratio4, write bursts (wd=2)"),
               dict(module="MC_RateConv", cfg=cfg(4, 0, 3, False, True), workers=4, timeout=1500, label="RateConv ratio4 PHY->controller (rd=3)")]
    return ms


def post(ctx, results, mresults):
    drift = sum((r.get("stats") or {}).get("model_drift", 0) for _, r in results if not r.get("error"))
    lockn = sum((r.get("stats") or {}).get("lock_lines", 0) for _, r in results if not r.get("error"))
    if drift:
        print("MODEL-DRIFT module=D_RateConv mismatches=%d (design-model result not bound to this tree; verdicts unaffected)" % drift)
    keys = set()
    for _, r in results:
        for k in (r.get("nontrivial") or []):
            keys.add(tuple(k))
    inj = {c["n"] for c in INJ}
    full_hw = sorted(n for n in inj if all((n, "HW", f) in keys for f in ("address", "bank", "cs_n", "wrdata", "wrdata_mask", "cas_n", "ras_n", "we_n",
                                                                                 "cke", "odt", "reset_n", "act_n", "wrdata_en", "rddata_en")))
    return dict(design_model_bound=(drift == 0 and lockn > 0), lockstep_lines=lockn, lockstep_mismatches=drift,
                injector_configs_with_every_m2s_bit_toggled_in_hw_mode=full_hw, injector_configs=len(inj),
                rate_converter_slots_with_command=len([k for k in keys if len(k) == 4 and k[1] == "slot"]))
