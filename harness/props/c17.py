"""C17 -- generated initialisation programs the DRAM consistently with the controller (litedram/init.py, common.py).

R-spec: specs/R_ModeRegs.tla (JEDEC mode-register DECODE tables, RDIMM inversion, clam-shell mirroring; write-recovery
arithmetic through R_TimingConv), trace spec: specs/T_ModeRegs.tla.  One record = one configuration for which the REAL
get_sdram_phy_init_sequence / get_sdram_phy_c_header / get_sdram_phy_py_header were called; the record carries the returned
sequence and both rendered headers parsed back to (address, bank, command, delay) lists.  TLC decodes and judges.
"""
import math, os, random, re

from .. import env, tlc
from . import c16

ID = "C17"
LEVEL = "exploration"
RULE = ("memory types SDR, DDR, LPDDR, DDR2, DDR3, DDR4, LPDDR4, LPDDR5 x every distinct (tWR, tWTR, tCCD) declaration of the module "
        "library for that type x rates the PHYs use x controller clocks (grid + break-points of the tWR/tWTR ceils + the boundaries of "
        "the default CL/CWL tables) with (CL, CWL) taken from the real get_default_cl_cwl / the PHYs' fixed pairs / the LPDDR4-5 PHY "
        "tables x electrical options (each value once + random combinations) x DDR4 fine-refresh modes x RDIMM x clam-shell. "
        "One evaluation = one real generator call (sequence + C header + Python header) judged by TLC (R_ModeRegs!InitBad). "
        "Non-trivial = distinct (memtype, nphases, CL, CWL, decoded-WR-relevant timing signature, option set); sums.tight_wr counts "
        "records whose programmed write recovery is exactly RU(tWR/tCK).")
ASSUMPTIONS = [
    "PhySettings are built by the harness the way the PHYs build them (cl/cwl from the real get_default_cl_cwl or the PHY's constants); vendor PHYs are not elaborated",
    "controller burst length = nphases for SDR, common.burst_lengths[memtype] otherwise (controller.py), read from the real common.py",
    "controller write-to-precharge wait = ceil(cwl/nphases) + tWR + tCCD controller cycles (bankmachine.py twtpcon), restated in the harness; "
    "clause (b): earliest re-activation (wait + tRP cycles, least favourable phases) must not precede the device's WL + BL/2 + WR (+1 for LPDDR4/5) + RU(tRP/tCK); "
    "the least favourable phase pair is assumed reachable (true for the 1:2 PHYs: write on phase 1, activate on phase 0); clause (b) is applied "
    "only inside the JEDEC DLL-on clock range of the memory type (below it, e.g. S6 DDR3 CL5/CWL6 at <= 109 MHz 1:2, the formula is exceeded by one clock "
    "but the JEDEC timing model itself does not apply)",
    "datasheet tWR = the module library's declaration; timing_settings come from the real SDRAMModule constructor",
    "controller clock 25..400 MHz; DRAM clock >= 75 MHz (DDR), 80 MHz (DDR2, DDR3), 300 MHz (DDR4) and <= the fastest entry of the CL/CWL table in use",
    "electrical options are set as attributes rtt_nom / rtt_wr / ron / tdqs (what init.py reads); PhySettings.add_electrical_settings stores "
    "rtt_nom under the name 'rtt', which init.py never reads - reported as an observation, not judged",
    "RPC is outside the property's list of memory types and is not generated",
    "LPDDR5 uses the example module of litedram.phy.lpddr5.simsoc when importable (the library has no LPDDR5 part); otherwise tWR clauses are skipped for it",
]

JVM_ENV = None
FMIN, FMAX = 25000, 400000
# slowest DRAM clock (kHz) generated per memory type: below the slowest configuration found on LiteX boards (DDR3 at 96 MHz);
# JEDEC's own minimum (tCK max, DLL on) is higher still.  SDR / LPDDR / LPDDR4 / LPDDR5 have no practical lower limit.
DRAM_MIN = {"DDR": 75000, "DDR2": 80000, "DDR3": 80000, "DDR4": 300000}
# fastest DRAM clock (kHz) at which a PHY's FIXED CAS latency is a legal JEDEC choice (CL3 for DDR-400 / DDR2-400, CL5 for DDR3-800)
FIXED_CL_MAX = {"DDR": 200000, "LPDDR": 200000, "DDR2": 200000, "DDR3": 400000}
RATES = {"SDR": [1, 2], "DDR": [2], "LPDDR": [2], "DDR2": [2, 4], "DDR3": [2, 4], "DDR4": [4], "LPDDR4": [8], "LPDDR5": [1]}
CTRL = {"DFII_CONTROL_SEL", "DFII_CONTROL_CKE", "DFII_CONTROL_ODT", "DFII_CONTROL_RESET_N"}

OHM = {"disabled": 0, "disable": 0, "high-z": -2}
DDR3_OPTS = dict(rtt_nom=["disabled", "60ohm", "120ohm", "40ohm", "20ohm", "30ohm"], rtt_wr=["disabled", "60ohm", "120ohm"],
                 ron=["40ohm", "34ohm"], tdqs=[0, 1])
DDR4_OPTS = dict(rtt_nom=["disabled", "60ohm", "120ohm", "40ohm", "240ohm", "48ohm", "80ohm", "34ohm"],
                 rtt_wr=["disabled", "120ohm", "240ohm", "high-z", "80ohm"], ron=["34ohm", "48ohm"], tdqs=[0])
LP4_ODT = ["disable", "RZQ/1", "RZQ/2", "RZQ/3", "RZQ/4", "RZQ/5", "RZQ/6"]
LP4_OPTS = dict(dq_odt=LP4_ODT, ca_odt=LP4_ODT, pull_down_drive_strength=LP4_ODT[1:],
                vref=[(0, 10.0), (0, 30.0), (0, 20.4), (1, 22.0), (1, 30.4), (1, 42.0), (1, 36.8)])
# LPDDR4 PHY (phy/lpddr4/basephy.py get_cl_cw): (max data rate, RL, WL) - stimulus data only
LP4_TABLE = [(532e6, 6, 4), (1066e6, 10, 6), (1600e6, 14, 8), (2132e6, 20, 10), (2666e6, 24, 12), (3200e6, 28, 14), (3732e6, 32, 16), (4266e6, 36, 18)]


def neutral(v):
    """electrical option value -> JEDEC-neutral integer (RZQ/k divisor, RZQ = 240 ohm)"""
    if isinstance(v, int):
        return v
    if v in OHM:
        return OHM[v]
    if v.startswith("RZQ/"):
        return int(v[4:])
    return int(round(240 / float(v[:-3])))


# ------------------------------------------------------------------------------------------------ configurations
def signatures():
    """{memtype: [(clsname, sg, frm, sig)]} one representative per distinct (tWR, tWTR, tCCD) declaration (x frm for DDR4)."""
    lib = dict(c16.library())
    out = {}
    for name, sg, frm in c16.blocks_of_library():
        cls = lib[name]
        mt = cls.memtype
        if mt not in RATES:
            continue
        d, refi = c16.declaration(cls.technology_timings, cls.speedgrade_timings[sg], frm, name)
        sig = (tuple(d[2]), tuple(d[4]), tuple(d[6]), frm)
        seen = out.setdefault(mt, {})
        seen.setdefault(sig, (name, sg, frm))
    return {mt: sorted(v.values(), key=str) for mt, v in out.items()}


_LP5 = []


def lp5_module():
    """litedram/phy/lpddr5/simsoc.py imports LiteX simulation classes this LiteX lacks; take only the module class out of its source."""
    if _LP5:
        return _LP5[0]
    cls = None
    try:
        import ast
        import litedram.modules as M
        path = os.path.join(env.REPO, "litedram", "phy", "lpddr5", "simsoc.py")
        tree = ast.parse(open(path).read())
        for node in tree.body:
            if isinstance(node, ast.ClassDef) and node.name == "LPDDR5ExampleModule":
                ns = dict(SDRAMModule=M.SDRAMModule, _TechnologyTimings=M._TechnologyTimings, _SpeedgradeTimings=M._SpeedgradeTimings)
                exec(compile(ast.Module(body=[node], type_ignores=[]), path, "exec"), ns)
                cls = ns["LPDDR5ExampleModule"]
    except Exception:
        cls = None
    _LP5.append(cls)
    return cls


def table_clocks(mt, n):
    """controller clocks (kHz) straddling the boundaries of the default CL/CWL tables (tck = m/f  <=>  f_sys = f/(m*n))"""
    tabs = {"SDR": [100e6, 133e6], "DDR2": [400e6, 533e6, 677e6, 800e6, 1066e6], "DDR3": [800e6, 1066e6, 1333e6, 1600e6, 1866e6],
            "DDR4": [1333e6, 1600e6, 1866e6, 2133e6, 2400e6, 2666e6], "LPDDR4": [x[0] for x in LP4_TABLE]}.get(mt, [])
    m = 1 if mt == "SDR" else 2
    out = set()
    for f in tabs:
        k = int(f / (m * n) / 1000)
        out.update((k - 1, k, k + 1))
    return out


def pick_cl(mt, n, fkhz, variant):
    """(cl, cwl, cwl_explicit, ratio) the way the PHYs choose, or None if no PHY setting exists at this clock."""
    from litedram.common import get_default_cl_cwl
    tck = 1 / (n * fkhz * 1e3)
    try:
        if variant == "s6":                       # S6HalfRateDDRPHY / S6QuarterRateDDRPHY constants
            return (5, 6, 1, 0) if mt == "DDR3" else (3, None, 0, 0)
        if mt in ("SDR",):
            return (get_default_cl_cwl(mt, tck)[0], None, 0, 0)
        if mt in ("DDR", "LPDDR"):
            return (3, None, 0, 0)
        if mt in ("DDR2", "DDR3", "DDR4"):
            cl, cwl = get_default_cl_cwl(mt, tck)
            return (cl, cwl, 1, 0)
        if mt == "LPDDR4":
            for f, cl, cwl in LP4_TABLE:
                if tck >= 2 / f:
                    return (cl, cwl, 1, 0)
            return None
        if mt == "LPDDR5":
            from litedram.phy.lpddr5.basephy import get_frange
            ratio = variant
            fr = get_frange(1 / (ratio * fkhz * 1e3), ratio).for_set(wl_set="A", rl_set=0)
            return (fr.rl, fr.wl, 1, ratio)
    except ValueError:
        return None
    return None


def build_phy(mt, n, cl, cwl, ratio, opts, rdimm, clam, fkhz):
    from litedram.common import PhySettings
    databits = 16
    dfi = {"SDR": databits, "LPDDR5": 16 * databits}.get(mt, 2 * databits)
    phy = PhySettings(phytype="C17PHY", memtype=mt, databits=databits, dfi_databits=dfi, nphases=n, rdphase=0, wrphase=n - 1 if n > 1 else 0,
                      cl=cl, cwl=cwl, read_latency=cl + 4, write_latency=1, is_clam_shell=bool(clam))
    for k, v in opts.items():
        setattr(phy, k, v)
    if rdimm:
        phy.set_rdimm(tck=1 / (n * fkhz * 1e3), rcd_pll_bypass=False, rcd_ca_cs_drive=0x5, rcd_odt_cke_drive=0x5, rcd_clk_drive=0x5)
    if mt == "LPDDR5":
        phy.wck_ck_ratio = ratio
    return phy


# ------------------------------------------------------------------------------------------------ parsing the renderings back
_DEF = re.compile(r"#define\s+(\w+)\s+(0x[0-9a-fA-F]+|\d+)\s*$")
_STMT = re.compile(r"(sdram_dfii_pi0_address_write|sdram_dfii_pi0_baddress_write|sdram_dfii_control_write|command_p0|cdelay)\(([^)]*)\);")


def mask_of(expr, defs):
    v = 0
    for tok in expr.split("|"):
        v |= defs[tok.strip()]
    return v


def parse_c(text):
    defs = {}
    for line in text.split("\n"):
        m = _DEF.match(line.strip())
        if m:
            defs[m.group(1)] = int(m.group(2), 0)
    body = text[text.index("static inline void init_sequence(void)"):]
    seq, cur = [], None
    for fn, arg in _STMT.findall(body):
        if fn == "sdram_dfii_pi0_address_write":
            if cur is not None:
                seq.append(cur)
            cur = [int(arg, 0), None, None, 0, None]
        elif fn == "sdram_dfii_pi0_baddress_write":
            cur[1] = int(arg, 0)
        elif fn in ("sdram_dfii_control_write", "command_p0"):
            if cur[2] is not None:
                raise RuntimeError("C header: two command writes for one address write")
            cur[2] = mask_of(arg, defs)
            cur[4] = 1 if fn == "sdram_dfii_control_write" else 0
        elif fn == "cdelay":
            cur[3] = int(arg, 0)
    if cur is not None:
        seq.append(cur)
    if any(x is None for e in seq for x in e):
        raise RuntimeError("C header: incomplete init_sequence entry")
    wr = [defs.get("DDRX_MR_WRLVL_ADDRESS", -1), defs.get("DDRX_MR_WRLVL_RESET", -1)]
    return seq, defs, wr


def parse_py(text):
    ns = {}
    exec(text, ns)
    return [[int(a), int(ba), int(cmd), int(delay)] for _c, a, ba, cmd, delay in ns["init_sequence"]], int(ns.get("ddrx_mr1", -1))


BASE_DEFS = {"DFII_CONTROL_SEL": 1, "DFII_CONTROL_CKE": 2, "DFII_CONTROL_ODT": 4, "DFII_CONTROL_RESET_N": 8,
             "DFII_COMMAND_CS": 1, "DFII_COMMAND_WE": 2, "DFII_COMMAND_CAS": 4, "DFII_COMMAND_RAS": 8,
             "DFII_COMMAND_WRDATA": 16, "DFII_COMMAND_RDDATA": 32}


def norm_seq(seq, defs):
    out = []
    for _c, a, ba, cmd, delay in seq:
        toks = [t.strip() for t in cmd.split("|")]
        ctl = 1 if all(t in CTRL for t in toks) else 0
        out.append([int(a), int(ba), mask_of(cmd, defs), int(delay), ctl])
    return out


# ------------------------------------------------------------------------------------------------ one record
def record(cfg):
    """cfg: dict(mt, n, f, cls, sg, frm, variant, opts, rdimm, clam) -> NDJSON record (or None if no PHY setting exists)."""
    from litedram import init as I
    from litedram.common import burst_lengths
    mt, n, f = cfg["mt"], cfg["n"], cfg["f"]
    sel = pick_cl(mt, n, f, cfg["variant"])
    if sel is None:
        return None
    cl, cwl, cwlx, ratio = sel
    cls = cfg["_cls"]
    sg, frm = cfg["sg"], cfg["frm"]
    mod = cls(clk_freq=f * 1000, rate="1:%d" % n, speedgrade=None if sg == "default" else sg, fine_refresh_mode=frm)
    ts = mod.timing_settings
    d, _refi = c16.declaration(cls.technology_timings, cls.speedgrade_timings[sg], frm, cfg["cls"])
    opts = dict(cfg["opts"])
    phy = build_phy(mt, n, cl, cwl, ratio, opts, cfg["rdimm"], cfg["clam"], f)
    eff_cwl = phy.cwl
    want = {}
    for k, v in opts.items():
        if k in ("vref_ca_range", "vref_dq_range"):
            continue
        if k in ("vref_ca", "vref_dq"):
            want[k] = int(round(v * 10))
        elif k == "pull_down_drive_strength":
            want["pdds"] = neutral(v)
        else:
            want[k] = neutral(v)
    rec = dict(mt=mt, n=n, f=f, cl=cl, cwl=eff_cwl, cwlx=cwlx, bl=(n if mt == "SDR" else burst_lengths[mt]),
               twr=[d[2][0], d[2][1]], trp=[d[0][0], d[0][1]], trpc=ts.tRP, wait=math.ceil(eff_cwl / n) + ts.tWR + (ts.tCCD or 0), tccd=ts.tCCD if ts.tCCD is not None else -1,
               frm=getattr(ts, "fine_refresh_mode", None) or "1x", rdimm=int(cfg["rdimm"]), clam=int(cfg["clam"]), ratio=ratio,
               opt=want or {"none": -1}, raised="", seq=[], cseq=[], pseq=[], wrlvl=[-1, -1], pymr1=-1, abits=mod.geom_settings.addressbits,
               id=dict(cls=cfg["cls"], sg=sg, variant=str(cfg["variant"]), opts={k: str(v) for k, v in opts.items()},
                       tWR=ts.tWR, tWTR=ts.tWTR))
    try:
        seq, _mr = I.get_sdram_phy_init_sequence(phy, ts)
        ch = I.get_sdram_phy_c_header(phy, ts, mod.geom_settings)
        ph = I.get_sdram_phy_py_header(phy, ts)
    except (KeyError, ValueError, AssertionError, IndexError, TypeError) as e:
        rec["raised"] = "%s: %s" % (type(e).__name__, str(e)[:60])
        return rec
    cseq, defs, wr = parse_c(ch)
    for k, v in BASE_DEFS.items():
        if defs.get(k) != v:
            raise RuntimeError("C header define %s = %r (DFII register layout changed?)" % (k, defs.get(k)))
    rec["seq"] = norm_seq(seq, defs)
    rec["cseq"] = cseq
    rec["pseq"], rec["pymr1"] = parse_py(ph)
    rec["wrlvl"] = wr
    return rec


# ------------------------------------------------------------------------------------------------ scenarios
TIERS = {"quick": dict(gstep=2500, optfull=3, rnd=3, chunks=2), "thorough": dict(gstep=250, optfull=16, rnd=12, chunks=8)}


def scenarios(tier, seed):
    sigs = signatures()
    p = TIERS[tier]
    out = []
    for mt in RATES:
        reps = sigs.get(mt, [])
        if mt == "LPDDR5":
            reps = [("LPDDR5ExampleModule", "default", None)]
        if not reps:
            continue
        k = min(p["chunks"], len(reps))
        for i in range(k):
            out.append(dict(name="%s-%d" % (mt, i), mt=mt, reps=[list(r) for r in reps[i::k]], tier=tier, seed=seed * 977 + len(out)))
    return out


def option_sets(mt, rnd, p):
    """[(opts, rdimm, clam)]; the first is the default configuration"""
    base = [({}, 0, 0)]
    if mt == "DDR3":
        tab = DDR3_OPTS
    elif mt == "DDR4":
        tab = DDR4_OPTS
    elif mt == "LPDDR4":
        out = list(base)
        for k in ("dq_odt", "ca_odt", "pull_down_drive_strength"):
            out += [({k: v}, 0, 0) for v in LP4_OPTS[k]]
        for rng, v in LP4_OPTS["vref"]:
            out.append(({"vref_ca_range": rng, "vref_ca": v}, 0, 0))
            out.append(({"vref_dq_range": rng, "vref_dq": v}, 0, 0))
        return out
    else:
        return base
    out = list(base)
    for k, vals in tab.items():
        out += [({k: v}, 0, 0) for v in vals]
    for _ in range(p["rnd"]):
        out.append(({k: rnd.choice(v) for k, v in tab.items()}, 0, 0))
    if mt == "DDR4":
        out += [({}, 1, 0), ({}, 0, 1), ({}, 1, 1), ({k: rnd.choice(v) for k, v in tab.items()}, 1, 1)]
    return out


def configs(sc):
    p = TIERS[sc["tier"]]
    rnd = random.Random(sc["seed"])
    lib = dict(c16.library())
    mt = sc["mt"]
    for name, sg, frm in sc["reps"]:
        cls = lp5_module() if mt == "LPDDR5" else lib[name]
        if cls is None:
            continue
        d, _ = c16.declaration(cls.technology_timings, cls.speedgrade_timings[sg], frm, name)
        variants = {"LPDDR5": [2, 4], "DDR3": ["default", "s6"], "DDR2": ["default", "s6"]}.get(mt, ["default"])
        for n in RATES[mt]:
            grid = set(range(FMIN + sc["seed"] % p["gstep"], FMAX + 1, p["gstep"]))
            fs = sorted(f for f in grid | c16.breakpoints([d[2][1], d[4][1]], n, 40, rnd) | table_clocks(mt, n)
                        if FMIN <= f <= FMAX and f * n >= DRAM_MIN.get(mt, 0))
            osets = option_sets(mt, rnd, p)
            for vi, variant in enumerate(variants):
                if variant == "s6" and n == 4 and mt != "DDR3":
                    continue
                fixed = variant == "s6" or mt in ("DDR", "LPDDR")
                for j, f in enumerate(fs):
                    if fixed and f * n > FIXED_CL_MAX[mt]:
                        continue
                    # every clock with the default options; the full option list on every optfull-th grid clock
                    use = osets if (j % max(1, len(fs) // p["optfull"]) == 0) else osets[:1]
                    for opts, rdimm, clam in use:
                        yield dict(mt=mt, n=n, f=f, cls=name, sg=sg, frm=frm, variant=variant, opts=opts, rdimm=rdimm, clam=clam, _cls=cls)


def execute(sc, workdir):
    env.setup()
    lines, skipped = [], 0
    for cfg in configs(sc):
        r = record(cfg)
        if r is None:
            skipped += 1
        else:
            lines.append(r)
    corrupt = sc.get("corrupt")          # binding demonstration only: flip one bit of one recorded mode-register value
    if corrupt:
        rec = lines[corrupt["line"]]
        k = [i for i, e in enumerate(rec["seq"]) if e[2] == 15 and e[4] == 0][corrupt["mrs"]]
        rec["seq"][k][0] ^= corrupt["xor"]
    ids = [r.pop("id") for r in lines]
    tf = os.path.join(workdir, "init.ndjson")
    tlc.write_ndjson(tf, dict(prop="C17", scenario=sc["name"], tier=sc["tier"]), lines)
    v = tlc.validate_trace("T_ModeRegs", tf, workdir, xmx="4g", env=JVM_ENV)
    info = v["info"]
    if info["env"]:
        raise RuntimeError("trace rejected as malformed by T_ModeRegs: %s" % info["env"][:3])
    if info["n"] != len(lines):
        raise RuntimeError("TLC judged %s records, %s were written" % (info["n"], len(lines)))
    bad = []
    for clause, subject, mt, first, cnt, have, need in v["bad"]:
        ex = lines[first - 2]
        bad.append([clause, subject, mt, dict(records=cnt, first=dict(ids[first - 2], nphases=ex["n"], clk_khz=ex["f"], cl=ex["cl"], cwl=ex["cwl"],
                                                                     rdimm=ex["rdimm"], clam=ex["clam"], have=have, need=need,
                                                                     mrs=[[e[1], e[0]] for e in ex["seq"] if e[2] == 15 and e[4] == 0]))])
    nontrivial = sorted({(r["mt"], r["n"], r["cl"], r["cwl"], i["tWR"], i["tWTR"], r["rdimm"], r["clam"], tuple(sorted(i["opts"].items())))
                         for r, i in zip(lines, ids)})
    sample = dict(first=dict(lines[0], id=ids[0]) if lines else None, skipped_no_phy_setting=skipped)
    if not os.environ.get("VERIF_KEEP"):
        os.remove(tf)
    return dict(bad=bad, evaluations=len(lines), nontrivial=[list(map(str, k)) for k in nontrivial], traces=1, sample=sample,
                cfgs=info["cfgs"], mt=sc["mt"], reps=sc["reps"],
                stats=dict(records=len(lines), with_wr_field=info["nwr"], tight_wr=info["tightwr"], raised=sum(1 for r in lines if r["raised"]),
                           skipped_no_phy_setting=skipped, tlc_wall=v["wall"]))


def finding_key(entry, sc):
    # entry = [clause, subject, memtype, {...}] -> "<memtype>:<subject>:<clause>"
    return "%s:%s:%s" % (entry[2], entry[1], entry[0])


def post(ctx, results, mresults):
    sigs = signatures()
    want = {(mt, r[0], r[1], r[2]) for mt, reps in sigs.items() for r in reps}
    seen, pairs = set(), set()
    for sc, r in results:
        if r.get("error"):
            continue
        for rep in r.get("reps", []):
            seen.add((r["mt"], rep[0], rep[1], rep[2]))
        for c in r.get("cfgs", []):
            pairs.add(tuple(c))
    cover = want <= seen
    return dict(exhaustive=False, timing_signatures=len(want), timing_signatures_visited=len(want & seen),
                distinct_memtype_nphases_cl_cwl=len(pairs), all_signatures_visited=bool(cover))
