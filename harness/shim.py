"""Harness-side compatibility shim (not in /repo): Python 3.12 breaks migen CSR name extraction; LiteX 2024.12 lacks CSR.wr_stb/rd_stb."""
import itertools
import litex.soc.interconnect.csr as _csr
import migen.fhdl.tracer as _tr
_orig = _tr.get_obj_var_name
_cnt = itertools.count()
def _safe(override=None, default=None):
    try:
        r = _orig(override, default)
    except Exception:
        r = None
    if r is None:
        r = "csr%d" % next(_cnt)
    return r
_csr.get_obj_var_name = _safe
# litex 2024.12 lacks CSR.wr_stb/rd_stb (added upstream later as aliases of re/we)
_oinit = _csr.CSR.__init__
def _init(self, *a, **k):
    _oinit(self, *a, **k)
    if not hasattr(self, "wr_stb"): self.wr_stb = self.re
    if not hasattr(self, "rd_stb"): self.rd_stb = self.we
_csr.CSR.__init__ = _init
