"""Lock-step conformance (binding B2) of specs/D_BankMachine.tla with the real litedram.core.bankmachine.BankMachine."""
import json, os, random
from . import env, tlc


def run_bm(sc, workdir):
    env.setup()
    from migen import passive
    from litedram.common import Settings
    from litedram.core.bankmachine import BankMachine

    class S(Settings):
        def __init__(self, **kw):
            self.set_attributes(kw)
    p = sc["params"]
    rowbits, colbits, align = 11, p["colbits"], p["align"]
    st = S(cmd_buffer_depth=p["depth"], cmd_buffer_buffered=False, with_auto_precharge=p["ap"])
    st.phy = S(cwl=p["cwl"], nphases=p["nphases"], nranks=1, memtype="DDR2", dfi_databits=32)
    st.geom = S(bankbits=1, rowbits=rowbits, colbits=colbits, addressbits=max(rowbits, colbits))
    st.timing = S(tRAS=p["tRAS"], tRC=p["tRC"], tCCD=p["tCCD"], tRCD=p["tRCD"], tRP=p["tRP"], tWR=p["tWR"])
    aw = rowbits + colbits - align
    bm = BankMachine(0, aw, align, 1, st)
    ncols = 2 ** (colbits - align)
    nrows = p["nrows"]
    rnd = random.Random(sc["seed"])
    outs = []
    stim = sc.get("stimulus")        # optional explicit per-cycle inputs (from TLC behaviours): list of dicts

    @passive
    def mon():
        while True:
            outs.append(dict(cmdvalid=(yield bm.cmd.valid), cas=(yield bm.cmd.cas), ras=(yield bm.cmd.ras), we=(yield bm.cmd.we),
                             iscmd=(yield bm.cmd.is_cmd), isread=(yield bm.cmd.is_read), iswrite=(yield bm.cmd.is_write),
                             a=(yield bm.cmd.a), reqready=(yield bm.req.ready), wready=(yield bm.req.wdata_ready),
                             rvalid=(yield bm.req.rdata_valid), lock=(yield bm.req.lock), gnt=(yield bm.refresh_gnt),
                             i_valid=(yield bm.req.valid), i_we=(yield bm.req.we), i_addr=(yield bm.req.addr),
                             i_cmdready=(yield bm.cmd.ready), i_refreq=(yield bm.refresh_req)))
            yield

    state = dict(valid=0, we=0, addr=0, refreq=0, gntcnt=0)

    def drv():
        n = len(stim) if stim else sc["ncyc"]
        for c in range(n):
            if stim:
                i = stim[c]
                yield bm.req.valid.eq(int(i["valid"])); yield bm.req.we.eq(int(i["we"])); yield bm.req.addr.eq(int(i["addr"]))
                yield bm.cmd.ready.eq(int(i["cmdready"])); yield bm.refresh_req.eq(int(i["refreq"]))
                yield
                continue
            rdy = (yield bm.req.ready); gnt = (yield bm.refresh_gnt)
            if state["valid"] and rdy:
                state["valid"] = 0
            if state["refreq"] and gnt:
                state["gntcnt"] += 1
                if state["gntcnt"] > rnd.randrange(2, 6):
                    state["refreq"] = 0; state["gntcnt"] = 0
            if not state["valid"] and rnd.random() < p.get("pvalid", 0.7):
                state["valid"] = 1; state["we"] = int(rnd.random() < 0.5)
                state["addr"] = rnd.randrange(nrows) * ncols + rnd.randrange(ncols)
            if not state["refreq"] and rnd.random() < p.get("pref", 0.03):
                state["refreq"] = 1
            yield bm.req.valid.eq(state["valid"]); yield bm.req.we.eq(state["we"]); yield bm.req.addr.eq(state["addr"])
            yield bm.cmd.ready.eq(int(rnd.random() < p.get("pready", 0.6))); yield bm.refresh_req.eq(state["refreq"])
            yield
    env.run_simulation(bm, [drv(), mon()])
    write_latency = -(-p["cwl"] // p["nphases"])
    twtp = write_latency + p["tWR"] + p["tCCD"]
    bits = lambda t: max(1, (max(t, 2) - 1).bit_length())
    consts = dict(NRows=nrows, NCols=ncols, Align=align, Depth=p["depth"], tRP=p["tRP"], tRCD=p["tRCD"], tWTP=twtp,
                  tRC=p["tRC"] or 0, tRAS=p["tRAS"] or 0, CntBitsWTP=bits(twtp), CntBitsRC=bits(p["tRC"] or 0),
                  CntBitsRAS=bits(p["tRAS"] or 0), AutoPre="TRUE" if p["ap"] else "FALSE", RefWaitsTras="TRUE")
    cfgp = os.path.join(workdir, "T_BankMachine.cfg")
    with open(cfgp, "w") as f:
        f.write("SPECIFICATION TSpec\nINVARIANT AtEnd\nCHECK_DEADLOCK FALSE\nCONSTANTS\n" +
                "\n".join(" %s = %s" % kv for kv in consts.items()) + "\n")
    tf = os.path.join(workdir, "bm.ndjson")
    rows = [{k: (bool(v) if k not in ("a", "i_addr") else int(v)) for k, v in o.items()} for o in outs]
    # requests addressing rows outside the model's range are not generated; addresses are row*NCols+col with row < nrows
    for r in rows:
        r["i_addr"] = (r["i_addr"] // ncols) * ncols + (r["i_addr"] % ncols)
    tlc.write_ndjson(tf, dict(consts=consts), rows)
    v = tlc.validate_trace("T_BankMachine", tf, workdir, cfg=cfgp)
    issued = sum(1 for o in outs if o["cmdvalid"] and o["i_cmdready"])
    return dict(cycles=len(rows), issued=issued, mismatches=v["bad"], consts=consts, sample=rows[:4])
