"""C19 helper: makes the accelerated evaluator usable for SDRAMPHYModel with byte-granular memories.

Migen lowers `mem[adr][8*i:8*i+8].eq(x)` to an _ArrayProxy whose choices are _Slice objects (one per memory word);
harness/fastsim.py turns that into an if/elif chain with one arm per word, which CPython refuses to compile beyond a few
thousand arms.  This module adds (by wrapping _Gen.a, in the calling process only) an indexed read-modify-write for exactly
that shape; everything else is delegated unchanged.  Violations are re-confirmed on the stock interpreter (CONFIRM_STOCK)."""
from migen.fhdl.structure import Signal, _Slice, _ArrayProxy
from . import fastsim

_orig_a = fastsim._Gen.a


def _a(self, node, val, ind):
    if isinstance(node, _ArrayProxy) and node.choices and all(
            isinstance(c, _Slice) and isinstance(c.value, Signal) for c in node.choices):
        c0 = node.choices[0]
        if all(c.start == c0.start and c.stop == c0.stop and c.value.nbits == c0.value.nbits and not c.value.signed
               for c in node.choices):
            pad = "    " * ind
            n = len(node.choices)
            t, tv, ti = self.tmp(), self.tmp(), self.tmp()
            k = self.const(tuple(self.idx(c.value) for c in node.choices))
            w = c0.stop - c0.start
            clr = ((1 << c0.stop) - 1) - ((1 << c0.start) - 1)
            self.lines.append("%s%s = min(%d, %s)" % (pad, t, n - 1, self.e(node.key)))
            self.lines.append("%s%s = %s" % (pad, tv, val))
            self.lines.append("%s%s = %s[%s]" % (pad, ti, k, t))
            self.lines.append("%sM[%s] = (((M.get(%s, V[%s])) & ~%d) | (((%s) & %d) << %d)) & %d" % (
                pad, ti, ti, ti, clr, tv, (1 << w) - 1, c0.start, (1 << c0.value.nbits) - 1))
            return
    return _orig_a(self, node, val, ind)


def install():
    if fastsim._Gen.a is not _a:
        fastsim._Gen.a = _a
