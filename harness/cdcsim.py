"""Two-clock simulation helper for C08/C18 (owner: C08/C18 checks).

Migen's simulator has no public notion of "now"; events recorded in different clock domains must be merged by the
simulator's global time (DESIGN 3.4).  `run()` builds the same simulator `env.run_simulation` would build (accelerated
evaluator unless VERIF_FASTSIM=0), and replaces only its TimeManager by a wrapper that
  * accumulates the absolute time (`TimeRef.now`, same unit as the clock periods) and the index of the current step,
  * optionally replaces the periodic clocks by an EXPLICIT SCHEDULE: a sequence of sets of clock-domain names whose rising
    edges happen at that step (one entry = one instant).  This is how TLC-generated interleavings of D_AsyncFifo
    (WTick / RTick / BothTick) are replayed into the real netlist, and how jittering / drifting / pausing clocks are
    produced: the periodic case is the special case of a periodic schedule.
The evaluation algorithm (delta cycles, generator protocol) is untouched.

NOTE Migen uses half_period = period // 2: odd periods are silently shortened. Use even periods.
"""
from . import env


class TimeRef:
    def __init__(self):
        self.now = 0
        self.step = 0


class _Tracking:
    def __init__(self, inner, ref):
        self.inner, self.ref = inner, ref
        self.clocks = inner.clocks

    def tick(self):
        dt, rising, falling = self.inner.tick()
        self.ref.now += dt
        if rising:
            self.ref.step += 1
        return dt, rising, falling


class _Scheduled:
    """Explicit schedule: steps = list of iterables of domain names; after the list is exhausted `tail` (a list of steps)
    is repeated forever (the generators decide when the simulation ends)."""
    def __init__(self, inner, ref, steps, tail):
        self.ref = ref
        self.clocks = inner.clocks
        self.steps = [frozenset(s) for s in steps]
        self.tail = [frozenset(s) for s in tail]
        assert self.tail and all(self.tail)
        self.i = 0
        self.high = None

    def tick(self):
        self.ref.now += 1
        if self.high is not None:
            f, self.high = self.high, None
            return 1, set(), set(f)
        if self.i < len(self.steps):
            s = self.steps[self.i]
        else:
            s = self.tail[(self.i - len(self.steps)) % len(self.tail)]
        self.i += 1
        self.ref.step += 1
        self.high = s
        return 1, set(s), set()


def run(dut, generators, clocks, ref=None, schedule=None, tail=None):
    """clocks: {"sys": 20, "user": (14, 3)} as for migen.run_simulation (needed also with a schedule: it names the domains).
    schedule: optional list of steps, each an iterable of domain names rising at that instant."""
    ref = ref or TimeRef()
    if env.fastsim_enabled():
        from .fastsim import FastSimulator as S
    else:
        from migen.sim.core import Simulator as S
    with S(dut, generators, clocks=clocks) as s:
        if schedule is None:
            s.time = _Tracking(s.time, ref)
        else:
            s.time = _Scheduled(s.time, ref, schedule, tail or [[d] for d in sorted(clocks)])
        s.run()
    return ref
