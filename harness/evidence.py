"""Evidence files (/verif/evidence/<id>.json) per /root/.vp/EVIDENCE.schema.json."""
import json, os
from .env import VERIF


def write(pid, tier, seed, level, coverage, wall_s, violations, assumptions, outdir=None):
    outdir = outdir or os.path.join(VERIF, "evidence")
    os.makedirs(outdir, exist_ok=True)
    doc = dict(property_id=pid, tier=tier, seed=int(seed), level=level, coverage=coverage,
               assumptions=list(assumptions), wall_s=round(float(wall_s), 2), violations=int(violations))
    path = os.path.join(outdir, pid + ".json")
    tmp = path + ".tmp"
    with open(tmp, "w") as f:
        json.dump(doc, f, indent=1, default=str)
    os.replace(tmp, path)
    return path
