"""Lock-step conformance (binding B2) of specs/D_Crossbar.tla with the real litedram.core.crossbar.LiteDRAMCrossbar.
The bank machines are replaced by the abstract bank of the model (queue, lock while non-empty, completion of the head at the
environment's choice) so that only the crossbar's own logic -- arbitration, locking, routing of strobes -- is compared."""
import os, random
from . import env, tlc


def run_xbar(sc, workdir):
    env.setup()
    from migen import passive
    from litedram.common import Settings, LiteDRAMInterface
    from litedram.core.crossbar import LiteDRAMCrossbar

    class S(Settings):
        def __init__(self, **kw):
            self.set_attributes(kw)
    p = sc["params"]
    M, B, depth = p["M"], p["B"], p["depth"]
    bankbits = max(1, (B - 1).bit_length())
    st = S(cmd_buffer_depth=depth, address_mapping="ROW_BANK_COL")
    st.phy = S(nranks=1, dfi_databits=16, nphases=1, read_latency=p.get("rl", 2), write_latency=p.get("wl", 0), memtype="SDR")
    st.geom = S(bankbits=bankbits, rowbits=4, colbits=4, addressbits=4)
    st.timing = S()
    itf = LiteDRAMInterface(0, st)
    itf.nbanks, itf.nranks, itf.settings = 2 ** bankbits, 1, st
    xb = LiteDRAMCrossbar(itf)
    ports = [xb.get_port() for _ in range(M)]
    banks = [getattr(itf, "bank%d" % b) for b in range(2 ** bankbits)]
    nb = len(banks)
    rnd = random.Random(sc["seed"])
    rows = []
    q = [[] for _ in range(nb)]          # abstract bank queues: entries (master, we)
    cur = [dict(valid=0, bank=0) for _ in range(M)]
    maxcmd = p.get("maxcmd", 10 ** 9)
    issued = [0] * M
    serve_now = [nb]

    @passive
    def mon():
        while True:
            acc, bvalid = [], []
            for m, port in enumerate(ports):
                acc.append(bool((yield port.cmd.valid) and (yield port.cmd.ready)))
            for b, bank in enumerate(banks):
                bvalid.append(bool((yield bank.valid)))
            # who gets the strobe of the completing bank: observe the undelayed routing through bank.wdata_ready -> master index is not
            # public; it is reconstructed from the delayed per-master strobes by the caller (see `strobes`)
            want, wrdy = [], []
            for m, port in enumerate(ports):
                v = bool((yield port.cmd.valid))
                a = (yield port.cmd.addr)
                want.append(dict(valid=v, bank=(a >> xshift) & (nb - 1)))
                wrdy.append(bool((yield port.wdata.ready)))
            srv = nb
            for b, bank in enumerate(banks):
                if (yield bank.wdata_ready):
                    srv = b
            rows.append(dict(want=want, acc=acc, bvalid=bvalid, serve=srv, wrdy=wrdy))
            yield
    # the crossbar takes the bank from address bits [cba_shift : cba_shift+bankbits] = colbits - align = 4
    xshift = 4

    def drv():
        for c in range(sc["ncyc"]):
            # observe the cycle that just ended: acceptances go into the abstract banks, the served bank pops its head
            for m, port in enumerate(ports):
                if (yield port.cmd.valid) and (yield port.cmd.ready):
                    b = cur[m]["bank"]
                    q[b].append(m)
                    issued[m] += 1
                    cur[m] = dict(valid=0, bank=0)
            if serve_now[0] < nb and q[serve_now[0]]:
                q[serve_now[0]].pop(0)
            # choose the next cycle: new offers (held until accepted), the bank that completes
            for m, port in enumerate(ports):
                if not cur[m]["valid"] and issued[m] < maxcmd and rnd.random() < p.get("poffer", 0.6):
                    cur[m] = dict(valid=1, bank=rnd.randrange(nb))
                yield port.cmd.valid.eq(cur[m]["valid"])
                yield port.cmd.we.eq(1)
                yield port.cmd.addr.eq(cur[m]["bank"] << xshift)
            cand = [b for b in range(nb) if q[b]]
            serve_now[0] = rnd.choice(cand) if cand and rnd.random() < p.get("pserve", 0.5) else nb
            for b, bank in enumerate(banks):
                yield bank.ready.eq(int(len(q[b]) < depth))
                yield bank.lock.eq(int(len(q[b]) > 0))
                yield bank.wdata_ready.eq(int(serve_now[0] == b and len(q[b]) > 0))
                yield bank.rdata_valid.eq(0)
            yield
    env.run_simulation(xb, [drv(), mon()])
    # master that received the strobe of the bank served in cycle i = the one whose wdata.ready pulses write_latency+1 cycles later
    lat = st.phy.write_latency + 1
    for i, r in enumerate(rows):
        s = 0
        if i + lat < len(rows):
            ws = [m for m in range(M) if rows[i + lat]["wrdy"][m]]
            s = ws[0] if ws else 0
        r["strobe"] = s
    rows = rows[:len(rows) - lat - 1]
    for r in rows:
        del r["wrdy"]
    consts = dict(M=M, B=nb, Depth=depth, Hidden=0, MaxCmd=1, Unbounded="TRUE")
    cfgp = os.path.join(workdir, "T_Crossbar.cfg")
    with open(cfgp, "w") as f:
        f.write("SPECIFICATION TSpec\nINVARIANT AtEnd\nCHECK_DEADLOCK FALSE\nCONSTANTS\n" + "\n".join(" %s = %s" % kv for kv in consts.items()) + "\n")
    tf = os.path.join(workdir, "xbar.ndjson")
    tlc.write_ndjson(tf, dict(consts=consts), rows)
    v = tlc.validate_trace("T_Crossbar", tf, workdir, cfg=cfgp)
    return dict(cycles=len(rows), accepted=sum(sum(r["acc"]) for r in rows), mismatches=v["bad"], consts=consts, sample=rows[:2], info=v["info"])
