"""setup_cmd helper: parse every specification with SANY (offline) so that a broken spec is found before any check runs."""
import glob, os, sys
from concurrent.futures import ThreadPoolExecutor
from . import tlc
from .env import SPECS


def main():
    mods = sorted(os.path.basename(p)[:-4] for p in glob.glob(os.path.join(SPECS, "*.tla")))
    tops = [m for m in mods if m.startswith(("T_", "MC_")) or m.endswith("Test")]
    def one(m):
        try:
            tlc.sany(m)
            return None
        except Exception as e:
            return "%s: %s" % (m, str(e)[-800:])
    with ThreadPoolExecutor(max_workers=8) as ex:
        errs = [e for e in ex.map(one, tops) if e]
    for e in errs:
        print(e)
    print("setup: %d top-level specs parsed, %d errors" % (len(tops), len(errs)))
    sys.exit(1 if errs else 0)


if __name__ == "__main__":
    main()
