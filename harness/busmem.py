"""Shared by C10 (Wishbone) and C11 (Avalon-MM): the real bridge in front of the ideal native memory (harness/idealmem.py,
pulse semantics), standard-conforming bus masters driven from a deterministic plan, and passive per-cycle recorders.

Nothing here judges: drivers obey the bus standards, recorders format what was observed on the public bus signals,
the final contents of the backing memory are dumped as MEM events; specs/R_WbMem.tla / R_AvlMem.tla decide under TLC.
The backing memory is initialised with the pattern documented in specs/R_ByteMem.tla (BmInitByte).
"""
import random

from . import env
from .idealmem import IdealMem, tobytes


def initbyte(B):
    return (B * 73 + (B >> 8) * 19 + 5) & 0xff


def initword_fn(nb):
    def f(a):
        v = 0
        for j in range(nb):
            v |= initbyte(a * nb + j) << (8 * j)
        return v
    return f


def bits(v, n):
    return [(v >> j) & 1 for j in range(n)]


class Dead(Exception):
    """The driver gave up waiting (reported to the spec as a TIMEOUT event)."""


class ScriptMem:
    """Native memory with the same pulse semantics as IdealMem but SCRIPTED timing (replay of TLC behaviours, binding B3):
    cmd.ready of cycle c = ready[c] (1 after the script); the k-th accepted command gets its single wdata.ready /
    rdata.valid strobe lat[k] cycles after its accept (default 2), in command order."""

    def __init__(self, port, ready, lat, init):
        self.port, self.ready, self.lat, self.initf = port, list(ready), list(lat), init
        self.mem, self.events, self.outstanding, self.cycle = {}, [], 0, 0
        self.nb = port.data_width // 8

    def read(self, a):
        return self.mem.get(a, self.initf(a))

    def sorted_events(self):
        return self.events

    def process(self):
        port, q, k = self.port, [], 0
        rdy, strobe = 0, None
        while True:
            c = self.cycle
            if strobe is not None:
                if strobe[0]:
                    if (yield port.wdata.valid):
                        d, m = (yield port.wdata.data), (yield port.wdata.we)
                        old = self.read(strobe[1])
                        for j in range(self.nb):
                            if (m >> j) & 1:
                                old = (old & ~(0xff << (8 * j))) | (d & (0xff << (8 * j)))
                        self.mem[strobe[1]] = old
                        self.events.append(dict(c="WDATA", a=strobe[1], t=c))
                    else:
                        self.events.append(dict(c="WDROP", a=strobe[1], t=c))
                self.outstanding -= 1
                strobe = None
            if rdy and (yield port.cmd.valid):
                q.append([(yield port.cmd.we), (yield port.cmd.addr), c + (self.lat[k] if k < len(self.lat) else 2)])
                self.events.append(dict(c="CMD", we=bool(q[-1][0]), a=q[-1][1], t=c))
                k += 1
                self.outstanding += 1
            rdy = self.ready[c + 1] if c + 1 < len(self.ready) else 1
            yield port.cmd.ready.eq(rdy)
            fire = bool(q) and q[0][2] <= c + 1
            yield port.wdata.ready.eq(1 if fire and q[0][0] else 0)
            yield port.rdata.valid.eq(1 if fire and not q[0][0] else 0)
            if fire:
                strobe = q.pop(0)
                yield port.rdata.data.eq(self.read(strobe[1]) if not strobe[0] else 0x99999999 & ((1 << port.data_width) - 1))
            else:
                yield port.rdata.data.eq(int("99" * self.nb, 16))
            self.cycle += 1
            yield


# ------------------------------------------------------------------------------------------------ Wishbone

CTI_CLASSIC, CTI_CONST, CTI_INCR, CTI_END = 0, 1, 2, 7


def wb_plan(sc):
    """Deterministic list of operations for the Wishbone master.
    op = dict(pre=(mode, cycles), beats=[dict(a, we, sel, d, cti, abort, stbgap)], drop_after=bool)
      pre mode: "idle" (CYC low for >= 1 cycles), "hold" (CYC high, STB low), "b2b" (next access right after the ack).
      abort = None | n: negate CYC and STB when no ACK was seen during the first n cycles of the beat.
      stbgap: cycles with CYC high / STB low inserted before a later beat of a burst.
      drop_after: the master ends an incrementing burst early by negating CYC (no CTI=111 beat)."""
    if sc.get("ops") is not None:
        return sc["ops"]
    rnd = random.Random(sc["seed"] * 1000003 + 77)
    nbw = sc["wbw"] // 8
    basew = sc["base"] // nbw
    win = sc.get("window", 32)
    far = sc.get("far", [1 << 12, (1 << 16) + 5])
    p_burst, p_aw, p_ar = sc.get("p_burst", 0.3), sc.get("p_abort_w", 0.0), sc.get("p_abort_r", 0.1)
    p_part, p_drop = sc.get("p_partial", 0.35), sc.get("p_drop", 0.05)
    maxab = sc.get("max_abort", 14)
    hot = [rnd.randrange(win) for _ in range(4)]
    ops = []

    def addr():
        r = rnd.random()
        if r < 0.45:
            return rnd.choice(hot)
        if r < 0.95:
            return rnd.randrange(win)
        return rnd.choice(far) + rnd.randrange(4)

    def sel(we):
        if rnd.random() < p_part:
            return rnd.getrandbits(nbw)
        return (1 << nbw) - 1

    def abort(we):
        if rnd.random() < (p_aw if we else p_ar):
            return rnd.randint(1, maxab)
        return None

    if sc.get("mixed"):
        # long HELD cycles (CYC rarely negated) mixing reads and writes of a few native words, CTI chosen per access
        # (CTI is a hint: the property quantifies over all sequences of address / sel / we / CTI)
        ratio = max(1, sc["pw"] // sc["wbw"])
        small = max(2, ratio) * 3
        for i in range(sc["nops"]):
            we = int(rnd.random() < 0.5)
            r = rnd.random()
            pre = ("idle", 1) if (i == 0 or r < 0.06) else (("hold", rnd.choice([1, 2])) if r < 0.25 else ("b2b", 0))
            a = rnd.randrange(small) if rnd.random() < 0.9 else rnd.randrange(win)
            ops.append(dict(pre=pre, drop_after=False,
                            beats=[dict(a=basew + a, we=we, sel=sel(we) if we else (1 << nbw) - 1, d=rnd.getrandbits(sc["wbw"]),
                                        cti=rnd.choice([CTI_INCR, CTI_INCR, CTI_INCR, CTI_END, CTI_CLASSIC]),
                                        abort=abort(we), stbgap=0)]))
        ops.append(dict(pre=("idle", 2), drop_after=True,
                        beats=[dict(a=basew + win + 3, we=1, sel=(1 << nbw) - 1, d=rnd.getrandbits(sc["wbw"]), cti=CTI_INCR, abort=None, stbgap=0)]))
        return ops
    for i in range(sc["nops"]):
        we = int(rnd.random() < sc.get("wfrac", 0.5))
        r = rnd.random()
        if i == 0 or r < 0.35:
            pre = ("idle", rnd.choice([1, 1, 2, 3, 8, 30]))
        elif r < 0.5:
            pre = ("hold", rnd.choice([1, 2, 5]))
        else:
            pre = ("b2b", 0)
        beats = []
        drop_after = False
        if rnd.random() < p_burst:
            n = rnd.randint(1, sc.get("max_burst", 9))
            a0 = addr()
            for k in range(n):
                beats.append(dict(a=basew + a0 + k, we=we, sel=sel(we), d=rnd.getrandbits(sc["wbw"]),
                                  cti=CTI_END if k == n - 1 else CTI_INCR, abort=abort(we),
                                  stbgap=rnd.choice([0, 0, 0, 1, 3]) if k else 0))
            if n > 1 and rnd.random() < p_drop:
                beats.pop()                     # ends with CTI=010 and a negated CYC
                drop_after = True
        else:
            beats.append(dict(a=basew + addr(), we=we, sel=sel(we), d=rnd.getrandbits(sc["wbw"]),
                              cti=rnd.choice([CTI_CLASSIC, CTI_CLASSIC, CTI_CLASSIC, CTI_END, CTI_CONST]),
                              abort=abort(we), stbgap=0))
        ops.append(dict(pre=pre, beats=beats, drop_after=drop_after))
    # every run ends with a first beat of a write burst after which the master negates CYC for good: the posted / merged
    # data must still reach the backing memory (final MEM dump)
    ops.append(dict(pre=("idle", 2), drop_after=True,
                    beats=[dict(a=basew + win + 3, we=1, sel=(1 << nbw) - 1, d=rnd.getrandbits(sc["wbw"]), cti=CTI_INCR, abort=None, stbgap=0)]))
    return ops


def build_wb(sc):
    env.setup()
    from migen import Module
    from litex.soc.interconnect import wishbone
    from litedram.common import LiteDRAMNativePort
    from litedram.frontend.wishbone import LiteDRAMWishbone2Native

    class Top(Module):
        def __init__(self):
            self.wb = wishbone.Interface(data_width=sc["wbw"], adr_width=30, addressing="word")
            self.port = LiteDRAMNativePort("both", address_width=sc.get("aw", 26 - (sc["pw"] // 8).bit_length() + 1), data_width=sc["pw"])
            self.submodules.bridge = LiteDRAMWishbone2Native(self.wb, self.port, base_address=sc["base"])
    return Top()


def run_wb(sc):
    """Simulate one scenario on the real bridge. Returns dict(header, events, cycles, dead, ops)."""
    env.setup()
    from migen import passive
    top = build_wb(sc)
    wb, port = top.wb, top.port
    nbw, nbp = sc["wbw"] // 8, sc["pw"] // 8
    if sc.get("mem_script"):
        mem = ScriptMem(port, sc["mem_script"]["ready"], sc["mem_script"]["lat"], initword_fn(nbp))
    else:
        mem = IdealMem([port], seed=sc["seed"], lat=tuple(sc.get("lat", (3, 12))), stall=sc.get("stall", 0.3),
                       init=initword_fn(nbp), eager=bool(sc.get("eager")), wready=sc.get("wready", 0.7))
    ops = wb_plan(sc)
    bound = sc.get("bound", 1500)
    rnd = random.Random(sc["seed"] * 31 + 5)
    events = []
    log = []
    state = dict(cycle=0, dead=False, active=0)

    def junk():
        # signals qualified by STB are don't-care while STB is low: drive noise
        yield wb.adr.eq(rnd.getrandbits(12))
        yield wb.we.eq(rnd.getrandbits(1))
        yield wb.sel.eq(rnd.getrandbits(nbw))
        yield wb.dat_w.eq(rnd.getrandbits(sc["wbw"]))
        yield wb.cti.eq(rnd.choice([0, 2, 7]))

    def idle(n, cyc):
        yield wb.cyc.eq(cyc)
        yield wb.stb.eq(0)
        for _ in range(n):
            if sc.get("noise", True):
                yield from junk()
            yield

    def beat(b):
        """-> 'ack' | 'abort'.  On return the cycle in which ACK was sampled (or the last waiting cycle) has just ended."""
        yield wb.adr.eq(b["a"])
        yield wb.we.eq(b["we"])
        yield wb.sel.eq(b["sel"])
        yield wb.dat_w.eq(b["d"])
        yield wb.cti.eq(b["cti"])
        yield wb.bte.eq(0)
        yield wb.cyc.eq(1)
        yield wb.stb.eq(1)
        n = 0
        while True:
            yield
            n += 1
            if (yield wb.ack):
                log.append([b["we"], b["cti"], "ack", min(n, 24)])
                return "ack"
            if b["abort"] is not None and n >= b["abort"]:
                log.append([b["we"], b["cti"], "abort", min(n, 24)])
                return "abort"
            if n >= bound:
                events.append((state["cycle"], 1, dict(c="TIMEOUT", t=state["cycle"])))
                state["dead"] = True
                raise Dead()

    def master():
        try:
            must_idle = True
            for op in ops:
                if op.get("pre_seq") is not None:
                    # exact replay of a TLC behaviour: list of (cyc level, cycles)
                    for lvl, g in op["pre_seq"]:
                        yield from idle(g, lvl)
                    must_idle = False
                    mode, g = "b2b", 0
                else:
                    mode, g = op["pre"]
                if op.get("pre_seq") is not None:
                    pass
                elif must_idle or mode == "idle":
                    yield from idle(max(1, g), 0)
                elif mode == "hold":
                    yield from idle(max(1, g), 1)
                must_idle = False
                for b in op["beats"]:
                    if b["stbgap"]:
                        yield from idle(b["stbgap"], 1)
                    r = yield from beat(b)
                    if r == "abort":
                        must_idle = True
                        break
                if op["drop_after"]:
                    must_idle = True
        except Dead:
            pass
        # end of the plan: negate CYC, let posted writes drain
        yield wb.cyc.eq(0)
        yield wb.stb.eq(0)
        yield wb.we.eq(0)
        yield from drain()

    def drain():
        # let posted / buffered writes reach the backing memory: quiescent = no native-port activity for 60 cycles
        n = 0
        state["active"] = state["cycle"]      # the master's last beat counts as activity: what it posted may not have reached the native port yet
        while n < 6000 and (mem.outstanding or state["cycle"] - state["active"] < max(60, sc.get("drain", 0))):
            n += 1
            yield

    @passive
    def activity():
        while True:
            if (yield port.cmd.valid) or (yield port.wdata.valid) or (yield port.wdata.ready) or (yield port.rdata.valid):
                state["active"] = state["cycle"]
            yield

    @passive
    def recorder():
        # one line per cycle with CYC|STB|ACK; identical consecutive samples without ACK are run-length encoded (field n)
        last = None
        while True:
            c = state["cycle"]
            cyc, stb, ack = (yield wb.cyc), (yield wb.stb), (yield wb.ack)
            if cyc or stb or ack:
                e = dict(c="CYC", t=c, n=1, cyc=cyc, stb=stb, we=(yield wb.we), a=(yield wb.adr), sel=bits((yield wb.sel), nbw),
                         d=tobytes((yield wb.dat_w), nbw), cti=(yield wb.cti), ack=ack)
                if ack:
                    e["q"] = tobytes((yield wb.dat_r), nbw)
                if (last is not None and not ack and last["t"] + last["n"] == c
                        and all(last[k] == e[k] for k in ("cyc", "stb", "we", "a", "sel", "d", "cti", "ack"))):
                    last["n"] += 1
                else:
                    events.append((c, 0, e))
                    last = e
            state["cycle"] = c + 1
            yield

    lock = []

    @passive
    def lockrec():
        # per-cycle inputs and outputs of the bridge for lock-step conformance with D_Wb2Native (8-bit Wishbone only)
        R = nbp
        while True:
            i = dict(cyc=(yield wb.cyc), stb=(yield wb.stb), we=(yield wb.we), a=(yield wb.adr), sel=(yield wb.sel) & 1,
                     d=(yield wb.dat_w), last=int((yield wb.cti) != 2), cmd_ready=(yield port.cmd.ready),
                     wdata_ready=(yield port.wdata.ready), rdata_valid=(yield port.rdata.valid),
                     rdata=tobytes((yield port.rdata.data), R))
            o = dict(ack=(yield wb.ack), dat_r=(yield wb.dat_r), cv=(yield port.cmd.valid), cwe=(yield port.cmd.we),
                     ca=(yield port.cmd.addr), clast=(yield port.cmd.last), wv=(yield port.wdata.valid),
                     wd=tobytes((yield port.wdata.data), R), ww=bits((yield port.wdata.we), R), rr=(yield port.rdata.ready))
            lock.append(dict(i=i, o=o))
            yield

    gens = [master(), recorder(), activity(), passive(mem.process)()]
    if sc.get("lockstep"):
        assert sc["wbw"] == 8 and sc["base"] == 0
        gens.append(lockrec())
    env.run_simulation(top, gens)
    evs = [e[2] for e in sorted(events, key=lambda x: (x[0], x[1]))]
    # dump every native word the plan addresses (whether or not anything arrived) and every word that changed
    touched = set(mem.mem)
    basew = sc["base"] // nbw
    for op in ops:
        for b in op["beats"]:
            if True:
                B = (b["a"] - basew) * nbw
                touched.update(range(B // nbp, (B + nbw - 1) // nbp + 1))
    for a in sorted(touched):
        evs.append(dict(c="MEM", a=a, d=tobytes(mem.read(a), nbp)))
    evs.append(dict(c="END"))
    header = dict(c="NEW", wb=nbw, pb=nbp, base=sc["base"] // nbw, bound=bound)
    return dict(header=header, events=evs, cycles=state["cycle"], dead=state["dead"], ops=ops, memlog=mem.sorted_events(),
                lock=lock, log=log)


# ------------------------------------------------------------------------------------------------ Avalon-MM

def avl_plan(sc):
    """Deterministic list of operations for the Avalon-MM master.
    op = dict(pre=idle cycles, kind="w"|"r", a, bc, be (reads), beats=[dict(d, be, gap)] (writes), wait=bool)
      gap: cycles with write low before a LATER beat of a write burst; wait: a read whose data the master waits for
      before presenting the next command (otherwise the next command is presented right away -- the slave may hold it
      off with waitrequest)."""
    if sc.get("ops") is not None:
        return sc["ops"]
    rnd = random.Random(sc["seed"] * 1000003 + 99)
    nba = sc["avw"] // 8
    basew = sc["base"] // nba
    win = sc.get("window", 32)
    far = sc.get("far", [1 << 12, (1 << 16) + 5])
    maxb = sc.get("maxburst", 16)
    p_burst, p_part, p_gap = sc.get("p_burst", 0.5), sc.get("p_partial", 0.35), sc.get("p_gap", 0.3)
    gaps = sc.get("gaps", [1, 1, 2, 3, 6, 12, 25])
    hot = [rnd.randrange(win) for _ in range(4)]
    ops = []

    def addr():
        r = rnd.random()
        if r < 0.4:
            return rnd.choice(hot)
        if r < 0.95:
            return rnd.randrange(win)
        return rnd.choice(far) + rnd.randrange(4)

    def be():
        return rnd.getrandbits(nba) if rnd.random() < p_part else (1 << nba) - 1

    for i in range(sc["nops"]):
        we = rnd.random() < sc.get("wfrac", 0.5)
        bc = rnd.randint(2, maxb) if rnd.random() < p_burst else 1
        if bc > 1 and rnd.random() < 0.3:
            bc = min(maxb, rnd.choice([2, 2, 3, maxb]))
        if sc.get("long_bursts") and rnd.random() < 0.5:
            # longer than the bridge's FIFOs (max_burst_length): exercises waitrequest back-pressure inside a burst
            bc = rnd.choice([maxb + 1, 2 * maxb + 1, 3 * maxb + 2])
        pre = rnd.choice([0, 0, 0, 1, 2, 5, 20])
        a = addr()
        al = sc.get("align_end", 0)          # optional: bursts of this kind end on a multiple of `al` words
        if al and bc > 1 and (sc.get("align_kinds", "rw").find("w" if we else "r") >= 0):
            a -= (a + bc) % al
            if a < 0:
                a += al
        if we:
            ops.append(dict(pre=pre, kind="w", a=basew + a, bc=bc,
                            beats=[dict(d=rnd.getrandbits(sc["avw"]), be=be(),
                                        gap=(rnd.choice(gaps) if k and rnd.random() < p_gap else 0)) for k in range(bc)]))
        else:
            ops.append(dict(pre=pre, kind="r", a=basew + a, bc=bc, be=be() if rnd.random() < 0.2 else (1 << nba) - 1,
                            wait=rnd.random() < 0.5))
    return ops


def build_avl(sc):
    env.setup()
    from migen import Module
    from litex.soc.interconnect import avalon
    from litedram.common import LiteDRAMNativePort
    from litedram.frontend.avalon import LiteDRAMAvalonMM2Native

    class Top(Module):
        def __init__(self):
            self.avl = avalon.AvalonMMInterface(adr_width=30, data_width=sc["avw"])
            self.port = LiteDRAMNativePort("both", address_width=sc.get("aw", 26 - (sc["pw"] // 8).bit_length() + 1), data_width=sc["pw"])
            self.submodules.bridge = LiteDRAMAvalonMM2Native(self.avl, self.port, base_address=sc["base"],
                                                             max_burst_length=sc.get("maxburst", 16))
    return Top()


def run_avl(sc):
    """Simulate one scenario on the real bridge. Returns dict(header, events, cycles, dead, ops)."""
    env.setup()
    from migen import passive
    top = build_avl(sc)
    av, port = top.avl, top.port
    nba, nbp = sc["avw"] // 8, sc["pw"] // 8
    mem = IdealMem([port], seed=sc["seed"], lat=tuple(sc.get("lat", (3, 12))), stall=sc.get("stall", 0.3),
                   init=initword_fn(nbp), eager=bool(sc.get("eager")), wready=sc.get("wready", 0.7))
    ops = avl_plan(sc)
    bound = sc.get("bound", 1500)
    rnd = random.Random(sc["seed"] * 31 + 7)
    events = []
    log = []
    state = dict(cycle=0, dead=False, want=0, got=0, waited=0, active=0)
    noise = sc.get("noise", True)

    def junk():
        # everything but read/write is don't-care while both are low
        yield av.address.eq(rnd.getrandbits(12))
        yield av.burstcount.eq(rnd.choice([0, 1, 2, 3, 5, 255]))
        yield av.byteenable.eq(rnd.getrandbits(nba))
        yield av.writedata.eq(rnd.getrandbits(sc["avw"]))

    def idle(n):
        yield av.read.eq(0)
        yield av.write.eq(0)
        for _ in range(n):
            if noise:
                yield from junk()
            yield

    def offer():
        """Hold the command currently driven until a cycle with waitrequest low has passed."""
        n = 0
        while True:
            yield
            n += 1
            if not (yield av.waitrequest):
                state["waited"] = n
                return
            if n >= bound:
                events.append((state["cycle"], 1, dict(c="TIMEOUT", t=state["cycle"])))
                state["dead"] = True
                raise Dead()

    def wait_reads():
        n = 0
        while state["got"] < state["want"]:
            yield
            n += 1
            if n >= bound:
                events.append((state["cycle"], 1, dict(c="TIMEOUT", t=state["cycle"])))
                state["dead"] = True
                raise Dead()

    def master():
        try:
            yield from idle(2)
            for op in ops:
                if op["pre"]:
                    yield from idle(op["pre"])
                if op["kind"] == "w":
                    for k, b in enumerate(op["beats"]):
                        if b["gap"]:
                            yield from idle(b["gap"])
                        yield av.read.eq(0)
                        yield av.write.eq(1)
                        yield av.writedata.eq(b["d"])
                        yield av.byteenable.eq(b["be"])
                        if k == 0 or not noise:
                            yield av.address.eq(op["a"])
                            yield av.burstcount.eq(op["bc"])
                        else:
                            # constantBurstBehavior = false: address / burstcount only count on the first beat
                            yield av.address.eq(rnd.getrandbits(12))
                            yield av.burstcount.eq(rnd.choice([0, 1, 2, op["bc"], 7]))
                        yield from offer()
                        log.append(["w", min(op["bc"], 5), "first" if k == 0 else "later", min(b["gap"], 13), min(state["waited"], 16)])
                    yield av.write.eq(0)
                else:
                    yield av.write.eq(0)
                    yield av.read.eq(1)
                    yield av.address.eq(op["a"])
                    yield av.burstcount.eq(op["bc"])
                    yield av.byteenable.eq(op["be"])
                    if noise:
                        yield av.writedata.eq(rnd.getrandbits(sc["avw"]))
                    state["want"] += op["bc"]
                    yield from offer()
                    log.append(["r", min(op["bc"], 5), "first", 0, min(state["waited"], 16)])
                    yield av.read.eq(0)
                    if op["wait"]:
                        yield from idle(0)
                        yield from wait_reads()
            yield from idle(0)
            yield from wait_reads()
        except Dead:
            pass
        yield av.read.eq(0)
        yield av.write.eq(0)
        yield from drain()

    def drain():
        n = 0
        state["active"] = state["cycle"]      # the master's last beat counts as activity: what it posted may not have reached the native port yet
        while n < 6000 and (mem.outstanding or state["cycle"] - state["active"] < max(60, sc.get("drain", 0))):
            n += 1
            yield

    @passive
    def activity():
        while True:
            if (yield port.cmd.valid) or (yield port.wdata.valid) or (yield port.wdata.ready) or (yield port.rdata.valid):
                state["active"] = state["cycle"]
            yield

    @passive
    def recorder():
        last = None
        keys = ("rd", "wr", "a", "bc", "be", "d", "wait", "rdv")
        while True:
            c = state["cycle"]
            rd, wr, rdv = (yield av.read), (yield av.write), (yield av.readdatavalid)
            if rdv:
                state["got"] += 1
            if rd or wr or rdv:
                e = dict(c="AVL", t=c, n=1, rd=rd, wr=wr, a=(yield av.address), bc=(yield av.burstcount),
                         be=bits((yield av.byteenable), nba), d=tobytes((yield av.writedata), nba),
                         wait=(yield av.waitrequest), rdv=rdv)
                if rdv:
                    e["q"] = tobytes((yield av.readdata), nba)
                if last is not None and not rdv and last["t"] + last["n"] == c and all(last[k] == e[k] for k in keys):
                    last["n"] += 1
                else:
                    events.append((c, 0, e))
                    last = e
            state["cycle"] = c + 1
            yield

    lock = []

    @passive
    def lockrec():
        # per-cycle inputs and outputs of the bridge for lock-step conformance with D_Avl2Native (8-bit / 8-bit only)
        while True:
            i = dict(rd=(yield av.read), wr=(yield av.write), a=(yield av.address), bc=(yield av.burstcount),
                     be=(yield av.byteenable) & 1, d=(yield av.writedata), cmd_ready=(yield port.cmd.ready),
                     wdata_ready=(yield port.wdata.ready), rdata_valid=(yield port.rdata.valid), rdata=(yield port.rdata.data))
            o = dict(wait=(yield av.waitrequest), rdv=(yield av.readdatavalid), q=(yield av.readdata),
                     cv=(yield port.cmd.valid), cwe=(yield port.cmd.we), ca=(yield port.cmd.addr), clast=(yield port.cmd.last),
                     wv=(yield port.wdata.valid), wd=(yield port.wdata.data), ww=(yield port.wdata.we) & 1,
                     rr=(yield port.rdata.ready))
            lock.append(dict(i=i, o=o))
            yield

    gens = [master(), recorder(), activity(), passive(mem.process)()]
    if sc.get("lockstep"):
        assert sc["avw"] == 8 and sc["pw"] == 8 and sc["base"] == 0
        gens.append(lockrec())
    env.run_simulation(top, gens)
    evs = [e[2] for e in sorted(events, key=lambda x: (x[0], x[1]))]
    touched = set(mem.mem)
    basew = sc["base"] // nba
    for op in ops:
        B = (op["a"] - basew) * nba
        touched.update(range(B // nbp, (B + op["bc"] * nba - 1) // nbp + 1))
    for a in sorted(touched):
        evs.append(dict(c="MEM", a=a, d=tobytes(mem.read(a), nbp)))
    evs.append(dict(c="END"))
    header = dict(c="NEW", ab=nba, pb=nbp, base=basew, bound=bound,
                  maxburst=255 if sc.get("long_bursts") else sc.get("maxburst", 16))
    return dict(header=header, events=evs, cycles=state["cycle"], dead=state["dead"], ops=ops, memlog=mem.sorted_events(),
                lock=lock, log=log)


# ------------------------------------------------------------------------------------------------ execute (C10 / C11)

def wb_path(sc):
    return "narrow" if sc["wbw"] < sc["pw"] else ("equal" if sc["wbw"] == sc["pw"] else "wide")


def avl_path(sc):
    return "up" if sc["avw"] < sc["pw"] else ("equal" if sc["avw"] == sc["pw"] else "down")


def execute_bus(sc, workdir, kind):
    """Run sc["runs"] independent executions of the real bridge (seeds derived from sc["seed"]), batch them into one
    trace (NEW events), let TLC judge (T_WbMem / T_AvlMem); optional lock-step conformance run against the D-model."""
    import os
    from . import tlc
    run = run_wb if kind == "wb" else run_avl
    path = wb_path(sc) if kind == "wb" else avl_path(sc)
    tspec = "T_WbMem" if kind == "wb" else "T_AvlMem"
    lines, starts, cycles, dead, keys, lockres = [], [], 0, 0, set(), None
    plans = sc.get("plans")
    scripts = None
    if sc.get("tlc"):
        stim = tlc_stimuli(sc, workdir)
        plans, scripts = [x[0] for x in stim], [x[1] for x in stim]
    nruns = len(plans) if plans else sc.get("runs", 1)
    for k in range(nruns):
        sub = dict(sc, seed=sc["seed"] * 1000 + k)
        if plans:
            sub["ops"] = plans[k]
        if scripts and scripts[k]:
            sub["mem_script"] = scripts[k]
            sub["noise"] = False
        sub["lockstep"] = bool(sc.get("lockstep")) and k == 0
        r = run(sub)
        starts.append(len(lines) + 1)                  # 1-based trace line of this run's header
        lines.append(r["header"])
        lines.extend(r["events"])
        cycles += r["cycles"]
        dead += int(r["dead"])
        for x in r["log"]:
            keys.add(tuple([path] + x))
        if sub["lockstep"]:
            lf = os.path.join(workdir, "lock.ndjson")
            if kind == "wb":
                variants = [dict(R=sc["pw"] // 8, PATH="narrow" if path == "narrow" else "equal", VAR=v)
                            for v in (["none"] if path == "narrow" else ["code", "abortfix"])]
                lspec = "T_Wb2NativeLock"
            else:
                variants = [dict(MB=sc.get("maxburst", 16), VAR=v) for v in ("code", "gapfix")]
                lspec = "T_Avl2NativeLock"
            lockres = dict(cycles=len(r["lock"]), variant=None, drift=None)
            for hd in variants:
                tlc.write_ndjson(lf, hd, r["lock"])
                lv = tlc.validate_trace(lspec, lf, workdir)
                if lv["accepted"]:
                    lockres["variant"] = hd["VAR"]
                    lockres["drift"] = None
                    break
                if lockres["drift"] is None:
                    lockres["drift"] = lv["bad"][:3]
            if not os.environ.get("VERIF_KEEP"):
                os.remove(lf)
    tf = os.path.join(workdir, "trace.ndjson")
    tlc.write_ndjson(tf, lines[0], lines[1:])
    v = tlc.validate_trace(tspec, tf, workdir)
    env_bad = [b for b in v["bad"] if isinstance(b[1], str) and b[1].startswith("ENV:")]
    if env_bad:
        raise RuntimeError("driver/recorder broke a bus rule (machinery): %r" % env_bad[:3])

    def runof(line):
        return max(i for i, st in enumerate(starts) if st <= line)
    bad = [b[1:] + ["run%d" % runof(b[0])] for b in v["bad"]]
    info = v["info"] or {}
    sample = dict(path=path, cycles=cycles, lines=len(lines), tags=info, runs=nruns, hung_runs=dead,
                  first_events=lines[1:4], lockstep=lockres)
    stats = dict(cycles=cycles, events=len(lines), hung_runs=dead, **{"n_" + k.replace("-", "_"): n for k, n in info.items()})
    if lockres:
        stats["lockstep_cycles"] = lockres["cycles"]
        stats["lockstep_drift"] = int(lockres["variant"] is None)
        if lockres["variant"] not in (None, "none", "code"):
            stats["lockstep_matches_repaired_variant"] = 1
    if not os.environ.get("VERIF_KEEP"):
        os.remove(tf)
    nacc = sum(info.get(k, 0) for k in ("write", "read", "write-single", "write-burst", "write-beat", "read-single", "read-burst", "rdv"))
    notes = []
    if lockres and lockres["variant"] is None:
        d = (lockres["drift"] or [[0, "MODEL-DRIFT", "?", "?", "?"]])[0]
        notes.append("MODEL-DRIFT module=%s cycle=%s signal=%s have=%s model=%s" % (
            "D_Wb2Native/D_WbEq" if kind == "wb" else "D_Avl2Native", d[0] - 2, d[2], d[3], d[4]))
    return dict(bad=bad, evaluations=nacc, nontrivial=[list(k) for k in sorted(keys, key=str)], traces=nruns,
                sample=sample, stats=stats, lockstep=(lockres["cycles"] if lockres else 0), lockstep_detail=lockres, notes=notes)


# ------------------------------------------------------------------------------------------------ B3: TLC behaviours -> stimuli

def parse_tlc_behaviour(text):
    """TLC's textual behaviour (error trace or -simulate dump) of MC_Wb2Native -> list of per-cycle dicts
    (m = master outputs, mo = memory outputs, pend_after = monitor's pend after the cycle, fresh = a native command was
    accepted in the PREVIOUS cycle).  State k+1 of the behaviour holds the signals driven in cycle k."""
    import re
    blocks = re.split(r"\n(?:State \d+:|STATE_\d+ ==)", "\n" + text)[1:]

    def rec(line):
        return {k: int(v) for k, v in re.findall(r"(\w+) \|-> (-?\d+)", line)}
    out = []
    for b in blocks:
        m = re.search(r"/\\ m = (\[[^\n]*\])", b)
        mo = re.search(r"/\\ mo = (\[[^\n]*\])", b)
        pend = re.search(r"pend \|-> (TRUE|FALSE)", b)
        q = re.search(r"/\\ q = ([^\n]*)", b)
        if not (m and mo and pend and q):
            continue
        out.append(dict(m=rec(m.group(1)), mo=rec(mo.group(1)), pend=pend.group(1) == "TRUE",
                        fresh="age |-> 1]" in q.group(1) or "age |-> 1," in q.group(1)))
    return out


def behaviour_to_scenario(beh, suffix_addrs=4):
    """Master operations (closed loop: aborts as cycle counts, exact idle/hold gaps) + memory timing script."""
    N = len(beh)
    ops, pre, k = [], [], 0
    while k < N:
        m = beh[k]["m"]
        if m["cyc"] and m["stb"]:
            start, j, abort = k, k, None
            while True:
                if j + 1 < N and not beh[j + 1]["pend"]:
                    break                                   # acknowledged in cycle j
                if j + 1 >= N:
                    break                                   # behaviour ends with the access open: keep waiting
                nxt = beh[j + 1]["m"]
                if not (nxt["cyc"] and nxt["stb"]):
                    abort = j + 1 - start
                    break
                j += 1
            ops.append(dict(pre_seq=pre, drop_after=False,
                            beats=[dict(a=m["a"], we=m["we"], sel=m["sel"], d=m["d"], cti=m["cti"], abort=abort, stbgap=0)]))
            pre = []
            k = j + 1
        else:
            if pre and pre[-1][0] == m["cyc"]:
                pre[-1][1] += 1
            else:
                pre.append([m["cyc"], 1])
            k += 1
    # suffix: look at every address twice, rewrite, look again (classic cycles, CYC negated in between)
    for rep in range(2):
        for a in range(suffix_addrs):
            ops.append(dict(pre_seq=[[0, 1]], drop_after=False, beats=[dict(a=a, we=0, sel=1, d=0, cti=0, abort=None, stbgap=0)]))
        if rep == 0:
            for a in range(suffix_addrs):
                ops.append(dict(pre_seq=[], drop_after=False, beats=[dict(a=a, we=1, sel=1, d=0x40 + a, cti=7, abort=None, stbgap=0)]))
    ready = [0] + [b["mo"]["cmd_ready"] for b in beh]      # the master generator's first assignment lands one cycle late
    accepts = [k - 1 for k in range(1, N) if beh[k]["fresh"]]           # fresh in state k+1 <=> accepted in cycle k-1
    pulses = [k for k in range(N) if beh[k]["mo"]["wdata_ready"] or beh[k]["mo"]["rdata_valid"]]
    lat = [p - a for a, p in zip(accepts, pulses)]
    return ops, dict(ready=ready, lat=lat)


WB_GOALS = ["parked_write_to_cached_word", "write_to_occupied_lane", "read_behind_parked_write", "write_to_cached_word", "access_behind_aborted_read", "drop_in_read_cmd_cache_valid", "pending_merge_other_word",
            "cache_hit_last_beat", "write_cmd_stalled_master_gone", "drop_as_data_returns"]

_GOAL_CFG = """SPECIFICATION Spec
CONSTANTS
  PATH = "narrow"
  R = 2
  NW = 2
  SELS = {0, 1}
  HOLD = TRUE
  VALS = 3
  COVER = FALSE
  LMIN = 1
  LMAX = 3
  STALL = 2
  WMAX = 0
  BUG = "none"
INVARIANTS %s
CHECK_DEADLOCK FALSE
"""


def _suffix_fix(ops):
    """The read-back suffix follows with CYC held (CTI is only a hint) unless the last replayed beat was aborted."""
    n = max(i for i, op in enumerate(ops) if op.get("from_tlc"))
    if ops[n]["beats"][-1]["abort"] is not None:
        ops[n + 1]["pre_seq"] = [[0, 1]]
    else:
        ops[n + 1]["pre_seq"] = []
    return ops


def tlc_stimuli(sc, workdir):
    """B3: behaviours of the closed design model MC_Wb2Native -> list of (ops, mem_script | None).
    sc["tlc"] = dict(goal=name)  : TLC BFS, shortest behaviour reaching the goal; replayed once with the exact memory
                                   script and sc["tlc"]["extra"] more times against the randomly timed ideal memory;
              = dict(sim=N, depth=D): TLC -simulate, N random behaviours, each replayed with its exact script."""
    import glob, os
    from . import tlc
    t = sc["tlc"]
    behs = []
    if "goal" in t:
        r = tlc.model_check("MC_Wb2Native", _GOAL_CFG % ("NotGoal_" + t["goal"]), workdir, workers=2, timeout=t.get("timeout", 1500), xmx="4g")
        if r["ok"] or not (r["violated"] or "").startswith("NotGoal"):
            raise RuntimeError("TLC did not reach the stimulus goal %s (%s)" % (t["goal"], r["violated"]))
        out = r["out"]
        behs.append(parse_tlc_behaviour(out[out.index("The behavior up to this point"):]))
    else:
        pref = os.path.join(workdir, "beh")
        cfg = _GOAL_CFG % "NoClauseBroken"
        rc, out = tlc.simulate("MC_Wb2Native", cfg, workdir, num=t["sim"], depth=t["depth"], seed=sc["seed"] + 1, out_prefix=pref,
                               timeout=t.get("timeout", 1500))
        files = sorted(glob.glob(pref + "_*"))
        if not files:
            raise RuntimeError("TLC -simulate wrote no behaviours:\n" + out[-1500:])
        for f in files:
            with open(f) as fh:
                behs.append(parse_tlc_behaviour(fh.read()))
            os.remove(f)
    stim = []
    for beh in behs:
        if len(beh) < 3:
            raise RuntimeError("could not parse the TLC behaviour")
        ops, ms = behaviour_to_scenario(beh)
        nb = len([1 for _ in ops]) - 3 * 4
        for i, op in enumerate(ops):
            op["from_tlc"] = i < nb
        ops = _suffix_fix(ops)
        for op in ops:
            op.pop("from_tlc", None)
        stim.append((ops, ms))
        for _ in range(t.get("extra", 0) if "goal" in t else 0):
            stim.append((ops, None))
    return stim


# ------------------------------------------------------------------------------------------------ reverse bridge (native -> Wishbone)

def run_nat2wb(sc):
    """LiteDRAMNative2Wishbone: native master (holds cmd until accepted, offers write data from the command on, always
    accepts read data) in front, a classic Wishbone slave memory with random acknowledge latency behind."""
    env.setup()
    from migen import Module, passive
    from litex.soc.interconnect import wishbone
    from litedram.common import LiteDRAMNativePort
    from litedram.frontend.wishbone import LiteDRAMNative2Wishbone
    dw = sc["dw"]
    nb = dw // 8
    basew = sc["base"] // nb

    class Top(Module):
        def __init__(self):
            self.wb = wishbone.Interface(data_width=dw, adr_width=30, addressing="word")
            self.port = LiteDRAMNativePort("both", address_width=24, data_width=dw)
            self.submodules.bridge = LiteDRAMNative2Wishbone(self.port, self.wb, base_address=sc["base"])
    top = Top()
    wb, port = top.wb, top.port
    rnd = random.Random(sc["seed"] * 7 + 3)
    init = initword_fn(nb)
    smem = {}
    events = []
    state = dict(cycle=0, done=False, dead=False)
    win = sc.get("window", 24)
    plan = []
    for i in range(sc["nops"]):
        a = rnd.randrange(win) if rnd.random() < 0.9 else (1 << 12) + rnd.randrange(4)
        we = rnd.random() < 0.5
        plan.append((rnd.choice([0, 0, 0, 1, 3, 10]), we, a, rnd.getrandbits(dw),
                     rnd.getrandbits(nb) if rnd.random() < 0.35 else (1 << nb) - 1, rnd.choice([0, 0, 1, 4])))

    def master():
        for gap, we, a, d, m, wgap in plan:
            for _ in range(gap):
                yield
            yield port.cmd.valid.eq(1)
            yield port.cmd.we.eq(we)
            yield port.cmd.addr.eq(a)
            if we:
                yield port.wdata.valid.eq(1)
                yield port.wdata.data.eq(d)
                yield port.wdata.we.eq(m)
            n = 0
            while True:
                yield
                n += 1
                if (yield port.cmd.ready):
                    break
                if n > 2000:
                    state["dead"] = True
                    return
            yield port.cmd.valid.eq(0)
            # payload signals are don't-care while valid is low (a master that queues its next command would already show it)
            yield port.cmd.addr.eq(rnd.getrandbits(24))
            yield port.cmd.we.eq(rnd.getrandbits(1))
            n = 0
            if we:
                while not ((yield port.wdata.ready)):
                    yield
                    n += 1
                    if n > 2000:
                        state["dead"] = True
                        return
                yield port.wdata.valid.eq(0)
            else:
                while not ((yield port.rdata.valid)):
                    yield
                    n += 1
                    if n > 2000:
                        state["dead"] = True
                        return
        for _ in range(20):
            yield

    @passive
    def slave():
        # classic slave: ACK after a random number of wait states, only in answer to CYC & STB
        wait = None
        while True:
            cyc, stb = (yield wb.cyc), (yield wb.stb)
            if cyc and stb and not (yield wb.ack):
                if wait is None:
                    wait = rnd.choice([0, 0, 1, 2, 5])
                if wait == 0:
                    adr = (yield wb.adr)
                    if (yield wb.we):
                        d, s = (yield wb.dat_w), (yield wb.sel)
                        old = smem.get(adr, init(adr - basew))
                        for j in range(nb):
                            if (s >> j) & 1:
                                old = (old & ~(0xff << (8 * j))) | (d & (0xff << (8 * j)))
                        smem[adr] = old
                    yield wb.dat_r.eq(smem.get(adr, init(adr - basew)))
                    yield wb.ack.eq(1)
                    wait = None
                else:
                    wait -= 1
                    yield wb.ack.eq(0)
            else:
                yield wb.ack.eq(0)
                yield wb.dat_r.eq(rnd.getrandbits(dw))
            yield

    @passive
    def recorder():
        pend = False
        while True:
            c = state["cycle"]
            if (yield port.cmd.valid) and (yield port.cmd.ready):
                events.append(dict(c="CMD", p=0, we=bool((yield port.cmd.we)), a=(yield port.cmd.addr), t=c))
            act = (yield wb.cyc) and (yield wb.stb)
            if act and not pend:
                events.append(dict(c="WBREQ", adr=(yield wb.adr), we=(yield wb.we), sel=bits((yield wb.sel), nb),
                                   d=tobytes((yield wb.dat_w), nb), t=c))
                pend = True
            elif pend and not act:
                events.append(dict(c="WBDROP", t=c))
                pend = False
            if pend and (yield wb.ack):
                pend = False
            if (yield port.wdata.valid) and (yield port.wdata.ready):
                m = (yield port.wdata.we)
                events.append(dict(c="WDATA", p=0, d=tobytes((yield port.wdata.data), nb), m=bits(m, nb), t=c))
            if (yield port.rdata.valid):
                events.append(dict(c="RDATA", p=0, d=tobytes((yield port.rdata.data), nb), t=c))
            state["cycle"] = c + 1
            yield

    env.run_simulation(top, [master(), slave(), recorder()])
    words = set(smem)
    for _, we, a, _, _, _ in plan:
        words.add(a + basew)
    for w in sorted(words):
        events.append(dict(c="MEM", a=w, d=tobytes(smem.get(w, init(w - basew)), nb)))
    events.append(dict(c="END"))
    header = dict(c="NEW", nports=1, uniq=False, nb=nb, basew=basew)
    return dict(header=header, events=events, cycles=state["cycle"], dead=state["dead"])


def execute_nat2wb(sc, workdir):
    import os
    from . import tlc
    lines, cycles, dead = [], 0, 0
    for k in range(sc.get("runs", 1)):
        r = run_nat2wb(dict(sc, seed=sc["seed"] * 1000 + k))
        lines.append(r["header"])
        lines.extend(r["events"])
        cycles += r["cycles"]
        dead += int(r["dead"])
    tf = os.path.join(workdir, "trace.ndjson")
    tlc.write_ndjson(tf, lines[0], lines[1:])
    v = tlc.validate_trace("T_Nat2Wb", tf, workdir)
    if not os.environ.get("VERIF_KEEP"):
        os.remove(tf)
    bad = [b[1:] for b in v["bad"]]
    if dead:
        bad.append(["native command never completed (driver gave up after 2000 cycles)", "reverse"])
    info = v["info"] or {}
    return dict(bad=bad, evaluations=info.get("cmd", 0), nontrivial=[["reverse", sc["dw"], sc["base"] != 0]], traces=sc.get("runs", 1),
                sample=dict(path="reverse", cycles=cycles, lines=len(lines), counts=info, first_events=lines[1:4]),
                stats=dict(cycles=cycles, events=len(lines), n_reverse_cmds=info.get("cmd", 0), n_reverse_wbreq=info.get("wbreq", 0)))
