"""./check <ID> --tier quick|thorough | --replay FILE

A property module harness/props/cNN.py provides:
  ID, LEVEL ("model_checking" | "exploration" | "fault_enumeration"), ASSUMPTIONS (list of str)
  scenarios(tier, seed) -> list of JSON-serialisable dicts (each with a unique "name")
  execute(sc, workdir)  -> dict(bad=[clauses...], evaluations=int, nontrivial=[hashable keys],
                                sample=<anything JSON>, stats={...numbers to be summed...}, notes=[...])
       runs the REAL code for the scenario, records a trace, has TLC judge it against the R-spec.
       `bad` entries are lists whose first elements identify the failing clause.
  finding_key(entry, sc) -> str        (optional; default "<clause>")
  models(tier, seed) -> list of dict(module=, cfg=, [workers, timeout, label, expect_violation])  (optional)
       TLC exhaustive runs of the D-/R-models (design level).
  post(ctx, results)    -> dict of extra coverage keys (optional)
  RULE (str): how cases are generated and what makes one non-trivial.

Exit status: 0 property held on everything explored (known findings are reported, not failed);
             1 VIOLATION property=<id> replay=<path>;  2 machinery failure.
"""
import argparse, importlib, json, os, shutil, sys, time, traceback
from concurrent.futures import ProcessPoolExecutor, as_completed

from . import env, evidence, findings, tlc

WORK = os.environ.get("VERIF_WORK", os.path.join(env.VERIF, ".work"))


def _load(pid):
    return importlib.import_module("harness.props." + pid.lower())


def _exec_one(pid, sc, workdir, stock):
    if stock:
        os.environ["VERIF_FASTSIM"] = "0"
    env.setup()
    mod = _load(pid)
    os.makedirs(workdir, exist_ok=True)
    t0 = time.time()
    try:
        r = mod.execute(sc, workdir)
        r.setdefault("bad", [])
        r["wall"] = time.time() - t0
        r["error"] = None
    except Exception:
        r = dict(bad=[], error=traceback.format_exc(), wall=time.time() - t0)
    r["name"] = sc.get("name")
    return r


def _exec_model(m, workdir):
    t0 = time.time()
    try:
        r = tlc.model_check(m["module"], m["cfg"], workdir, workers=m.get("workers", 4),
                            timeout=m.get("timeout", 3000), extra=m.get("extra", ()),
                            coverage=m.get("coverage", False), xmx=m.get("xmx", "8g"))
        return dict(label=m.get("label", m["module"]), ok=r["ok"], violated=r["violated"], stats=r["stats"],
                    wall=time.time() - t0, error=None, tail=r["out"][-3000:] if not r["ok"] else "")
    except Exception:
        return dict(label=m.get("label", m["module"]), ok=False, violated=None, stats=dict(generated=0, distinct=0),
                    wall=time.time() - t0, error=traceback.format_exc(), tail="")


def default_key(entry):
    # entry = [line, clause, ...] or [clause, ...]
    for x in entry:
        if isinstance(x, str):
            return x
    return json.dumps(entry)


def run_check(pid, tier, seed, replay=None, jobs=None):
    env.setup()
    mod = _load(pid)
    jobs = jobs or int(os.environ.get("VERIF_JOBS", str(os.cpu_count() or 4)))
    work = os.path.join(WORK, pid)
    shutil.rmtree(work, ignore_errors=True)
    os.makedirs(work, exist_ok=True)
    t0 = time.time()
    if replay:
        with open(replay) as f:
            rp = json.load(f)
        scs = [rp["scenario"]]
        models = []
    else:
        scs = mod.scenarios(tier, seed)
        models = mod.models(tier, seed) if hasattr(mod, "models") else []
    names = [s["name"] for s in scs]
    assert len(set(names)) == len(names), "scenario names must be unique"
    results, mresults = [], []
    machinery = []
    with ProcessPoolExecutor(max_workers=jobs) as ex:
        futs = {}
        # models first: they are the long poles
        for i, m in enumerate(models):
            futs[ex.submit(_exec_model, m, os.path.join(work, "model%d" % i))] = ("m", m)
        for i, sc in enumerate(scs):
            futs[ex.submit(_exec_one, pid, sc, os.path.join(work, "s%d" % i), False)] = ("s", sc)
        for fu in as_completed(futs):
            kind, obj = futs[fu]
            r = fu.result()
            if kind == "m":
                mresults.append((obj, r))
            else:
                results.append((obj, r))
    results.sort(key=lambda x: names.index(x[0]["name"]))
    kf = findings.load()
    keyf = getattr(mod, "finding_key", None)
    violations, known = [], {}
    for sc, r in results:
        if r["error"]:
            machinery.append("scenario %s: %s" % (sc["name"], r["error"]))
            continue
        vbad = []
        for entry in r["bad"]:
            key = keyf(entry, sc) if keyf else default_key(entry)
            hit = findings.match(pid, key, kf)
            if hit:
                known.setdefault(hit["id"], dict(hit=hit, n=0, first=(sc["name"], entry)))["n"] += 1
            else:
                vbad.append((key, entry))
        if vbad:
            violations.append((sc, r, vbad))
    # design-level model results
    model_viol = []
    for m, r in mresults:
        if r["error"]:
            machinery.append("model %s: %s" % (r["label"], r["error"]))
        elif not r["ok"] and not m.get("expect_violation"):
            model_viol.append((m, r))
        elif r["ok"] and m.get("expect_violation"):
            machinery.append("model %s: expected the negative control to be violated but TLC found no error" % r["label"])
    # confirm violations on the stock simulator (the accelerated evaluator is not trusted for verdicts)
    confirmed = []
    if violations and getattr(mod, "CONFIRM_STOCK", False) and env.fastsim_enabled():
        # the stock interpreter is 15-20x slower: confirm, for every distinct failing clause, the scenario that reaches it soonest
        def _cost(v):
            h = v[1].get("confirm_hint")
            return (0, h) if isinstance(h, (int, float)) and not isinstance(h, bool) else (1, 0)
        order = sorted(violations, key=_cost)
        chosen, covered = [], set()
        for v in order:
            ks = {k for k, _ in v[2]}
            if not ks <= covered:
                chosen.append(v)
                covered |= ks
        rest = [v for v in violations if not any(v is c for c in chosen)]
        violations = chosen + rest

        def confirm_batch(batch, tag):
            ex = ProcessPoolExecutor(max_workers=jobs)
            try:
                futs = {ex.submit(_exec_one, pid, dict(sc, confirm_hint=r.get("confirm_hint")), os.path.join(work, "confirm%s%d" % (tag, i)), True): (sc, r, vbad)
                        for i, (sc, r, vbad) in enumerate(batch)}
                for fu in as_completed(futs):
                    sc, r, vbad = futs[fu]
                    r2 = fu.result()
                    if r2["error"]:
                        machinery.append("stock-simulator confirmation of %s failed: %s" % (sc["name"], r2["error"]))
                        continue
                    keys2 = {(keyf(e, sc) if keyf else default_key(e)) for e in r2["bad"]}
                    if any(k in keys2 for k, _ in vbad):
                        confirmed.append((sc, r, vbad))
                        # one reproduction on the stock interpreter shows that the accelerated evaluator is not what produces the
                        # alarm; slower confirmations still running (hung executions take the interpreter an hour) are abandoned
                        break
                    else:
                        unrepro.append(sc["name"])
            finally:
                procs = list(getattr(ex, "_processes", {}).values())
                ex.shutdown(wait=False, cancel_futures=True)
                for pr in procs:
                    if pr.is_alive():
                        pr.terminate()
        unrepro = []
        nconf = min(len(chosen), jobs)
        confirm_batch(violations[:nconf], "a")
        if not confirmed and len(violations) > nconf:
            # a property module may evaluate only part of a scenario on the slow interpreter: try further scenarios before giving up
            more = violations[nconf:nconf + jobs]
            confirm_batch(more, "b")
            nconf += len(more)
        done_names = {sc["name"] for sc, _, _ in confirmed} | set(unrepro)
        if confirmed:
            # the accelerated evaluator is not what produces the alarm: list every violating scenario
            for sc, r, vbad in violations:
                if sc["name"] not in {c[0]["name"] for c in confirmed}:
                    confirmed.append((sc, r, vbad))
        else:
            for name in unrepro:
                machinery.append("violation in %s not reproduced on the stock simulator (fastsim divergence)" % name)
            for sc, r, vbad in violations:
                if sc["name"] not in done_names:
                    machinery.append("violation in %s not confirmed on the stock simulator" % sc["name"])
    else:
        confirmed = violations
    # report
    os.makedirs(os.path.join(env.VERIF, "replays"), exist_ok=True)
    for hid, k in sorted(known.items()):
        print("KNOWN-FINDING: property=%s %s [%s; %d clause instance(s), first in scenario %s: %s]" % (
            pid, k["hit"]["what"], hid, k["n"], k["first"][0], json.dumps(k["first"][1])[:200]))
    # shrink the first violating scenarios (greedy, a handful of attempts): the replay file then holds a smaller stimulus that
    # still breaks the same clause, next to the original one
    shrunk = {}
    if confirmed and hasattr(mod, "shrink") and not replay and not os.environ.get("VERIF_NOSHRINK"):
        for sc, r, vbad in confirmed[:2]:
            if r.get("wall", 0) > 45:
                continue        # long executions (starvation / refresh-rate scenarios) are not worth eight re-runs
            keys = {k for k, _ in vbad}
            best, tries = sc, 0
            improved = True
            while improved and tries < 8:
                improved = False
                for cand in mod.shrink(best):
                    tries += 1
                    r2 = _exec_one(pid, cand, os.path.join(work, "shrink%d" % tries), False)
                    ks2 = {(keyf(e, cand) if keyf else default_key(e)) for e in (r2.get("bad") or [])}
                    if not r2["error"] and keys & ks2:
                        best, improved = cand, True
                        break
                    if tries >= 8:
                        break
            if best is not sc:
                shrunk[sc["name"]] = best
    nviol = 0
    for sc, r, vbad in confirmed:
        nviol += 1
        path = os.path.join(env.VERIF, "replays", "%s_%s.json" % (pid, "".join(c if c.isalnum() else "_" for c in sc["name"])[:80]))
        with open(path, "w") as f:
            json.dump(dict(property=pid, scenario=shrunk.get(sc["name"], sc), original_scenario=sc if sc["name"] in shrunk else None,
                           failing=[dict(key=k, clause=e) for k, e in vbad][:50],
                           sample=r.get("sample")), f, indent=1, default=str)
        print("VIOLATION property=%s replay=%s" % (pid, path))
        for k, e in vbad[:5]:
            print("  clause %s: %s" % (k, json.dumps(e)[:300]))
    for m, r in model_viol:
        # A violated design model says nothing about the code by itself (the model is a fixed text); it means the
        # model no longer satisfies the requirement spec, i.e. the machinery is inconsistent: exit 2, not 1.
        machinery.append("design model %s violates %s:\n%s" % (r["label"], r["violated"], r["tail"][-1500:]))
    drift = []
    for sc, r in results:
        for note in (r.get("notes") or []):
            print(note)
            if note.startswith("MODEL-DRIFT"):
                drift.append(sc["name"])
    for msg in machinery:
        print("MACHINERY-FAILURE: " + msg[-3000:])
    # evidence
    wall = time.time() - t0
    good = [r for _, r in results if not r["error"]]
    nontriv = set()
    for r in good:
        for k in r.get("nontrivial", []):
            nontriv.add(json.dumps(k, sort_keys=True) if not isinstance(k, str) else k)
    stats = {}
    for r in good:
        for k, v in (r.get("stats") or {}).items():
            if isinstance(v, (int, float)):
                stats[k] = stats.get(k, 0) + v
    samples = [dict(scenario=sc["name"], sample=r.get("sample")) for sc, r in results[:3] if not r["error"] and r.get("sample") is not None]
    cov = dict(
        evaluations=sum(int(r.get("evaluations", 1)) for r in good),
        distinct_nontrivial=len(nontriv),
        rule=getattr(mod, "RULE", ""),
        samples=samples or [dict(scenario=sc["name"]) for sc, _ in results[:3]],
        scenarios=len(results),
        traces_validated_against_impl=sum(int(r.get("traces", 1)) for r in good),
        sums=stats,
        known_findings_hit=sorted(known),
        fastsim=env.fastsim_enabled(),
    )
    if any(r.get("lockstep") for r in good):
        cov["design_model_bound"] = not drift       # B2: the exhaustive design-model result is tied to the code only while lock-step holds
        cov["lockstep_cycles"] = sum(r.get("lockstep", 0) for r in good)
    if mresults:
        cov["states"] = sum(r["stats"]["distinct"] for _, r in mresults if not r["error"])
        cov["transitions"] = sum(r["stats"]["generated"] for _, r in mresults if not r["error"])
        cov["models"] = [dict(label=r["label"], distinct=r["stats"]["distinct"], generated=r["stats"]["generated"],
                              depth=r["stats"].get("depth"), wall_s=round(r["wall"], 1), ok=r["ok"],
                              negative_control=bool(m.get("expect_violation"))) for m, r in mresults]
    if hasattr(mod, "post") and not replay:
        try:
            cov.update(mod.post(dict(tier=tier, seed=seed), results, mresults) or {})
        except Exception:
            machinery.append("post: " + traceback.format_exc())
            print("MACHINERY-FAILURE: " + machinery[-1])
    level = mod.LEVEL
    if level == "model_checking" and not cov.get("states"):
        level = "exploration"
    if not replay:
        # runs against a scratch copy (VERIF_REPO: seeded-change self-tests) must not overwrite the evidence of /repo
        outdir = None if os.path.realpath(env.REPO) == "/repo" else os.path.join(WORK, "evidence")
        evidence.write(pid, tier, seed, level, cov, wall, nviol, getattr(mod, "ASSUMPTIONS", []), outdir=outdir)
    print("%s tier=%s seed=%s scenarios=%d evaluations=%d nontrivial=%d models=%d states=%s wall=%.1fs violations=%d known=%d" % (
        pid, tier, seed, len(results), cov["evaluations"], cov["distinct_nontrivial"], len(mresults), cov.get("states", 0),
        wall, nviol, len(known)))
    if not os.environ.get("VERIF_KEEP"):
        shutil.rmtree(work, ignore_errors=True)
    if nviol:
        return 1
    if machinery:
        return 2
    return 0


def main(argv=None):
    ap = argparse.ArgumentParser()
    ap.add_argument("pid")
    ap.add_argument("--tier", default=os.environ.get("VERIF_TIER", "quick"), choices=["quick", "thorough"])
    ap.add_argument("--replay")
    ap.add_argument("--jobs", type=int)
    a = ap.parse_args(argv)
    seed = int(os.environ.get("VERIF_SEED", "0"))
    try:
        rc = run_check(a.pid.upper(), a.tier, seed, a.replay, a.jobs)
    except Exception:
        traceback.print_exc()
        print("MACHINERY-FAILURE: uncaught exception")
        rc = 2
    sys.exit(rc)


if __name__ == "__main__":
    main()
