"""Shared by C12 / C13: run the REAL DMA reader / DMA writer / DRAM FIFO against an ideal memory, record stream + memory events.

Nothing here judges: events are recorded in the vocabulary of specs/R_Stream.tla and TLC decides (specs/T_Stream.tla).
The only checks made in Python are on OUR OWN drivers (a producer must hold valid+payload until accepted); a broken
driver raises (-> exit 2), never a verdict.

Environment pieces:
  * Sched          : per-cycle 0/1 schedules (JSON-describable, all randomness from the scenario seed);
  * native memory  : harness.idealmem.IdealMem (pulse semantics) whose stall / latency choices are taken from Sched objects
                     through a duck-typed `rnd` (IdealMem draws `random()` once per port per cycle, `randint` once per
                     accepted command) -- IdealMem itself is not modified;
  * IdealAxiMem    : minimal AXI4 slave for single-beat transactions (valid held until ready, in-order, k-th W beat
                     belongs to the k-th AW), logging in the same CMD/WDATA/RDATA vocabulary.
"""
import random

from .idealmem import IdealMem, tobytes


# ------------------------------------------------------------------------------------------------ schedules
class Sched:
    """desc: ["always"] | ["never"] | ["bern", p] | ["burst", mean_on, mean_off] | ["phases", [[len, p], ...]] (cyclic)
             | ["list", [0/1...], tail]  (tail = value after the list is exhausted)"""

    def __init__(self, desc, rnd):
        self.d = list(desc)
        self.rnd = rnd
        self.k = 0
        self.on = True
        self.left = 0
        self.force = None

    def next(self):
        if self.force is not None:
            return self.force
        d = self.d
        k = self.k
        self.k += 1
        t = d[0]
        if t == "always":
            return 1
        if t == "never":
            return 0
        if t == "bern":
            return int(self.rnd.random() < d[1])
        if t == "burst":
            if self.left <= 0:
                self.on = not self.on
                mean = d[1] if self.on else d[2]
                self.left = min(1 + int(self.rnd.expovariate(1.0 / max(mean, 1e-9))), int(8 * mean) + 1) if mean > 0 else 0
                if self.left == 0:
                    self.on = not self.on
                    self.left = 1
            self.left -= 1
            return int(self.on)
        if t == "phases":
            tot = sum(p[0] for p in d[1])
            x = k % tot
            for ln, p in d[1]:
                if x < ln:
                    return int(self.rnd.random() < p)
                x -= ln
        if t == "list":
            return int(d[1][k]) if k < len(d[1]) else int(d[2])
        raise ValueError("bad schedule %r" % (d,))


class _MemRnd:
    """Duck-typed `random.Random` for IdealMem: cmd.ready per port from Sched objects, latency from a list/range."""

    def __init__(self, nports, ready_scheds, lat, rnd):
        self.n = nports
        self.sch = ready_scheds
        self.lat = lat                  # (lo, hi) or ["list", [...], tail]
        self.rnd = rnd
        self.calls = 0
        self.ncmd = 0

    def random(self):
        pi = self.calls % self.n
        self.calls += 1
        return 1.0 if self.sch[pi].next() else 0.0      # IdealMem: ready iff random() >= stall (stall = 0.5)

    def randint(self, lo, hi):
        k = self.ncmd
        self.ncmd += 1
        if isinstance(self.lat, (list, tuple)) and self.lat and self.lat[0] == "list":
            v = self.lat[1][k] if k < len(self.lat[1]) else self.lat[2]
            return max(int(v), lo)
        return self.rnd.randint(lo, hi)

    def getrandbits(self, n):
        return self.rnd.getrandbits(n)


def make_native_mem(ports, seed, lat, ready_descs, init=None):
    rnd = random.Random(seed * 7919 + 5)
    lo, hi = (lat[3], lat[3]) if lat and lat[0] == "list" else lat
    mem = IdealMem(ports, seed=seed, lat=(lo, hi), stall=0.5, init=init, max_outstanding=1 << 30)
    scheds = [Sched(d, rnd) for d in ready_descs]
    mem.rnd = _MemRnd(len(ports), scheds, lat, rnd)
    mem._scheds = scheds
    return mem


class IdealAxiMem:
    """AXI4 slave for single-beat transactions.  In order; every valid is held until its ready; the k-th W beat belongs to
    the k-th AW; a write is stored (event WDATA) once both have been received; read data is produced `lat` cycles or
    more after the AR handshake.  Logs CMD / WDATA / RDATA with the cycle stamp convention of IdealMem."""

    def __init__(self, axi, seed, lat, ready_descs, init):
        self.axi = axi
        self.rnd = random.Random(seed * 104729 + 11)
        self.lat = lat
        self.dw = len(axi.w.data)
        self.nb = self.dw // 8
        self.sch = [Sched(d, self.rnd) for d in ready_descs]        # ar/aw ready, w ready
        self.initf = init
        self.mem = {}
        self.events = []
        self.cycle = 0
        self.notes = dict(wlast0=0, arlen_nz=0, awlen_nz=0)

    def read(self, a):
        return self.mem.get(a, self.initf(a) & ((1 << self.dw) - 1))

    def sorted_events(self):
        return [e[3] for e in sorted(self.events, key=lambda e: (e[0], e[1], e[2]))]

    def process(self):
        axi = self.axi
        rq, awq, wq, bq = [], [], [], []
        ar_rdy = aw_rdy = w_rdy = 0
        r_cur = None
        b_cur = None
        while True:
            c = self.cycle
            if (yield axi.ar.valid) and ar_rdy:
                a = (yield axi.ar.addr)
                if (yield axi.ar.len):
                    self.notes["arlen_nz"] += 1
                self.events.append((c, 1, 0, dict(c="CMD", p=0, we=False, a=a, t=c)))
                rq.append([a, c + self.rnd.randint(*self.lat), (yield axi.ar.id)])
            if (yield axi.aw.valid) and aw_rdy:
                a = (yield axi.aw.addr)
                if (yield axi.aw.len):
                    self.notes["awlen_nz"] += 1
                self.events.append((c, 1, 0, dict(c="CMD", p=0, we=True, a=a, t=c)))
                awq.append([a, (yield axi.aw.id)])
            if (yield axi.w.valid) and w_rdy:
                # AXI4: a write burst ends with the beat that carries WLAST (every beat of these single-beat bursts). A slave
                # that goes by the protocol -- LiteDRAM's own AXI bridge does -- completes nothing before it has seen it.
                if (yield axi.w.last):
                    wq.append([(yield axi.w.data), (yield axi.w.strb)])
                else:
                    self.notes["wlast0"] += 1
            while awq and wq:
                (a, i), (d, m) = awq.pop(0), wq.pop(0)
                old = self.read(a)
                for j in range(self.nb):
                    if (m >> j) & 1:
                        old = (old & ~(0xff << (8 * j))) | (d & (0xff << (8 * j)))
                self.mem[a] = old
                self.events.append((c, 2, 0, dict(c="WDATA", p=0, d=tobytes(d, self.nb), m=[(m >> j) & 1 for j in range(self.nb)], t=c)))
                bq.append(i)
            if r_cur is not None and (yield axi.r.ready):
                self.events.append((c, 3, 0, dict(c="RDATA", p=0, d=tobytes(r_cur[1], self.nb), t=c)))
                r_cur = None
            if b_cur is not None and (yield axi.b.ready):
                b_cur = None
            # drive next cycle
            ar_rdy = aw_rdy = self.sch[0].next()
            w_rdy = self.sch[1].next()
            yield axi.ar.ready.eq(ar_rdy)
            yield axi.aw.ready.eq(aw_rdy)
            yield axi.w.ready.eq(w_rdy)
            if r_cur is None and rq and rq[0][1] <= c + 1:
                a, _, i = rq.pop(0)
                r_cur = (a, self.read(a), i)
            if r_cur is not None:
                yield axi.r.valid.eq(1)
                yield axi.r.data.eq(r_cur[1])
                yield axi.r.id.eq(r_cur[2])
                yield axi.r.last.eq(1)
            else:
                yield axi.r.valid.eq(0)
                yield axi.r.data.eq(self.rnd.getrandbits(self.dw))
            if b_cur is None and bq:
                b_cur = bq.pop(0)
            if b_cur is not None:
                yield axi.b.valid.eq(1)
                yield axi.b.id.eq(b_cur)
            else:
                yield axi.b.valid.eq(0)
            self.cycle += 1
            yield


# ------------------------------------------------------------------------------------------------ pattern shared with R_Stream
def mem_pattern(k, nb):
    """Python twin of R_Stream!MemWord (environment contents of the reader's read-only memory)."""
    def f(a):
        v = 0
        for j in range(nb):
            v |= ((a * 7 + (a // 256) * 13 + j * 61 + k) % 256) << (8 * j)
        return v
    return f


# ------------------------------------------------------------------------------------------------ DUTs
def _imports():
    from migen import Module, passive
    from litedram.common import LiteDRAMNativePort
    from litedram.frontend.axi import LiteDRAMAXIPort
    return Module, passive, LiteDRAMNativePort, LiteDRAMAXIPort


def build_dma(sc):
    Module, passive, NativePort, AXIPort = _imports()
    from litedram.frontend import dma

    class DUT(Module):
        def __init__(self):
            dw = sc["dw"]
            if sc["port"] == "native":
                self.port = NativePort("both", address_width=24, data_width=dw)
            else:
                self.port = AXIPort(data_width=dw, address_width=32, id_width=2)
            cls = dma.LiteDRAMDMAReader if sc["kind"] == "reader" else dma.LiteDRAMDMAWriter
            kw = dict(fifo_depth=sc["depth"], fifo_buffered=bool(sc.get("buffered")))
            if sc.get("csr"):
                kw["with_csr"] = True
            self.submodules.dma = cls(self.port, **kw)
    return DUT()


def build_fifo(sc):
    Module, passive, NativePort, AXIPort = _imports()
    from litedram.frontend.fifo import LiteDRAMFIFO

    class DUT(Module):
        def __init__(self):
            pdw = sc["dw"] * sc["ratio"]
            self.wp = NativePort("write", address_width=24, data_width=pdw)
            self.rp = NativePort("read", address_width=24, data_width=pdw)
            self.submodules.fifo = LiteDRAMFIFO(sc["dw"], base=sc["base"] * pdw // 8, depth=sc["depth"] * pdw // 8,
                                                write_port=self.wp, read_port=self.rp, with_bypass=bool(sc["bypass"]),
                                                pre_fifo_depth=sc.get("pre", 16), post_fifo_depth=sc.get("post", 16))
    return DUT()


# ------------------------------------------------------------------------------------------------ one execution
class DriverError(RuntimeError):
    pass


def _fields(ep, names):
    return [getattr(ep, n) for n in names]


def run_stream(sc):
    """Execute one scenario on the real code.  Returns dict(cfg, events, stats, cover).
    sc: kind reader|writer|fifo, port native|axi, dw, depth, [buffered, csr], n, seed, lat [lo,hi],
        prod / cons / mready (list of schedule descs, one per memory port or [a-channel, w-channel] for AXI),
        items (optional explicit stimulus), drain (quiet cycles that end the run)."""
    Module, passive, NativePort, AXIPort = _imports()
    from . import env
    kind = sc["kind"]
    seed = sc["seed"]
    rnd = random.Random(seed * 1000003 + 7)
    nbs = sc["dw"] // 8                                  # bytes of a stream word
    dut = build_fifo(sc) if kind == "fifo" else build_dma(sc)
    core = dut.fifo if kind == "fifo" else dut.dma
    lat = sc.get("lat", [3, 12])
    k = sc.get("k", 17)
    # ---- memory side
    if kind == "fifo":
        nbm = nbs * sc["ratio"]
        mem = make_native_mem([dut.wp, dut.rp], seed, lat, sc.get("mready", [["bern", 0.7], ["bern", 0.7]]))
    elif sc["port"] == "native":
        nbm = nbs
        mem = make_native_mem([dut.port], seed, lat, sc.get("mready", [["bern", 0.7]]), init=mem_pattern(k, nbm))
    else:
        nbm = nbs
        mr = sc.get("mready", [["bern", 0.7], ["bern", 0.7]])
        mem = IdealAxiMem(dut.port, seed, [lat[0], lat[1]] if lat[0] != "list" else [lat[3], lat[3]], mr if len(mr) == 2 else [mr[0], mr[0]], init=mem_pattern(k, nbm))
    # ---- stimulus
    n = sc["n"]
    amax = sc.get("amax", 512)
    if sc.get("items") is not None:
        items = [dict(x) for x in sc["items"]]
    elif kind == "reader":
        ap = sc.get("addr", "random")
        items = []
        a = rnd.randrange(amax)
        for i in range(n):
            if ap == "random":
                a = rnd.randrange(amax)
            elif ap == "seq":
                a = (a + 1) % amax
            else:   # "dup": repeated addresses
                a = a if rnd.random() < 0.5 else rnd.randrange(amax)
            items.append(dict(a=a, last=int(rnd.random() < sc.get("plast", 0.2))))
    elif kind == "writer":
        ap = sc.get("addr", "random")
        items = []
        a = rnd.randrange(amax)
        for i in range(n):
            if ap == "random":
                a = rnd.randrange(amax)
            elif ap == "seq":
                a = (a + 1) % amax
            else:
                a = a if rnd.random() < 0.5 else rnd.randrange(8)
            items.append(dict(a=a, d=rnd.getrandbits(sc["dw"])))
    else:
        # distinct neighbouring words (a counter in the low byte, random above) so that loss/duplication/reorder always shows
        items = [dict(d=((i + 1) & 0xff) | ((rnd.getrandbits(sc["dw"]) >> 8) << 8)) for i in range(n)]
    csr = bool(sc.get("csr"))
    if csr:
        # the engine generates its own addresses from base/length: only the data (writer) come from us
        base_w, length_w = sc.get("csr_base", 5), n
    prod = Sched(sc.get("prod", ["bern", 0.7]), rnd)
    cons = Sched(sc.get("cons", ["bern", 0.5]), rnd)
    # ---- endpoints
    if kind == "reader":
        sink, source = core.sink, core.source
        sink_names, src_names = ["address", "last"], ["data", "last"]
    elif kind == "writer":
        sink, source = core.sink, None
        sink_names = ["data"] if csr else ["address", "data"]
    else:
        sink, source = core.sink, core.source
        sink_names, src_names = ["data"], ["data"]
    if kind != "fifo":
        mcmd = dut.port.cmd if sc["port"] == "native" else (dut.port.ar if kind == "reader" else dut.port.aw)
    obs_sink = getattr(core, "_sink", sink) if (kind == "writer" and csr) else sink   # what the DMA core itself accepted
    ev = []           # (t, cls, dict)
    st = dict(n_in=0, n_out=0, cycles=0, max_outst=0, stall_at_full=0, longest_cons_stall=0, cons_stall_inflight=0)
    cover = set()
    state = dict(done_in=False, last_event=0, offered=None, cur_stall=0)
    drain_q = sc.get("drain", 250)
    def _longest(desc):
        if desc and desc[0] == "phases":
            return max([ln for ln, pr in desc[1] if pr < 0.05] + [0])
        if desc and desc[0] == "burst":
            return int(8 * desc[2]) + 1                 # Sched truncates burst runs at 8 x mean
        if desc and desc[0] == "list":
            best = cur = 0
            for v in desc[1]:
                cur = cur + 1 if not v else 0
                best = max(best, cur)
            return best
        return 0
    descs = [sc.get("prod"), sc.get("cons")] + list(sc.get("mready", []))
    # deadlock detection: nothing at all happens for much longer than the longest stall any schedule contains
    dead_q = sc.get("dead", 600 + 2 * max(_longest(d) for d in descs if d))
    maxc = sc.get("maxc", 400000)

    def producer():
        idx = 0
        offering = False
        if csr:
            yield core._base.storage.eq(base_w * nbm)
            yield core._length.storage.eq(length_w * nbm)
            yield core._loop.storage.eq(0)
            yield
            yield core._enable.storage.eq(1)
            for _ in range(3):      # the CSR wrapper flushes its data sink while disabled / in IDLE: offer nothing yet
                yield
            if kind == "reader":
                state["done_in"] = "csr"
                return
        while True:
            if offering and (yield sink.ready):
                idx += 1
                offering = False
            if not offering and idx < len(items) and prod.next():
                it = items[idx]
                if kind == "reader":
                    yield sink.address.eq(it["a"])
                    yield sink.last.eq(it["last"])
                elif kind == "writer":
                    if not csr:
                        yield sink.address.eq(it["a"])
                    yield sink.data.eq(it["d"])
                else:
                    yield sink.data.eq(it["d"])
                yield sink.valid.eq(1)
                offering = True
            elif not offering:
                yield sink.valid.eq(0)
                if idx >= len(items):
                    state["done_in"] = True
                    return
            yield

    def consumer():
        while True:
            yield source.ready.eq(1 if state["done_in"] is True or (state["done_in"] == "csr" and st["n_in"] >= n) else cons.next())
            yield

    def recorder():
        c = 0
        held = None
        fsm = getattr(core, "fsm", None) if kind == "fifo" else None
        names = {v: kk for kk, v in fsm.encoding.items()} if fsm is not None else {}
        prev_state = None
        ctrl = getattr(getattr(core, "dram_fifo", None), "ctrl", None)
        prev_wa = 0
        while True:
            # cycle c just ended
            sv, sr = (yield obs_sink.valid), (yield obs_sink.ready)
            if kind == "writer" and csr:
                vals = [(yield obs_sink.address), (yield obs_sink.data)]
            else:
                vals = []
                for s in _fields(obs_sink, sink_names):
                    vals.append((yield s))
            if not csr:
                # our own driver must hold valid and payload until accepted
                if held is not None and (not sv or vals != held):
                    raise DriverError("driver dropped or changed an offered item before it was accepted (cycle %d)" % c)
                held = vals if (sv and not sr) else None
            if sv and sr:
                st["n_in"] += 1
                state["last_event"] = c
                if kind == "reader":
                    ev.append((c, 1, dict(c="IN", a=vals[0], last=vals[1], t=c)))
                elif kind == "writer":
                    ev.append((c, 1, dict(c="IN", a=vals[0], d=tobytes(vals[1], nbs), t=c)))
                else:
                    ev.append((c, 1, dict(c="IN", d=tobytes(vals[0], nbs), t=c)))
            if source is not None:
                ov, orr = (yield source.valid), (yield source.ready)
                if ov and orr:
                    st["n_out"] += 1
                    state["last_event"] = c
                    d = (yield source.data)
                    if kind == "reader":
                        ev.append((c, 0, dict(c="OUT", d=tobytes(d, nbs), last=(yield source.last), t=c)))
                    else:
                        ev.append((c, 0, dict(c="OUT", d=tobytes(d, nbs), t=c)))
                if not orr:
                    state["cur_stall"] += 1
                    st["longest_cons_stall"] = max(st["longest_cons_stall"], state["cur_stall"])
                else:
                    state["cur_stall"] = 0
            # coverage bookkeeping (never used for the verdict)
            if kind == "writer":
                if sv and not sr and (yield mcmd.ready):
                    st["fifo_full_cycles"] = st.get("fifo_full_cycles", 0) + 1
                    cover.add("fifo-full")
                pend = mem_ncmd() - mcount["wd"]
                st["max_pending_wdata"] = max(st.get("max_pending_wdata", 0), pend)
                if pend >= sc["depth"]:
                    cover.add("pending=depth")
            if kind == "reader":
                outst = mem_ncmd() - st["n_out"]
                st["max_outst"] = max(st["max_outst"], outst)
                if outst >= sc["depth"] and not orr:
                    st["stall_at_full"] += 1
                    cover.add("full+stall")
                    if state["cur_stall"] >= 100:
                        cover.add("full+stall>=100")
                if outst > 0 and not orr:
                    st["cons_stall_inflight"] += 1
            if fsm is not None:
                s_now = names.get((yield fsm.state), "?")
                if s_now != prev_state:
                    if prev_state is not None:
                        cover.add("switch %s->%s pre=%d post=%d" % (prev_state, s_now, (yield core.pre_fifo.level), (yield core.post_fifo.level)))
                        st["mode_switches"] = st.get("mode_switches", 0) + 1
                        if s_now == "PUMP_PRECONVERTER":
                            state.setdefault("first_pump", c)
                    prev_state = s_now
            if ctrl is not None:
                lv = (yield ctrl.level)
                st["max_level"] = max(st.get("max_level", 0), lv)
                cover.add("level=%d" % lv)
                wa = (yield ctrl.write_address)
                if wa < prev_wa:
                    st["wraps"] = st.get("wraps", 0) + 1
                prev_wa = wa
            c += 1
            st["cycles"] = c
            yield

    mcount = dict(seen=0, cmd=0, wd=0)

    def _mscan():
        evl = mem.events
        for i in range(mcount["seen"], len(evl)):
            if evl[i][1] == 1:
                mcount["cmd"] += 1
            elif evl[i][1] == 2:
                mcount["wd"] += 1
        mcount["seen"] = len(evl)

    def mem_ncmd():
        _mscan()
        return mcount["cmd"]

    def supervisor():
        # ends the run: everything accepted and quiet for drain_q cycles (memory and consumer no longer stall), or dead
        nev = 0
        while True:
            c = st["cycles"]
            if len(mem.events) != nev:
                nev = len(mem.events)
                state["last_event"] = c
            fin = state["done_in"] is True or (state["done_in"] == "csr" and st["n_in"] >= n)
            if fin:
                for s in getattr(mem, "_scheds", None) or mem.sch:
                    s.force = 1
                if c - state["last_event"] > drain_q:
                    return
            if c - state["last_event"] > dead_q:
                state["dead"] = True
                return
            if c > maxc:
                raise DriverError("simulation budget exhausted (%d cycles)" % c)
            yield

    gens = [supervisor(), passive(producer)(), passive(recorder)(), passive(mem.process)()]
    if source is not None:
        gens.append(passive(consumer)())
    env.run_simulation(dut, gens)
    # ---- merge events
    for (t, cls, p, d) in mem.events:
        ev.append((t, cls + 1, d))
    ev.sort(key=lambda e: (e[0], e[1], e[2].get("p", 0)))
    events = [e[2] for e in ev] + [dict(c="END", t=st["cycles"])]
    if isinstance(mem, IdealMem) and mem.rnd.calls != len(mem.ports) * mem.cycle:
        raise DriverError("IdealMem no longer draws one stall decision per port per cycle; _MemRnd must be adapted")
    cfg = dict(c="NEW", kind=kind, nb=nbs, depth=sc["depth"], k=k, base=sc.get("base", 0), cap=0, name=sc.get("name", ""))
    if kind == "fifo":
        r = sc["ratio"]
        pre, post = max(sc.get("pre", 16), 2 * r), max(sc.get("post", 16), 2 * r)
        cfg["cap"] = pre + post + r * (sc["depth"] + 16 + 16 + 2) + 2 * r + 4
    st["dead"] = int(bool(state.get("dead")))
    st["n_mem_cmd"] = mem_ncmd()
    st["n_drop"] = sum(1 for e in events if e["c"] in ("RDROP", "WDROP"))
    if isinstance(mem, IdealAxiMem):
        for kk, v in mem.notes.items():
            st["axi_" + kk] = v
    return dict(cfg=cfg, events=events, stats=st, cover=sorted(cover), first_pump=state.get("first_pump"))


# ------------------------------------------------------------------------------------------------ scripted (lock-step) executions
def build_fifoctrl(sc):
    Module, passive, NativePort, AXIPort = _imports()
    from litedram.frontend.fifo import _LiteDRAMFIFO

    class DUT(Module):
        def __init__(self):
            self.wp = NativePort("write", address_width=24, data_width=sc["dw"])
            self.rp = NativePort("read", address_width=24, data_width=sc["dw"])
            self.submodules.fifo = _LiteDRAMFIFO(sc["dw"], base=sc["base"], depth=sc["depth"], write_port=self.wp, read_port=self.rp,
                                                 writer_fifo_depth=sc["wdepth"], reader_fifo_depth=sc["rdepth"])
    return DUT()


def run_scripted(sc):
    """Replay a behaviour of a design model (specs/D_DmaReader, D_DmaWriter, D_FifoCtrl) cycle by cycle into the REAL module:
    every environment input of every clock cycle comes from the behaviour (`script`, one dict per tick).  The events the
    real module produces are returned in R_Stream vocabulary (judged by TLC afterwards) and compared, cycle by cycle, with
    the events the model predicted (`model_ev`): a difference is MODEL DRIFT (reported, never a verdict).
    kind reader / writer: dw = 8, script items: v, a, last|d, cmdReady, srcReady|-, ret|strobe.
    kind fifoctrl: script items: v, d, wReady, rReady, srcReady, done."""
    Module, passive, NativePort, AXIPort = _imports()
    from . import env
    kind = sc["kind"]
    script = sc["script"]
    model_ev = sc.get("model_ev")
    lmin = sc.get("lmin", 1)
    k = 0
    if kind == "fifoctrl":
        dut = build_fifoctrl(sc)
        core, wport, rport = dut.fifo, dut.wp, dut.rp
    else:
        dut = build_dma(dict(sc, port="native"))
        core = dut.dma
        wport = rport = dut.port
    pat = mem_pattern(k, 1)
    ev_by_cycle = {}
    st = dict(cycles=0, drift=0, first_drift=None, n_in=0, n_out=0)
    memq = []          # [we, a, accept_cycle]
    mem = {}
    pulse = dict(w=None, r=None)

    def log(c, cls, d):
        ev_by_cycle.setdefault(c, []).append((cls, d))

    def envgen():
        c = 0
        quiet = 0
        while True:
            # ---- observe cycle c
            n0 = len(ev_by_cycle.get(c, []))
            sink, source = core.sink, getattr(core, "source", None)
            if source is not None and (yield source.valid) and (yield source.ready):
                d = dict(c="OUT", d=tobytes((yield source.data), 1))
                if kind == "reader":
                    d["last"] = (yield source.last)
                log(c, 0, d)
                st["n_out"] += 1
            if (yield sink.valid) and (yield sink.ready):
                st["n_in"] += 1
                if kind == "reader":
                    log(c, 1, dict(c="IN", a=(yield sink.address), last=(yield sink.last)))
                elif kind == "writer":
                    log(c, 1, dict(c="IN", a=(yield sink.address), d=tobytes((yield sink.data), 1)))
                else:
                    log(c, 1, dict(c="IN", d=tobytes((yield sink.data), 1)))
            for pi, port in enumerate([wport] if wport is rport else [wport, rport]):
                if (yield port.cmd.valid) and (yield port.cmd.ready):
                    we, a = bool((yield port.cmd.we)), (yield port.cmd.addr)
                    log(c, 2, dict(c="CMD", p=pi, we=we, a=a))
                    memq.append([we, a, c, pi])
            if pulse["w"] is not None:
                a, pi = pulse["w"]
                if (yield wport.wdata.valid):
                    d, m = (yield wport.wdata.data), (yield wport.wdata.we)
                    if m & 1:
                        mem[a] = d
                    log(c, 3, dict(c="WDATA", p=pi, d=tobytes(d, 1), m=[m & 1]))
                else:
                    log(c, 3, dict(c="WDROP", p=pi))
                pulse["w"] = None
            if pulse["r"] is not None:
                a, pi, d = pulse["r"]
                if (yield rport.rdata.ready):
                    log(c, 4, dict(c="RDATA", p=pi, d=tobytes(d, 1)))
                else:
                    log(c, 4, dict(c="RDROP", p=pi))
                pulse["r"] = None
            # ---- compare with the model's prediction for this tick
            if model_ev is not None and 1 <= c <= len(model_ev):
                real = [d for _, d in sorted(ev_by_cycle.get(c, []), key=lambda x: (x[0], x[1].get("p", 0)))]
                if real != model_ev[c - 1]:
                    st["drift"] += 1
                    if st["first_drift"] is None:
                        st["first_drift"] = dict(cycle=c, real=real, model=model_ev[c - 1])
            # ---- drive cycle c+1
            if c < len(script):
                s = script[c]
                draining = False
            else:
                draining = True
                s = dict(v=0, a=0, last=0, d=0, cmdReady=1, wReady=1, rReady=1, srcReady=1,
                         ret=None, strobe=None, done=None)
            sink = core.sink
            yield sink.valid.eq(1 if s["v"] else 0)
            if kind == "reader":
                yield sink.address.eq(s.get("a", 0))
                yield sink.last.eq(s.get("last", 0))
                yield wport.cmd.ready.eq(1 if s["cmdReady"] else 0)
                yield core.source.ready.eq(1 if s["srcReady"] else 0)
                comp = s["ret"]
            elif kind == "writer":
                yield sink.address.eq(s.get("a", 0))
                yield sink.data.eq(s.get("d", 0))
                yield wport.cmd.ready.eq(1 if s["cmdReady"] else 0)
                comp = s["strobe"]
            else:
                yield sink.data.eq(s.get("d", 0))
                yield wport.cmd.ready.eq(1 if s["wReady"] else 0)
                yield rport.cmd.ready.eq(1 if s["rReady"] else 0)
                yield core.source.ready.eq(1 if s["srcReady"] else 0)
                comp = s["done"]
            if comp is None:        # drain: complete the oldest command as soon as it is old enough
                comp = bool(memq) and (c + 1 - memq[0][2]) >= lmin
            do_w = do_r = False
            if comp:
                if not memq or (c + 1 - memq[0][2]) < lmin:
                    st["drift"] += 1          # the model completed a command the real module never issued / too young
                    if st["first_drift"] is None:
                        st["first_drift"] = dict(cycle=c + 1, real="no command to complete", model="completion")
                else:
                    we, a, _, pi = memq.pop(0)
                    if we:
                        pulse["w"] = (a, pi)
                        do_w = True
                    else:
                        d = mem.get(a, 255) if kind == "fifoctrl" else pat(a)
                        pulse["r"] = (a, pi, d)
                        do_r = True
                        yield rport.rdata.data.eq(d)
            yield wport.wdata.ready.eq(1 if do_w else 0)
            yield rport.rdata.valid.eq(1 if do_r else 0)
            if not do_r:
                yield rport.rdata.data.eq(0xA5)
            # ---- termination
            if draining:
                quiet = quiet + 1 if len(ev_by_cycle.get(c, [])) == 0 and not memq else 0
                if quiet > 24 or c > len(script) + 2000:
                    st["cycles"] = c
                    return
            c += 1
            yield

    env.run_simulation(dut, [envgen()])
    events = []
    for c in sorted(ev_by_cycle):
        for cls, d in sorted(ev_by_cycle[c], key=lambda x: (x[0], x[1].get("p", 0))):
            events.append(dict(d, t=c))
    events.append(dict(c="END", t=st["cycles"]))
    cfg = dict(c="NEW", kind="fifo" if kind == "fifoctrl" else kind, nb=1, depth=sc["depth"], k=k, base=sc.get("base", 0),
               cap=(sc["depth"] + sc["rdepth"] + 2) if kind == "fifoctrl" else 0, name=sc.get("name", ""))
    fd = st.pop("first_drift")
    return dict(cfg=cfg, events=events, stats=st, cover=["scripted"], first_pump=None, first_drift=fd)
