"""C18 devices under test: the REAL DFIInjector (with a real LiteX CSR bank in front of its CSRs, so software control goes
through the same bus writes software uses) and the REAL DFIRateConverter (two phase-aligned clocks as in test/test_dfi.py).
Python drives every field of every phase with random / walking-bit / all-ones / zero values each cycle, records every signal
of every interface each cycle and formats the records; T_DfiMux.tla / T_RateConv.tla judge.
"""
import random

from . import env, cdcsim

M2S = ["address", "bank", "cas_n", "cs_n", "ras_n", "we_n", "cke", "odt", "reset_n", "act_n", "wrdata", "wrdata_en", "wrdata_mask", "rddata_en"]
S2M = ["rddata", "rddata_valid"]


def fmt(v, width):
    """TLC integers are 32-bit: wide values go as lists of 16-bit limbs (same formatting on both sides of every comparison)"""
    if width <= 30:
        return v
    return [(v >> (16 * i)) & 0xffff for i in range((width + 15) // 16)]


def pattern(rnd, width, cyc):
    x = rnd.random()
    if x < 0.45:
        return rnd.getrandbits(width)
    if x < 0.75:
        return 1 << (cyc % width)                       # walking one
    if x < 0.85:
        return ((1 << width) - 1) ^ (1 << (cyc % width))  # walking zero
    if x < 0.93:
        return (1 << width) - 1
    return 0


# ------------------------------------------------------------------------------------------------ injector

def run_injector(sc):
    env.setup()
    from migen import Module, passive
    from litedram.dfii import DFIInjector
    from litex.soc.interconnect import csr_bus
    from litex.soc.interconnect.csr import CSR
    ab, bb, nranks, db, nph, clam = sc["addressbits"], sc["bankbits"], sc["nranks"], sc["databits"], sc["nphases"], sc.get("clam", False)
    rnd = random.Random(sc.get("seed", 0) * 9176 + 7)
    ncyc = sc.get("cycles", 1500)

    class Top(Module):
        def __init__(self):
            self.submodules.dut = DFIInjector(ab, bb, nranks, db, nphases=nph, is_clam_shell=clam)
            self.bus = csr_bus.Interface(data_width=32, address_width=14)
            self.submodules.bank = csr_bus.CSRBank(self.dut.get_csrs(), address=0, bus=self.bus)
    top = Top()
    dut = top.dut
    pis = [getattr(dut, "pi%d" % i) for i in range(nph)]
    simple = top.bank.simple_csrs

    def addr_of(c):
        """bus word addresses of a CSR object, most significant word first (the bank's 'big' ordering)"""
        if isinstance(c, CSR):
            return [next(i for i, s in enumerate(simple) if s is c)]
        return [next(i for i, s in enumerate(simple) if s is sc_) for sc_ in c.simple_csrs]
    mranks = len(dut.master.phases[0].cs_n)
    cfg = dict(nphases=nph, nranks=nranks, mranks=mranks, clam=bool(clam), tid=sc.get("tid", 0))
    lines = []
    mode_prob = sc.get("sw_prob", 0.5)
    allow_half = clam and nranks == 1
    # planned CSR writes: one bus write per cycle at most
    pending = []                     # list of (address, value)

    def plan_write(c, value, width):
        adrs = addr_of(c)
        words = [(value >> (32 * i)) & 0xffffffff for i in range(len(adrs))]
        for a, w in zip(adrs, reversed(words)):      # MSB word first
            pending.append((a, w))

    def rec_phase(ph, widths):
        d = {}
        for f in M2S + S2M:
            d[f] = fmt((yield getattr(ph, f)), widths[f])
        return d

    def driver():
        widths = {f: len(getattr(dut.slave.phases[0], f)) for f in M2S + S2M}
        mwidths = {f: len(getattr(dut.master.phases[0], f)) for f in M2S + S2M}
        hold_issue = 0
        for cyc in range(ncyc + 1):
            # ---- record the cycle that just ended ----
            if cyc > 0:
                ctl = (yield dut._control.storage)
                o = dict(sel=ctl & 1, ext=(yield dut.ext_dfi_sel), slave=[], extif=[], master=[], status=[],
                         csr=dict(ctl=dict(cke=(ctl >> 1) & 1, odt=(ctl >> 2) & 1, reset_n=(ctl >> 3) & 1), ph=[]))
                for i in range(nph):
                    o["slave"].append((yield from rec_phase(dut.slave.phases[i], widths)))
                    o["extif"].append((yield from rec_phase(dut.ext_dfi.phases[i], widths)))
                    o["master"].append((yield from rec_phase(dut.master.phases[i], mwidths)))
                    o["status"].append(fmt((yield pis[i]._rddata.status), mwidths["rddata"]))
                    cmd = (yield pis[i]._command.storage)
                    o["csr"]["ph"].append(dict(cs=cmd & 1, we=(cmd >> 1) & 1, cas=(cmd >> 2) & 1, ras=(cmd >> 3) & 1, wren=(cmd >> 4) & 1,
                                               rden=(cmd >> 5) & 1, cs_top=(cmd >> 6) & 1, cs_bottom=(cmd >> 7) & 1,
                                               address=(yield pis[i]._address.storage), baddress=(yield pis[i]._baddress.storage),
                                               wrdata=fmt((yield pis[i]._wrdata.storage), mwidths["wrdata"]),
                                               issue=(yield pis[i]._command_issue.re)))
                lines.append(o)
            # ---- drive the next cycle: every field of every phase of both sources, and the PHY's read data ----
            for i in range(nph):
                for itf in (dut.slave, dut.ext_dfi):
                    for f in M2S:
                        sig = getattr(itf.phases[i], f)
                        yield sig.eq(pattern(rnd, len(sig), cyc + i))
                yield dut.master.phases[i].rddata.eq(pattern(rnd, len(dut.master.phases[i].rddata), cyc))
                yield dut.master.phases[i].rddata_valid.eq(rnd.getrandbits(1))
            if rnd.random() < 0.03:
                yield dut.ext_dfi_sel.eq(rnd.getrandbits(1))
            # ---- CSR traffic ----
            if not pending and rnd.random() < 0.35:
                x = rnd.random()
                i = rnd.randrange(nph)
                if x < 0.18:
                    sel = 0 if rnd.random() < mode_prob else 1
                    plan_write(dut._control, sel | (rnd.getrandbits(3) << 1), 4)
                elif x < 0.40:
                    cmdv = rnd.getrandbits(6)
                    if allow_half and rnd.random() < 0.4:
                        cmdv |= rnd.choice([1 << 6, 1 << 7])          # never both, never outside clam-shell
                    plan_write(pis[i]._command, cmdv, 8)
                elif x < 0.52:
                    plan_write(pis[i]._address, pattern(rnd, ab, cyc), ab)
                elif x < 0.62:
                    plan_write(pis[i]._baddress, pattern(rnd, bb, cyc), bb)
                elif x < 0.74:
                    plan_write(pis[i]._wrdata, pattern(rnd, db, cyc), db)
                else:
                    hold_issue = rnd.choice([1, 1, 2, 3])              # issue strobes in consecutive cycles too
                    for _ in range(hold_issue):
                        plan_write(pis[i]._command_issue, 1, 1)
            if pending:
                a, w = pending.pop(0)
                yield top.bus.adr.eq(a); yield top.bus.dat_w.eq(w); yield top.bus.we.eq(1)
            else:
                yield top.bus.we.eq(0)
            yield
    env.run_simulation(top, driver())
    return dict(cfg=cfg, lines=lines)


# ------------------------------------------------------------------------------------------------ rate converter

def run_rateconv(sc):
    env.setup()
    from migen import Module, passive
    from litedram.phy.dfi import Interface as DFIInterface, DFIRateConverter
    ratio, P, D = sc["ratio"], sc["P"], sc["databits"]
    ab, bb, nranks = sc.get("addressbits", 16), sc.get("bankbits", 3), sc.get("nranks", 1)
    wd, rdl = sc.get("write_delay", 0), sc.get("read_delay", 0)
    rnd = random.Random(sc.get("seed", 0) * 52361 + 3)
    nslow = sc.get("slow_cycles", 300)
    clk = "sys%dx" % ratio

    class Dut(Module):
        def __init__(self):
            self.dfi_old = DFIInterface(addressbits=ab, bankbits=bb, nranks=nranks, databits=D, nphases=P)
            self.submodules.converter = DFIRateConverter(self.dfi_old, clkdiv="sys", clk=clk, ratio=ratio, serdes_reset_cnt=-1,
                                                         write_delay=wd, read_delay=rdl)
            self.dfi = self.converter.dfi
    dut = Dut()
    cfg = dict(k="NEW", ratio=ratio, P=P, ser=dut.converter.ser_latency, des=dut.converter.des_latency, wd=wd, rd=rdl,
               csidle=(1 << nranks) - 1, tid=sc.get("tid", 0))
    ND = ["address", "bank", "cas_n", "cs_n", "ras_n", "we_n", "cke", "odt", "reset_n", "act_n", "wrdata_en", "rddata_en"]
    ref = cdcsim.TimeRef()
    recs = []                    # (time, order, dict)
    w = D // ratio               # slow data width per phase = fast chunk width
    mw = max(1, D // 8 // ratio)
    assert w <= 30
    done = [False]

    def chunks(v, cw):
        return [(v >> (cw * i)) & ((1 << cw) - 1) for i in range(ratio)]

    def slow_gen():
        n = 0
        while n <= nslow:
            if n > 0:
                ph = []
                for p_ in dut.dfi.phases:
                    d = {}
                    for f in ND + ["wrdata", "wrdata_mask", "rddata", "rddata_valid"]:
                        d[f] = (yield getattr(p_, f))
                    ph.append(d)
                recs.append((ref.now, 1, dict(k="S", n=n - 1, ph=ph)))
            for k_, p_ in enumerate(dut.dfi.phases):
                cmdlike = rnd.random() < 0.5
                for f in ND + ["wrdata", "wrdata_mask"]:
                    sig = getattr(p_, f)
                    v = pattern(rnd, len(sig), n + k_)
                    if f in ("cs_n", "ras_n", "cas_n", "we_n") and not cmdlike:
                        v = (1 << len(sig)) - 1          # plenty of idle slots too, so that a stray command is visible
                    yield sig.eq(v)
            n += 1
            yield
        done[0] = True

    def fast_gen():
        c = 0
        yield "passive"
        while True:
            if c > 0:
                ph = []
                for p_ in dut.dfi_old.phases:
                    d = {}
                    for f in ND:
                        d[f] = (yield getattr(p_, f))
                    d["wrdata"] = chunks((yield p_.wrdata), w)
                    d["wrdata_mask"] = chunks((yield p_.wrdata_mask), mw)
                    d["rddata"] = chunks((yield p_.rddata), w)
                    d["rddata_valid"] = (yield p_.rddata_valid)
                    ph.append(d)
                recs.append((ref.now, 0, dict(k="F", n=c - 1, j=(c - 1) % ratio, ph=ph)))
            for p_ in dut.dfi_old.phases:
                yield p_.rddata.eq(pattern(rnd, D, c))
                yield p_.rddata_valid.eq(rnd.getrandbits(1))
            c += 1
            yield
    clocks = {"sys": (4 * ratio, 2 * ratio - 1), clk: (4, 1)}          # phase aligned, as in test/test_dfi.py
    cdcsim.run(dut, {"sys": [slow_gen()], clk: [fast_gen()]}, clocks, ref=ref)
    recs.sort(key=lambda r: (r[0], r[1]))
    # harness sanity (alignment of the two clocks): slow record n must directly follow fast record (n+1)*ratio - 1
    pos = {(r[2]["k"], r[2]["n"]): i for i, r in enumerate(recs)}
    for n in range(min(nslow - 1, 20)):
        if ("S", n) in pos and pos[("S", n)] != pos[("F", (n + 1) * ratio - 1)] + 1:
            raise RuntimeError("clocks of the rate-converter bench are not phase aligned as intended")
    return dict(cfg=cfg, lines=[r[2] for r in recs])


def rateconv_lock_lines(cfg, lines):
    """Re-code the per-cycle records for T_RateConvLock.tla (lock-step against D_RateConv): every distinct phase record is
    numbered injectively, 0 = the all-zero (reset) record."""
    ND = ["address", "bank", "cas_n", "cs_n", "ras_n", "we_n", "cke", "odt", "reset_n", "act_n", "wrdata_en", "rddata_en"]
    r = cfg["ratio"]
    ccodes, wcodes = {tuple([0] * len(ND)): 0}, {(0, 0): 0}

    def code(tab, key):
        if key not in tab:
            tab[key] = len(tab)
        return tab[key]
    out = [dict(k="NEW", P=cfg["P"], ratio=r, wd=cfg["wd"], rd=cfg["rd"])]
    for o in lines:
        if o["k"] == "F":
            out.append(dict(k="F", cmd=[code(ccodes, tuple(ph[f] for f in ND)) for ph in o["ph"]],
                            wr=[[code(wcodes, (ph["wrdata"][i], ph["wrdata_mask"][i])) for i in range(r)] for ph in o["ph"]],
                            fin=[dict(d=ph["rddata"], v=ph["rddata_valid"]) for ph in o["ph"]]))
        else:
            out.append(dict(k="S", cmd=[code(ccodes, tuple(ph[f] for f in ND)) for ph in o["ph"]],
                            wr=[code(wcodes, (ph["wrdata"], ph["wrdata_mask"])) for ph in o["ph"]],
                            rd=[dict(d=ph["rddata"], v=ph["rddata_valid"]) for ph in o["ph"]]))
    return out
