"""Binding B3 (spec -> code): TLC behaviours of a design model, projected to the model's environment input `in` / `req`,
become cycle-by-cycle stimuli for the real module (which is then compared in lock-step and/or judged by the R-spec)."""
import glob, os, re
from . import tlc

_REC = re.compile(r"(\w+)\s*\|->\s*(TRUE|FALSE|-?\d+|\"[^\"]*\")")


def _val(s):
    if s == "TRUE":
        return True
    if s == "FALSE":
        return False
    if s.startswith('"'):
        return s[1:-1]
    return int(s)


def parse_record(text):
    return {k: _val(v) for k, v in _REC.findall(text)}


_FUN = re.compile(r"(\d+)\s*:>\s*(TRUE|FALSE|-?\d+|\"[^\"]*\")")


def behaviours(module, cfg, workdir, num, depth, seed, var="in", kind="record"):
    """Run `tlc -simulate` and return a list of behaviours; each is the list of values of variable `var` per state.
    kind: "record" ([a |-> 1, ...] -> dict), "func" ((0 :> x @@ 1 :> y) -> list indexed by the integer domain), "scalar"."""
    os.makedirs(workdir, exist_ok=True)
    prefix = os.path.join(workdir, "sim")
    for f in glob.glob(prefix + "*"):
        os.remove(f)
    rc, out = tlc.simulate(module, cfg, workdir, num=num, depth=depth, seed=seed, out_prefix=prefix, timeout=900)
    res = []
    for f in sorted(glob.glob(prefix + "*")):
        txt = open(f).read()
        states = re.split(r"\nSTATE_\d+ ==", "\n" + txt)[1:]
        beh = []
        for st in states:
            if kind == "record":
                m = re.search(r"/\\ %s = (\[[^\]]*\])" % re.escape(var), st, re.S)
                if m:
                    beh.append(parse_record(m.group(1)))
            elif kind == "func":
                m = re.search(r"/\\ %s = \(([^\)]*)\)" % re.escape(var), st, re.S)
                if m:
                    d = {int(k): _val(v) for k, v in _FUN.findall(m.group(1))}
                    beh.append([d[i] for i in sorted(d)])
            else:
                m = re.search(r"/\\ %s = (TRUE|FALSE|-?\d+|\"[^\"]*\")" % re.escape(var), st)
                if m:
                    beh.append(_val(m.group(1)))
        if beh:
            res.append(beh)
        os.remove(f)
    if not res:
        raise tlc.TLCError("tlc -simulate produced no behaviours for %s:\n%s" % (module, out[-1500:]))
    return res
