"""C08 device under test and environment: the REAL LiteDRAMNativePortCDC (or a real crossbar port obtained with
get_port(clock_domain="user")) between a user-port driver in clock domain "user" and the ideal native memory
(harness/idealmem.py) in clock domain "sys".  Python only drives, records and formats; T_Crossing.tla judges.

Environment assumptions honoured by the driver (nothing stronger than the property grants):
  * cmd held until accepted; the data of a write is offered no later than the cycle its command is first offered (it may be
    offered up to `wlead` writes EARLIER), in order, held until taken;
  * rdata.ready = 1 always when the memory side has pulse semantics (strict: a word the crossing refuses is lost, as behind
    the real crossbar); arbitrary rdata stalls only against a memory side that honours ready (lenient) -- DESIGN 6/D11;
  * the pulse-semantics memory side keeps at most `max_outstanding` commands in flight with
    max_outstanding + cmd_depth + wlead < min(wdata_depth, rdata_depth) - 2, so that by construction a correct crossing can
    never be asked to hold more than its FIFOs are deep (see ASSUMPTIONS in props/c08.py).
"""
import collections, random

from . import env, cdcsim
from .idealmem import IdealMem, tobytes


def clock_desc(c):
    """scenario clock description -> migen clocks dict; c = {"user": [period, phase], "sys": [period, phase]}"""
    out = {}
    for k, v in c.items():
        p, ph = (v if isinstance(v, (list, tuple)) else (v, 0))
        assert p % 2 == 0, "Migen halves the period with integer division: use even periods"
        out[k] = (p, ph) if ph else p
    return out


def make_schedule(spec, seed):
    """Explicit edge schedules (lists of steps, each a list of domains rising at that instant) for clocks a periodic
    description cannot express: drift, jitter, pauses, bursts."""
    rnd = random.Random(seed * 7477 + 5)
    kind, n = spec["kind"], spec.get("n", 20000)
    steps = []
    if kind == "jitter":          # two clocks whose ratio wanders between 1:r and r:1
        pu = 0.5
        while len(steps) < n:
            if rnd.random() < 0.02:
                pu = rnd.choice([0.1, 0.25, 0.5, 0.5, 0.75, 0.9])
            x = rnd.random()
            steps.append(["user", "sys"] if x < 0.08 else (["user"] if rnd.random() < pu else ["sys"]))
    elif kind == "pause":         # one clock stops for long stretches (gated clock), then runs fast
        while len(steps) < n:
            who = rnd.choice(["user", "sys"])
            other = "sys" if who == "user" else "user"
            for _ in range(rnd.choice([3, 10, 30, 80])):
                steps.append([other])
            for _ in range(rnd.choice([5, 20, 60])):
                steps.append(rnd.choice([[who], [who], [other], ["user", "sys"]]))
    elif kind == "drift":         # near-equal periods whose phase slides through every relative position (fine grain)
        tu = ts = 0.0
        pu, ps = spec.get("pu", 1.0), spec.get("ps", 1.013)
        tu = spec.get("phase", 0.3)
        while len(steps) < n:
            if abs(tu - ts) < 1e-9:
                steps.append(["user", "sys"]); tu += pu; ts += ps
            elif tu < ts:
                steps.append(["user"]); tu += pu
            else:
                steps.append(["sys"]); ts += ps
    elif kind == "list":          # literal (TLC-generated) schedule: string of u / s / b
        m = {"u": ["user"], "s": ["sys"], "b": ["user", "sys"]}
        steps = [m[ch] for ch in spec["steps"]]
    else:
        raise ValueError(kind)
    return steps


def real_depths(module, mode):
    """depths of the asynchronous FIFOs actually elaborated under `module`, in construction order (cmd, [wdata], [rdata])"""
    from migen.genlib.fifo import AsyncFIFO, AsyncFIFOBuffered
    found = []

    def walk(m):
        if isinstance(m, (AsyncFIFO, AsyncFIFOBuffered)):
            found.append(m.depth)
            return
        for _, sub in getattr(m, "_submodules", []):
            walk(sub)
        for name in ("fifo", "cdc"):
            sub = getattr(m, name, None)
            if sub is not None and not any(sub is x for _, x in getattr(m, "_submodules", [])) and hasattr(sub, "_submodules"):
                walk(sub)
    walk(module)
    names = ["cmd"] + (["wdata"] if mode in ("write", "both") else []) + (["rdata"] if mode in ("read", "both") else [])
    d = dict(cmd=4, wdata=16, rdata=16)
    if len(found) == len(names):
        d.update(dict(zip(names, found)))
        d["exact"] = True
    else:
        d["exact"] = False          # structure not recognised (e.g. a channel without FIFO): lock-step is skipped
    return d


def build(sc):
    """Returns (top, user_port, mem_port, depths). via="cdc": the bare adapter; via="xbar": real LiteDRAMCrossbar.get_port on
    a bare LiteDRAMInterface-less stub is not possible, so the crossbar variant elaborates get_port's own construction path:
    the crossbar module with a one-bank pass-through controller interface (see XbarTop)."""
    env.setup()
    from migen import Module
    from litedram.common import LiteDRAMNativePort
    from litedram.frontend.adapter import LiteDRAMNativePortCDC
    mode, aw, dw = sc.get("mode", "both"), sc.get("aw", 20), sc.get("dw", 32)
    kw = {k: v for k, v in (sc.get("depths") or {}).items()}

    class Top(Module):
        def __init__(self):
            self.user = LiteDRAMNativePort(mode, aw, dw, clock_domain="user")
            self.mem = LiteDRAMNativePort(mode, aw, dw, clock_domain="sys")
            self.submodules.cdc = LiteDRAMNativePortCDC(self.user, self.mem, **kw)
    top = Top()
    return top, top.user, top.mem, real_depths(top.cdc, mode)


class XbarBackend:
    """via="xbar": the REAL LiteDRAMController + LiteDRAMCrossbar (harness/core.py builders) with the user port obtained from
    crossbar.get_port(clock_domain="user") -- the construction path named in the property's anchors -- and a data-only DFI
    responder (same latency conventions as harness/core.py). The memory-side port is crossbar.masters[0]."""
    def __init__(self, sc):
        env.setup()
        from migen import Module
        from . import core
        from litedram.core.controller import ControllerSettings, LiteDRAMController
        from litedram.core.crossbar import LiteDRAMCrossbar
        cfg = dict(sc["core"])
        mod = core.make_module(cfg)
        ps = core.make_phy_settings(cfg, mod)
        clk = cfg["clk_khz"] * 1e3
        ctrl = dict(cfg.get("ctrl") or {})
        mode = sc.get("mode", "both")

        class Top(Module):
            def __init__(self):
                self.submodules.controller = LiteDRAMController(ps, mod.geom_settings, mod.timing_settings, clk,
                                                                controller_settings=ControllerSettings(**ctrl))
                self.submodules.crossbar = LiteDRAMCrossbar(self.controller.interface)
                kw = dict(data_width=sc["user_dw"]) if sc.get("user_dw") else {}
                self.user = self.crossbar.get_port(mode=mode, clock_domain="user", **kw)
                self.mem = self.crossbar.masters[0]
                self.dfi = self.controller.dfi
        self.top = Top()
        self.ps = ps
        self.store = {}
        self.outstanding = 0          # maintained by the memory-side recorder
        self.dw = self.top.user.data_width                      # user-side width (stimulus)
        self.cdw = self.top.controller.interface.data_width      # controller / DFI width (responder)
        self.converted = self.dw != self.cdw                     # get_port(clock_domain=..., data_width=...): crossing + width converter
        self.rnd = random.Random(sc.get("seed", 0) * 7919 + 1)

    def initword(self, key):
        import zlib
        return random.Random(zlib.crc32(repr(key).encode())).getrandbits(self.cdw)

    def changed(self):
        return sum(1 for k, v in self.store.items() if v != self.initword(k))

    def process(self):
        dfi, ps = self.top.dfi, self.ps
        nph, rl, wl = ps.nphases, ps.read_latency, ps.write_latency
        dw = self.cdw
        nb, phw = dw // 8, dw // nph
        nranks = ps.nranks
        openrow = {}
        wr_sched, rd_sched = collections.defaultdict(list), collections.defaultdict(list)
        c = 0
        while True:
            for i, p in enumerate(dfi.phases):
                csn = (yield p.cs_n)
                ras, cas, we = (yield p.ras_n), (yield p.cas_n), (yield p.we_n)
                ranks = [r for r in range(nranks) if not (csn >> r) & 1]
                if ranks and (ras, cas, we) != (1, 1, 1):
                    b, a = (yield p.bank), (yield p.address)
                    ap = bool((a >> 10) & 1)
                    aa = a & ~(1 << 10)
                    for r in ranks:
                        if (ras, cas, we) == (0, 1, 1):
                            openrow[(r, b)] = a
                        elif (ras, cas, we) == (0, 1, 0):
                            if ap:
                                for k in [k for k in openrow if k[0] == r]:
                                    openrow.pop(k)
                            else:
                                openrow.pop((r, b), None)
                        elif (ras, cas, we) == (1, 0, 0):
                            wr_sched[c + wl].append((r, b, openrow.get((r, b)), aa))
                            if ap:
                                openrow.pop((r, b), None)
                        elif (ras, cas, we) == (1, 0, 1):
                            rd_sched[c + rl].append((r, b, openrow.get((r, b)), aa))
                            if ap:
                                openrow.pop((r, b), None)
            for key in wr_sched.pop(c, []):
                d = m = 0
                for i, p in enumerate(dfi.phases):
                    d |= (yield p.wrdata) << (i * phw)
                    m |= (yield p.wrdata_mask) << (i * phw // 8)
                old = self.store.get(key, self.initword(key))
                for j in range(nb):
                    if not (m >> j) & 1:
                        old = (old & ~(0xff << (8 * j))) | (d & (0xff << (8 * j)))
                self.store[key] = old
            keys = rd_sched.pop(c + 1, [])
            if keys:
                v = self.store.get(keys[0], self.initword(keys[0]))
                for i, p in enumerate(dfi.phases):
                    yield p.rddata.eq((v >> (i * phw)) & ((1 << phw) - 1))
                    yield p.rddata_valid.eq(1)
            else:
                g = self.rnd.getrandbits(dw)
                for i, p in enumerate(dfi.phases):
                    yield p.rddata.eq((g >> (i * phw)) & ((1 << phw) - 1))
                    yield p.rddata_valid.eq(0)
            c += 1
            yield


def gen_plan(sc, seed):
    """[(gap, we, addr, data, mask, last)]"""
    rnd = random.Random(seed * 104729 + 11)
    aw, dw = sc.get("aw", 20), sc.get("dw", 32)
    nb = dw // 8
    mode = sc.get("mode", "both")
    ws = [rnd.randrange(1 << aw) for _ in range(sc.get("working_set", 12))]
    for k in range(aw):                       # walking address bits: every address bit crosses
        ws.append(1 << k)
    prof = sc.get("profile", "mixed")
    plan = []
    for i in range(sc.get("ncmd", 300)):
        if mode == "write":
            we = True
        elif mode == "read":
            we = False
        else:
            we = rnd.random() < sc.get("wfrac", 0.5)
        a = rnd.choice(ws) if rnd.random() < 0.9 else rnd.randrange(1 << aw)
        if sc.get("addr_range"):
            a = rnd.randrange(sc["addr_range"])
        if prof == "sat":
            gap = 0
        elif prof == "bursty":
            gap = 0 if (i % 24) else rnd.randrange(20, 120)
        elif prof == "slow":
            gap = rnd.choice([3, 7, 15])
        else:
            gap = rnd.choice([0, 0, 0, 0, 1, 2, 6, 25])
        mask = (1 << nb) - 1
        if we and rnd.random() < 0.3:
            mask = rnd.getrandbits(nb)
        d = rnd.getrandbits(dw)
        if i % 7 == 3:
            d = 1 << (i % dw)                 # walking data bits
        plan.append((gap, we, a, d, mask, rnd.getrandbits(1)))
    if sc.get("user_dw") and plan:
        # behind an up-converter a command without the end-of-burst hint waits for a successor; the last one must carry the hint
        plan[-1] = plan[-1][:5] + (1,)
    return plan


def run_cdc(sc, lock_edges=0):
    """One execution. Returns dict(events=[...], lock=[...], stats, depths)."""
    env.setup()
    from migen import passive
    seed = sc.get("seed", 0)
    xb = None
    if sc.get("via") == "xbar":
        xb = XbarBackend(sc)
        top, user, memp = xb.top, xb.top.user, xb.top.mem
        depths = real_depths(top.crossbar, sc.get("mode", "both"))
        sc = dict(sc, aw=user.address_width, dw=user.data_width)
    else:
        top, user, memp, depths = build(sc)
    aw, dw = sc.get("aw", 20), sc.get("dw", 32)
    nb = dw // 8
    mode = sc.get("mode", "both")
    strict = sc.get("strict", True)
    wlead = sc.get("wlead", 0)
    plan = gen_plan(sc, seed)
    conv = xb is not None and xb.converted
    if conv:
        lock_edges = 0
    mo = sc.get("max_outstanding", 6)
    if xb is not None:
        strict = True
        mem = xb
    elif strict:
        # capacity assumption of the pulse-semantics memory side (see module docstring): adapt to the FIFO depths found
        lim = min(depths["wdata"] if mode != "read" else 1 << 30, depths["rdata"] if mode != "write" else 1 << 30)
        mo = min(mo, lim - 3 - depths["cmd"] - wlead)
        if mo < 1:
            strict = False            # FIFOs too shallow for any pulse-semantics traffic: ready-honouring memory side only
    if xb is None:
        mem = IdealMem([memp], seed=seed, lat=tuple(sc.get("lat", (3, 12))), stall=sc.get("stall", 0.3), lenient=not strict,
                       max_outstanding=mo if strict else sc.get("max_outstanding", 24))
    ref = cdcsim.TimeRef()
    rnd = random.Random(seed * 31337 + 3)
    rstall = sc.get("rstall", 0.0) if not strict else 0.0
    events = []                      # (time, class, dict)
    lockrec = []                     # (time, domain, dict of raw signals)
    nreads = sum(1 for p in plan if not p[1])
    state = dict(rgot=0, ucycles=0, scycles=0, done=False, timed_out=False, rin=0, win=0, wout=0, rmax=0, wmax=0, maxout=0)
    max_ucycles = sc.get("max_ucycles", 400 * len(plan) + 20000)
    stall_limit = sc.get("stall_limit", 6000)
    state.update(nev=0, progress_at=0, ndrop=0)

    def sample(port):
        return dict(cv=(yield port.cmd.valid), cr=(yield port.cmd.ready), cwe=(yield port.cmd.we), ca=(yield port.cmd.addr),
                    cl=(yield port.cmd.last),
                    wv=(yield port.wdata.valid), wr=(yield port.wdata.ready), wd=(yield port.wdata.data), wm=(yield port.wdata.we),
                    rv=(yield port.rdata.valid), rr=(yield port.rdata.ready), rd=(yield port.rdata.data))

    @passive
    def user_recorder():
        while True:
            s = yield from sample(user)
            t = ref.now
            if s["cv"] and s["cr"]:
                events.append((t, 1, dict(c="CMD", s="u", we=bool(s["cwe"]), a=s["ca"], last=s["cl"], t=t, uc=state["ucycles"])))
            if s["wv"] and s["wr"]:
                state["win"] += 1
                state["wmax"] = max(state["wmax"], state["win"] - state["wout"])
                events.append((t, 2, dict(c="WDATA", s="u", d=tobytes(s["wd"], nb), m=[(s["wm"] >> j) & 1 for j in range(nb)], t=t, uc=state["ucycles"])))
            if s["rv"] and s["rr"]:
                events.append((t, 6, dict(c="RDATA", s="u", d=tobytes(s["rd"], nb), t=t, uc=state["ucycles"])))
                state["rgot"] += 1
            if state["ucycles"] + state["scycles"] < lock_edges:
                lockrec.append((t, "user", s))
            state["ucycles"] += 1
            yield

    @passive
    def mem_recorder():
        while True:
            s = yield from sample(memp)
            t = ref.now
            if conv:
                pass                  # converted port: the two sides are not word-for-word comparable; user-side memory semantics only
            elif s["rv"] and s["rr"]:
                events.append((t, 3, dict(c="RDATA", s="m", d=tobytes(s["rd"], nb), t=t, uc=state["ucycles"])))
            elif s["rv"] and strict and state["ndrop"] < 40:         # (the first 40 are evidence enough)
                state["ndrop"] += 1
                events.append((t, 7, dict(c="RDROP", s="m", t=t, uc=state["ucycles"])))
            if s["cv"] and s["cr"] and not conv:
                events.append((t, 4, dict(c="CMD", s="m", we=bool(s["cwe"]), a=s["ca"], last=s["cl"], t=t, uc=state["ucycles"])))
            if conv:
                pass
            elif s["wv"] and s["wr"]:
                events.append((t, 5, dict(c="WDATA", s="m", d=tobytes(s["wd"], nb), m=[(s["wm"] >> j) & 1 for j in range(nb)], t=t, uc=state["ucycles"])))
            elif s["wr"] and strict and state["ndrop"] < 40:
                state["ndrop"] += 1
                events.append((t, 7, dict(c="WDROP", s="m", t=t, uc=state["ucycles"])))
            if xb is not None:
                xb.outstanding += int(bool(s["cv"] and s["cr"])) - int(bool(s["rv"])) - int(bool(s["wr"]))
                state["maxout"] = max(state["maxout"], xb.outstanding)
            state["rin"] += int(bool(s["rv"] and s["rr"]))
            state["wout"] += int(bool(s["wv"] and s["wr"]))
            state["rmax"] = max(state["rmax"], state["rin"] - state["rgot"])
            if state["ucycles"] + state["scycles"] < lock_edges:
                lockrec.append((t, "sys", s))
            state["scycles"] += 1
            yield

    def driver():
        wq = collections.deque()       # write data not yet taken: (data, mask)
        idx = 0                        # next plan entry to offer as a command
        widx = 0                       # next plan entry whose write data has been queued
        pending = None
        gap = plan[0][0] if plan else 0
        idle = 0
        ready = 1
        yield user.rdata.ready.eq(1)
        while True:
            nev = len(events) - state["ndrop"]            # handshakes only: a stream of drop events is not progress
            if nev != state["nev"]:
                state["nev"], state["progress_at"] = nev, state["ucycles"]
            if state["ucycles"] > max_ucycles or state["ucycles"] - state["progress_at"] > stall_limit:
                # no handshake anywhere for a long time (or the overall bound): something was lost; stop and let the
                # monitors say what ("never delivered" / "never completed")
                state["timed_out"] = True
                break
            if pending is not None and (yield user.cmd.valid) and (yield user.cmd.ready):
                pending = None
                if idx < len(plan):
                    gap = plan[idx][0]
            if wq and (yield user.wdata.valid) and (yield user.wdata.ready):
                wq.popleft()
            if pending is None and idx < len(plan):
                if gap > 0:
                    gap -= 1
                else:
                    pending = plan[idx]
                    idx += 1
            # queue write data: for every write up to and including the pending command, plus up to `wlead` later writes
            horizon = idx
            lead = 0
            j = idx
            while lead < wlead and j < len(plan):
                if plan[j][1]:
                    lead += 1
                    horizon = j + 1
                j += 1
            while widx < horizon:
                if plan[widx][1]:
                    wq.append((plan[widx][3], plan[widx][4]))
                widx += 1
            if pending is not None:
                yield user.cmd.valid.eq(1)
                yield user.cmd.we.eq(int(pending[1]))
                yield user.cmd.addr.eq(pending[2])
                yield user.cmd.last.eq(pending[5])
            else:
                yield user.cmd.valid.eq(0)
            if wq:
                yield user.wdata.valid.eq(1)
                yield user.wdata.data.eq(wq[0][0])
                yield user.wdata.we.eq(wq[0][1])
            else:
                yield user.wdata.valid.eq(0)
            if rstall:
                if rnd.random() < 0.05:
                    ready = 0 if rnd.random() < rstall else 1
                yield user.rdata.ready.eq(ready if rnd.random() > rstall * 0.3 else 0)
            if idx >= len(plan) and pending is None and not wq:
                if mem.outstanding == 0 and state["rgot"] >= nreads:
                    idle += 1
                    if idle > 12:
                        break
                else:
                    idle = 0
            yield
        state["done"] = True

    def sys_tail():
        # keep the simulation alive until the memory side has seen a few more sys edges after the driver finished
        while not state["done"]:
            yield
        for _ in range(12):
            yield

    gens = {"user": [driver(), user_recorder()], "sys": [passive(mem.process)(), mem_recorder(), sys_tail()]}
    clocks = clock_desc(sc.get("clocks", {"user": [20, 0], "sys": [20, 0]}))
    sched = make_schedule(sc["schedule"], seed) if sc.get("schedule") else None
    if sc.get("replay"):
        # B3: a behaviour of the TLA+ design model (MC_AsyncFifo -simulate), i.e. a sequence of W/R/B edges with the push
        # and pop requests of each edge, replayed as an explicit clock schedule with the same requests on all channels
        # (cmd, wdata: write side = user; rdata: write side = sys, requests mirrored). No memory behind: streams only.
        acts = list(sc["replay"])
        wreq = [a[1] == "1" for a in acts if a[0] in "WB"]              # request at the k-th user edge of the behaviour
        rreq = [(a[-1] == "1") for a in acts if a[0] in "RB"]           # request at the k-th sys edge
        sched = [["user"], ["sys"]] + [{"W": ["user"], "R": ["sys"], "B": ["user", "sys"]}[a[0]] for a in acts] + [["user"], ["sys"]] * 12
        cnt = [0]

        def replay_user():
            k = 0
            while k <= len(wreq) + 12:
                v = int(wreq[k]) if k < len(wreq) else 0
                cnt[0] += 1
                yield user.cmd.valid.eq(v); yield user.cmd.addr.eq(cnt[0] % (1 << aw)); yield user.cmd.we.eq(cnt[0] & 1)
                yield user.wdata.valid.eq(v); yield user.wdata.data.eq((cnt[0] * 2654435761) % (1 << dw)); yield user.wdata.we.eq(cnt[0] % (1 << nb))
                yield user.rdata.ready.eq(v if k < len(wreq) else 1)
                k += 1
                yield
            state["done"] = True

        @passive
        def replay_sys():
            k = 0
            while True:
                v = int(rreq[k]) if k < len(rreq) else 0
                cnt[0] += 1
                yield memp.cmd.ready.eq(v if k < len(rreq) else 1); yield memp.wdata.ready.eq(v if k < len(rreq) else 1)
                yield memp.rdata.valid.eq(v); yield memp.rdata.data.eq((cnt[0] * 40503) % (1 << dw))
                k += 1
                yield
        strict = False
        gens = {"user": [replay_user(), user_recorder()], "sys": [replay_sys(), mem_recorder(), sys_tail()]}
    cdcsim.run(top, gens, clocks, ref=ref, schedule=sched)
    events.sort(key=lambda e: (e[0], e[1]))
    evs = [e[2] for e in events]
    if not conv:
        evs.append(dict(c="DUMP", n=mem.changed(), t=ref.now))
    evs.append(dict(c="END", t=ref.now, planned=(len(plan) if not sc.get("replay") else 0),
                    accepted=sum(1 for e in evs if e["c"] == "CMD" and e.get("s") == "u")))
    for e in evs:
        e.setdefault("uc", state["ucycles"])
    exact = depths.pop("exact", True)
    return dict(events=evs, lock=lock_lines(lockrec, nb, mode) if (lock_edges and exact) else [], depths=depths,
                stats=dict(user_cycles=state["ucycles"], sys_cycles=state["scycles"], timed_out=int(state["timed_out"]),
                           cmds=len(plan), reads=nreads, rdata_fifo_max=state["rmax"], wdata_fifo_max=state["wmax"],
                           mem_outstanding_max=state["maxout"]))


def lock_lines(lockrec, nb, mode="both"):
    """Per-(instant, channel) lines for T_AsyncFifo.tla. Payloads are numbered injectively (0 is the reset content)."""
    lockrec.sort(key=lambda r: r[0])
    if lockrec:                                   # the last instant may have been cut between its two edges: drop it
        tl = lockrec[-1][0]
        lockrec = [r for r in lockrec if r[0] != tl]
    codes = {"cmd": {}, "wdata": {}, "rdata": {}}

    def code(ch, v):
        d = codes[ch]
        if v not in d:
            d[v] = len(d) + 1
        return d[v]
    lines = []
    i = 0
    while i < len(lockrec):
        t = lockrec[i][0]
        here = {}
        while i < len(lockrec) and lockrec[i][0] == t:
            here[lockrec[i][1]] = lockrec[i][2]
            i += 1
        u, s = here.get("user"), here.get("sys")
        # channel -> (write-side sample, read-side sample); cmd/wdata are written in "user", rdata in "sys"
        for ch, wside, rside in (("cmd", u, s), ("wdata", u, s), ("rdata", s, u)):
            if wside is None and rside is None:
                continue
            if (ch == "wdata" and mode == "read") or (ch == "rdata" and mode == "write"):
                continue                      # that crossing does not exist in this port mode
            ln = dict(ch=ch, k="B" if (wside is not None and rside is not None) else ("W" if wside is not None else "R"))
            if wside is not None:
                if ch == "cmd":
                    ln.update(we=wside["cv"], wr=wside["cr"], din=code(ch, (wside["cwe"], wside["ca"], wside["cl"])))
                elif ch == "wdata":
                    ln.update(we=wside["wv"], wr=wside["wr"], din=code(ch, (wside["wd"], wside["wm"])))
                else:
                    ln.update(we=wside["rv"], wr=wside["rr"], din=code(ch, wside["rd"]))
            if rside is not None:
                if ch == "cmd":
                    ln.update(re=rside["cr"], rd=rside["cv"], dout=code(ch, (rside["cwe"], rside["ca"], rside["cl"])))
                elif ch == "wdata":
                    ln.update(re=rside["wr"], rd=rside["wv"], dout=code(ch, (rside["wd"], rside["wm"])))
                else:
                    ln.update(re=rside["rr"], rd=rside["rv"], dout=code(ch, rside["rd"]))
            lines.append(ln)
    return lines
