"""Environment set-up shared by every check: where the implementation is imported from, hooks, shim."""
import os, sys

VERIF = os.path.dirname(os.path.dirname(os.path.abspath(__file__)))
REPO = os.environ.get("VERIF_REPO", "/repo")
SPECS = os.path.join(VERIF, "specs")
GUARD = "LITEDRAM_VERIF"

os.environ.setdefault(GUARD, "1")
os.environ.setdefault("PYTHONHASHSEED", "0")

_done = False


def setup():
    """Make `import litedram` resolve to REPO's working tree and apply the compat shim (idempotent)."""
    global _done
    if _done:
        return
    _done = True
    if REPO in sys.path:
        sys.path.remove(REPO)
    sys.path.insert(0, REPO)
    for name in list(sys.modules):
        if name == "litedram" or name.startswith("litedram."):
            del sys.modules[name]
    from . import shim  # noqa: F401
    import litedram
    got = os.path.dirname(os.path.dirname(os.path.abspath(litedram.__file__)))
    if os.path.realpath(got) != os.path.realpath(REPO):
        raise RuntimeError("litedram imported from %s, expected %s" % (got, REPO))


def fastsim_enabled():
    return os.environ.get("VERIF_FASTSIM", "1") != "0"


def run_simulation(*args, **kwargs):
    """Migen run_simulation on the accelerated evaluator unless VERIF_FASTSIM=0."""
    if fastsim_enabled():
        from . import fastsim
        return fastsim.run_simulation(*args, **kwargs)
    from migen import run_simulation as rs
    return rs(*args, **kwargs)
