"""Known findings (/verif/known_findings.json): committed, read-only at run time.
open[]  : {id, property, signature (regex, full match against the finding key of one rejected clause), what}
fixed[] : "fixed: property=<id> <commit> <what failed>"  -- informational, suppresses nothing."""
import json, os, re
from .env import VERIF


def load():
    p = os.path.join(VERIF, "known_findings.json")
    if not os.path.exists(p):
        return dict(open=[], fixed=[])
    with open(p) as f:
        return json.load(f)


def match(pid, key, kf=None):
    kf = kf or load()
    for e in kf.get("open", []):
        if e["property"] == pid and re.fullmatch(e["signature"], key):
            return e
    return None
