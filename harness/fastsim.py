# Prototype: compiled evaluator for migen's Simulator (same delta-cycle algorithm, compiled statements)
import collections.abc
from migen.fhdl.structure import *
from migen.fhdl.structure import (_Value, _Statement, _Operator, _Slice, _Part, _ArrayProxy, _Assign, _Fragment)
from migen.fhdl.bitcontainer import value_bits_sign
from migen.fhdl.specials import _MemoryLocation
from migen.sim.core import Simulator, Evaluator, _truncate


class _Gen:
    def __init__(self, ev):
        self.ev = ev
        self.lines = []
        self.consts = {}
        self.ntmp = 0

    def tmp(self):
        self.ntmp += 1
        return "t%d" % self.ntmp

    def const(self, obj):
        name = "K%d" % len(self.consts)
        self.consts[name] = obj
        return name

    def idx(self, sig):
        return self.ev.index(sig)

    # expression -> python source
    def e(self, node, post=False):
        if isinstance(node, Constant):
            return repr(node.value)
        if isinstance(node, Signal):
            i = self.idx(node)
            if post:
                return "M.get(%d, V[%d])" % (i, i)
            return "V[%d]" % i
        if isinstance(node, _Operator):
            ops = [self.e(o, post) for o in node.operands]
            op = node.op
            if op == "-":
                if len(ops) == 1:
                    return "(-(%s))" % ops[0]
                return "((%s) - (%s))" % (ops[0], ops[1])
            if op == "m":
                return "((%s) if (%s) else (%s))" % (ops[1], ops[0], ops[2])
            if op == "~":
                return "(~(%s))" % ops[0]
            pyop = {">>>": ">>", "<<<": "<<"}.get(op, op)
            return "((%s) %s (%s))" % (ops[0], pyop, ops[1])
        if isinstance(node, _Slice):
            n = node.stop - node.start
            return "(((%s) >> %d) & %d)" % (self.e(node.value, post), node.start, (1 << n) - 1)
        if isinstance(node, _Part):
            return "(((%s) >> (%s)) & %d)" % (self.e(node.value, post), self.e(node.offset, post), (1 << node.width) - 1)
        if isinstance(node, Cat):
            parts = []
            shift = 0
            for el in node.l:
                nb = len(el)
                parts.append("(((%s) & %d) << %d)" % (self.e(el, post), (1 << nb) - 1, shift))
                shift += nb
            return "(" + " | ".join(parts) + ")" if parts else "0"
        if isinstance(node, Replicate):
            nb = len(node.v)
            mul = sum(1 << (i * nb) for i in range(node.n))
            return "(((%s) & %d) * %d)" % (self.e(node.v, post), (1 << nb) - 1, mul)
        if isinstance(node, _ArrayProxy):
            n = len(node.choices)
            key = "min(%d, %s)" % (n - 1, self.e(node.key, post))
            if all(isinstance(c, Signal) for c in node.choices):
                k = self.const(tuple(self.idx(c) for c in node.choices))
                if post:
                    fn = self.const(None)
                    return "_pget(M, V, %s[%s])" % (k, key)
                return "V[%s[%s]]" % (k, key)
            if all(isinstance(c, Constant) for c in node.choices):
                k = self.const(tuple(c.value for c in node.choices))
                return "%s[%s]" % (k, key)
            # generic: lambdas (lazy)
            k = "(" + ", ".join("lambda: " + self.e(c, post) for c in node.choices) + ",)"
            return "(%s[%s]())" % (k, key)
        if isinstance(node, _MemoryLocation):
            arr = self.ev.replaced_memories[node.memory]
            k = self.const(tuple(self.idx(c) for c in arr))
            return "V[%s[%s]]" % (k, self.e(node.index, post))
        if isinstance(node, ClockSignal):
            return self.e(self.ev.clock_domains[node.cd].clk, post)
        if isinstance(node, ResetSignal):
            rst = self.ev.clock_domains[node.cd].rst
            if rst is None:
                if node.allow_reset_less:
                    return "0"
                raise ValueError
            return self.e(rst, post)
        raise NotImplementedError(node)

    def trunc(self, val, nbits, signed):
        if signed:
            return "_ts(%s, %d)" % (val, nbits)
        return "((%s) & %d)" % (val, (1 << nbits) - 1)

    def a(self, node, val, ind):
        pad = "    " * ind
        if isinstance(node, Signal):
            self.lines.append("%sM[%d] = %s" % (pad, self.idx(node), self.trunc(val, node.nbits, node.signed)))
        elif isinstance(node, Cat):
            t = self.tmp()
            self.lines.append("%s%s = %s" % (pad, t, val))
            shift = 0
            for el in node.l:
                nb = len(el)
                self.a(el, "((%s >> %d) & %d)" % (t, shift, (1 << nb) - 1), ind)
                shift += nb
        elif isinstance(node, _Slice):
            full = self.e(node.value, True)
            clr = ((1 << node.stop) - 1) - ((1 << node.start) - 1)
            n = node.stop - node.start
            self.a(node.value, "(((%s) & ~%d) | (((%s) & %d) << %d))" % (full, clr, val, (1 << n) - 1, node.start), ind)
        elif isinstance(node, _Part):
            t = self.tmp()
            self.lines.append("%s%s = %s" % (pad, t, self.e(node.offset, True)))
            full = self.e(node.value, True)
            w = node.width
            self.a(node.value, "(((%s) & ~(%d << %s)) | (((%s) & %d) << %s))" % (full, (1 << w) - 1, t, val, (1 << w) - 1, t), ind)
        elif isinstance(node, _ArrayProxy):
            n = len(node.choices)
            t = self.tmp()
            tv = self.tmp()
            self.lines.append("%s%s = min(%d, %s)" % (pad, t, n - 1, self.e(node.key)))
            self.lines.append("%s%s = %s" % (pad, tv, val))
            if all(isinstance(c, Signal) for c in node.choices) and len({(c.nbits, c.signed) for c in node.choices}) == 1:
                k = self.const(tuple(self.idx(c) for c in node.choices))
                c0 = node.choices[0]
                self.lines.append("%sM[%s[%s]] = %s" % (pad, k, t, self.trunc(tv, c0.nbits, c0.signed)))
            else:
                for i, c in enumerate(node.choices):
                    self.lines.append("%s%s %s == %d:" % (pad, "if" if i == 0 else "elif", t, i))
                    self.a(c, tv, ind + 1)
        elif isinstance(node, _MemoryLocation):
            arr = self.ev.replaced_memories[node.memory]
            k = self.const(tuple(self.idx(c) for c in arr))
            c0 = arr[0]
            self.lines.append("%sM[%s[%s]] = %s" % (pad, k, self.e(node.index), self.trunc(val, c0.nbits, c0.signed)))
        else:
            raise NotImplementedError(node)

    def s(self, stmts, ind):
        pad = "    " * ind
        n0 = len(self.lines)
        for st in stmts:
            if isinstance(st, _Assign):
                self.a(st.l, self.e(st.r), ind)
            elif isinstance(st, If):
                self.lines.append("%sif (%s) & %d:" % (pad, self.e(st.cond), (1 << len(st.cond)) - 1))
                self.s(st.t, ind + 1)
                if st.f:
                    self.lines.append("%selse:" % pad)
                    self.s(st.f, ind + 1)
            elif isinstance(st, Case):
                nbits, signed = value_bits_sign(st.test)
                t = self.tmp()
                self.lines.append("%s%s = %s" % (pad, t, self.trunc(self.e(st.test), nbits, signed)))
                first = True
                seen = set()
                for k, v in st.cases.items():
                    if isinstance(k, Constant):
                        if k.value in seen:
                            continue
                        seen.add(k.value)
                        self.lines.append("%s%s %s == %d:" % (pad, "if" if first else "elif", t, k.value))
                        first = False
                        self.s(v, ind + 1)
                if "default" in st.cases:
                    if first:
                        self.lines.append("%sif True:" % pad)
                    else:
                        self.lines.append("%selse:" % pad)
                    self.s(st.cases["default"], ind + 1)
            elif isinstance(st, collections.abc.Iterable):
                self.s(st, ind)
            elif isinstance(st, Display):
                pass
            else:
                raise NotImplementedError(st)
        if len(self.lines) == n0:
            self.lines.append("%spass" % pad)


def _ts(value, nbits):
    value &= (1 << nbits) - 1
    if value & (1 << (nbits - 1)):
        value -= 1 << nbits
    return value


def _pget(M, V, i):
    return M.get(i, V[i])


class FastEvaluator(Evaluator):
    def __init__(self, clock_domains, replaced_memories):
        Evaluator.__init__(self, clock_domains, replaced_memories)
        self.sig2idx = {}
        self.sigs = []
        self.V = []
        self.M = {}
        self.compiled = {}

    def index(self, sig):
        i = self.sig2idx.get(sig)
        if i is None:
            i = len(self.sigs)
            self.sig2idx[sig] = i
            self.sigs.append(sig)
            self.V.append(self.signal_values.get(sig, sig.reset.value))
        return i

    def compile(self, stmts):
        g = _Gen(self)
        g.lines.append("def f(V, M):")
        g.s(stmts, 1)
        src = "\n".join(g.lines)
        env = {"_ts": _ts, "_pget": _pget}
        env.update(g.consts)
        exec(compile(src, "<fastsim>", "exec"), env)
        self.compiled[id(stmts)] = env["f"]
        return env["f"]

    def execute(self, statements):
        f = self.compiled.get(id(statements))
        if f is not None:
            f(self.V, self.M)
        else:
            Evaluator.execute(self, statements)

    def eval(self, node, postcommit=False):
        if isinstance(node, Signal):
            if postcommit:
                try:
                    return self.modifications[node]
                except KeyError:
                    pass
            i = self.sig2idx.get(node)
            if i is not None:
                if postcommit and i in self.M:
                    return self.M[i]
                return self.V[i]
            try:
                return self.signal_values[node]
            except KeyError:
                return node.reset.value
        return Evaluator.eval(self, node, postcommit)

    def commit(self):
        r = set()
        V = self.V
        sigs = self.sigs
        for i, v in self.M.items():
            if V[i] != v:
                V[i] = v
                r.add(sigs[i])
        self.M.clear()
        for k, v in self.modifications.items():
            i = self.sig2idx.get(k)
            if i is not None:
                if V[i] != v:
                    V[i] = v
                    r.add(k)
            elif k not in self.signal_values or self.signal_values[k] != v:
                self.signal_values[k] = v
                r.add(k)
        self.modifications.clear()
        return r


class FastSimulator(Simulator):
    def _commit_and_comb_propagate(self):
        ev = self.evaluator
        comb = self.fragment.comb
        modified = ev.commit()
        while modified:
            ev.execute(comb)
            modified = ev.commit()

    def __init__(self, *args, **kwargs):
        Simulator.__init__(self, *args, **kwargs)
        old = self.evaluator
        ev = FastEvaluator(old.clock_domains, old.replaced_memories)
        self.evaluator = ev
        ev.compile(self.fragment.comb)
        for cd, st in self.fragment.sync.items():
            ev.compile(st)


def run_simulation(*args, **kwargs):
    with FastSimulator(*args, **kwargs) as s:
        s.run()
