"""C07 device under test: the REAL LiteDRAMNativePortConverter (instantiated directly, or exactly as
LiteDRAMCrossbar.get_port(data_width=...) creates it) between a user-side driver that obeys the property's assumptions
and the ideal native memory (harness/idealmem.py, pulse semantics).

Python here only elaborates, drives, records and formats; specs/T_Conv.tla (R_Conv + R_PortMem) judges.

Scenario fields (all JSON): udw, mdw (user / memory data width), mode both|write|read, reverse, via direct|getport,
maw (memory-side address width, direct only), lat [lo, hi], stall, seed, idle hold|zero|random, and either
  profile/ncmd/orders/...   -> gen_plan()      (random + directed order classes), or
  items [...]               -> explicit list of commands, or
  script {...}              -> per-cycle environment taken from a TLC behaviour of D_UpConverter / D_DownConverter.
"""
import collections, random, types

from . import env
from .idealmem import IdealMem, tobytes


def log2(n):
    k = n.bit_length() - 1
    assert 1 << k == n, n
    return k


# ------------------------------------------------------------------------------------------------ elaboration

def build(sc):
    """Returns (top, user_port, mem_port). Real classes from the working tree."""
    env.setup()
    from migen import Module
    from litedram.common import LiteDRAMNativePort
    udw, mdw, mode, reverse = sc["udw"], sc["mdw"], sc.get("mode", "both"), bool(sc.get("reverse", False))
    top = Module()
    if sc.get("via", "direct") == "direct":
        from litedram.frontend.adapter import LiteDRAMNativePortConverter
        maw = sc.get("maw", 10)
        uaw = maw + log2(mdw // udw) if mdw > udw else maw - log2(udw // mdw)
        user = LiteDRAMNativePort(mode, uaw, udw)
        memp = LiteDRAMNativePort(mode, maw, mdw)
        top.submodules.conv = LiteDRAMNativePortConverter(user, memp, reverse)
    else:
        # exactly what a user gets from the real crossbar; the crossbar itself is not finalized (no controller behind it):
        # its native master port is served by the ideal memory, the converter it created is simulated as is.
        from litedram.core.crossbar import LiteDRAMCrossbar
        phy = types.SimpleNamespace(read_latency=4, write_latency=0)
        settings = types.SimpleNamespace(cmd_buffer_depth=8, phy=phy)
        nbanks = sc.get("nbanks", 4)
        ctrl = types.SimpleNamespace(address_width=sc.get("maw", 10) - log2(nbanks), nbanks=nbanks, nranks=1, data_width=mdw, settings=settings)
        xb = LiteDRAMCrossbar(ctrl)
        user = xb.get_port(mode=mode, data_width=udw, reverse=reverse)
        memp = xb.masters[-1]
        assert memp is not user
        for _, m in xb._submodules:
            top.submodules += m
    return top, user, memp


# ------------------------------------------------------------------------------------------------ byte view (independent path)

class View:
    """Byte-addressed view: which memory-side words/bits a user word consists of.  Written from the property statement
    (little-endian byte addressing; reverse=True = documented reversed chunk order), not from the converter."""
    def __init__(self, udw, mdw, reverse):
        self.udw, self.mdw, self.rev = udw, mdw, reverse
        self.up = mdw > udw
        self.R = mdw // udw if self.up else udw // mdw

    def mem_addrs(self, a):
        return [a // self.R] if self.up else [a * self.R + i for i in range(self.R)]

    def user_addrs(self, w):
        return [w * self.R + k for k in range(self.R)] if self.up else [w // self.R]

    def user_word(self, read, a):
        R = self.R
        if self.up:
            k = a % R
            pos = R - 1 - k if self.rev else k
            return (read(a // R) >> (pos * self.udw)) & ((1 << self.udw) - 1)
        v = 0
        for i in range(R):
            pos = R - 1 - i if self.rev else i
            v |= (read(a * R + i) & ((1 << self.mdw) - 1)) << (pos * self.mdw)
        return v


# ------------------------------------------------------------------------------------------------ stimulus

def gen_plan(sc, uaw):
    """List of user commands dict(gap, we, a, d, m, last, early) + set of flush cycles are drawn from the seed.
    orders='asc'  : consecutive same-type commands inside one wide word are strictly ascending unless the earlier one
                    carries cmd.last (the usage the up-converter's docstring describes);
    orders='any'  : ascending, descending, repeated and random orders inside and across wide words."""
    rnd = random.Random((sc.get("seed", 0) * 1000003 + 777) & 0xffffffff)
    udw, mdw = sc["udw"], sc["mdw"]
    nb = udw // 8
    up = mdw > udw
    R = mdw // udw if up else 1
    n = sc.get("ncmd", 200)
    mode = sc.get("mode", "both")
    orders = sc.get("orders", "any")
    nlines = 1 << (uaw - log2(R))
    # working set of lines (line = R consecutive user addresses = one wide word for the up-converter), low and top of the space
    lines = [0, 1, nlines - 1, nlines - 2] + [rnd.randrange(nlines) for _ in range(sc.get("working_set", 3))]
    lines = list(dict.fromkeys(l % nlines for l in lines))
    plast, partial = sc.get("plast", 0.15), sc.get("partial", 0.35)
    wfrac = {"both": sc.get("wfrac", 0.5), "write": 1.0, "read": 0.0}[mode]
    plan = []
    while len(plan) < n:
        line = rnd.choice(lines) if rnd.random() < 0.9 else rnd.randrange(nlines)
        kind = rnd.choice(["asc", "asc", "full", "desc", "repeat", "random", "single", "cross"])
        if orders == "asc" and kind in ("desc", "repeat", "random"):
            kind = rnd.choice(["asc", "full", "single", "cross"])
        if R == 1:
            subs = [0] * rnd.randint(1, 3) if kind in ("repeat",) else [0]
        elif kind == "asc":
            subs = sorted(rnd.sample(range(R), rnd.randint(1, min(R, 6))))
        elif kind == "full":
            subs = list(range(R)) if R <= 8 else list(range(rnd.randrange(R - 7), R))
        elif kind == "desc":
            subs = sorted(rnd.sample(range(R), rnd.randint(2, min(R, 5))), reverse=True)
        elif kind == "repeat":
            s = rnd.randrange(R)
            subs = [s] * rnd.randint(2, 3)
        elif kind == "random":
            subs = [rnd.randrange(R) for _ in range(rnd.randint(2, 6))]
        elif kind == "single":
            subs = [rnd.randrange(R)]
        else:  # cross: walk over a line boundary
            s = rnd.randrange(max(1, R - 2), R) if R > 1 else 0
            subs = list(range(s, R)) + [R + k for k in range(rnd.randint(1, 2))]
        mixed = rnd.random() < 0.25
        we0 = rnd.random() < wfrac
        gapsty = rnd.choice(["b2b", "b2b", "b2b", "some", "slow"])
        for i, s in enumerate(subs):
            we = (rnd.random() < wfrac) if mixed else we0
            a = (line * R + s) % (1 << uaw)
            gap = {"b2b": 0, "some": rnd.choice([0, 0, 1, 2]), "slow": rnd.choice([0, 3, 7, 40])}[gapsty]
            if i == 0:
                gap = rnd.choice([0, 0, 0, 1, 2, 5, 12, 45])
            m = (1 << nb) - 1
            if we and rnd.random() < partial:
                m = rnd.getrandbits(nb)
            last = int(rnd.random() < (plast if i < len(subs) - 1 else 0.4))
            plan.append(dict(gap=gap, we=bool(we), a=a, d=rnd.getrandbits(udw), m=m, last=last,
                             early=rnd.choice([0, 0, 1, 2])))
    plan = plan[:n]
    if orders == "asc" and up:
        for p, c in zip(plan, plan[1:]):
            if p["we"] == c["we"] and p["a"] // R == c["a"] // R and c["a"] % R <= p["a"] % R:
                p["last"] = 1
    return plan


def nonascending_pairs(cmds, R):
    """Indices i (into the accepted-command list) where command i follows command i-1 of the same type in the same wide
    word at a sub-address that is not above it and command i-1 did not carry cmd.last (measured on the recorded trace)."""
    out = []
    for i in range(1, len(cmds)):
        p, c = cmds[i - 1], cmds[i]
        if p["we"] == c["we"] and p["a"] // R == c["a"] // R and c["a"] % R <= p["a"] % R and not p["last"]:
            out.append(i)
    return out


class ScriptRnd:
    """Stands in for IdealMem's RNG when the environment is scripted (TLC behaviour): random() is consumed once per cycle
    for cmd.ready (stall threshold 0.5), randint() once per accepted command for its latency."""
    def __init__(self, ready, lats, lo, seed):
        self.ready, self.lats, self.lo = collections.deque(ready), collections.deque(lats), lo
        self.r = random.Random(seed)

    def random(self):
        return 1.0 if (self.ready.popleft() if self.ready else 1) else 0.0

    def randint(self, a, b):
        return self.lats.popleft() if self.lats else self.lo

    def getrandbits(self, n):
        return self.r.getrandbits(n)


# ------------------------------------------------------------------------------------------------ run

def run(sc):
    """Simulate one scenario on the real converter.  Returns dict(header, events, cycles, cmds, stats)."""
    env.setup()
    from migen import passive
    top, user, memp = build(sc)
    udw, mdw = user.data_width, memp.data_width
    assert (udw, mdw) == (sc["udw"], sc["mdw"])
    nb = udw // 8
    reverse = bool(sc.get("reverse", False))
    view = View(udw, mdw, reverse)
    up, R = view.up, view.R
    seed = sc.get("seed", 0)
    lat = tuple(sc.get("lat", (3, 12)))
    assert lat[0] >= 3, "the real core never answers faster than 3 cycles"
    mem = IdealMem([memp], seed=seed, lat=lat, stall=sc.get("stall", 0.3))
    script = sc.get("script")
    if script:
        mem.rnd = ScriptRnd(script["mready"], script["lats"], lat[0], seed)
        mem.stall = 0.5
        plan = [dict(gap=0, early=0, **{k: it[k] for k in ("we", "a", "d", "m", "last")}, at=it["at"]) for it in script["items"]]
        flush_at = set(script.get("flush", []))
        script_idle = {int(k): v for k, v in script.get("idle", {}).items()}
    else:
        plan = sc.get("items") or gen_plan(sc, user.address_width)
        frnd = random.Random(seed * 31 + 5)
        flush_at = set()
        c = 0
        pf = sc.get("pflush", 0.01)
        horizon = 60 * len(plan) + 1000
        while pf > 0 and c < horizon:
            c += int(frnd.expovariate(pf)) + 1
            for k in range(frnd.choice([1, 1, 2, 5])):
                flush_at.add(c + k)
    idle = sc.get("idle", "random") if not script else "hold"
    irnd = random.Random(seed * 17 + 3)
    events = []
    cyc = [0]
    act = [0]                  # last cycle with any handshake on either side
    cmds = []                  # accepted user commands (measured)
    state = dict(rd_out=0, stuck=None, done=False)
    stuck_after = sc.get("stuck_after", 3000)
    max_cycles = sc.get("max_cycles", 200 * len(plan) + 20000)
    quiet = 6 * R + 4 * lat[1] + 60

    @passive
    def recorder():
        nmem = 0
        while True:
            c = cyc[0]
            if (yield user.cmd.valid) and (yield user.cmd.ready):
                we, a, last = (yield user.cmd.we), (yield user.cmd.addr), (yield user.cmd.last)
                events.append((c, 1, dict(c="CMD", p=0, we=bool(we), a=a, t=c)))
                cmds.append(dict(we=bool(we), a=a, last=last, fl=(yield user.flush), t=c))
                if not we:
                    state["rd_out"] += 1
                act[0] = c
            if (yield user.wdata.valid) and (yield user.wdata.ready):
                d, m = (yield user.wdata.data), (yield user.wdata.we)
                events.append((c, 2, dict(c="WDATA", p=0, d=tobytes(d, nb), m=[(m >> j) & 1 for j in range(nb)], t=c)))
                act[0] = c
            if (yield user.rdata.valid) and (yield user.rdata.ready):
                events.append((c, 3, dict(c="RDATA", p=0, d=tobytes((yield user.rdata.data), nb), t=c)))
                state["rd_out"] -= 1
                act[0] = c
            if len(mem.events) != nmem:
                nmem = len(mem.events)
                act[0] = c
            cyc[0] += 1
            yield

    def driver():
        wq = collections.deque()
        pushed = 0            # plan[:pushed] have had their write data queued
        idx = 0               # next command to offer
        pending = None
        offered_at = 0
        wq_since = 0
        gap = plan[0]["gap"] if plan else 0
        hold = dict(we=0, a=0, last=0)
        it = -1               # own iteration counter: values written in iteration k are the signal values of cycle k+1
        yield user.rdata.ready.eq(1)

        def push_upto(k):
            nonlocal pushed
            while pushed < min(k, len(plan)):
                it = plan[pushed]
                if it["we"]:
                    wq.append((it["d"], it["m"]))
                pushed += 1

        while True:
            it += 1
            c = it
            if c > max_cycles:
                break
            # ---- observe the cycle that just ended ----
            if pending is not None and (yield user.cmd.ready):
                pending = None
                if idx < len(plan):
                    gap = plan[idx]["gap"]
                    if plan[idx].get("early"):
                        push_upto(idx + plan[idx]["early"])       # data may run ahead of its command
            if wq and (yield user.wdata.valid) and (yield user.wdata.ready):
                wq.popleft()
                wq_since = c
            # ---- choose what to drive in the next cycle ----
            if pending is None and idx < len(plan):
                at = plan[idx].get("at")
                if (at is not None and c >= at) or (at is None and gap <= 0):
                    pending = plan[idx]
                    idx += 1
                    push_upto(idx)                                # no later than the command itself
                    offered_at = c
                else:
                    gap -= 1
            if pending is not None:
                hold = dict(we=int(pending["we"]), a=pending["a"], last=pending["last"])
                yield user.cmd.valid.eq(1)
            else:
                yield user.cmd.valid.eq(0)
                if script and c in script_idle:
                    hold = script_idle[c]
                elif idle == "zero":
                    hold = dict(we=0, a=0, last=0)
                elif idle == "random":
                    hold = dict(we=irnd.getrandbits(1), a=irnd.getrandbits(user.address_width), last=irnd.getrandbits(1))
            yield user.cmd.we.eq(hold["we"])
            yield user.cmd.addr.eq(hold["a"])
            yield user.cmd.last.eq(hold["last"])
            if wq:
                yield user.wdata.valid.eq(1)
                yield user.wdata.data.eq(wq[0][0])
                yield user.wdata.we.eq(wq[0][1])
            else:
                yield user.wdata.valid.eq(0)
                if idle == "random":
                    yield user.wdata.data.eq(irnd.getrandbits(udw))
                    yield user.wdata.we.eq(irnd.getrandbits(nb))
            finished = idx >= len(plan) and pending is None
            yield user.flush.eq(1 if (finished or c in flush_at) else 0)
            if pending is not None and c - offered_at > stuck_after:
                state["stuck"] = "cmd"
                break
            if finished and wq and c - max(wq_since, offered_at) > stuck_after:
                state["stuck"] = "wdata"
                break
            if finished and not wq and c - act[0] > quiet and mem.outstanding == 0:
                state["done"] = True
                break
            if finished and not wq and c - act[0] > stuck_after:
                state["done"] = True          # something never completed: END lets the spec name it
                break
            yield

    env.run_simulation(top, [recorder(), driver(), passive(mem.process)()])
    if cyc[0] > max_cycles and not state["done"] and not state["stuck"]:
        raise RuntimeError("simulation hit max_cycles (%s)" % sc.get("name"))
    evs = []
    for (c, cl, pi, e) in mem.events:
        if e["c"] == "WDROP":
            events.append((c, 4, dict(c="MWDROP", t=c)))
        elif e["c"] == "RDROP":
            events.append((c, 4, dict(c="MRDROP", t=c)))
    events.sort(key=lambda e: (e[0], e[1]))
    body = [e[2] for e in events]
    # ---- INIT / FINAL through the independent byte view, straight from the ideal memory's dict ----
    touched = {c["a"] for c in cmds}
    fa = set(touched)
    for a in touched:
        for w in view.mem_addrs(a):
            fa.update(view.user_addrs(w))
        fa.update(x for x in (a - 1, a + 1) if 0 <= x < (1 << user.address_width))
    for w in mem.mem:
        fa.update(view.user_addrs(w))
    fa = sorted(fa)
    hdr = dict(nports=1, uniq=False, kind="up" if up else "down", ratio=R, udw=udw, mdw=mdw, reverse=reverse,
               mode=sc.get("mode", "both"))
    pre = [dict(c="GEOM", uaw=user.address_width, ub=udw // 8, maw=memp.address_width, mb=mdw // 8)]
    pre += [dict(c="INIT", a=a, d=tobytes(view.user_word(mem.initword, a), nb)) for a in fa]
    post = []
    if state["stuck"]:
        post.append(dict(c="STUCK", what=state["stuck"], t=cyc[0]))
    post += [dict(c="FINAL", a=a, d=tobytes(view.user_word(mem.read, a), nb)) for a in fa]
    post.append(dict(c="END", t=cyc[0]))
    allev = pre + body + post
    lines = [i + 2 for i, e in enumerate(allev) if e["c"] == "CMD"]       # trace line of each accepted command (line 1 = header)
    assert len(lines) == len(cmds)
    for cm, ln in zip(cmds, lines):
        cm["line"] = ln
    return dict(header=hdr, events=allev, npre=len(pre), cycles=cyc[0], cmds=cmds, nfinal=len(fa),
                mem_cmds=sum(1 for e in mem.events if e[3]["c"] == "CMD"), stuck=state["stuck"],
                mem_events=mem.sorted_events())


# ------------------------------------------------------------------------------------------------ TLC behaviour -> stimulus (B3) and lock-step comparison (B2)

def sym_byte(n):
    """Concrete byte standing for the symbolic value n of the D-models (0 = initial contents is never produced)."""
    return (n * 29 + 7) % 251 + 1


def script_from_behaviour(states, kind, R, amap):
    """states: parsed TLC states of D_UpConverter / D_DownConverter (model state k = signal values of cycle k).
    amap: model line index -> real line (up: wide word; down: user word).  Returns the `script` dict run() understands."""
    items, flush, idle, mready, lats = [], [], {}, [], []

    def addr(a):
        return amap[a // R] * R + a % R if kind == "up" else amap[a]
    for i in range(1, len(states)):
        st, pv = states[i], states[i - 1]
        p = st["pend"]
        if st["ncmd"] == pv["ncmd"] + 1:
            n = st["ncmd"]
            if kind == "up":
                d, m = sym_byte(n), int(p["m"])
            else:
                d = sum(sym_byte(n * R + j) << (8 * j) for j in range(R))
                m = int(p["m"])
            items.append(dict(we=bool(p["we"]), a=addr(p["a"]), d=d, m=m, last=int(bool(p.get("last", False))), at=i - 1))
        elif not p["v"]:
            idle[i - 1] = dict(we=int(bool(p["we"])), a=addr(p["a"]), last=int(bool(p.get("last", False))))
        if st.get("flush"):
            flush.append(i - 1)
        mready.append(1 if st["mready"] else 0)
        if st["io"]["macc"]["v"]:
            lats.append(st["io"]["macc"]["lat"])
    return dict(items=items, flush=flush, idle=idle, mready=mready, lats=lats, nstates=len(states))


def lockstep(states, res, kind, R, amap):
    """Compare, cycle by cycle, the handshakes the model predicts (io of state k+1 = cycle k) with what the real
    converter did (user CMD/WDATA/RDATA events, memory-side CMD accepts).  Returns (cycles compared, first mismatch or None).
    Never a verdict: a mismatch means the model drifted from the code (MODEL-DRIFT)."""
    real = collections.defaultdict(dict)
    for e in res["events"]:
        if e.get("c") == "CMD":
            real[e["t"]]["acc"] = True
        elif e.get("c") == "WDATA":
            real[e["t"]]["take"] = True
        elif e.get("c") == "RDATA":
            real[e["t"]]["rd"] = True
    for e in res["mem_events"]:
        if e["c"] == "CMD":
            real[e["t"]]["macc"] = (bool(e["we"]), e["a"])
    n = 0
    for k in range(len(states) - 1):
        io = states[k + 1]["io"]
        rd = io["rd"]["v"] if isinstance(io["rd"], dict) else io["rd"]
        ma = None
        if io["macc"]["v"]:
            a = io["macc"]["a"]
            ma = (bool(io["macc"]["we"]), amap[a] if kind == "up" else amap[a // R] * R + a % R)
        model = dict(acc=bool(io["acc"]), take=bool(io["take"]), rd=bool(rd), macc=ma)
        r = real.get(k, {})
        got = dict(acc=bool(r.get("acc")), take=bool(r.get("take")), rd=bool(r.get("rd")), macc=r.get("macc"))
        if model != got:
            return n, dict(cycle=k, model=model, real=got)
        n += 1
    return n, None
