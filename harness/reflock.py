"""Lock-step conformance (binding B2) of specs/D_Refresher.tla with the real litedram.core.refresher.Refresher."""
import os, random
from . import env, tlc


def run_ref(sc, workdir):
    env.setup()
    from migen import passive
    from litedram.common import Settings
    from litedram.core.refresher import Refresher

    class S(Settings):
        def __init__(self, **kw):
            self.set_attributes(kw)
    p = sc["params"]
    st = S(with_refresh=True)
    st.phy = S(nranks=1)
    st.geom = S(bankbits=2, addressbits=13)
    st.timing = S(tREFI=p["tREFI"], tRP=p["tRP"], tRFC=p["tRFC"], tZQCS=p["tZQCS"] if p["zq"] else None)
    clk = 1e6
    dut = Refresher(st, clk_freq=clk, zqcs_freq=clk / p["zqperiod"], postponing=p["N"])
    rnd = random.Random(sc["seed"])
    rows = []

    @passive
    def mon():
        while True:
            rows.append(dict(ready=bool((yield dut.cmd.ready)), valid=bool((yield dut.cmd.valid)), last=bool((yield dut.cmd.last)),
                             ras=bool((yield dut.cmd.ras)), cas=bool((yield dut.cmd.cas)), we=bool((yield dut.cmd.we))))
            yield

    def drv():
        # multiplexer-like environment: grant after a random delay, keep ready until cmd.last
        mux, wait = 0, 0
        stim = sc.get("stimulus")
        if stim:
            for rdy in stim:
                yield dut.cmd.ready.eq(int(bool(rdy)))
                yield
            return
        for c in range(sc["ncyc"]):
            v, last = (yield dut.cmd.valid), (yield dut.cmd.last)
            if mux == 0:
                if v:
                    if wait <= 0:
                        mux = 1
                    else:
                        wait -= 1
                else:
                    wait = rnd.randrange(0, p["dmax"] + 1)
            else:
                if last:
                    mux = 0
                    wait = rnd.randrange(0, p["dmax"] + 1)
            yield dut.cmd.ready.eq(mux)
            yield
    env.run_simulation(dut, [drv(), mon()])
    consts = dict(tREFI=p["tREFI"], N=p["N"], tRP=p["tRP"], tRFC=p["tRFC"], WithZq="TRUE" if p["zq"] else "FALSE",
                  tZQCS=p["tZQCS"], ZqPeriod=p["zqperiod"], ZqLatch="TRUE", TimerCycles=p["tREFI"])
    cfgp = os.path.join(workdir, "T_Refresher.cfg")
    with open(cfgp, "w") as f:
        f.write("SPECIFICATION TSpec\nINVARIANT AtEnd\nCHECK_DEADLOCK FALSE\nCONSTANTS\n" +
                "\n".join(" %s = %s" % kv for kv in consts.items()) + "\n")
    tf = os.path.join(workdir, "ref.ndjson")
    tlc.write_ndjson(tf, dict(consts=consts), rows)
    v = tlc.validate_trace("T_Refresher", tf, workdir, cfg=cfgp)
    return dict(cycles=len(rows), refs=sum(1 for r in rows if r["ras"] and r["cas"] and not r["we"]),
                zqs=sum(1 for r in rows if not r["ras"] and not r["cas"] and r["we"]), mismatches=v["bad"], consts=consts, sample=rows[:3])
