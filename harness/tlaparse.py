"""Parse TLC's textual states (error traces printed by the model checker, `-simulate file=` dumps) into Python values.
records -> dict, functions (k :> v @@ ...) -> dict, sequences -> list, sets -> list (sorted by repr), ints/bools/strings."""
import re


class _P:
    def __init__(self, s):
        self.s, self.i = s, 0

    def ws(self):
        while self.i < len(self.s) and self.s[self.i].isspace():
            self.i += 1

    def peek(self, tok):
        self.ws()
        return self.s.startswith(tok, self.i)

    def eat(self, tok):
        self.ws()
        if not self.s.startswith(tok, self.i):
            raise ValueError("expected %r at %r" % (tok, self.s[self.i:self.i + 40]))
        self.i += len(tok)

    def value(self):
        self.ws()
        s = self.s
        if self.peek("<<"):
            self.eat("<<")
            out = []
            while not self.peek(">>"):
                out.append(self.value())
                if self.peek(","):
                    self.eat(",")
            self.eat(">>")
            return out
        if self.peek("{"):
            self.eat("{")
            out = []
            while not self.peek("}"):
                out.append(self.value())
                if self.peek(","):
                    self.eat(",")
            self.eat("}")
            return sorted(out, key=repr)
        if self.peek("["):
            self.eat("[")
            out = {}
            while not self.peek("]"):
                self.ws()
                m = re.match(r"[A-Za-z_][A-Za-z0-9_]*", s[self.i:])
                name = m.group(0)
                self.i += len(name)
                self.eat("|->")
                out[name] = self.value()
                if self.peek(","):
                    self.eat(",")
            self.eat("]")
            return out
        if self.peek("("):
            self.eat("(")
            out = {}
            while True:
                k = self.value()
                self.eat(":>")
                out[k if not isinstance(k, list) else tuple(k)] = self.value()
                if self.peek("@@"):
                    self.eat("@@")
                    continue
                break
            self.eat(")")
            return out
        if self.peek('"'):
            j = s.index('"', self.i + 1)
            v = s[self.i + 1:j]
            self.i = j + 1
            return v
        m = re.match(r"-?\d+", s[self.i:])
        if m:
            self.i += len(m.group(0))
            return int(m.group(0))
        m = re.match(r"[A-Za-z_][A-Za-z0-9_]*", s[self.i:])
        if m:
            self.i += len(m.group(0))
            w = m.group(0)
            return True if w == "TRUE" else False if w == "FALSE" else w
        raise ValueError("cannot parse at %r" % s[self.i:self.i + 40])


def parse_value(text):
    p = _P(text)
    v = p.value()
    p.ws()
    if p.i != len(p.s):
        raise ValueError("trailing text %r" % p.s[p.i:p.i + 40])
    return v


_HDR = re.compile(r"(?m)^(?:State \d+: .*|STATE_\d+ ==\s*)$")
_VAR = re.compile(r"(?m)^/\\ ([A-Za-z_][A-Za-z0-9_]*) = ")


def parse_states(text, only=None):
    """List of dict(var -> value) for every state block found in `text`.  `only`: set of variable names to parse."""
    states = []
    hdrs = list(_HDR.finditer(text))
    for n, h in enumerate(hdrs):
        end = hdrs[n + 1].start() if n + 1 < len(hdrs) else len(text)
        block = text[h.end():end]
        # cut trailing non-state text (statistics etc.): a state block ends at the first blank line after its variables
        vs = list(_VAR.finditer(block))
        st = {}
        for k, m in enumerate(vs):
            vend = vs[k + 1].start() if k + 1 < len(vs) else len(block)
            raw = block[m.end():vend]
            if k + 1 == len(vs):
                raw = raw.split("\n\n")[0]
                raw = re.split(r"(?m)^\\\*", raw)[0]
                raw = re.split(r"(?m)^=+$", raw)[0]
            if only is None or m.group(1) in only:
                st[m.group(1)] = parse_value(raw.strip())
        if st:
            states.append(st)
    return states
