SPECIFICATION Spec
CONSTANTS
  PATH = "narrow"
  R = 2
  NW = 2
  SELS = {1}
  HOLD = TRUE
  VALS = 2
  COVER = FALSE
  LMIN = 1
  LMAX = 2
  STALL = 0
  WMAX = 10
  BUG = "read_bypasses_pending_write"
INVARIANTS NoClauseBroken MemAllowed AckWithinBound OneOutstanding
CHECK_DEADLOCK TRUE
