SPECIFICATION Spec
CONSTANTS
  PATH = "narrow"
  R = 2
  NW = 2
  SELS = {1}
  HOLD = TRUE
  VALS = 2
  COVER = TRUE
  LMIN = 1
  LMAX = 2
  STALL = 1
  WMAX = 12
  BUG = "none"
INVARIANTS CoverAll
CHECK_DEADLOCK TRUE
