---- MODULE MC_Gates ----
EXTENDS D_Gates
MCTs == <<1, 2, 3, 5, 8>>
MCFs == <<4, 6>>
====
