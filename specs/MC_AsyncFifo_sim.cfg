SPECIFICATION Spec
CONSTANTS Depth = 4
 MaxPush = 1000
 Bug = "none"
INVARIANT ReqOK
