SPECIFICATION Spec
CONSTANTS Depth = 4
 MaxPush = 7
 Bug = "nofull"
INVARIANT ReqOK
