SPECIFICATION MSpec
CONSTANTS tREFI = 15
 N = 2
 tRP = 2
 tRFC = 3
 WithZq = TRUE
 tZQCS = 2
 ZqPeriod = 47
 DMax = 4
 ZqLatch = TRUE
 TimerCycles = 15
INVARIANT CoverLateGrant
VIEW View
CHECK_DEADLOCK FALSE
