---- MODULE T_Core ----
(* Trace validation of whole-core executions of the REAL crossbar + controller (binding B1, properties C01..C06).
   One merged, time-ordered NDJSON trace; line 1 = cfg.  Every line is consumed by every enabled monitor; each
   broken clause is recorded as <<line, property, clause, ...>>.  cfg.mon = sequence of enabled monitors. *)
EXTENDS TraceLib, R_DramDevice, R_BankLink, R_PortMem, R_Refresh, R_Response

Cfg == Trace[1]
Rq == Req(Cfg)
Geo == Cfg.geom
LRef == LService(Cfg, Rq)
BDat == Bdat(Cfg, Rq, LRef)
BAcc == Bacc(Cfg, Rq, LRef)
On(m) == \E i \in 1..Len(Cfg.mon) : Cfg.mon[i] = m
TimingClauses == {"tRCD", "tRP", "tRAS", "tRC", "tRRD", "tFAW", "tCCD", "tWR", "tWTR", "tRFC", "tZQCS"}
DfiCmds == {"ACT", "PRE", "PREA", "RD", "WR", "REF", "ZQCS", "MRS", "STROBE"}

VARIABLES l, dev, link, mem, ref, rsp, bad
vars == <<l, dev, link, mem, ref, rsp, bad>>

TInit == /\ l = 2 /\ bad = {}
         /\ dev = InitDev(Cfg) /\ link = InitLink(Cfg.nranks * Cfg.nbanks)
         /\ mem = InitMem(Cfg) /\ ref = InitRef /\ rsp = InitRsp(Cfg)

Tag(prop, set) == {<<l, prop>> \o x : x \in set}

TNext ==
  /\ l <= NLines
  /\ l' = l + 1
  /\ LET e == Trace[l]
         isDfi == e.c \in DfiCmds
         rs == IF isDfi THEN RankSet(e) ELSE {}
         rk == IF rs = {} THEN 0 ELSE CHOOSE r \in rs : TRUE
         x == IF isDfi THEN Idx(Cfg, rk, e.b) ELSE 0
         devBad == IF isDfi /\ On("dev") THEN Check(Cfg, Rq, dev, e) ELSE {}
         lk == IF ~On("link") THEN [s |-> link, bad |-> {}]
               ELSE IF e.c = "CMD" THEN [s |-> LinkAcc(Geo, Cfg.nbanks, link, e), bad |-> {}]
               ELSE IF e.c \in {"RD", "WR", "ACT"} THEN LinkCmd(Cfg.nbanks, link, e, x, dev.open[x])
               ELSE IF e.c = "END" THEN [s |-> link, bad |-> LinkEnd(link)]
               ELSE IF e.c = "GEOM" THEN [s |-> link, bad |-> IF e.aw # AddrBits(Geo)
                                                               THEN {<<"port address width differs from the device's address space", "GEOM", 0, e.aw, AddrBits(Geo)>>} ELSE {}]
               ELSE [s |-> link, bad |-> {}]
         mm == IF On("mem") THEN MemStep(Cfg, mem, e) ELSE [s |-> mem, bad |-> {}]
         rf == IF On("ref") THEN RefStep(Cfg, Rq, ref, e) ELSE [s |-> ref, bad |-> {}]
         rp == IF On("rsp") THEN RspStep(Cfg, BAcc, BDat, rsp, e) ELSE [s |-> rsp, bad |-> {}]
     IN /\ dev' = IF isDfi THEN Apply(Cfg, Rq, dev, e) ELSE dev
        /\ link' = lk.s /\ mem' = mm.s /\ ref' = rf.s /\ rsp' = rp.s
        /\ bad' = bad \cup Tag("C03", {b \in devBad : b[1] \in TimingClauses})
                      \cup Tag("C02", {b \in devBad : b[1] \notin TimingClauses})
                      \cup Tag("C02", lk.bad) \cup Tag("C01", mm.bad) \cup Tag("C04", rf.bad) \cup Tag("C05", rp.bad)

TSpec == TInit /\ [][TNext]_vars
AtEnd == (l = NLines + 1) =>
            WriteVerdict(l - 1, bad, [req |-> Rq, lref |-> LRef, bdat |-> BDat, bacc |-> BAcc,
                                      nref |-> ref.nref, nzq |-> ref.nzq, worstAcc |-> rsp.worstAcc, worstDat |-> rsp.worstDat])
====
