---- MODULE T_ModeRegs ----
(* Trace validation for C17: one NDJSON line per real call of litedram.init (get_sdram_phy_init_sequence,
   get_sdram_phy_c_header, get_sdram_phy_py_header) for one configuration; line 1 = header.  Every record is judged by
   R_ModeRegs!InitBad.  Broken clauses are aggregated per (memory type, clause, subject): first line, count, have/need. *)
EXTENDS TraceLib, R_ModeRegs

VARIABLES l, agg, acc
vars == <<l, agg, acc>>
TInit == l = 2 /\ agg = <<>> /\ acc = [n |-> 0, nwr |-> 0, tightwr |-> 0, cfgs |-> {}, env |-> {}]

Merge(a, nb, line, mt) ==
    LET nk == {<<mt, b[1], b[2]>> : b \in nb}
    IN [k \in (DOMAIN a) \cup nk |->
          IF k \in nk
          THEN IF k \in DOMAIN a THEN [a[k] EXCEPT !.n = @ + 1]
               ELSE LET b == CHOOSE x \in nb : <<mt, x[1], x[2]>> = k
                    IN [first |-> line, n |-> 1, have |-> b[3], need |-> b[4]]
          ELSE a[k]]

Fields == {"mt", "n", "f", "cl", "cwl", "cwlx", "bl", "twr", "trp", "trpc", "wait", "tccd", "frm", "rdimm", "clam", "ratio", "opt", "raised",
           "seq", "cseq", "pseq", "wrlvl", "pymr1", "abits"}
Well(e) == Fields \subseteq DOMAIN e /\ Known(e.mt) /\ e.n \in {1, 2, 4, 8} /\ e.f > 0

TNext ==
  /\ l <= NLines
  /\ l' = l + 1
  /\ LET e == Trace[l] IN
     IF ~Well(e) THEN /\ agg' = agg /\ acc' = [acc EXCEPT !.env = @ \cup {<<l, "malformed record">>}]
     ELSE LET d == IF e.raised = "" THEN Decode(e) ELSE None
              nb == InitBadD(e, d)
              haswr == d.wr >= 0 /\ e.twr[2] > 0
              tight == haswr /\ d.wr = NeedTck(e.twr[2], e.f, e.n)       \* one clock less would break clause (a)
          IN /\ agg' = IF nb = {} THEN agg ELSE Merge(agg, nb, l, e.mt)
             /\ acc' = [acc EXCEPT !.n = @ + 1, !.nwr = @ + (IF haswr THEN 1 ELSE 0), !.tightwr = @ + (IF tight THEN 1 ELSE 0),
                                   !.cfgs = @ \cup {<<e.mt, e.n, e.cl, e.cwl>>}]

TSpec == TInit /\ [][TNext]_vars
Bad == {<<k[2], k[3], k[1], agg[k].first, agg[k].n, agg[k].have, agg[k].need>> : k \in DOMAIN agg}
AtEnd == (l = NLines + 1) => WriteVerdict(l - 1, Bad, acc)
====
