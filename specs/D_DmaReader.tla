---- MODULE D_DmaReader ----
(* Design model of litedram/frontend/dma.py: LiteDRAMDMAReader on a native port with pulse semantics, one action per
   clock edge.  Registers: reservation FIFO `res` (one entry per read in flight or buffered, carrying `last`), data
   FIFO `dat`, the memory's queue of accepted reads `infl` (with their age), the producer's pending offer `off`.
   Environment (nondeterministic, constrained only by what C12 grants): producer offers any address / last and holds
   the offer until accepted; cmd.ready arbitrary; consumer ready arbitrary (stalls of unbounded length); the memory
   returns the oldest read as a one-cycle pulse at any time >= Lmin cycles after its command, whether or not
   rdata.ready is high (a word not taken is LOST -> event RDROP).
   The requirement is the R_Stream monitor, fed with the events of every cycle in its prescribed order. *)
EXTENDS Integers, Sequences, FiniteSets, TLC, D_Fifo, R_Stream
CONSTANTS Depths,       \* set of fifo_depth values   } the configuration cf = [depth, buffered, lmin] is chosen in Init
          Buffereds,    \* set of fifo_buffered values } and never changes: one TLC run covers the whole set
          Lmins,        \* set of minimum command -> data latencies of the memory (cycles)
          Addrs,        \* addresses the producer may use
          Bug           \* "none" | "res_released_on_fill" | "no_reservation" | "last_from_offer"
VARIABLES cf, res, dat, infl, off, obs, bad, inp, ev
vars == <<cf, res, dat, infl, off, obs, bad, inp, ev>>
Depth == cf.depth
Buffered == cf.buffered
Lmin == cf.lmin

ResKind == IF Depth = 1 THEN "pipe" ELSE "sync"
DatKind == IF Depth = 1 THEN "pipe" ELSE IF Buffered THEN "buffered" ELSE "sync"
OCfg == [kind |-> "reader", nb |-> 1, depth |-> Depth, k |-> 0, base |-> 0, cap |-> 0]
None == [v |-> FALSE, a |-> 0, last |-> 0]
Offers == {None} \cup {[v |-> TRUE, a |-> a, last |-> l] : a \in Addrs, l \in {0, 1}}

Init == /\ cf \in [depth : Depths, buffered : Buffereds, lmin : Lmins] /\ (cf.depth = 1 => ~cf.buffered)
        /\ res = FifoInit /\ dat = FifoInit /\ infl = <<>> /\ off \in Offers
        /\ obs = InitStream([kind |-> "reader"]) /\ bad = {} /\ inp = [cmdReady |-> FALSE, srcReady |-> FALSE, ret |-> FALSE] /\ ev = <<>>

Tick(cmdReady, srcReady, ret, nextOff) ==
  LET datValid == SrcValid(DatKind, dat)
      resValid == SrcValid(ResKind, res)
      datPop   == srcReady                                     \* fifo.source.ready = source.ready (enable = 1)
      resPop   == IF Bug = "res_released_on_fill" THEN ret ELSE datValid /\ datPop
      resReady == IF Bug = "no_reservation" THEN TRUE ELSE SinkReady(ResKind, Depth, res, resPop)
      srcValid == resValid /\ datValid
      srcLast  == IF Bug = "last_from_offer" THEN off.last ELSE IF resValid THEN SrcData(ResKind, res) ELSE 0
      cmdValid == off.v /\ resReady
      accept   == cmdValid /\ cmdReady
      datReady == SinkReady(DatKind, Depth, dat, datPop)
      retData  == IF infl # <<>> THEN MemWord(OCfg, Head(infl).a) ELSE <<0>>
      evs == (IF srcValid /\ srcReady THEN <<[c |-> "OUT", d |-> SrcData(DatKind, dat), last |-> srcLast]>> ELSE <<>>)
             \o (IF accept THEN <<[c |-> "IN", a |-> off.a, last |-> off.last], [c |-> "CMD", p |-> 0, we |-> FALSE, a |-> off.a]>> ELSE <<>>)
             \o (IF ret THEN (IF datReady THEN <<[c |-> "RDATA", p |-> 0, d |-> retData]>> ELSE <<[c |-> "RDROP", p |-> 0]>>) ELSE <<>>)
      r == StreamSteps(OCfg, [s |-> obs, bad |-> {}], evs)
      aged == [i \in 1..Len(infl) |-> [infl[i] EXCEPT !.age = IF @ < Lmin THEN @ + 1 ELSE @]]
      infl1 == IF ret THEN Tail(aged) ELSE aged
  IN /\ cf' = cf
     /\ res' = FifoNext(ResKind, Depth, res, accept, off.last, resPop)
     /\ dat' = FifoNext(DatKind, Depth, dat, ret, retData, datPop)
     /\ infl' = IF accept THEN Append(infl1, [a |-> off.a, age |-> 1]) ELSE infl1
     /\ off' = IF off.v /\ ~accept THEN off ELSE nextOff
     /\ obs' = r.s /\ bad' = bad \cup r.bad
     /\ inp' = [cmdReady |-> cmdReady, srcReady |-> srcReady, ret |-> ret] /\ ev' = evs

Next == \E cmdReady, srcReady, ret \in BOOLEAN, nextOff \in Offers :
          /\ ret => (infl # <<>> /\ Head(infl).age >= Lmin)
          /\ Tick(cmdReady, srcReady, ret, nextOff)
Spec == Init /\ [][Next]_vars

Holds == bad = {}                         \* the C12 reader requirement, judged by R_Stream
TypeOK == /\ Len(res.q) <= Depth /\ Len(dat.q) <= Depth /\ Len(infl) <= Depth + 1
\* vacuity guards: situations that must be reachable (checked as violated "invariants" by separate cfgs)
NeverFullStall == ~(Len(infl) + FifoLevel(DatKind, dat) >= Depth /\ FifoLevel(DatKind, dat) >= 1 /\ infl # <<>>)
View == <<cf, res, dat, infl, off, obs, bad>>
====
