---- MODULE T_Conv ----
(* Trace validation of executions of the REAL LiteDRAMNativePortConverter (user side + byte view of the ideal memory
   behind it) against R_Conv / R_PortMem.  Line 1 = cfg [nports, uniq, ...]; a "NEW" event [c |-> "NEW", nports, uniq]
   resets the monitor so that many short executions (e.g. replays of TLC behaviours) share one file; bad entries carry
   the line number, so the harness can attribute them to the execution they belong to. *)
EXTENDS TraceLib, R_Conv
Cfg0 == Trace[1]
VARIABLES l, cfg, st, bad
vars == <<l, cfg, st, bad>>
TInit == l = 2 /\ cfg = Cfg0 /\ st = InitConv(Cfg0) /\ bad = {}
TNext == /\ l <= NLines
         /\ l' = l + 1
         /\ LET e == Trace[l] IN
            IF e.c = "NEW" THEN cfg' = e /\ st' = InitConv(e) /\ bad' = bad
            ELSE LET r == ConvStep(cfg, st, e) IN
                 /\ cfg' = cfg /\ st' = r.s
                 /\ bad' = bad \cup {<<l>> \o x : x \in r.bad}
TSpec == TInit /\ [][TNext]_vars
AtEnd == (l = NLines + 1) => WriteVerdict(l - 1, bad, [lines |-> NLines])
====
