---- MODULE T_BankMachine ----
(* Binding B2 (lock-step conformance): a per-cycle log of the REAL BankMachine's inputs and outputs is replayed through
   D_BankMachine!Tick; every output of the model must equal the logged output in every cycle.  A mismatch is MODEL DRIFT
   (the design model no longer is the code), never by itself a property violation. *)
EXTENDS D_BankMachine, TraceLib
VARIABLES l, bad
InOf(i) == [valid |-> Trace[i].i_valid, we |-> Trace[i].i_we, addr |-> Trace[i].i_addr, cmdready |-> Trace[i].i_cmdready, refreq |-> Trace[i].i_refreq]
Fields == {"cmdvalid", "cas", "ras", "we", "iscmd", "isread", "iswrite", "reqready", "wready", "rvalid", "lock", "gnt"}
Mismatch(i) == {f \in Fields : Out[f] # Trace[i][f]} \cup (IF Out.cmdvalid /\ Out.a # Trace[i].a THEN {"a"} ELSE {})
TInit == Init /\ in = InOf(2) /\ l = 2 /\ bad = {}
TNext == /\ l <= NLines
         /\ bad' = bad \cup {<<l, f>> : f \in Mismatch(l)}
         /\ Tick
         /\ in' = IF l < NLines THEN InOf(l + 1) ELSE in
         /\ l' = l + 1
TSpec == TInit /\ [][TNext]_<<vars, l, bad>>
AtEnd == (l = NLines + 1) => WriteVerdict(l - 1, bad, [fsm |-> fsm])
====
