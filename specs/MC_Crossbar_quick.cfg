SPECIFICATION Spec
CONSTANTS M = 3
 B = 2
 Depth = 2
 Hidden = 0
 MaxCmd = 3
 Unbounded = FALSE
INVARIANT Legal
CHECK_DEADLOCK FALSE
