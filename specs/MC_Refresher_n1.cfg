SPECIFICATION MSpec
CONSTANTS tREFI = 13
 N = 1
 tRP = 2
 tRFC = 3
 WithZq = FALSE
 tZQCS = 2
 ZqPeriod = 31
 DMax = 4
 ZqLatch = TRUE
 TimerCycles = 13
INVARIANT Legal
VIEW View
CHECK_DEADLOCK FALSE
