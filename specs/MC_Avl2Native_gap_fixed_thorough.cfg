SPECIFICATION Spec
CONSTANTS
  NA = 4
  MAXB = 4
  MB = 3
  BES = {0, 1}
  GAPS = TRUE
  COVER = FALSE
  LMIN = 1
  LMAX = 2
  STALL = 1
  WMAX = 24
  VAR = "gapfix"
INVARIANTS NoClauseBroken MemAllowed DoneWithinBound QueueBounded
CHECK_DEADLOCK TRUE
