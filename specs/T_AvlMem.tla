---- MODULE T_AvlMem ----
(* Trace validation (binding B1) of REAL LiteDRAMAvalonMM2Native executions against R_AvlMem.  Line 1 = cfg record
   [ab, pb, base, bound, maxburst]; "NEW" resets the monitor with a fresh cfg.  Identical consecutive samples without
   readdatavalid are run-length encoded by the recorder (field n); the monitor is idempotent on them. *)
EXTENDS TraceLib, R_AvlMem
VARIABLES l, cfg, st, lastT, bad, cnt
vars == <<l, cfg, st, lastT, bad, cnt>>
Tags == {"rdv", "write-burst", "write-single", "write-beat", "read-burst", "read-single", "wait", "gap-in-write-burst",
         "write-while-read-outstanding", "timeout", "mem", "end", "new"}
TInit == l = 2 /\ cfg = Trace[1] /\ st = AvInit /\ lastT = 0 - 2 /\ bad = {} /\ cnt = [x \in Tags |-> 0]
TNext == /\ l <= NLines
         /\ l' = l + 1
         /\ LET e == Trace[l] IN
            IF e.c = "NEW" THEN /\ cfg' = e /\ st' = AvInit /\ lastT' = 0 - 2 /\ bad' = bad
                                /\ cnt' = [cnt EXCEPT !["new"] = @ + 1]
            ELSE LET isS == e.c = "AVL"
                     r == AvStep(cfg, st, e, isS /\ e.t # lastT + 1) IN
                 /\ cfg' = cfg /\ st' = r.s
                 /\ lastT' = IF isS THEN e.t + e.n - 1 ELSE lastT
                 /\ bad' = bad \cup {<<l>> \o x : x \in r.bad}
                 /\ cnt' = [x \in Tags |-> cnt[x] + IF x \in r.tags THEN 1 ELSE 0]
TSpec == TInit /\ [][TNext]_vars
AtEnd == (l = NLines + 1) => WriteVerdict(l - 1, bad, cnt)
====
