---- MODULE R_Lpddr4Ca ----
(* Requirement C20, LPDDR4 part: the JEDEC (JESD209-4) command truth table written as a DECODER.
   A "small command" is two CK cycles: CS high with CA[5:0] = first word, then CS low with CA[5:0] = second word.
   A word is an integer 0..63 with CA0 = bit 0.  A pad slot is a record [cs, a] (a = CA word; b unused for LPDDR4).
   L4Decode(w) maps a window of 4 consecutive slots to the operation it carries (or BAD/IDLE);
   L4Want(m, d) is the operation a DFI phase command d = [k, b, a] asks for under the PHY's documented DFI convention:
     k = 4*cas + 2*ras + we (active-high);  ACT=2 RD=4 WR=5 PRE=3 REF=6 ZQC=1 MRS=7
     row = address[16:0]; column bits C9..C2 = address[9:2]; AP / AB = address[10]; bank = bank[2:0];
     MRS: mode register = bank[5:0], operand = address[7:0];   ZQC with bank 0: MPC, operand address[6:0];
     ZQC with bank 1: MRR of register address[5:0]; any other ZQC bank code is not a command.
   The on-the-fly burst-length bit BL is not compared (the PHY uses fixed BL16; MR1 decides whether BL is looked at).
   Command placement (PhySettings.cmd_latency = 4): a command presented on phase p occupies CK slots p..p+3;
   two-part commands start at p, single small commands (PRE, REF, MPC) are sent in the second half (p+2, p+3). *)
EXTENDS Integers, Sequences

L4Bit(x, i) == (x \div (2^i)) % 2
L4Field(x, lo, n) == (x \div (2^lo)) % (2^n)
\* pattern of CA0..CA4 given as a 5-tuple of 0/1
L4Pat(p) == p[1] + 2*p[2] + 4*p[3] + 8*p[4] + 16*p[5]

\* one small command: h = word while CS high, l = word while CS low
L4Small(h, l) ==
  LET c == h % 32  x == L4Bit(h, 5) IN
  IF L4Bit(h, 0) = 1
  THEN IF L4Bit(h, 1) = 0
       THEN [k |-> "ACT1", bank |-> L4Field(l, 0, 3),
             rhi |-> L4Field(h, 2, 4) * 4096 + L4Bit(l, 3) * 65536 + L4Bit(l, 4) * 1024 + L4Bit(l, 5) * 2048]
       ELSE [k |-> "ACT2", rlo |-> L4Field(h, 2, 4) * 64 + l]
  ELSE CASE c = L4Pat(<<0,1,1,0,0>>) -> [k |-> "MRW1", ma |-> l, op7 |-> x]
         [] c = L4Pat(<<0,1,1,0,1>>) -> [k |-> "MRW2", oplo |-> l + 64 * x]
         [] c = L4Pat(<<0,1,1,1,0>>) -> [k |-> "MRR1", ma |-> l]
         [] c = L4Pat(<<0,0,0,1,0>>) -> [k |-> "REF", ab |-> x, bank |-> L4Field(l, 0, 3)]
         [] c = L4Pat(<<0,0,0,1,1>>) -> [k |-> "SRE"]
         [] c = L4Pat(<<0,0,1,0,0>>) -> [k |-> "WR1", bl |-> x, bank |-> L4Field(l, 0, 3), c9 |-> L4Bit(l, 4), ap |-> L4Bit(l, 5)]
         [] c = L4Pat(<<0,0,1,0,1>>) -> [k |-> "SRX"]
         [] c = L4Pat(<<0,0,1,1,0>>) -> [k |-> "MWR1", bl |-> x, bank |-> L4Field(l, 0, 3), c9 |-> L4Bit(l, 4), ap |-> L4Bit(l, 5)]
         [] c = L4Pat(<<0,1,0,0,0>>) -> [k |-> "RD1", bl |-> x, bank |-> L4Field(l, 0, 3), c9 |-> L4Bit(l, 4), ap |-> L4Bit(l, 5)]
         [] c = L4Pat(<<0,1,0,0,1>>) -> [k |-> "CAS2", clo |-> 4 * l + 256 * x]         \* C2..C7, C8
         [] c = L4Pat(<<0,0,0,0,1>>) -> [k |-> "PRE", ab |-> x, bank |-> L4Field(l, 0, 3)]
         [] c = L4Pat(<<0,0,0,0,0>>) -> [k |-> "MPC", op |-> l + 64 * x]
         [] OTHER -> [k |-> "RFU"]

L4Bad(why) == [op |-> "BAD", why |-> why]
\* w = sequence of 4 slots [cs, a, b]
L4Decode(w) ==
  IF w[1].cs = 0 /\ w[2].cs = 0 /\ w[3].cs = 0 /\ w[4].cs = 0 THEN [op |-> "IDLE"]
  ELSE IF w[2].cs = 1 \/ w[4].cs = 1 \/ w[3].cs = 0 THEN L4Bad("CS pattern")
  ELSE LET s2 == L4Small(w[3].a, w[4].a) IN
       IF w[1].cs = 0
       THEN CASE s2.k = "PRE" -> [op |-> "PRE", ab |-> s2.ab, bank |-> IF s2.ab = 1 THEN 0 ELSE s2.bank]
              [] s2.k = "REF" -> [op |-> "REF", ab |-> s2.ab, bank |-> IF s2.ab = 1 THEN 0 ELSE s2.bank]
              [] s2.k = "MPC" -> [op |-> "MPC", opnd |-> s2.op]
              [] OTHER -> L4Bad(s2.k)
       ELSE LET s1 == L4Small(w[1].a, w[2].a) IN
            CASE s1.k = "ACT1" /\ s2.k = "ACT2" -> [op |-> "ACT", bank |-> s1.bank, row |-> s1.rhi + s2.rlo]
              [] s1.k = "RD1" /\ s2.k = "CAS2" -> [op |-> "RD", bank |-> s1.bank, col |-> s1.c9 * 512 + s2.clo, ap |-> s1.ap]
              [] s1.k = "WR1" /\ s2.k = "CAS2" -> [op |-> "WR", bank |-> s1.bank, col |-> s1.c9 * 512 + s2.clo, ap |-> s1.ap]
              [] s1.k = "MWR1" /\ s2.k = "CAS2" -> [op |-> "MWR", bank |-> s1.bank, col |-> s1.c9 * 512 + s2.clo, ap |-> s1.ap]
              [] s1.k = "MRR1" /\ s2.k = "CAS2" -> [op |-> "MRR", ma |-> s1.ma]
              [] s1.k = "MRW1" /\ s2.k = "MRW2" -> [op |-> "MRW", ma |-> s1.ma, opnd |-> s1.op7 * 128 + s2.oplo]
              [] OTHER -> L4Bad(<<s1.k, s2.k>>)

\* is the DFI phase record a command for the LPDDR4 PHY?
L4Presented(d) == d.k \in {2, 3, 4, 5, 6, 7} \/ (d.k = 1 /\ d.b \in {0, 1})

\* m = masked_write (TRUE: DFI WR is sent as MASK WRITE)
L4Want(m, d) ==
  LET a10 == L4Bit(d.a, 10) bank == d.b % 8 col == L4Field(d.a, 2, 8) * 4 IN
  CASE d.k = 2 -> [op |-> "ACT", bank |-> bank, row |-> d.a % 131072]
    [] d.k = 4 -> [op |-> "RD", bank |-> bank, col |-> col, ap |-> a10]
    [] d.k = 5 -> [op |-> IF m THEN "MWR" ELSE "WR", bank |-> bank, col |-> col, ap |-> a10]
    [] d.k = 3 -> [op |-> "PRE", ab |-> a10, bank |-> IF a10 = 1 THEN 0 ELSE bank]
    [] d.k = 6 -> [op |-> "REF", ab |-> a10, bank |-> IF a10 = 1 THEN 0 ELSE bank]
    [] d.k = 1 /\ d.b = 0 -> [op |-> "MPC", opnd |-> d.a % 128]
    [] d.k = 1 /\ d.b = 1 -> [op |-> "MRR", ma |-> d.a % 64]
    [] d.k = 7 -> [op |-> "MRW", ma |-> d.b % 64, opnd |-> d.a % 256]
    [] OTHER -> [op |-> "NONE"]
====
