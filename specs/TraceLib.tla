---- MODULE TraceLib ----
(* Shared by every T_* trace-validation spec.
   Protocol: IOEnv.TRACE_FILE is NDJSON; line 1 is the configuration record, the other lines are events.
   A T_* spec consumes exactly one line per step with a total monitor (never blocks) and, in the state where
   every line has been consumed, writes the verdict with WriteVerdict.  The Python side (harness/tlc.py)
   accepts iff consumed = number of lines and bad = {}.  *)
EXTENDS Integers, Sequences, FiniteSets, TLC, Json, IOUtils

Trace == ndJsonDeserialize(IOEnv.TRACE_FILE)
NLines == Len(Trace)

WriteVerdict(consumed, bad, info) ==
    JsonSerialize(IOEnv.OUT_FILE, [consumed |-> consumed, bad |-> bad, info |-> info])

Get(f, k, dflt) == IF k \in DOMAIN f THEN f[k] ELSE dflt
Put(f, k, v) == [x \in (DOMAIN f) \cup {k} |-> IF x = k THEN v ELSE f[x]]
Has(r, k) == k \in DOMAIN r
Max(a, b) == IF a > b THEN a ELSE b
Min(a, b) == IF a < b THEN a ELSE b
====
