---- MODULE D_PhyModel ----
(* Design model (layer D) of litedram/phy/model.py: SDRAMPHYModel = DFIPhaseModel decode, per-bank BankModel
   (active / row registers, write port with byte enables, asynchronous read port), the write-latency and read-latency pipelines.
   One PTick per controller clock edge.  cfg as in R_DramData plus cfg.bug \in {"none", "nomask", "rl+1"} (seeded bugs for
   negative controls).  Input of one cycle: in = [acts, pres, wrs, rds : sequences of [b, a] (one entry per DFI phase that carries
   that command), wd : write data bytes on the bus this cycle, wm : mask bits].
   State: active[b], row[b], mem (sparse <<b, i>> -> bytes over the init image), wp (write pipeline, wl stages of [b, col], b = -1: none),
          rp (read pipeline, rl stages of [v, d]). *)
EXTENDS Integers, Sequences, FiniteSets, TLC, R_DramData

PNoData(cfg) == [j \in 1..cfg.nbytes |-> 0]
PRl(cfg) == IF cfg.bug = "rl+1" THEN cfg.rl + 1 ELSE cfg.rl
PInit(cfg) == [active |-> [b \in 0..cfg.nbanks - 1 |-> FALSE], row |-> [b \in 0..cfg.nbanks - 1 |-> 0], mem |-> <<>>,
               wp |-> [i \in 1..cfg.wl |-> [b |-> 0 - 1, col |-> 0]],
               rp |-> [i \in 1..PRl(cfg) |-> [v |-> 0, d |-> PNoData(cfg)]]]
\* word i of bank b as the model stores it; the init image is distributed over the banks per address mapping
PMemGet(cfg, dm, b, i) == IF <<b, i>> \in DOMAIN dm.mem THEN dm.mem[<<b, i>>] ELSE InitWord(cfg, b, i \div Wpr(cfg), i % Wpr(cfg))
\* BankModel address: (row * ncols | col)[log2(burst_length * nphases):]
PIdx(cfg, row, col) == (row * cfg.ncols + col) \div cfg.wordcols
\* "Case(onehot)": a command kind takes effect only if exactly one phase carries it
POne(seq) == Len(seq) = 1

\* outputs of the current cycle (before the clock edge): [v, d]
POut(cfg, dm) == IF PRl(cfg) = 0 THEN [v |-> 0, d |-> PNoData(cfg)] ELSE dm.rp[PRl(cfg)]

PTick(cfg, dm, in) ==
  LET \* write reaching the bank this cycle (after wl register stages)
      wnow == IF cfg.wl = 0 THEN (IF POne(in.wrs) THEN [b |-> in.wrs[1].b, col |-> in.wrs[1].a % cfg.ncols] ELSE [b |-> 0 - 1, col |-> 0])
              ELSE dm.wp[cfg.wl]
      wnew == IF POne(in.wrs) THEN [b |-> in.wrs[1].b, col |-> in.wrs[1].a % cfg.ncols] ELSE [b |-> 0 - 1, col |-> 0]
      \* asynchronous read in the command cycle
      rd == IF POne(in.rds)
            THEN LET b == in.rds[1].b  col == in.rds[1].a % cfg.ncols IN
                 [v |-> 1, d |-> IF dm.active[b] THEN PMemGet(cfg, dm, b, PIdx(cfg, dm.row[b], col)) ELSE PNoData(cfg)]
            ELSE [v |-> IF Len(in.rds) > 1 THEN 1 ELSE 0, d |-> PNoData(cfg)]
      \* synchronous write port
      mem2 == IF wnow.b >= 0 /\ dm.active[wnow.b]
              THEN LET i == PIdx(cfg, dm.row[wnow.b], wnow.col)
                       old == PMemGet(cfg, dm, wnow.b, i)
                       new == [j \in 1..cfg.nbytes |-> IF in.wm[j] = 1 /\ cfg.bug # "nomask" THEN old[j] ELSE in.wd[j]]
                       key == <<wnow.b, i>>
                   IN [x \in (DOMAIN dm.mem) \cup {key} |-> IF x = key THEN new ELSE dm.mem[x]]
              ELSE dm.mem
      pre(b) == POne(in.pres) /\ (in.pres[1].b = b \/ ApFlag(cfg, in.pres[1].a) = 1)
      act(b) == POne(in.acts) /\ in.acts[1].b = b
  IN [active |-> [b \in DOMAIN dm.active |-> IF pre(b) THEN FALSE ELSE IF act(b) THEN TRUE ELSE dm.active[b]],
      row |-> [b \in DOMAIN dm.row |-> IF ~pre(b) /\ act(b) THEN in.acts[1].a % cfg.nrows ELSE dm.row[b]],
      mem |-> mem2,
      wp |-> IF cfg.wl = 0 THEN dm.wp ELSE <<wnew>> \o SubSeq(dm.wp, 1, cfg.wl - 1),
      rp |-> IF PRl(cfg) = 0 THEN dm.rp ELSE <<rd>> \o SubSeq(dm.rp, 1, PRl(cfg) - 1)]
====
