---- MODULE MC_BistGen ----
(* Spec -> code direction for C14: TLC enumerates the grid of settings the property quantifies over -- restricted by
   LegalSetting of R_Bist, i.e. by the assumptions the property grants -- and writes it out; the harness replays
   (a seeded sample of) it into the real generator / checker.  IOEnv: BPW (bytes per port word), OUT_FILE. *)
EXTENDS Integers, Sequences, FiniteSets, TLC, Json, IOUtils, R_Bist
BPW == atoi(IOEnv.BPW)
Bases == {0, BPW, 3 * BPW, 16 * BPW, 64 * BPW + 5 * BPW, 1024 * BPW, 4093 * BPW}
Ranges == {BPW * 2^r : r \in 0..8}
Lens == {BPW * n : n \in {1, 2, 3, 4, 5, 7, 8, 9, 15, 16, 17, 24, 31, 32, 33, 48, 64, 65, 100, 128}}
Grid == {s \in [bpw : {BPW}, base : Bases, rng : Ranges, length : Lens, rd : {0, 1}, ra : {0, 1}] :
            LegalSetting([bpw |-> s.bpw, base |-> s.base, end |-> s.base + s.rng, length |-> s.length, rd |-> s.rd, ra |-> s.ra])}
ASSUME JsonSerialize(IOEnv.OUT_FILE, [grid |-> Grid])
VARIABLE x
Init == x = 0
Next == UNCHANGED x
====
