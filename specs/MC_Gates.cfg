SPECIFICATION SpecOne
CONSTANTS Ts <- MCTs
 Fs <- MCFs
INVARIANT GateContract
INVARIANT GateTight
INVARIANT FawContract
CHECK_DEADLOCK FALSE
