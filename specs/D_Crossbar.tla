---- MODULE D_Crossbar ----
(* Design model of litedram.core.crossbar.LiteDRAMCrossbar.do_finalize: per-bank round-robin arbiters (Migen RoundRobin,
   SP_CE), the "master locked by another bank" rule, request routing and the routing of the bank machines' wdata_ready /
   rdata_valid strobes by the CURRENT grant.  Bank machines are abstract: a queue of accepted commands (depth Depth), lock
   while it holds anything the bank machine shows as valid, completion of the head at the environment's choice (at most one
   bank completes per cycle: one CAS per cycle on the command bus).  One action per clock edge.
   Hidden = 1 models a buffered look-ahead FIFO WITHOUT the lock fix 1c2d839 (an accepted command is invisible to `lock`
   for one cycle): the negative control that reproduces defect D12. *)
EXTENDS Naturals, Sequences, FiniteSets, TLC
CONSTANTS M, B, Depth, Hidden, MaxCmd,      \* masters, banks, bank queue depth, 0/1, commands per master (bounds the run)
          Unbounded                        \* TRUE: masters never stop (counters saturate) -- for the liveness configurations
Masters == 0..M-1
Banks == 0..B-1
VARIABLES grant,      \* [Banks -> Masters]   arbiter.grant
          q,          \* [Banks -> Seq([m, id])] commands visible to the bank machine (lock = nonempty)
          hid,        \* [Banks -> Seq([m, id])] accepted but not yet visible (only with Hidden = 1)
          want,       \* [Masters -> [valid, bank]]  command currently offered by each master (held until accepted)
          issued,     \* [Masters -> Nat] commands accepted so far
          done,       \* [Masters -> Nat] strobes received so far
          bad
vars == <<grant, q, hid, want, issued, done, bad>>

lock(b) == q[b] # <<>>
bankReady(b) == Len(q[b]) + Len(hid[b]) < Depth
lockedFor(m, b) == \E ob \in Banks : ob # b /\ lock(ob) /\ grant[ob] = m
selected(m, b) == want[m].bank = b /\ ~lockedFor(m, b)
requested(m, b) == selected(m, b) /\ want[m].valid
bankValid(b) == requested(grant[b], b)
ce(b) == ~bankValid(b) /\ ~lock(b)
\* Migen RoundRobin: next requester strictly after the current grant, wrapping; stays when nobody else requests
RECURSIVE NextFrom(_, _, _)
NextFrom(b, g, k) == IF k = M THEN g
                     ELSE LET t == (g + k) % M IN IF requested(t, b) THEN t ELSE NextFrom(b, g, k + 1)
accepted(m) == \E b \in Banks : grant[b] = m /\ selected(m, b) /\ want[m].valid /\ bankReady(b)
acceptBank(m) == CHOOSE b \in Banks : grant[b] = m /\ selected(m, b) /\ want[m].valid /\ bankReady(b)

Tick(serve, nxt) ==       \* serve \in Banks \cup {B} (B = nobody completes); nxt = new offers of masters that are idle
  LET comp(b) == b = serve /\ q[b] # <<>>
      \* strobe of the completing command goes to the master that holds the grant NOW
      strobeTo(b) == grant[b]
      owner(b) == Head(q[b]).m
  IN
  /\ bad' = bad \cup {<<"strobe routed to the wrong master", b>> : b \in {x \in Banks : comp(x) /\ strobeTo(x) # owner(x)}}
                \cup {<<"master has commands outstanding in two banks", m>> : m \in {x \in Masters :
                        Cardinality({b \in Banks : \E i \in 1..Len(q[b]) : q[b][i].m = x} \cup {b \in Banks : \E i \in 1..Len(hid[b]) : hid[b][i].m = x}) > 1}}
  /\ done' = [m \in Masters |-> IF done[m] < MaxCmd THEN done[m] + Cardinality({b \in Banks : comp(b) /\ strobeTo(b) = m}) ELSE done[m]]
  /\ grant' = [b \in Banks |-> IF ce(b) THEN NextFrom(b, grant[b], 1) ELSE grant[b]]
  /\ LET acc(b) == {m \in Masters : accepted(m) /\ acceptBank(m) = b}      \* at most one (the granted master)
         newE(b) == IF acc(b) = {} THEN <<>> ELSE LET m == CHOOSE x \in acc(b) : TRUE IN <<[m |-> m, id |-> issued[m]]>>
         q1(b) == IF comp(b) THEN Tail(q[b]) ELSE q[b]
     IN IF Hidden = 1
        THEN /\ q' = [b \in Banks |-> q1(b) \o hid[b]]
             /\ hid' = [b \in Banks |-> newE(b)]
        ELSE /\ q' = [b \in Banks |-> q1(b) \o newE(b)]
             /\ hid' = hid
  /\ issued' = [m \in Masters |-> IF accepted(m) /\ issued[m] < MaxCmd THEN issued[m] + 1 ELSE issued[m]]
  /\ want' = [m \in Masters |-> IF want[m].valid /\ ~accepted(m) THEN want[m]         \* held until accepted
                                 ELSE IF ~Unbounded /\ issued'[m] >= MaxCmd THEN [valid |-> FALSE, bank |-> 0] ELSE nxt[m]]

Init == /\ grant = [b \in Banks |-> 0] /\ q = [b \in Banks |-> <<>>] /\ hid = [b \in Banks |-> <<>>]
        /\ want \in [Masters -> [valid : BOOLEAN, bank : Banks]]
        /\ issued = [m \in Masters |-> 0] /\ done = [m \in Masters |-> 0] /\ bad = {}
Next == \E serve \in Banks \cup {B}, nxt \in [Masters -> [valid : BOOLEAN, bank : Banks]] : Tick(serve, nxt)
Spec == Init /\ [][Next]_vars
\* liveness needs fairness of the banks' service: some non-empty bank completes
FairSpec == Spec /\ WF_vars(Next) /\ \A bb \in Banks : WF_vars(\E nxt \in [Masters -> [valid : BOOLEAN, bank : Banks]], b \in {bb} : q[b] # <<>> /\ Tick(b, nxt))

Legal == bad = {}
NoDeadlockProgress == []<>((\A m \in Masters : ~want[m].valid) \/ (\E m \in Masters : accepted(m)))
\* the strong form of C05's "a port cannot be locked out of a bank by other ports" -- known NOT to hold (finding D6)
EveryOfferAccepted == \A m \in Masters : want[m].valid ~> accepted(m)
====
