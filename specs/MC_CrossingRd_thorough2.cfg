SPECIFICATION Spec
CONSTANTS CmdDepth = 4
 RdDepth = 16
 M = 4
 Bound = 8
INVARIANT NoOverflow
INVARIANT OccBound
INVARIANT OutBound
