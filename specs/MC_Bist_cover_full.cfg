CONSTANTS MaxNW = 3
          RW = 2
          DEPTH = 2
          LMAX = 2
          Bug = "none"
SPECIFICATION Spec
INVARIANTS CoverFull
CHECK_DEADLOCK FALSE
