SPECIFICATION Spec
CONSTANTS
  NPh = 8
  Span = 4
  Mode = "basic"
  Kinds = {2}
INVARIANT Placement
INVARIANT Tolerant
CHECK_DEADLOCK FALSE
