---- MODULE R_ModeRegs ----
(* Requirement C17: the generated initialisation programs the DRAM consistently with the controller.

   Mode-register DECODE tables transcribed from the JEDEC standards (JESD21-C SDR SDRAM, JESD79 DDR, JESD209 LPDDR,
   JESD79-2 DDR2, JESD79-3 DDR3, JESD79-4 DDR4, JESD209-4 LPDDR4, JESD209-5 LPDDR5, JESD82-31 DDR4 RCD output inversion,
   JESD21-C DDR4 address mirroring) -- independent of the encoder tables in litedram/init.py.  An init sequence is a
   sequence of <<a, ba, cmd, delay, ctl>>; cmd is the DFII bit mask (command register: CS 1, WE 2, CAS 4, RAS 8; ctl = 1:
   the control register is written instead).  A mode-register-set is cmd = 15 with ctl = 0.  The device keeps the LAST
   value written to each register.  The Python rendering has no ctl column: it is compared on <<a, ba, cmd, delay>>.

   One call record r (see T_ModeRegs) gives: mt, n (DFI phases = DRAM clocks per controller cycle), f (controller clock,
   kHz), cl, cwl, cwlx (1: the PHY chose cwl explicitly), bl (burst length the controller operates with), twr = <<ckm, ps>>
   (datasheet tWR), trp = <<ckm, ps>> and trpc (datasheet tRP and the cycles handed to the controller), wait (controller's
   write-to-precharge wait in controller cycles), frm, rdimm, clam, ratio (LPDDR5
   WCK:CK), opt (requested electrical options, as JEDEC-neutral integers, -1 = not requested), seq/cseq/pseq. *)
EXTENDS Integers, Sequences, FiniteSets, R_TimingConv

Pow2(k) == 2 ^ k
Bit(v, k) == (v \div Pow2(k)) % 2
Fld(v, lo, w) == (v \div Pow2(lo)) % Pow2(w)
Lookup(tab, code) == IF \E p \in tab : p[1] = code THEN (CHOOSE p \in tab : p[1] = code)[2] ELSE -1
MRS == 15
IsMrs(e) == e[3] = MRS /\ e[5] = 0

\* last value written to mode register m (by bank address), -1 if never written
RECURSIVE LastMr(_, _, _)
LastMr(seq, m, k) == IF k = 0 THEN -1
                     ELSE IF IsMrs(seq[k]) /\ seq[k][2] = m THEN seq[k][1] ELSE LastMr(seq, m, k - 1)
MR(seq, m) == LastMr(seq, m, Len(seq))
Written(seq) == {seq[k][2] : k \in {j \in 1..Len(seq) : IsMrs(seq[j])}}

\* ------------------------------------------------------------------------------------------------ decode tables
SdrBL == {<<0, 1>>, <<1, 2>>, <<2, 4>>, <<3, 8>>}
SdrCL == {<<1, 1>>, <<2, 2>>, <<3, 3>>}
DdrBL == {<<1, 2>>, <<2, 4>>, <<3, 8>>}
DdrCL10 == {<<2, 20>>, <<3, 30>>, <<5, 15>>, <<6, 25>>}                  \* CAS latency x 10
LpddrBL == {<<1, 2>>, <<2, 4>>, <<3, 8>>, <<4, 16>>}
LpddrCL == {<<2, 2>>, <<3, 3>>}
Ddr2BL == {<<2, 4>>, <<3, 8>>}
Ddr2CL == {<<2, 2>>, <<3, 3>>, <<4, 4>>, <<5, 5>>, <<6, 6>>, <<7, 7>>}
Ddr2WR == {<<1, 2>>, <<2, 3>>, <<3, 4>>, <<4, 5>>, <<5, 6>>, <<6, 7>>, <<7, 8>>}
Ddr3BL == {<<0, 8>>, <<2, 4>>}                                            \* 01 = on the fly: not a fixed length
Ddr3CL == {<<2, 5>>, <<4, 6>>, <<6, 7>>, <<8, 8>>, <<10, 9>>, <<12, 10>>, <<14, 11>>, <<1, 12>>, <<3, 13>>, <<5, 14>>, <<7, 15>>, <<9, 16>>}
Ddr3WR == {<<0, 16>>, <<1, 5>>, <<2, 6>>, <<3, 7>>, <<4, 8>>, <<5, 10>>, <<6, 12>>, <<7, 14>>}
Ddr3CWL == {<<0, 5>>, <<1, 6>>, <<2, 7>>, <<3, 8>>, <<4, 9>>, <<5, 10>>, <<6, 11>>, <<7, 12>>}
Ddr3AL == {<<0, 0>>}                                                      \* 01 = CL-1, 10 = CL-2: the controller assumes AL = 0
Ddr4CL == {<<0, 9>>, <<1, 10>>, <<2, 11>>, <<3, 12>>, <<4, 13>>, <<5, 14>>, <<6, 15>>, <<7, 16>>, <<8, 18>>, <<9, 20>>, <<10, 22>>,
           <<11, 24>>, <<12, 23>>, <<13, 17>>, <<14, 19>>, <<15, 21>>, <<16, 25>>, <<17, 26>>, <<18, 27>>, <<19, 28>>, <<20, 29>>,
           <<21, 30>>, <<22, 31>>, <<23, 32>>}
Ddr4WR == {<<0, 10>>, <<1, 12>>, <<2, 14>>, <<3, 16>>, <<4, 18>>, <<5, 20>>, <<6, 24>>, <<7, 22>>, <<8, 26>>, <<9, 28>>}
Ddr4CWL == {<<0, 9>>, <<1, 10>>, <<2, 11>>, <<3, 12>>, <<4, 14>>, <<5, 16>>, <<6, 18>>, <<7, 20>>}
Ddr4FGR == {<<0, "1x">>, <<1, "2x">>, <<2, "4x">>}
Ddr4CCD == {<<0, 4>>, <<1, 5>>, <<2, 6>>, <<3, 7>>, <<4, 8>>}
Lp4BL == {<<0, 16>>, <<1, 32>>}
Lp4NWR == {<<0, 6>>, <<1, 10>>, <<2, 16>>, <<3, 20>>, <<4, 24>>, <<5, 30>>, <<6, 34>>, <<7, 40>>}
Lp4RL == {<<0, 6>>, <<1, 10>>, <<2, 14>>, <<3, 20>>, <<4, 24>>, <<5, 28>>, <<6, 32>>, <<7, 36>>}         \* DBI-RD disabled
Lp4RLdbi == {<<0, 6>>, <<1, 12>>, <<2, 16>>, <<3, 22>>, <<4, 28>>, <<5, 32>>, <<6, 36>>, <<7, 40>>}
Lp4WLa == {<<0, 4>>, <<1, 6>>, <<2, 8>>, <<3, 10>>, <<4, 12>>, <<5, 14>>, <<6, 16>>, <<7, 18>>}
Lp4WLb == {<<0, 4>>, <<1, 8>>, <<2, 12>>, <<3, 18>>, <<4, 22>>, <<5, 26>>, <<6, 30>>, <<7, 34>>}
\* LPDDR5, DVFSC disabled, read link ECC off, x16, set 0 / WL set A; index = WCK:CK ratio
Lp5RL(ratio) == IF ratio = 2 THEN {<<0, 6>>, <<1, 8>>, <<2, 10>>, <<3, 12>>, <<4, 16>>, <<5, 18>>}
                ELSE {<<0, 3>>, <<1, 4>>, <<2, 5>>, <<3, 6>>, <<4, 8>>, <<5, 9>>, <<6, 10>>, <<7, 12>>, <<8, 13>>, <<9, 15>>, <<10, 16>>, <<11, 17>>}
Lp5WLa(ratio) == IF ratio = 2 THEN {<<0, 4>>, <<1, 4>>, <<2, 6>>, <<3, 8>>, <<4, 8>>, <<5, 10>>}
                 ELSE {<<0, 2>>, <<1, 2>>, <<2, 3>>, <<3, 4>>, <<4, 4>>, <<5, 5>>, <<6, 6>>, <<7, 6>>, <<8, 7>>, <<9, 8>>, <<10, 9>>, <<11, 9>>}
Lp5NWR(ratio) == IF ratio = 2 THEN {<<0, 5>>, <<1, 10>>, <<2, 14>>, <<3, 19>>, <<4, 24>>, <<5, 28>>}
                 ELSE {<<0, 3>>, <<1, 5>>, <<2, 7>>, <<3, 10>>, <<4, 12>>, <<5, 14>>, <<6, 16>>, <<7, 19>>, <<8, 21>>, <<9, 24>>, <<10, 26>>, <<11, 28>>}

(* Decode of the programmed state.  Fields: bl, cl10 (CAS latency x 10), wl (write latency in DRAM clocks as the DEVICE
   will apply it, -1 = not determined by mode registers), wr (write recovery for auto-precharge in clocks, -1 = the
   memory type has no such field), junk = set of <<register, "what">> for reserved / test-mode / wrong-mode bits,
   and el = electrical fields as JEDEC-neutral integers. *)
None == [bl |-> -1, cl10 |-> -1, wl |-> -1, wr |-> -1, al |-> 0, junk |-> {}, el |-> <<>>, extra |-> <<>>]
Junk(cond, m, what) == IF cond THEN {<<m, what>>} ELSE {}
Missing(seq, ms) == UNION {Junk(m \notin Written(seq), m, "mode register never written") : m \in ms}

DecSDR(seq) ==
    LET v == MR(seq, 0) IN
    IF v < 0 THEN [None EXCEPT !.junk = {<<0, "mode register never written">>}] ELSE
    [None EXCEPT !.bl = Lookup(SdrBL, Fld(v, 0, 3)), !.cl10 = 10 * Lookup(SdrCL, Fld(v, 4, 3)), !.wl = 0,
                 !.junk = Junk(Fld(v, 7, 2) # 0, 0, "operating mode A8:A7 not normal") \cup Junk(Bit(v, 3) # 0, 0, "interleaved burst type")
                          \cup Junk(Bit(v, 9) # 0, 0, "single-location write mode") \cup Junk(v >= Pow2(10), 0, "reserved bits set")]
DecDDR(seq) ==
    LET v == MR(seq, 0)  e == MR(seq, 1) IN
    IF v < 0 THEN [None EXCEPT !.junk = {<<0, "mode register never written">>}] ELSE
    [None EXCEPT !.bl = Lookup(DdrBL, Fld(v, 0, 3)), !.cl10 = Lookup(DdrCL10, Fld(v, 4, 3)), !.wl = 1,
                 !.junk = Junk((v \div 128) \notin {0, 2}, 0, "operating mode not normal (A7 and above: only A8 = DLL reset may be set)")
                          \cup Junk(Bit(v, 3) # 0, 0, "interleaved burst type")
                          \cup Junk(e < 0, 1, "mode register never written") \cup Junk(e >= 0 /\ Bit(e, 0) # 0, 1, "DLL disabled")
                          \cup Junk(e >= 4, 1, "reserved bits set")]
DecLPDDR(seq) ==
    LET v == MR(seq, 0)  e == MR(seq, 2) IN
    IF v < 0 THEN [None EXCEPT !.junk = {<<0, "mode register never written">>}] ELSE
    [None EXCEPT !.bl = Lookup(LpddrBL, Fld(v, 0, 3)), !.cl10 = 10 * Lookup(LpddrCL, Fld(v, 4, 3)), !.wl = 1,
                 !.junk = Junk(v >= Pow2(7), 0, "reserved bits set (A7 and above must be 0)") \cup Junk(Bit(v, 3) # 0, 0, "interleaved burst type")
                          \cup Junk(e >= Pow2(8), 2, "reserved bits set")]
DecDDR2(seq) ==
    LET v == MR(seq, 0)  e == MR(seq, 1)  e2 == MR(seq, 2)  e3 == MR(seq, 3)
        al == IF e < 0 THEN 0 ELSE Fld(e, 3, 3)
        cl == IF v < 0 THEN -1 ELSE Lookup(Ddr2CL, Fld(v, 4, 3)) IN
    IF v < 0 THEN [None EXCEPT !.junk = {<<0, "mode register never written">>}] ELSE
    [None EXCEPT !.bl = Lookup(Ddr2BL, Fld(v, 0, 3)), !.cl10 = 10 * cl, !.al = al,
                 !.wl = IF cl < 0 THEN -1 ELSE al + cl - 1,                    \* WL = RL - 1 = AL + CL - 1
                 !.wr = Lookup(Ddr2WR, Fld(v, 9, 3)),
                 !.junk = Junk(Bit(v, 7) # 0, 0, "test mode") \cup Junk(Bit(v, 3) # 0, 0, "interleaved burst type")
                          \cup Junk(v >= Pow2(13), 0, "reserved bits set") \cup Missing(seq, {1, 2, 3})
                          \cup Junk(e >= 0 /\ Bit(e, 0) # 0, 1, "DLL disabled") \cup Junk(e >= 0 /\ Fld(e, 7, 3) # 0, 1, "OCD calibration mode not exited")
                          \cup Junk(e >= 0 /\ Bit(e, 12) # 0, 1, "outputs disabled (Qoff)") \cup Junk(e >= Pow2(13), 1, "reserved bits set")
                          \cup Junk(al > 5, 1, "reserved additive latency")]
DecDDR3(seq) ==
    LET v == MR(seq, 0)  m1 == MR(seq, 1)  m2 == MR(seq, 2)  m3 == MR(seq, 3)
        al == IF m1 < 0 THEN -1 ELSE Lookup(Ddr3AL, Fld(m1, 3, 2)) IN
    IF v < 0 \/ m1 < 0 \/ m2 < 0 \/ m3 < 0 THEN [None EXCEPT !.junk = Missing(seq, {0, 1, 2, 3})] ELSE
    [None EXCEPT !.bl = Lookup(Ddr3BL, Fld(v, 0, 2)),
                 !.cl10 = 10 * Lookup(Ddr3CL, 2 * Fld(v, 4, 3) + Bit(v, 2)),
                 !.wr = Lookup(Ddr3WR, Fld(v, 9, 3)),
                 !.wl = IF al < 0 THEN -1 ELSE al + Lookup(Ddr3CWL, Fld(m2, 3, 3)),
                 !.el = [ron |-> 2 * Bit(m1, 5) + Bit(m1, 1), rtt_nom |-> 4 * Bit(m1, 9) + 2 * Bit(m1, 6) + Bit(m1, 2),
                         rtt_wr |-> Fld(m2, 9, 2), tdqs |-> Bit(m1, 11)],
                 !.junk = Junk(Bit(v, 7) # 0, 0, "test mode") \cup Junk(Bit(v, 3) # 0, 0, "interleaved burst type") \cup Junk(v >= Pow2(13), 0, "reserved bits set")
                          \cup Junk(Bit(m1, 0) # 0, 1, "DLL disabled") \cup Junk(al < 0, 1, "additive latency enabled (controller assumes AL = 0)")
                          \cup Junk(Bit(m1, 7) # 0, 1, "write leveling left enabled") \cup Junk(Bit(m1, 12) # 0, 1, "outputs disabled (Qoff)")
                          \cup Junk(Bit(m1, 8) # 0 \/ Bit(m1, 10) # 0 \/ m1 >= Pow2(13), 1, "reserved bits set")
                          \cup Junk(Bit(m2, 8) # 0 \/ m2 >= Pow2(11), 2, "reserved bits set") \cup Junk(Fld(m2, 9, 2) = 3, 2, "reserved Rtt_WR")
                          \cup Junk(Bit(m3, 2) # 0, 3, "multi-purpose register mode left enabled") \cup Junk(m3 >= Pow2(3), 3, "reserved bits set")]
DecDDR4(seq) ==
    LET v == MR(seq, 0)  m1 == MR(seq, 1)  m2 == MR(seq, 2)  m3 == MR(seq, 3)  m4 == MR(seq, 4)  m5 == MR(seq, 5)  m6 == MR(seq, 6)
        al == IF m1 < 0 THEN -1 ELSE Lookup(Ddr3AL, Fld(m1, 3, 2)) IN
    IF \E x \in {v, m1, m2, m3, m4, m5, m6} : x < 0 THEN [None EXCEPT !.junk = Missing(seq, 0..6)] ELSE
    [None EXCEPT !.bl = Lookup(Ddr3BL, Fld(v, 0, 2)),
                 !.cl10 = 10 * Lookup(Ddr4CL, 16 * Bit(v, 12) + 2 * Fld(v, 4, 3) + Bit(v, 2)),
                 !.wr = Lookup(Ddr4WR, 8 * Bit(v, 13) + Fld(v, 9, 3)),
                 !.wl = IF al < 0 THEN -1 ELSE al + Lookup(Ddr4CWL, Fld(m2, 3, 3)),
                 !.el = [ron |-> Fld(m1, 1, 2), rtt_nom |-> Fld(m1, 8, 3), rtt_wr |-> Fld(m2, 9, 3), tdqs |-> Bit(m1, 11)],
                 !.extra = [fgr |-> Lookup(Ddr4FGR, Fld(m3, 6, 3)), tccdl |-> Lookup(Ddr4CCD, Fld(m6, 10, 3)), dm |-> Bit(m5, 10)],
                 !.junk = Junk(Bit(v, 7) # 0, 0, "test mode") \cup Junk(Bit(v, 3) # 0, 0, "interleaved burst type") \cup Junk(v >= Pow2(14), 0, "bits above A13 set")
                          \cup Junk(Bit(m1, 0) # 1, 1, "DLL disabled") \cup Junk(al < 0, 1, "additive latency enabled (controller assumes AL = 0)")
                          \cup Junk(Bit(m1, 7) # 0, 1, "write leveling left enabled") \cup Junk(Bit(m1, 12) # 0, 1, "outputs disabled (Qoff)")
                          \cup Junk(Fld(m1, 5, 2) # 0 \/ m1 >= Pow2(13), 1, "reserved bits set") \cup Junk(Fld(m1, 1, 2) > 1, 1, "reserved output driver impedance")
                          \cup Junk(Fld(m2, 0, 3) # 0 \/ Bit(m2, 8) # 0 \/ m2 >= Pow2(13), 2, "reserved bits set") \cup Junk(Fld(m2, 9, 3) > 4, 2, "reserved Rtt_WR")
                          \cup Junk(Bit(m2, 12) # 0, 2, "write CRC enabled")
                          \cup Junk(Bit(m3, 2) # 0, 3, "multi-purpose register mode left enabled") \cup Junk(Bit(m3, 3) # 0, 3, "gear-down mode") \cup Junk(m3 >= Pow2(13), 3, "reserved bits set")
                          \cup Junk(m4 # 0, 4, "MR4 not at its default") \cup Junk(Fld(m5, 0, 3) # 0, 5, "CA parity enabled")
                          \cup Junk(Bit(m5, 11) # 0 \/ Bit(m5, 12) # 0, 5, "data bus inversion enabled") \cup Junk(m5 >= Pow2(14), 5, "bits above A13 set")
                          \cup Junk(Bit(m6, 7) # 0, 6, "VrefDQ training left enabled") \cup Junk(m6 >= Pow2(13), 6, "reserved bits set")]
DecLPDDR4(seq) ==
    LET m1 == MR(seq, 1)  m2 == MR(seq, 2)  m3 == MR(seq, 3)  m11 == MR(seq, 11)  m12 == MR(seq, 12)  m14 == MR(seq, 14)  m13 == MR(seq, 13) IN
    IF m1 < 0 \/ m2 < 0 \/ m3 < 0 THEN [None EXCEPT !.junk = Missing(seq, {1, 2, 3})] ELSE
    [None EXCEPT !.bl = Lookup(Lp4BL, Fld(m1, 0, 2)),
                 !.cl10 = 10 * Lookup(IF Bit(m3, 6) = 1 THEN Lp4RLdbi ELSE Lp4RL, Fld(m2, 0, 3)),
                 !.wl = Lookup(IF Bit(m2, 6) = 1 THEN Lp4WLb ELSE Lp4WLa, Fld(m2, 3, 3)),
                 !.wr = Lookup(Lp4NWR, Fld(m1, 4, 3)),
                 !.el = [pdds |-> Fld(m3, 3, 3), dq_odt |-> IF m11 < 0 THEN -1 ELSE Fld(m11, 0, 3), ca_odt |-> IF m11 < 0 THEN -1 ELSE Fld(m11, 4, 3),
                         vref_ca |-> IF m12 < 0 THEN -1 ELSE (IF Bit(m12, 6) = 1 THEN 220 ELSE 100) + 4 * Fld(m12, 0, 6),
                         vref_dq |-> IF m14 < 0 THEN -1 ELSE (IF Bit(m14, 6) = 1 THEN 220 ELSE 100) + 4 * Fld(m14, 0, 6)],
                 !.junk = UNION {Junk(x >= 256, 0, "mode register operand wider than 8 bits") : x \in {m1, m2, m3, m11, m12, m13, m14}}
                          \cup Junk(Bit(m2, 7) # 0, 2, "write leveling left enabled")
                          \cup Junk(Bit(m3, 7) # 0, 3, "write data bus inversion enabled")
                          \cup Junk(m11 >= 0 /\ (Bit(m11, 3) # 0 \/ Bit(m11, 7) # 0), 11, "reserved bits set")
                          \cup Junk(m11 >= 0 /\ (Fld(m11, 0, 3) = 7 \/ Fld(m11, 4, 3) = 7), 11, "reserved ODT value")
                          \cup Junk(m12 >= 0 /\ (Fld(m12, 0, 6) > 50 \/ Bit(m12, 7) # 0), 12, "reserved Vref(CA) setting")
                          \cup Junk(m14 >= 0 /\ (Fld(m14, 0, 6) > 50 \/ Bit(m14, 7) # 0), 14, "reserved Vref(DQ) setting")
                          \cup Junk(m13 >= 0 /\ Bit(m13, 5) # 0, 13, "data mask disabled")]
DecLPDDR5(seq, ratio) ==
    LET m1 == MR(seq, 1)  m2 == MR(seq, 2)  m3 == MR(seq, 3)  m18 == MR(seq, 18) IN
    IF m1 < 0 \/ m2 < 0 \/ m3 < 0 \/ m18 < 0 THEN [None EXCEPT !.junk = Missing(seq, {1, 2, 3, 18})] ELSE
    [None EXCEPT !.bl = 16,                                              \* BL16 unless BL32 is selected by the command (8B mode only)
                 !.cl10 = 10 * Lookup(Lp5RL(ratio), Fld(m2, 0, 4)),
                 !.wl = IF Bit(m3, 5) = 0 THEN Lookup(Lp5WLa(ratio), Fld(m1, 4, 4)) ELSE -1,
                 !.wr = Lookup(Lp5NWR(ratio), Fld(m2, 4, 4)),
                 !.extra = [ckr |-> IF Bit(m18, 7) = 1 THEN 2 ELSE 4],
                 !.junk = UNION {Junk(x >= 256, 0, "mode register operand wider than 8 bits") : x \in {MR(seq, m) : m \in Written(seq)}}
                          \cup Junk(Bit(m1, 3) # 0, 1, "single-ended CK selected") \cup Junk(Bit(m3, 5) # 0, 3, "WL set B selected")
                          \cup Junk(Bit(m18, 6) # 0, 18, "WCK2CK leveling left enabled")]

Decode(r) == CASE r.mt = "SDR" -> DecSDR(r.seq) [] r.mt = "DDR" -> DecDDR(r.seq) [] r.mt = "LPDDR" -> DecLPDDR(r.seq)
               [] r.mt = "DDR2" -> DecDDR2(r.seq) [] r.mt = "DDR3" -> DecDDR3(r.seq) [] r.mt = "DDR4" -> DecDDR4(r.seq)
               [] r.mt = "LPDDR4" -> DecLPDDR4(r.seq) [] r.mt = "LPDDR5" -> DecLPDDR5(r.seq, r.ratio) [] OTHER -> None
Known(mt) == mt \in {"SDR", "DDR", "LPDDR", "DDR2", "DDR3", "DDR4", "LPDDR4", "LPDDR5"}

\* ------------------------------------------------------------------------------------------------ requested electrical options
(* r.opt carries what the configuration asked for in JEDEC terms: impedances as the divisor k of RZQ/k (RZQ = 240 ohm;
   0 = disabled, -2 = high-Z), Vref in 0.1 % steps, tdqs 0/1; -1 = nothing requested. *)
Ddr3Ron == {<<0, 6>>, <<1, 7>>}                                                       \* RZQ/6 = 40 ohm, RZQ/7 = 34 ohm
Ddr3RttNom == {<<0, 0>>, <<1, 4>>, <<2, 2>>, <<3, 6>>, <<4, 12>>, <<5, 8>>}
Ddr3RttWr == {<<0, 0>>, <<1, 4>>, <<2, 2>>}
Ddr4Ron == {<<0, 7>>, <<1, 5>>}
Ddr4RttNom == {<<0, 0>>, <<1, 4>>, <<2, 2>>, <<3, 6>>, <<4, 1>>, <<5, 5>>, <<6, 3>>, <<7, 7>>}
Ddr4RttWr == {<<0, 0>>, <<1, 2>>, <<2, 1>>, <<3, -2>>, <<4, 3>>}
Want(r, k) == IF k \in DOMAIN r.opt THEN r.opt[k] ELSE -1
ElBad(r, d) ==
    LET Chk(k, got) == IF Want(r, k) = -1 \/ Want(r, k) = got THEN {} ELSE {<<"electrical field decodes to a setting other than the one requested", k, got, Want(r, k)>>}
    IN CASE r.mt = "DDR3" /\ d.el # <<>> ->
              Chk("ron", Lookup(Ddr3Ron, d.el.ron)) \cup Chk("rtt_nom", Lookup(Ddr3RttNom, d.el.rtt_nom))
              \cup Chk("rtt_wr", Lookup(Ddr3RttWr, d.el.rtt_wr)) \cup Chk("tdqs", d.el.tdqs)
         [] r.mt = "DDR4" /\ d.el # <<>> ->
              Chk("ron", Lookup(Ddr4Ron, d.el.ron)) \cup Chk("rtt_nom", Lookup(Ddr4RttNom, d.el.rtt_nom))
              \cup Chk("rtt_wr", Lookup(Ddr4RttWr, d.el.rtt_wr)) \cup Chk("tdqs", d.el.tdqs)
         [] r.mt = "LPDDR4" /\ d.el # <<>> ->
              Chk("pdds", d.el.pdds) \cup Chk("dq_odt", d.el.dq_odt) \cup Chk("ca_odt", d.el.ca_odt)
              \cup Chk("vref_ca", d.el.vref_ca) \cup Chk("vref_dq", d.el.vref_dq)
         [] OTHER -> {}

\* ------------------------------------------------------------------------------------------------ consistency clauses
(* Write recovery.  JEDEC: WR (nWR) programmed in the mode register = RU(tWR / tCK); the device starts the internal
   precharge of a write with auto-precharge WL + BL/2 + WR clocks after the command (LPDDR4/5: one clock more) and the
   bank may be activated tRP later.
   (a) WR * tCK >= tWR(ns) and WR >= tWR(clocks);
   (b) "without exceeding what the controller waits for": the controller (bank machine) issues the next ACTIVATE to
       that bank no earlier than wait + tRP controller cycles after the write command, i.e. on the least favourable
       phases (wait + tRPc) * n - (n - 1) DRAM clocks later.  That must not be earlier than the device's
       WL + BL/2 + WR (+1) + RU(tRP / tCK).  (The cruder bound  WL + BL/2 + WR <= wait * n  of DESIGN section 11 is
       sufficient but not necessary: it ignores the slack of the tRP rounding, and flagged configurations that are safe.) *)
\* slowest DRAM clock (kHz) of the JEDEC DLL-on operating range: tCK(avg)max = 12 ns DDR, 8 ns DDR2, 3.3 ns DDR3, 1.6 ns DDR4.
\* Clause (b) reasons with the JEDEC auto-precharge timing model and is applied inside that range only; configurations
\* below it (common on slow FPGAs) are still decoded and checked for everything else.
MinDramKhz(mt) == CASE mt = "DDR" -> 83334 [] mt = "DDR2" -> 125000 [] mt = "DDR3" -> 303031 [] mt = "DDR4" -> 625000 [] OTHER -> 0
InJedecRange(r) == r.f * r.n >= MinDramKhz(r.mt)
BurstClocks(r) == IF r.mt = "LPDDR5" THEN 16 \div (2 * r.ratio) ELSE IF r.mt = "SDR" THEN r.bl ELSE r.bl \div 2
WrBad(r, d) ==
    IF d.wr < 0 THEN (IF r.mt \in {"DDR2", "DDR3", "DDR4", "LPDDR4", "LPDDR5"} THEN {<<"write recovery field holds a reserved encoding", "WR", d.wr, 0>>} ELSE {})
    ELSE LET need == IF r.twr[2] > 0 THEN NeedTck(r.twr[2], r.f, r.n) ELSE 0
             extra == IF r.mt \in {"LPDDR4", "LPDDR5"} THEN 1 ELSE 0
             trpns == IF r.trp[2] > 0 THEN NeedTck(r.trp[2], r.f, r.n) ELSE 0
             trpck == CeilDiv(r.trp[1], 1000)
             devready == d.wl + BurstClocks(r) + d.wr + extra + (IF trpns > trpck THEN trpns ELSE trpck)
             ctlact == HaveTck(r.wait + r.trpc, r.n)
         IN (IF d.wr < need THEN {<<"write recovery shorter than datasheet tWR (ns)", "WR", d.wr, need>>} ELSE {})
            \cup (IF d.wr * 1000 < r.twr[1] THEN {<<"write recovery shorter than datasheet tWR (clocks)", "WR", d.wr * 1000, r.twr[1]>>} ELSE {})
            \cup (IF InJedecRange(r) /\ d.wl >= 0 /\ r.wait >= 0 /\ r.trpc >= 0 /\ devready > ctlact
                  THEN {<<"write recovery longer than the controller waits before re-activating the bank", "WR", devready, ctlact>>} ELSE {})

LatBad(r, d) ==
    (IF d.bl # r.bl THEN {<<"burst length differs from the controller's", "BL", d.bl, r.bl>>} ELSE {})
    \cup (IF d.cl10 # 10 * r.cl THEN {<<"CAS latency differs from the PHY's", "CL", d.cl10, 10 * r.cl>>} ELSE {})
    \cup (IF r.mt \in {"DDR2", "DDR3", "DDR4", "LPDDR4", "LPDDR5"} /\ r.cwlx = 1 /\ d.wl # r.cwl
          THEN {<<"CAS write latency differs from the PHY's", "CWL", d.wl, r.cwl>>} ELSE {})
    \cup (IF r.mt = "DDR4" /\ d.extra # <<>> /\ d.extra.fgr # r.frm
          THEN {<<"fine granularity refresh mode differs from the controller's", "FGR", 0, 0>>} ELSE {})
    \cup (IF r.mt = "DDR4" /\ d.extra # <<>> /\ (d.extra.tccdl < 0 \/ (r.tccd >= 0 /\ d.extra.tccdl > r.tccd * r.n))
          THEN {<<"tCCD_L programmed longer than the controller's CAS-to-CAS spacing", "tCCD_L", d.extra.tccdl, r.tccd * r.n>>} ELSE {})
    \cup (IF r.mt = "LPDDR5" /\ d.extra # <<>> /\ d.extra.ckr # r.ratio
          THEN {<<"WCK:CK ratio differs from the PHY's", "CKR", d.extra.ckr, r.ratio>>} ELSE {})
JunkBad(d) == {<<"reserved, test or wrong-mode bits programmed: " \o j[2], "MR", j[1], 0>> : j \in d.junk}

\* ------------------------------------------------------------------------------------------------ renderings
(* RDIMM (JESD82-31, output inversion): every mode-register write to the DRAMs (not to the register's own control words,
   bank address 7) must be issued twice: as is for the A side, and with A3..A9, A11, A13 and all bank(-group) bits inverted
   - which also sets BG1 and thereby addresses the B side.  Clam shell (JESD21-C DDR4 mirroring): the bottom rank sees A3/A4,
   A5/A6, A7/A8, A11/A13 and BA0/BA1 swapped, so a mode-register write goes to the top rank as is (command | 64) and to the
   bottom rank pre-swapped (command | 128).  The Python rendering has no per-rank chip selects: it must be the sequence
   before the clam-shell split. *)
InvA == 11256      \* 0b10101111111000
Xor(v, mask, w) == LET S[k \in 0..w] == IF k = 0 THEN 0 ELSE S[k - 1] + Pow2(k - 1) * ((Bit(v, k - 1) + Bit(mask, k - 1)) % 2) IN S[w]
SwapBits(v, i, j) == IF Bit(v, i) = Bit(v, j) THEN v ELSE v - Bit(v, i) * Pow2(i) - Bit(v, j) * Pow2(j) + Bit(v, j) * Pow2(i) + Bit(v, i) * Pow2(j)
Mirror(a) == SwapBits(SwapBits(SwapBits(SwapBits(a, 3, 4), 5, 6), 7, 8), 11, 13)
RECURSIVE ExpRdimm(_)
ExpRdimm(seq) == IF seq = <<>> THEN <<>>
                 ELSE LET e == Head(seq) IN
                      (IF IsMrs(e) /\ e[2] # 7 THEN <<e, <<Xor(e[1], InvA, 18), Xor(e[2], 15, 4), e[3], e[4], e[5]>>>> ELSE <<e>>) \o ExpRdimm(Tail(seq))
RECURSIVE ExpClam(_)
ExpClam(seq) == IF seq = <<>> THEN <<>>
                ELSE LET e == Head(seq) IN
                     (IF IsMrs(e) THEN << <<e[1], e[2], MRS + 64, e[4], 0>>, <<Mirror(e[1]), SwapBits(e[2], 0, 1), MRS + 128, e[4], 0>> >> ELSE <<e>>) \o ExpClam(Tail(seq))
Logical(r) == IF r.rdimm = 1 THEN ExpRdimm(r.seq) ELSE r.seq
P4(seq) == [k \in 1..Len(seq) |-> <<seq[k][1], seq[k][2], seq[k][3], seq[k][4]>>]
(* Entries that are not mode-register writes (reset/CKE control writes, ZQ calibration) do not depend on the inverted bits;
   a rendering may or may not repeat them for the B side.  Such repeats are dropped before comparing. *)
InvOf(e) == [e EXCEPT ![1] = Xor(e[1], InvA, 18), ![2] = Xor(e[2], 15, 4)]
Mrs4(e) == e[3] = MRS \/ e[3] = MRS + 64 \/ e[3] = MRS + 128
RECURSIVE DropRepeats(_, _)
DropRepeats(ren, prev) ==                      \* prev = last kept entry or <<>>
    IF ren = <<>> THEN <<>>
    ELSE LET e == Head(ren) IN
         IF prev # <<>> /\ ~Mrs4(e) /\ ~Mrs4(prev) /\ prev[2] # 7 /\ e = InvOf(prev) THEN DropRepeats(Tail(ren), <<>>)
         ELSE <<e>> \o DropRepeats(Tail(ren), e)
Rendered(r, ren) == IF r.rdimm = 1 THEN DropRepeats(ren, <<>>) ELSE ren
RenderBad(r) ==
    (IF Rendered(r, r.pseq) # P4(Logical(r)) THEN {<<"Python header does not describe the generated sequence (after the RDIMM B-side duplication)", "py", Len(r.pseq), Len(Logical(r))>>} ELSE {})
    \cup (IF Rendered(r, r.cseq) # (IF r.clam = 1 THEN ExpClam(Logical(r)) ELSE Logical(r))
          THEN {<<"C header does not describe the generated sequence (after RDIMM duplication / clam-shell split)", "c", Len(r.cseq), Len(Logical(r))>>} ELSE {})
    \cup (IF r.wrlvl[1] >= 0 /\ MR(r.seq, r.wrlvl[1]) # r.wrlvl[2]
          THEN {<<"write-leveling reset value in the C header differs from the programmed mode register", "c", r.wrlvl[2], MR(r.seq, r.wrlvl[1])>>} ELSE {})
    \cup (IF r.pymr1 >= 0 /\ MR(r.seq, 1) # r.pymr1
          THEN {<<"ddrx_mr1 in the Python header differs from the programmed mode register 1", "py", r.pymr1, MR(r.seq, 1)>>} ELSE {})
RangeBad(r) ==
    LET w == IF r.mt \in {"LPDDR4", "LPDDR5"} THEN 8 ELSE r.abits IN
    {<<"mode register value wider than the address bus", "MR", r.seq[k][2], r.seq[k][1]>> : k \in {j \in 1..Len(r.seq) : IsMrs(r.seq[j]) /\ r.seq[j][1] >= Pow2(w)}}

(* All clauses of one call record.  A generator that raises for a configuration the PHY can select programs nothing. *)
InitBadD(r, d) ==
    IF r.raised # "" THEN {<<"generator raises for a selectable configuration", r.raised, 0, 0>>}
    ELSE LatBad(r, d) \cup WrBad(r, d) \cup JunkBad(d) \cup ElBad(r, d) \cup RenderBad(r) \cup RangeBad(r)
InitBad(r) == InitBadD(r, IF r.raised # "" THEN None ELSE Decode(r))
====
