---- MODULE T_RateConvLock ----
(* Lock-step conformance (B2, never a verdict) of the design model D_RateConv against the real DFIRateConverter.
   The bench's per-cycle records are re-coded compactly (every distinct value of a whole phase record is numbered injectively,
   0 = the all-zero reset value):
     [k |-> "F", cmd |-> <<code per fast phase>>, wr |-> <<burst per fast phase>>, fin |-> <<[d |-> burst, v |-> valid] per fast phase>>]
     [k |-> "S", cmd |-> <<code per slow phase>>, wr |-> <<code per slow phase>>, rd |-> <<[d |-> chunk, v |-> valid] per slow phase>>]
   F = fast cycle that just ended (outputs cmd / wr observed, inputs fin), S = slow cycle that just ended (inputs cmd / wr, outputs rd
   observed); at an instant where both clocks tick F comes first.  The model is stepped over the same edges with the recorded
   inputs and must show the recorded outputs.  Header / "NEW" lines: [P, ratio, wd, rd]. *)
EXTENDS TraceLib, D_RateConv
Cfg0 == Trace[1]
VARIABLES l, cfg, d, bad, nf      \* nf = fast records since NEW: the first ratio fast cycles show the slow interface's
vars == <<l, cfg, d, bad, nf>>    \*      reset values (registered at edge 0), which the model does not know: not compared
Z(c) == [cmd |-> [k \in 1 .. c.P * c.ratio |-> 0], wr |-> [k \in 1 .. c.P * c.ratio |-> 0]]
ZF(c) == [p \in 1 .. c.P |-> [d |-> ZeroBurst(c.ratio), v |-> 0]]
Start(c) == [DInit(c.P, c.ratio, Z(c), ZF(c)) EXCEPT !.cnt = 0]          \* state during cycle 0 (after the first edge)
TInit == l = 2 /\ cfg = Cfg0 /\ d = Start(Cfg0) /\ bad = {} /\ nf = 0
TNext == /\ l <= NLines
         /\ l' = l + 1
         /\ LET e == Trace[l] IN
            IF e.k = "NEW" THEN cfg' = e /\ d' = Start(e) /\ bad' = bad /\ nf' = 0
            ELSE LET P == cfg.P  r == cfg.ratio IN
                 IF e.k = "F"
                 THEN LET d1 == [d EXCEPT !.fin = e.fin]
                          m1 == {<<l, "MODEL-DRIFT", "fast cmd", p, e.cmd[p], FastCmd(P, r, "none", d, p)>> :
                                    p \in {q \in 1 .. P : e.cmd[q] # FastCmd(P, r, "none", d, q)}}
                          m2 == {<<l, "MODEL-DRIFT", "fast wr", p, e.wr[p], FastWr(P, r, d, p)>> :
                                    p \in {q \in 1 .. P : e.wr[q] # FastWr(P, r, d, q)}}
                      IN /\ cfg' = cfg /\ nf' = nf + 1
                         /\ bad' = IF Cardinality(bad) > 20 \/ nf < r THEN bad ELSE bad \cup m1 \cup m2
                         /\ d' = IF Aligned(r, d) THEN d1 ELSE Edge(P, r, cfg.wd, "none", d1, d1.sin, d1.fin)
                 ELSE LET d1 == [d EXCEPT !.sin = [cmd |-> e.cmd, wr |-> e.wr]]
                          m3 == {<<l, "MODEL-DRIFT", "slow rd", k, e.rd[k], SlowRd(P, r, cfg.rd, "none", d, k)>> :
                                    k \in {q \in 1 .. P * r : e.rd[q] # SlowRd(P, r, cfg.rd, "none", d, q)}}
                      IN /\ cfg' = cfg /\ nf' = nf
                         /\ bad' = IF Cardinality(bad) > 20 THEN bad ELSE bad \cup m3
                         /\ d' = Edge(P, r, cfg.wd, "none", d1, d1.sin, d1.fin)
TSpec == TInit /\ [][TNext]_vars
AtEnd == (l = NLines + 1) => WriteVerdict(l - 1, bad, [lines |-> NLines])
====
