---- MODULE D_Axi2Native ----
(* Design-level model of litedram/frontend/axi.py (LiteDRAMAXI2NativeW + LiteDRAMAXI2NativeR + round-robin arbiter),
   one TLA+ action (Tick) per clock edge; registers are variables, combinational signals are LET definitions named
   after the code.  Library blocks modelled as in their sources: stream.Buffer (PipeValid), AXIBurst2Beat (beat counter),
   stream.SyncFIFO(buffered=True) = Migen SyncFIFOBuffered (non-fwft FIFO of `D` words + output register => D+1 words),
   stream.SyncFIFO = fwft FIFO of D words (a push into a full FIFO is LOST: nobody looks at sink.ready of id_buffer /
   resp_buffer in the code), Migen RoundRobin(2, SP_CE).  Signal(max=D+1) registers wrap modulo LevelMod.
   Not modelled: byte strobes and the read-modify-write FSM (with_read_modify_write=False), address arithmetic of
   AXIBurst2Beat (checked separately in MC_AxiB2B against R_AxiMem!BeatAddr); a beat is identified by its tag.

   Environment (everything the property quantifies over, nondeterministic):
     AXI master: NW write bursts / NR read bursts (IDs = burst numbers), lengths chosen freely <= MaxLen; VALID held until
       READY; W beats in AW order but independent of the AW channel (W may lead AW by up to WLead bursts); BREADY/RREADY
       arbitrary; at most WMaxOut write bursts without a response (issuing capability).
     native side (pulse semantics of the crossbar): cmd.ready arbitrary while fewer than MaxOut commands wait for their
       data phase; data phases in command order, not earlier than Lmin cycles after the accept; wdata.ready / rdata.valid
       are one-cycle pulses regardless of wdata.valid / rdata.ready.
   The memory is a tiny word array so that the same requirement monitor as for the real code (R_AxiMem!AxiStep) can
   observe the model: obs is fed every handshake of the cycle; ObsOk == obs.bad = {} is the refinement invariant.
   Logical time `now` advances only in cycles with an event, which preserves every before/after relation R_AxiMem uses
   and keeps the state space finite. *)
EXTENDS Integers, Sequences, FiniteSets, TLC
CONSTANTS D, NW, NR, MaxLen, Lmin, MaxOut, WMaxOut, WLead, Observe, Bug, Fix
R == INSTANCE R_AxiMem

\* Fix = "none": the code as it is.  Fix = "proposed": the patch in /verif/.work/C09_fix.diff -- w_buffer_level one bit wider
\* (Signal(max=D+2): w_buffer holds D+1 words) and a new burst only starts while id_buffer.level + resp_buffer.level < D.
LevelTop == IF Fix = "proposed" THEN D + 1 ELSE D
LevelMod == CHOOSE m \in {2, 4, 8, 16, 32, 64} : m > LevelTop /\ m \div 2 <= LevelTop      \* Signal(max=n+1) has bits_for(n) bits
RLevelMod == CHOOSE m \in {2, 4, 8, 16, 32, 64} : m > D /\ m \div 2 <= D             \* r_buffer_level: Signal(max=D+1)
NWords == MaxLen + 1
OCfg == [nb |-> 1, base |-> 0, nwords |-> NWords]
Tag(b, i) == b * 16 + i                \* identity (and data byte) of beat i of write burst b / read burst b
TagB(t) == t \div 16
TagI(t) == t % 16

VARIABLES
  \* ---- DUT registers, write path
  awb,      \* aw_buffer: 0 = empty, else number of the write burst held
  wbc,      \* aw_burst2beat.beat_count
  wfi, wfo, \* w_buffer: inner FIFO (sequence of tags), output register (0 = not readable)
  idq,      \* id_buffer (sequence of burst ids)
  rsq,      \* resp_buffer
  wlvl,     \* w_buffer_level register
  \* ---- DUT registers, read path
  arb, rbc, \* ar_buffer, ar_burst2beat.beat_count
  rfi, rfo, \* r_buffer: inner FIFO / output register; entries = data bytes
  rlvl,     \* r_buffer_level
  ridq,     \* read id_buffer: sequence of <<id, last>>
  gr,       \* arbiter.grant (0 = write path, 1 = read path)
  \* ---- AXI master
  wlen, rlen,   \* chosen burst lengths (AxLEN)
  awn, awv, awt0,   \* AW handshakes so far; AWVALID; logical time of assertion
  wb, wi, wv,   \* W channel: current burst, beat, WVALID
  nbr,          \* B responses received
  arn, arv, art0,
  \* ---- native memory
  mq,       \* accepted commands waiting for their data phase: [we, a, tag, age]
  mem,      \* word -> byte
  \* ---- ghosts / observer
  wtrue,    \* true number of write commands whose data has not been taken (what w_buffer_level should hold)
  nwd,      \* write data beats taken by the memory
  now, obs, bad,
  nrr,      \* R beats received by the master
  io        \* the environment's free choices of the last tick (only for stimulus extraction; not part of VIEW)

vars == <<awb, wbc, wfi, wfo, idq, rsq, wlvl, arb, rbc, rfi, rfo, rlvl, ridq, gr, wlen, rlen, awn, awv, awt0, wb, wi, wv, nbr,
          arn, arv, art0, mq, mem, wtrue, nwd, now, obs, bad, nrr, io>>
View == <<awb, wbc, wfi, wfo, idq, rsq, wlvl, arb, rbc, rfi, rfo, rlvl, ridq, gr, wlen, rlen, awn, awv, awt0, wb, wi, wv, nbr,
          arn, arv, art0, mq, mem, wtrue, nwd, now, obs, bad, nrr>>

Init ==
  /\ awb = 0 /\ wbc = 0 /\ wfi = <<>> /\ wfo = 0 /\ idq = <<>> /\ rsq = <<>> /\ wlvl = 0
  /\ arb = 0 /\ rbc = 0 /\ rfi = <<>> /\ rfo = 0 - 1 /\ rlvl = 0 /\ ridq = <<>> /\ gr = 0
  /\ wlen \in [1 .. NW -> 0 .. MaxLen] /\ rlen \in [1 .. NR -> 0 .. MaxLen]
  /\ awn = 0 /\ awv = FALSE /\ awt0 = 0 /\ wb = 1 /\ wi = 0 /\ wv = FALSE /\ nbr = 0 /\ arn = 0 /\ arv = FALSE /\ art0 = 0
  /\ mq = <<>> /\ mem = [a \in 0 .. NWords - 1 |-> 0]
  /\ wtrue = 0 /\ nwd = 0 /\ now = 1 /\ bad = {} /\ nrr = 0
  /\ io = [cmdrdy |-> FALSE, bready |-> FALSE, rready |-> FALSE, pulse |-> FALSE]
  /\ obs = [R!InitAxi(OCfg) EXCEPT !.init = [a \in 0 .. NWords - 1 |-> <<0>>]]

BeatsBefore(b) == LET RECURSIVE S(_)
                      S(k) == IF k = 0 THEN 0 ELSE S(k - 1) + wlen[k] + 1
                  IN S(b)

RECURSIVE Fold(_, _)
Fold(s, evs) == IF evs = <<>> THEN [s |-> s, bad |-> {}]
                ELSE LET r == R!AxiStep(OCfg, s, Head(evs))
                         q == Fold(r.s, Tail(evs))
                     IN [s |-> q.s, bad |-> r.bad \cup q.bad]

\* one clock edge.  cmdrdy, bready, rready: free inputs of this cycle; pulse: the memory strobes the data phase of its oldest
\* command (pw / pr); nawv, nwv, narv: the master's VALIDs of the next cycle
Tick(cmdrdy, bready, rready, pulse) ==
  LET hd == IF mq = <<>> THEN [we |-> FALSE, a |-> 0, tag |-> 0, age |-> 0] ELSE Head(mq)
      pw == pulse /\ hd.we
      pr == pulse /\ ~hd.we
      \* ------------------------------------------------------------------ write path, combinational
      aw_valid == awb # 0                         \* ax_beat.valid = ax_burst.valid | ~first
      aw_first == wbc = 0
      aw_last  == awb # 0 /\ wbc = wlen[awb]
      wlevel   == Len(wfi) + (IF wfo # 0 THEN 1 ELSE 0)            \* w_buffer.level
      can_write == IF Bug = "can_write_ge" THEN wlevel >= wlvl /\ wlevel > 0
                   ELSE wlevel > wlvl /\ (Fix = "proposed" => ~aw_first \/ Len(idq) + Len(rsq) < D)
      wreq == aw_valid /\ can_write               \* write.cmd_request
      \* ------------------------------------------------------------------ read path, combinational
      ar_valid == arb # 0
      ar_last  == arb # 0 /\ rbc = rlen[arb]
      can_read == IF Bug = "can_read_le" THEN rlvl <= D ELSE rlvl # D
      rreq == ar_valid /\ can_read
      \* ------------------------------------------------------------------ native command
      wcmd == wreq /\ gr = 0
      rcmd == rreq /\ gr = 1
      cmd_valid == wcmd \/ rcmd
      cmd_last == IF wcmd THEN aw_last ELSE ar_last
      cmd_acc == cmd_valid /\ cmdrdy
      aw_ready == wcmd /\ cmdrdy
      ar_ready == rcmd /\ cmdrdy
      ce == ~cmd_valid \/ (cmdrdy /\ cmd_last)
      \* ------------------------------------------------------------------ write data
      wqueue == cmd_acc /\ wcmd                                     \* w_buffer_queue
      wsend == wlvl # 0                                             \* w_buffer_send (fix 705be07: not in the command's own cycle)
      wd_valid == wfo # 0 /\ wsend                                  \* port.wdata.valid
      wsrc_ready == pw /\ wsend                                     \* w_buffer.source.ready
      wdeq == wfo # 0 /\ wsrc_ready                                 \* w_buffer_dequeue
      wdeq_last == wdeq /\ TagI(wfo) = wlen[TagB(wfo)]
      w_ready == Len(wfi) # D                                       \* axi.w.ready = w_buffer.sink.ready
      w_hs == wv /\ w_ready
      wtag == Tag(wb, wi)
      inner_re == wfi # <<>> /\ (wfo = 0 \/ wsrc_ready)
      \* ------------------------------------------------------------------ AW channel / aw_buffer
      awsrc_ready == aw_ready /\ aw_last                            \* ax_burst.ready
      awsink_ready == awb = 0 \/ awsrc_ready
      aw_hs == awv /\ awsink_ready
      \* ------------------------------------------------------------------ id / resp FIFOs (write)
      id_push == aw_valid /\ aw_first /\ aw_ready
      id_pop == wdeq_last /\ idq # <<>>
      rs_push == IF Bug = "resp_on_cmd" THEN wqueue /\ aw_last ELSE wdeq_last
      rs_id == IF Bug = "resp_on_cmd" THEN awb ELSE IF idq = <<>> THEN 0 - 1 ELSE Head(idq)      \* stale word when empty
      b_valid == rsq # <<>>
      b_hs == b_valid /\ bready
      \* ------------------------------------------------------------------ read data path
      rsink_ready == Len(rfi) # D
      r_push == pr /\ rsink_ready
      r_valid == rfo # 0 - 1
      r_hs == r_valid /\ rready
      rqueue == cmd_acc /\ rcmd
      rinner_re == rfi # <<>> /\ (~r_valid \/ rready)
      rid_push == ar_valid /\ ar_ready
      arsrc_ready == ar_ready /\ ar_last
      arsink_ready == arb = 0 \/ arsrc_ready
      ar_hs == arv /\ arsink_ready
      \* ------------------------------------------------------------------ memory
      rdval == mem[hd.a]
      mq1 == IF pw \/ pr THEN Tail(mq) ELSE mq
      mq2 == [k \in 1 .. Len(mq1) |-> [mq1[k] EXCEPT !.age = IF @ < Lmin THEN @ + 1 ELSE @]]
      newcmd == [we |-> wcmd, a |-> IF wcmd THEN wbc ELSE rbc, tag |-> IF wcmd THEN Tag(awb, wbc) ELSE Tag(arb, rbc), age |-> 1]
      \* ------------------------------------------------------------------ observer events of this cycle
      anyev == pw \/ pr \/ aw_hs \/ w_hs \/ ar_hs \/ b_hs \/ r_hs
      evs == (IF cmd_acc THEN <<[c |-> "CMD", we |-> wcmd, t |-> now]>> ELSE <<>>)
             \o (IF pw /\ wd_valid THEN <<[c |-> "WDATA", t |-> now]>> ELSE <<>>)
             \o (IF pw /\ ~wd_valid THEN <<[c |-> "WDROP", t |-> now]>> ELSE <<>>)
             \o (IF pr /\ ~rsink_ready THEN <<[c |-> "RDROP", t |-> now]>> ELSE <<>>)
             \o (IF aw_hs THEN <<[c |-> "AW", id |-> awn + 1, addr |-> 0, len |-> wlen[awn + 1], size |-> 0, burst |-> 1, t |-> now, t0 |-> awt0]>> ELSE <<>>)
             \o (IF w_hs THEN <<[c |-> "W", d |-> <<wtag>>, s |-> <<1>>, last |-> IF wi = wlen[wb] THEN 1 ELSE 0, t |-> now]>> ELSE <<>>)
             \o (IF ar_hs THEN <<[c |-> "AR", id |-> arn + 1, addr |-> 0, len |-> rlen[arn + 1], size |-> 0, burst |-> 1, t |-> now, t0 |-> art0]>> ELSE <<>>)
             \o (IF b_hs THEN <<[c |-> "B", id |-> Head(rsq), resp |-> 0, t |-> now]>> ELSE <<>>)
             \o (IF r_hs THEN <<[c |-> "R", id |-> IF ridq = <<>> THEN 0 - 1 ELSE Head(ridq)[1], d |-> <<rfo>>,
                                 last |-> IF ridq = <<>> THEN 0 ELSE Head(ridq)[2], resp |-> 0, t |-> now]>> ELSE <<>>)
      o == IF Observe THEN Fold(obs, evs) ELSE [s |-> obs, bad |-> {}]
      \* ------------------------------------------------------------------ design-level clauses (named after the anchors)
      viol == (IF pw /\ ~wd_valid THEN {"command sent without buffered data (write data slot lost)"} ELSE {})
              \cup (IF pw /\ wd_valid /\ wfo # hd.tag THEN {"write data paired with the wrong command"} ELSE {})
              \cup (IF wd_valid /\ wtrue = 0 /\ ~wqueue THEN {"write data offered before its command"} ELSE {})
              \cup (IF pr /\ ~rsink_ready THEN {"read data returned without room in r_buffer"} ELSE {})
              \cup (IF id_push /\ Len(idq) = D THEN {"id_buffer overflow (write ID lost)"} ELSE {})
              \cup (IF rs_push /\ Len(rsq) = D THEN {"resp_buffer overflow (write response lost)"} ELSE {})
              \cup (IF rid_push /\ Len(ridq) = D THEN {"read id_buffer overflow"} ELSE {})
              \cup (IF wlvl # wtrue THEN {"w_buffer_level register does not hold the number of reserved words (wrapped)"} ELSE {})
              \cup (IF wtrue > wlevel THEN {"more write commands than buffered data"} ELSE {})
              \cup (IF rlvl > D THEN {"r_buffer_level above depth"} ELSE {})
              \cup (IF b_hs /\ Head(rsq) # nbr + 1 THEN {"B response with the wrong ID / order"} ELSE {})
              \cup (IF b_hs /\ Head(rsq) \in 1 .. NW /\ nwd + (IF pw /\ wd_valid THEN 1 ELSE 0) < BeatsBefore(Head(rsq)) THEN {"B response before the data reached the memory"} ELSE {})
  IN
  \* ---------------------------------------------------------------------- environment assumptions
  /\ \E nawv \in (IF awv /\ ~aw_hs THEN {TRUE}                                      \* AWVALID held until AWREADY
                  ELSE LET k == awn + (IF aw_hs THEN 1 ELSE 0)                      \* issuing capability of the master
                       IN IF k < NW /\ k - (nbr + (IF b_hs THEN 1 ELSE 0)) < WMaxOut THEN BOOLEAN ELSE {FALSE}) :
     \E nwv \in (IF wv /\ ~w_hs THEN {TRUE}                                         \* WVALID held until WREADY
                 ELSE LET b2 == IF w_hs /\ wi = wlen[wb] THEN wb + 1 ELSE wb
                      IN IF b2 <= NW /\ b2 <= awn + (IF aw_hs THEN 1 ELSE 0) + (IF nawv THEN 1 ELSE 0) + WLead THEN BOOLEAN ELSE {FALSE}) :
     \E narv \in (IF arv /\ ~ar_hs THEN {TRUE}                                      \* ARVALID held until ARREADY
                  ELSE IF arn + (IF ar_hs THEN 1 ELSE 0) < NR THEN BOOLEAN ELSE {FALSE}) :
         \* ---------------------------------------------------------------------- register updates
         /\ awb' = IF awsink_ready THEN (IF awv THEN awn + 1 ELSE 0) ELSE awb
         /\ wbc' = IF aw_valid /\ aw_ready THEN (IF aw_last THEN 0 ELSE wbc + 1) ELSE wbc
         /\ wfi' = LET a == IF inner_re THEN Tail(wfi) ELSE wfi IN IF w_hs THEN Append(a, wtag) ELSE a
         /\ wfo' = IF inner_re THEN Head(wfi) ELSE IF wsrc_ready THEN 0 ELSE wfo
         /\ idq' = LET a == IF id_pop THEN Tail(idq) ELSE idq IN IF id_push /\ Len(idq) # D THEN Append(a, awb) ELSE a
         /\ rsq' = LET a == IF b_hs THEN Tail(rsq) ELSE rsq IN IF rs_push /\ Len(rsq) # D THEN Append(a, rs_id) ELSE a
         /\ wlvl' = IF wqueue THEN (IF ~wdeq THEN (wlvl + 1) % LevelMod ELSE wlvl) ELSE IF wdeq THEN (wlvl + LevelMod - 1) % LevelMod ELSE wlvl
         /\ wtrue' = wtrue + (IF wqueue THEN 1 ELSE 0) - (IF wdeq THEN 1 ELSE 0)
         /\ arb' = IF arsink_ready THEN (IF arv THEN arn + 1 ELSE 0) ELSE arb
         /\ rbc' = IF ar_valid /\ ar_ready THEN (IF ar_last THEN 0 ELSE rbc + 1) ELSE rbc
         /\ rfi' = LET a == IF rinner_re THEN Tail(rfi) ELSE rfi IN IF r_push THEN Append(a, rdval) ELSE a
         /\ rfo' = IF rinner_re THEN Head(rfi) ELSE IF rready THEN 0 - 1 ELSE rfo
         /\ rlvl' = IF rqueue THEN (IF ~r_hs THEN (rlvl + 1) % RLevelMod ELSE rlvl) ELSE IF r_hs THEN (rlvl + RLevelMod - 1) % RLevelMod ELSE rlvl
         /\ ridq' = LET a == IF r_hs /\ ridq # <<>> THEN Tail(ridq) ELSE ridq
                    IN IF rid_push /\ Len(ridq) # D THEN Append(a, <<arb, IF ar_last THEN 1 ELSE 0>>) ELSE a
         /\ gr' = IF ce THEN (IF gr = 0 /\ rreq THEN 1 ELSE IF gr = 1 /\ wreq THEN 0 ELSE gr) ELSE gr
         \* ---------------------------------------------------------------------- master
         /\ wlen' = wlen /\ rlen' = rlen
         /\ awn' = IF aw_hs THEN awn + 1 ELSE awn
         /\ awv' = nawv
         /\ awt0' = IF nawv /\ (~awv \/ aw_hs) THEN (IF anyev THEN now + 1 ELSE now) ELSE awt0
         /\ wb' = IF w_hs /\ wi = wlen[wb] THEN wb + 1 ELSE wb
         /\ wi' = IF w_hs THEN (IF wi = wlen[wb] THEN 0 ELSE wi + 1) ELSE wi
         /\ wv' = nwv
         /\ nbr' = IF b_hs THEN nbr + 1 ELSE nbr
         /\ arn' = IF ar_hs THEN arn + 1 ELSE arn
         /\ arv' = narv
         /\ art0' = IF narv /\ (~arv \/ ar_hs) THEN (IF anyev THEN now + 1 ELSE now) ELSE art0
         \* ---------------------------------------------------------------------- memory
         /\ mq' = IF cmd_acc THEN Append(mq2, newcmd) ELSE mq2
         /\ mem' = IF pw /\ wd_valid THEN [mem EXCEPT ![hd.a] = wfo] ELSE mem
         /\ nwd' = nwd + (IF pw /\ wd_valid THEN 1 ELSE 0)
         /\ nrr' = nrr + (IF r_hs THEN 1 ELSE 0)
         /\ io' = [cmdrdy |-> cmdrdy, bready |-> bready, rready |-> rready, pulse |-> pulse]
         \* ---------------------------------------------------------------------- observer
         /\ now' = IF anyev THEN now + 1 ELSE now
         /\ obs' = o.s
         /\ bad' = bad \cup viol \cup {x[1] : x \in o.bad}

\* the environment's choices (the constraints are the assumptions the property grants; they are conjuncts of Tick)
Next == \E cmdrdy \in (IF Len(mq) < MaxOut THEN BOOLEAN ELSE {FALSE}),
           bready \in (IF rsq # <<>> THEN BOOLEAN ELSE {FALSE}),          \* READY without VALID changes nothing: not branched on
           rready \in (IF rfo # 0 - 1 THEN BOOLEAN ELSE {FALSE}),
           pulse \in (IF mq # <<>> /\ Head(mq).age >= Lmin THEN BOOLEAN ELSE {FALSE}) :
             Tick(cmdrdy, bready, rready, pulse)
Spec == Init /\ [][Next]_vars

\* ---------------------------------------------------------------------------------------------- invariants
DesignOk == bad = {}                    \* every named clause (design-level and R_AxiMem observer)
TypeOk == /\ Len(wfi) <= D /\ Len(rfi) <= D /\ Len(idq) <= D /\ Len(rsq) <= D /\ Len(ridq) <= D
          /\ wlvl \in 0 .. LevelMod - 1 /\ rlvl \in 0 .. RLevelMod - 1 /\ Len(mq) <= MaxOut
WReservation == wtrue <= Len(wfi) + (IF wfo # 0 THEN 1 ELSE 0)           \* command only when data is buffered
RReservation == rlvl <= D /\ Len(rfi) + (IF rfo # 0 - 1 THEN 1 ELSE 0) <= rlvl   \* returned data always has room
\* vacuity guard: cover goals, checked as invariants that TLC must VIOLATE (proves the situation is reachable)
CoverWFull == ~(Len(wfi) = D /\ wfo # 0)                       \* w_buffer holds D+1 words
CoverRLimit == ~(rlvl = D /\ arb # 0)                          \* read reservation limit blocks a pending read beat
CoverSwitchMidBurst == ~(gr = 1 /\ awb # 0 /\ wbc # 0)         \* arbiter on the read path in the middle of a write burst
CoverRespFull == ~(Len(rsq) = D)                               \* resp_buffer full
CoverIdFull == ~(Len(idq) = D)                                 \* id_buffer full
CoverWLead == ~(wv /\ awn + (IF awv THEN 1 ELSE 0) < wb)       \* W data offered before its AW
Done == awn = NW /\ wb = NW + 1 /\ arn = NR /\ nbr = NW /\ mq = <<>> /\ ridq = <<>> /\ rsq = <<>>
CoverDone == ~Done                                             \* all traffic completes (every handshake kind is reachable)
====
