---- MODULE MC_EccGen ----
(* Spec -> code direction for C15: TLC enumerates the fault domain named by the property (all single and all double
   flip positions of one ECC word, operators of R_Ecc) and writes it out; the harness applies every element to the
   real netlist, and T_Ecc checks afterwards (CoverS / CoverP) that the records cover the same operators.
   IOEnv: K (data bits of an ECC word), PLO, PHI (pairs whose smaller position lies in PLO..PHI), OUT_FILE. *)
EXTENDS Integers, Sequences, FiniteSets, TLC, Json, IOUtils, R_Ecc
K == atoi(IOEnv.K)
PLO == atoi(IOEnv.PLO)
PHI == atoi(IOEnv.PHI)
N1 == CodeBits(K)
ASSUME JsonSerialize(IOEnv.OUT_FILE, [n1 |-> N1, singles |-> Singles(N1), pairs |-> Pairs(N1, PLO, PHI)])
VARIABLE x
Init == x = 0
Next == UNCHANGED x
====
