SPECIFICATION MSpec
CONSTANTS tREFI = 12
 N = 3
 tRP = 2
 tRFC = 3
 WithZq = TRUE
 tZQCS = 2
 ZqPeriod = 53
 DMax = 4
 ZqLatch = TRUE
 TimerCycles = 12
INVARIANT Legal
VIEW View
CHECK_DEADLOCK FALSE
