---- MODULE R_PortMem ----
(* Requirement (C01, reused by C07/C08/C12/C13/C14): memory semantics of native ports as a TOTAL monitor.
   Linearisation point of a command = its acceptance (CMD event).  Byte enables travel with the data beat, so a
   write's effect is known when its WDATA beat is seen; per port the k-th WDATA belongs to the k-th write command
   and the k-th RDATA to the k-th read command ("exactly one word, in command order").
   Events: [c |-> "CMD", p, we, a]   [c |-> "WDATA", p, d, m]   [c |-> "RDATA", p, d]
           [c |-> "DUMP", n]   (number of backing-store bursts that differ from their initial contents)
           [c |-> "END"]
   d = sequence of bytes, m = sequence of 0/1 byte enables.  Initial contents are "whatever the location first
   returns" (map-agnostic) but must be stable, and with cfg.uniq distinct addresses must show distinct patterns. *)
EXTENDS Integers, Sequences, FiniteSets, TLC
PPorts(cfg) == 0 .. cfg.nports - 1
InitMem(cfg) == [ hist |-> <<>>,        \* address -> sequence of write ids (function with growing domain)
                  wval |-> <<>>,        \* write id -> [d, m]
                  init |-> <<>>,        \* address -> first-seen initial bytes (-1 = not yet seen)
                  wq   |-> [p \in PPorts(cfg) |-> <<>>],
                  rq   |-> [p \in PPorts(cfg) |-> <<>>],
                  nid  |-> 1 ]
PGet(f, k, dflt) == IF k \in DOMAIN f THEN f[k] ELSE dflt
PPut(f, k, v) == [x \in (DOMAIN f) \cup {k} |-> IF x = k THEN v ELSE f[x]]

RECURSIVE LastWriter(_, _, _, _)
LastWriter(wval, snap, i, j) == IF i = 0 THEN 0
                                ELSE IF wval[snap[i]].m[j] = 1 THEN snap[i] ELSE LastWriter(wval, snap, i - 1, j)

MemStep(cfg, s, e) ==     \* returns [s |-> new state, bad |-> set of diagnostics]
  CASE e.c = "CMD" ->
        LET p == e.p IN
        IF e.we THEN [s |-> [s EXCEPT !.hist = PPut(s.hist, e.a, Append(PGet(s.hist, e.a, <<>>), s.nid)),
                                    !.wq[p] = Append(s.wq[p], s.nid), !.nid = s.nid + 1], bad |-> {}]
        ELSE [s |-> [s EXCEPT !.rq[p] = Append(s.rq[p], [a |-> e.a, snap |-> PGet(s.hist, e.a, <<>>)])], bad |-> {}]
    [] e.c = "WDATA" ->
        LET p == e.p IN
        IF s.wq[p] = <<>> THEN [s |-> s, bad |-> {<<"write data taken without a pending write command", p>>}]
        ELSE [s |-> [s EXCEPT !.wval = PPut(s.wval, Head(s.wq[p]), [d |-> e.d, m |-> e.m]), !.wq[p] = Tail(s.wq[p])], bad |-> {}]
    [] e.c = "RDATA" ->
        LET p == e.p IN
        IF s.rq[p] = <<>> THEN [s |-> s, bad |-> {<<"read data without a pending read command", p>>}]
        ELSE LET r == Head(s.rq[p])
                 unbound == {i \in 1..Len(r.snap) : r.snap[i] \notin DOMAIN s.wval}
                 nb == Len(e.d)
                 writer == [j \in 1..nb |-> IF unbound = {} THEN LastWriter(s.wval, r.snap, Len(r.snap), j) ELSE 0]
                 needInit == \E j \in 1..nb : writer[j] = 0
                 old == PGet(s.init, r.a, [j \in 1..nb |-> 0 - 1])
                 ini == [j \in 1..nb |-> IF old[j] = 0 - 1 THEN e.d[j] ELSE old[j]]      \* first-seen binds
                 expect == [j \in 1..nb |-> IF writer[j] = 0 THEN ini[j] ELSE s.wval[writer[j]].d[j]]
                 s2 == [s EXCEPT !.rq[p] = Tail(s.rq[p]),
                                 !.init = IF needInit /\ unbound = {}
                                          THEN PPut(s.init, r.a, [j \in 1..nb |-> IF writer[j] = 0 THEN ini[j] ELSE old[j]]) ELSE s.init]
             IN IF unbound # {} THEN [s |-> s2, bad |-> {<<"read returned before the data of an earlier write was taken", p, r.a>>}]
                ELSE IF expect # e.d THEN [s |-> s2, bad |-> {<<"wrong read data", p, r.a, e.d, expect>>}]
                ELSE [s |-> s2, bad |-> {}]
    [] e.c = "WDROP" -> [s |-> s, bad |-> {<<"write-data strobe while no write data is pending", e.p>>}]
    [] e.c = "DUMP" ->
        LET written == {a \in DOMAIN s.hist : \E i \in 1..Len(s.hist[a]) :
                           s.hist[a][i] \in DOMAIN s.wval /\ \E j \in DOMAIN s.wval[s.hist[a][i]].m : s.wval[s.hist[a][i]].m[j] = 1}
        IN [s |-> s, bad |-> IF e.n > Cardinality(written)
                             THEN {<<"more storage locations changed than addresses written", e.n, Cardinality(written)>>} ELSE {}]
    [] e.c = "END" ->
        [s |-> s, bad |-> {<<"command never completed", q>> : q \in {x \in PPorts(cfg) : s.wq[x] # <<>> \/ s.rq[x] # <<>>}}
                          \cup (IF cfg.uniq /\ \E a1, a2 \in DOMAIN s.init : a1 # a2 /\ s.init[a1] = s.init[a2]
                                                   /\ (\A j \in DOMAIN s.init[a1] : s.init[a1][j] # 0 - 1)
                                THEN {<<"two addresses show the same initial pattern">>} ELSE {})]
    [] OTHER -> [s |-> s, bad |-> {}]
====
