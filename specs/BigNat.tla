---- MODULE BigNat ----
(* Exact natural-number arithmetic beyond TLC's 32-bit integers: little-endian limbs in base 10^4.
   Only what the timing requirements need: n * k, n + m, floor/ceil(n / 10^9), comparison, back to Int. *)
EXTENDS Integers, Sequences
Base == 10000
RECURSIVE FromInt(_)
FromInt(n) == IF n < Base THEN <<n>> ELSE <<n % Base>> \o FromInt(n \div Base)

RECURSIVE MulC(_, _, _)          \* x * k + carry,  0 <= k < 200000
MulC(x, k, c) == IF x = <<>> THEN (IF c = 0 THEN <<>> ELSE FromInt(c))
                 ELSE LET v == Head(x) * k + c IN <<v % Base>> \o MulC(Tail(x), k, v \div Base)
MulSmall(x, k) == MulC(x, k, 0)

RECURSIVE AddC(_, _, _)
AddC(x, y, c) == IF x = <<>> /\ y = <<>> THEN (IF c = 0 THEN <<>> ELSE <<c>>)
                 ELSE LET a == IF x = <<>> THEN 0 ELSE Head(x)
                          b == IF y = <<>> THEN 0 ELSE Head(y)
                          v == a + b + c
                      IN <<v % Base>> \o AddC(IF x = <<>> THEN <<>> ELSE Tail(x), IF y = <<>> THEN <<>> ELSE Tail(y), v \div Base)
Add(x, y) == AddC(x, y, 0)

\* x * n for any 0 <= n < 2^31 (split n into three digits of base 10^4... two suffice up to 10^8, three up to 2^31)
BnShift(x, limbs) == IF x = <<>> THEN <<>> ELSE [i \in 1..limbs |-> 0] \o x
Mul(x, n) == Add(Add(MulSmall(x, n % Base), BnShift(MulSmall(x, (n \div Base) % Base), 1)),
                 BnShift(MulSmall(x, n \div (Base * Base)), 2))

RECURSIVE DivS(_, _, _)          \* big-endian long division by small d; returns big-endian quotient limbs
DivS(xbe, d, r) == IF xbe = <<>> THEN <<>>
                   ELSE LET v == r * Base + Head(xbe) IN <<v \div d>> \o DivS(Tail(xbe), d, v % d)
Rev(s) == [i \in 1..Len(s) |-> s[Len(s) + 1 - i]]
DivSmall(x, d) == Rev(DivS(Rev(x), d, 0))          \* floor(x / d), 1 <= d < 200000
DropLimbs(x, n) == IF Len(x) <= n THEN <<>> ELSE SubSeq(x, n + 1, Len(x))
FloorDiv1e9(x) == DivSmall(DropLimbs(x, 2), 10)
CeilDiv1e9(x) == FloorDiv1e9(Add(x, <<9999, 9999, 9>>))       \* + 999 999 999

RECURSIVE ToIntBE(_, _)
ToIntBE(xbe, acc) == IF xbe = <<>> THEN acc ELSE ToIntBE(Tail(xbe), acc * Base + Head(xbe))
ToInt(x) == ToIntBE(Rev(x), 0)               \* caller guarantees the value fits

\* number of clock periods of a clock of f kHz needed to cover ps picoseconds: ceil(ps * f / 10^9)
CeilCycles(ps, fkhz) == ToInt(CeilDiv1e9(Mul(FromInt(ps), fkhz)))
\* largest number of periods not exceeding n * ps picoseconds: floor(n * ps * f / 10^9)
FloorCyclesN(n, ps, fkhz) == ToInt(FloorDiv1e9(Mul(Mul(FromInt(ps), fkhz), n)))
====
