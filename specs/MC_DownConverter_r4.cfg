SPECIFICATION Spec
VIEW View
CONSTANTS
  R = 4
  NA = 2
  MaxCmds = 3
  Lmin = 3
  Lmax = 4
  Bug = "none"
  Wes = {TRUE, FALSE}
  Masks = {15, 5, 8}
  Stall = TRUE
INVARIANTS ReqOK FinalOK TypeOK
CHECK_DEADLOCK FALSE
