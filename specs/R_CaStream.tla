---- MODULE R_CaStream ----
(* Requirement C20, stream part: which DFI commands must appear on the CS/CA pins, where, and which may be suppressed.
   cfg = [kind \in {"lpddr4","lpddr5"}, nph (CK slots per controller cycle = DFI phases), span (CK slots one DFI command
          occupies: 4 / 2), lat (controller cycles between the DFI command and its first pad slot, the PHY's advertised
          command path latency), masked (DFI WR is sent as MASK WRITE)]
   Time of pad slot k of controller cycle n: T = n*nph + k.  A DFI command on phase p of cycle m owns the window
   T0 .. T0+span-1 with T0 = (m+lat)*nph + p  ("the slot corresponding to its DFI phase").
   Rule (total monitor, slots walked in time order):
     - the command is IN FLIGHT on the pads from T0 to T0+span-1 if it was actually sent;
     - a presented command whose T0 lies inside the window of a command in flight must NOT disturb it (it is suppressed);
     - every other presented command must be sent: its window decodes (JEDEC decoder) to exactly the wanted operation;
     - outside the windows of sent commands CS stays low.
   Every presented command is treated as occupying all `span` slots, also the single-small-command ones whose first
   half is DESELECT (lenient reading: the PHY defines the command as the pair DESELECT + command).
   State st = [busyEnd, lastSupp, nEmit, nSupp, nMiss]; SlotStep returns [st, bad]. *)
EXTENDS Integers, Sequences, FiniteSets, R_Lpddr4Ca, R_Lpddr5Ca

CaFar == 0 - 1000
InitCa == [busyEnd |-> CaFar, lastSupp |-> CaFar, nEmit |-> 0, nSupp |-> 0, nMiss |-> 0]

CaPresented(cfg, d) == IF cfg.kind = "lpddr4" THEN L4Presented(d) ELSE L5Presented(d)
CaWant(cfg, d) == IF cfg.kind = "lpddr4" THEN {L4Want(cfg.masked, d)} ELSE L5Want(cfg.masked, d)
CaDecode(cfg, w) == IF cfg.kind = "lpddr4" THEN L4Decode(w) ELSE L5Decode(w)

\* --- the suppression rule, shared with the design model D_CmdPipeline ---
CaBusy(st, T) == T < st.busyEnd
CaSent(cfg, st, T) == [st EXCEPT !.busyEnd = T + cfg.span, !.nEmit = @ + 1]
CaSuppressed(st, T) == [st EXCEPT !.lastSupp = T, !.nSupp = @ + 1]
CaMissing(st, T) == [st EXCEPT !.lastSupp = T, !.nMiss = @ + 1]
\* the known cheap-check pattern: the command is free but follows (within span-1 slots) a command that was not sent
CaAfterSupp(cfg, st, T) == T - st.lastSupp <= cfg.span - 1

\* one pad slot: d = the DFI command owning T0 = T (or <<>> if none); win = the span slots starting at T
\* before = another presented command started less than span slots earlier; crowded = ... earlier or later (they only
\* refine the NAME of a broken clause, so that defects of the overlap handling can be told from encoding defects)
SlotStep(cfg, st, T, d, win, where, before, crowded) ==
  IF d = <<>> THEN
      IF ~CaBusy(st, T) /\ win[1].cs = 1
      THEN [st |-> st, bad |-> {<<IF before THEN "CS high from an overlapping command that had to be suppressed"
                                            ELSE "CS high outside any presented command">> \o where}]
      ELSE [st |-> st, bad |-> {}]
  ELSE IF CaBusy(st, T) THEN [st |-> CaSuppressed(st, T), bad |-> {}]
  ELSE LET got == CaDecode(cfg, win) want == CaWant(cfg, d) IN
       IF got \in want THEN [st |-> CaSent(cfg, st, T), bad |-> {}]
       ELSE IF got.op = "IDLE"
            THEN [st |-> CaMissing(st, T),
                  bad |-> {<<IF CaAfterSupp(cfg, st, T) THEN "command missing after a suppressed command"
                                                          ELSE "command missing">> \o where \o <<d.k>>}]
            ELSE [st |-> CaSent(cfg, st, T),
                  bad |-> {<<IF crowded THEN "wrong CA sequence among overlapping commands" ELSE "wrong CA sequence">>
                             \o where \o <<d.k, got, want>>}]

\* --- pad words -> slots ---
CaBitOf(x, i) == (x \div (2^i)) % 2
RECURSIVE CaWord(_, _, _)
CaWord(ca, i, line) == IF line > Len(ca) THEN 0 ELSE CaBitOf(ca[line], i) * (2^(line - 1)) + CaWord(ca, i, line + 1)
\* lpddr4: ca[line] bit k = slot k;  lpddr5 (nph = 1): ca[line] bit 0 = rising edge, bit 1 = falling edge
CaSlots(cfg, e) ==
  IF cfg.kind = "lpddr4" THEN [k \in 1..cfg.nph |-> [cs |-> CaBitOf(e.cs, k - 1), a |-> CaWord(e.ca, k - 1, 1), b |-> 0]]
  ELSE <<[cs |-> e.cs % 2, a |-> CaWord(e.ca, 0, 1), b |-> CaWord(e.ca, 1, 1)]>>
CaIdleSlots(cfg) == [k \in 1..cfg.nph |-> [cs |-> 0, a |-> 0, b |-> 0]]

\* --- cycle-level monitor.  m = [n, pp (slots of the previous cycle), dq (DFI lists of the last lat+1 cycles), st] ---
InitCaMon(cfg) == [n |-> 0, pp |-> CaIdleSlots(cfg), dq |-> [i \in 1..cfg.lat + 1 |-> <<>>], pd |-> <<>>, st |-> InitCa]

CaPhases(cfg, list) == {list[i].p : i \in {j \in 1..Len(list) : CaPresented(cfg, list[j])}}
RECURSIVE CaWalk(_, _, _, _, _, _)
CaWalk(cfg, both, lists, n, k, acc) ==      \* acc = [st, bad]; judges slot k of pad cycle n - 1; lists = <<previous, this, next>> DFI lists
  IF k = cfg.nph THEN acc
  ELSE LET cmds == lists[2]
           P == {i \in 1..Len(cmds) : cmds[i].p = k /\ CaPresented(cfg, cmds[i])}
           d == IF P = {} THEN <<>> ELSE cmds[CHOOSE i \in P : TRUE]
           win == [j \in 1..cfg.span |-> both[k + j]]
           before == (\E q \in CaPhases(cfg, cmds) : q < k /\ k - q < cfg.span)
                     \/ (\E q \in CaPhases(cfg, lists[1]) : k + cfg.nph - q < cfg.span)
           after == (\E q \in CaPhases(cfg, cmds) : q > k /\ q - k < cfg.span)
                    \/ (\E q \in CaPhases(cfg, lists[3]) : q + cfg.nph - k < cfg.span)
           r == SlotStep(cfg, acc.st, (n - 1) * cfg.nph + k, d, win, <<n - 1 - cfg.lat, k>>, before, before \/ after)
       IN CaWalk(cfg, both, lists, n, k + 1, [st |-> r.st, bad |-> acc.bad \cup r.bad])

\* e = [c |-> "CYC", d |-> <<[p, k, b, a], ...>>, cs, ca]
CaCycle(cfg, m, e) ==
  LET cur == CaSlots(cfg, e)
      next == IF Len(m.dq) >= 2 THEN m.dq[2] ELSE e.d
      r == CaWalk(cfg, m.pp \o cur, <<m.pd, m.dq[1], next>>, m.n, 0, [st |-> m.st, bad |-> {}])
  IN [m |-> [n |-> m.n + 1, pp |-> cur, dq |-> Tail(m.dq) \o <<e.d>>, pd |-> m.dq[1], st |-> r.st], bad |-> r.bad]

\* at the end the harness must have drained the pipeline (idle DFI for lat+1 cycles, idle pads in the last cycle)
CaEnd(cfg, m) == IF (\E i \in 1..Len(m.dq) : m.dq[i] # <<>>) \/ (\E k \in 1..cfg.nph : m.pp[k].cs = 1) \/ CaBusy(m.st, (m.n - 1) * cfg.nph)
                 THEN {<<"HARNESS: trace ended before the command pipeline drained">>} ELSE {}
====
