SPECIFICATION Spec
CONSTANTS
  NA = 3
  MAXB = 3
  MB = 2
  BES = {1}
  GAPS = TRUE
  COVER = TRUE
  LMIN = 1
  LMAX = 2
  STALL = 1
  WMAX = 16
  VAR = "gapfix"
INVARIANTS CoverAll
CHECK_DEADLOCK TRUE
