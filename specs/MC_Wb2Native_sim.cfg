SPECIFICATION Spec
CONSTANTS
  PATH = "narrow"
  R = 2
  NW = 2
  SELS = {0, 1}
  HOLD = TRUE
  VALS = 3
  COVER = TRUE
  LMIN = 1
  LMAX = 3
  STALL = 2
  WMAX = 0
  BUG = "none"
INVARIANTS NoClauseBroken
CHECK_DEADLOCK TRUE
