---- MODULE D_FifoMode ----
(* Design model of litedram/frontend/fifo.py: LiteDRAMFIFO with_bypass = the BYPASS / DRAM / PUMP_PRECONVERTER /
   DRAIN_POSTCONVERTER mode FSM with its word counters (dram_first, dram_cnt, dram_inc_mod, dram_dec_mod), the Pre- and
   Post-FIFO and the Pre (up) / Post (down) stream converters of ratio R.  One action per clock edge; the combinational
   network of the code is the LET block (later assignments of the code override earlier ones, as in Migen).
   The inner _LiteDRAMFIFO is replaced by what D_FifoCtrl establishes about it: a lossless, ordered FIFO of DCap wide
   words whose sink.ready may drop at any time (cmd.ready stalls) and whose head becomes visible after an arbitrary
   delay and then stays until taken.  Fix = TRUE models the proposed repair (/verif/.work/C13_fix.diff).
   Requirement: R_Stream kind "fifo" on the words entering the Pre-FIFO / leaving the Post-FIFO. *)
EXTENDS Integers, Sequences, FiniteSets, TLC, R_Stream
CONSTANTS R, PreDepth, PostDepth, DCap, Fix,
          Bug            \* "none" | "empty_off_by_one" | "no_upidle" (seeded model bugs, negative controls)
VARIABLES pre, post, demux, strobe, chunks, mux, dq, dvis, st, first, cnt, incm, decm, off, seq, obs, bad, inp, ev
vars == <<pre, post, demux, strobe, chunks, mux, dq, dvis, st, first, cnt, incm, decm, off, seq, obs, bad, inp, ev>>
View == <<pre, post, demux, strobe, chunks, mux, dq, dvis, st, first, cnt, incm, decm, off, seq, obs, bad>>

Pad == 255                                   \* the padding token pushed by PUMP_PRECONVERTER (sink data is 0 in the code)
K == PreDepth + PostDepth + R * (DCap + 2) + 3
OCfg == [kind |-> "fifo", nb |-> 1, depth |-> DCap, k |-> 0, base |-> 0, cap |-> 1000]
Mod(x) == x % R                               \* dram_inc_mod / dram_dec_mod are log2(R)-bit counters

Init == /\ pre = <<>> /\ post = <<>> /\ demux = 0 /\ strobe = FALSE /\ chunks = [i \in 0..(R - 1) |-> 0] /\ mux = 0
        /\ dq = <<>> /\ dvis = FALSE /\ st = "BYPASS" /\ first = 0 /\ cnt = 0 /\ incm = 0 /\ decm = 0
        /\ off \in BOOLEAN /\ seq = 0 /\ obs = InitStream(OCfg) /\ bad = {} /\ ev = <<>>
        /\ inp = [srcReady |-> FALSE, dRdy |-> FALSE, dShow |-> FALSE]

Tick(srcReady, dRdy, dShow, nextOff) ==
  LET preValid  == pre # <<>>
      preHead   == IF preValid THEN Head(pre) ELSE 0
      thresh    == Len(pre) >= R
      postRdy   == Len(post) < PostDepth
      flushing  == st \in {"PUMP", "DRAIN"}
      upIdle    == IF R = 1 THEN TRUE ELSE ~strobe
      empty     == first = 0 /\ (IF Bug = "empty_off_by_one" THEN cnt <= 1 ELSE cnt = 0)
                             /\ (IF Fix /\ Bug # "no_upidle" THEN upIdle ELSE TRUE)
      bypass    == st = "BYPASS"
      store     == st = "DRAM" /\ ~empty
      \* ---- down converter / post fifo side (ready chain from the output backwards)
      fixDrop   == Fix /\ flushing /\ decm = 0                       \* padding tokens are discarded (repair only)
      dnSrcRdy  == IF bypass THEN FALSE ELSE (IF fixDrop THEN TRUE ELSE postRdy)
      dnSinkRdy == IF R = 1 THEN dnSrcRdy ELSE (mux = R - 1 /\ dnSrcRdy)
      \* ---- up converter
      upSrcValid == IF R = 1 THEN (store /\ preValid) ELSE strobe
      dSinkRdy  == Len(dq) < DCap /\ dRdy
      dSinkValid == upSrcValid /\ ~(Fix /\ flushing)
      upSrcRdy  == IF flushing THEN dnSinkRdy ELSE dSinkRdy
      upSinkRdy == IF R = 1 THEN upSrcRdy ELSE (~strobe \/ upSrcRdy)
      pumpPush  == st = "PUMP" /\ incm # 0
      upSinkValid == IF pumpPush THEN TRUE ELSE (store /\ preValid)
      upSinkData == IF store THEN preHead ELSE Pad
      load      == upSinkValid /\ upSinkRdy
      upSrcData == IF R = 1 THEN <<preHead>> ELSE [i \in 1..R |-> chunks[i - 1]]
      \* ---- inner DRAM FIFO
      dSrcValid == dq # <<>> /\ dvis
      dnSinkValid == IF flushing THEN upSrcValid ELSE dSrcValid
      dnSinkData == IF flushing THEN upSrcData ELSE (IF dq # <<>> THEN Head(dq) ELSE upSrcData)
      dPush     == dSinkValid /\ dSinkRdy
      dPop      == dSrcValid /\ dnSinkRdy                             \* dram_fifo.source.ready = post_converter.sink.ready (always connected)
      dnSinkHs  == dnSinkValid /\ dnSinkRdy
      dnSrcValid == dnSinkValid
      dnSrcData == IF R = 1 THEN dnSinkData[1] ELSE dnSinkData[mux + 1]
      dnSrcHs   == dnSrcValid /\ dnSrcRdy
      \* ---- pre fifo source / post fifo sink
      preRdy    == IF bypass THEN postRdy ELSE (IF store THEN upSinkRdy ELSE FALSE)
      prePop    == preValid /\ preRdy
      postPushV == IF bypass THEN preValid ELSE (IF fixDrop THEN FALSE ELSE dnSrcValid)
      postPushD == IF bypass THEN preHead ELSE dnSrcData
      postPush  == postPushV /\ postRdy
      \* ---- stream ends
      inAcc     == off /\ Len(pre) < PreDepth
      outAcc    == post # <<>> /\ srcReady
      upSrcHs   == upSrcValid /\ upSrcRdy
      evs == (IF outAcc THEN <<[c |-> "OUT", d |-> <<Head(post)>>]>> ELSE <<>>)
             \o (IF inAcc THEN <<[c |-> "IN", d |-> <<seq>>]>> ELSE <<>>)
      r == StreamSteps(OCfg, [s |-> obs, bad |-> {}], evs)
      pre1 == IF prePop THEN Tail(pre) ELSE pre
      post1 == IF outAcc THEN Tail(post) ELSE post
      dq1 == IF dPop THEN Tail(dq) ELSE dq
      \* ---- FSM (NextValue / NextState semantics)
      inc == st = "DRAM" /\ upSrcHs
      dec == st = "DRAM" /\ dnSinkHs
  IN /\ pre' = IF inAcc THEN Append(pre1, seq) ELSE pre1
     /\ post' = IF postPush THEN Append(post1, postPushD) ELSE post1
     /\ seq' = IF inAcc THEN (seq + 1) % K ELSE seq
     /\ off' = IF off /\ ~inAcc THEN off ELSE nextOff
     /\ dq' = IF dPush THEN Append(dq1, upSrcData) ELSE dq1
     /\ dvis' = IF dPop THEN FALSE ELSE (dvis \/ (dq # <<>> /\ dShow))
     /\ IF R = 1 THEN demux' = 0 /\ strobe' = FALSE /\ chunks' = chunks
        ELSE /\ strobe' = IF load /\ demux = R - 1 THEN TRUE ELSE IF upSrcRdy THEN FALSE ELSE strobe
             /\ demux' = IF load THEN (IF demux = R - 1 THEN 0 ELSE demux + 1) ELSE demux
             /\ chunks' = IF load THEN [chunks EXCEPT ![demux] = upSinkData] ELSE chunks
     /\ mux' = IF R > 1 /\ dnSrcHs THEN (IF mux = R - 1 THEN 0 ELSE mux + 1) ELSE mux
     /\ CASE st = "BYPASS" ->
               IF thresh THEN st' = "DRAM" /\ first' = 1 /\ cnt' = 0 /\ incm' = incm /\ decm' = decm
               ELSE UNCHANGED <<st, first, cnt, incm, decm>>
          [] st = "DRAM" ->
               LET incm1 == IF R > 1 /\ load THEN Mod(incm + 1) ELSE incm
                   decm1 == IF R > 1 /\ dnSrcHs THEN Mod(decm + 1) ELSE decm
               IN /\ first' = IF upSrcHs THEN 0 ELSE first
                  /\ cnt' = cnt + (IF inc THEN 1 ELSE 0) - (IF dec THEN 1 ELSE 0)
                  /\ IF empty THEN IF decm = 0 /\ incm = 0 THEN st' = "BYPASS" /\ incm' = incm1 /\ decm' = decm1
                                   ELSE st' = "PUMP" /\ incm' = incm1 /\ decm' = incm
                     ELSE st' = "DRAM" /\ incm' = incm1 /\ decm' = decm1
          [] st = "PUMP" ->
               /\ first' = first /\ cnt' = cnt
               /\ IF Fix THEN /\ decm' = IF decm # 0 /\ dnSrcHs THEN decm - 1 ELSE decm
                              /\ IF incm = 0 THEN st' = "DRAIN" /\ incm' = incm
                                 ELSE st' = "PUMP" /\ incm' = IF upSinkRdy THEN Mod(incm + 1) ELSE incm
                  ELSE /\ decm' = decm
                       /\ IF incm = 0 THEN st' = "DRAIN" /\ incm' = incm
                          ELSE st' = "PUMP" /\ incm' = IF upSrcHs THEN Mod(incm + 1) ELSE incm
          [] st = "DRAIN" ->
               /\ first' = first /\ cnt' = cnt /\ incm' = incm
               /\ IF Fix THEN /\ decm' = IF decm # 0 /\ dnSrcHs THEN decm - 1 ELSE decm
                              /\ st' = IF dnSinkHs THEN "BYPASS" ELSE "DRAIN"
                  ELSE IF decm = 0 THEN IF incm = 0 THEN st' = "BYPASS" /\ decm' = decm
                                        ELSE st' = "PUMP" /\ decm' = incm
                       ELSE st' = "DRAIN" /\ decm' = IF dnSrcHs THEN Mod(decm + 1) ELSE decm
     /\ obs' = r.s /\ bad' = bad \cup r.bad /\ ev' = evs
     /\ inp' = [srcReady |-> srcReady, dRdy |-> dRdy, dShow |-> dShow]

Next == \E srcReady, dRdy, dShow, nextOff \in BOOLEAN : Tick(srcReady, dRdy, dShow, nextOff)
Spec == Init /\ [][Next]_vars

Holds == bad = {}
TypeOK == Len(pre) <= PreDepth /\ Len(post) <= PostDepth /\ Len(dq) <= DCap
\* vacuity guards (must be reachable)
NeverPump == st # "PUMP"
NeverBackToBypass == ~(st = "BYPASS" /\ seq > 2 * R /\ dq = <<>> /\ pre = <<>>)
NeverDramFull == Len(dq) < DCap
====
