---- MODULE R_RateConv ----
(* Requirement C18, second half: the DFI rate converter re-times a slow, wide DFI interface (P*ratio phases, clock clkdiv)
   onto a fast, narrow one (P phases, clock clk = ratio * clkdiv, phase aligned) without losing, duplicating, reordering or
   altering anything.  TOTAL monitor over per-cycle observations of both interfaces, in time order (at an instant where
   both clocks tick the fast record comes first):
     [k |-> "F", n, j, ph]   values during fast cycle n (j = n mod ratio = position inside the slow cycle), P phase records
     [k |-> "S", n, ph]      values during slow cycle n, P*ratio phase records
   "cycle n" of a clock = the interval after its n-th rising edge (n = 0, 1, ...).
   As documented (DFIRateConverter docstring, Serializer.LATENCY = ser, Deserializer.LATENCY = des, in slow cycles):
     CMD    slow phase p + P*j (p < P) of slow cycle n is presented on fast phase p in fast cycle (n + ser)*ratio + j:
            "phases first, then clock cycles"; this holds for every non-data signal (address, bank, cs_n, ras_n, cas_n, we_n,
            cke, odt, reset_n, act_n, wrdata_en, rddata_en).  Every fast slot corresponds to exactly one slow slot and vice
            versa, so each command appears exactly once, in phase order.
     WRDATA the write data / mask of slow cycle n -- for fast phase p the concatenation of slow phases p*ratio .. p*ratio +
            ratio-1 -- is presented as ONE burst in fast cycle (n + ser)*ratio + write_delay.
     RDDATA the read data of fast cycle m*ratio + read_delay on fast phase p is returned on slow phases p*ratio ..
            p*ratio+ratio-1 in slow cycle m + des; its rddata_valid is copied to all of them.
   Fast-side wrdata / rddata / masks are sequences of `ratio` chunks (chunk i belongs to slow phase p*ratio + i).
   Nothing is required before enough history exists (start-up).  cfg = [ratio, P, ser, des, wd, rd, csidle].
   The clauses depend only on the ORDER of the records (relative positions in the two histories) and on j; the cycle
   numbers n are used only by the FORMAT clause, which guards the trace itself (a record missing or out of sequence). *)
EXTENDS Integers, Sequences, FiniteSets, TLC

ND == {"address", "bank", "cas_n", "cs_n", "ras_n", "we_n", "cke", "odt", "reset_n", "act_n", "wrdata_en", "rddata_en"}
(* only what later clauses need is remembered: of a fast record the PHY->controller signals, of a slow record the others *)
KeepFast(e) == [e EXCEPT !.ph = [p \in DOMAIN e.ph |-> [rddata |-> e.ph[p].rddata, rddata_valid |-> e.ph[p].rddata_valid]]]
KeepSlow(e) == [e EXCEPT !.ph = [p \in DOMAIN e.ph |-> [f \in ND \cup {"wrdata", "wrdata_mask"} |-> e.ph[p][f]]]]
InitRC == [slow |-> <<>>, fast |-> <<>>, nf |-> 0, ns |-> 0, slots |-> 0, cmds |-> 0]
Last(q, k) == IF Len(q) <= k THEN q ELSE SubSeq(q, Len(q) - k + 1, Len(q))

FastStep(cfg, s, e) ==
    LET r == cfg.ratio  P == cfg.P
        fmt == (IF e.n # s.nf \/ e.j # (e.n % r) THEN {<<"FORMAT", "fast record out of sequence", e.n, s.nf>>} ELSE {})
        have == Len(s.slow) >= cfg.ser
        sl == s.slow[Len(s.slow) - (cfg.ser - 1)]
        cmd == IF ~have THEN {} ELSE
               {<<"CMD", "fast-side signal is not the slow-side signal of the matching phase and cycle", e.n, p, f,
                  e.ph[p][f], sl.ph[(p - 1) + P * e.j + 1][f]>> :
                    <<p, f>> \in {x \in (1 .. P) \X ND : e.ph[x[1]][x[2]] # sl.ph[(x[1] - 1) + P * e.j + 1][x[2]]}}
        wr == IF ~have \/ e.j # cfg.wd THEN {} ELSE
              {<<"WRDATA", "write burst is not the slow-side write data of the matching cycle", e.n, p, f, i,
                 e.ph[p][f][i], sl.ph[(p - 1) * r + i][f]>> :
                    <<p, f, i>> \in {x \in (1 .. P) \X {"wrdata", "wrdata_mask"} \X (1 .. r) :
                                        e.ph[x[1]][x[2]][x[3]] # sl.ph[(x[1] - 1) * r + x[3]][x[2]]}}
        ncmd == IF have THEN Cardinality({p \in 1 .. P : e.ph[p].cs_n # cfg.csidle /\ ~(e.ph[p].ras_n = 1 /\ e.ph[p].cas_n = 1 /\ e.ph[p].we_n = 1)}) ELSE 0
    IN [s |-> [s EXCEPT !.fast = Last(Append(@, KeepFast(e)), (cfg.des + 1) * r), !.nf = e.n + 1,
                        !.slots = @ + (IF have THEN P ELSE 0), !.cmds = @ + ncmd],
        bad |-> fmt \cup cmd \cup wr]

SlowStep(cfg, s, e) ==
    LET r == cfg.ratio  P == cfg.P
        fmt == (IF e.n # s.ns \/ s.nf # (e.n + 1) * r THEN {<<"FORMAT", "slow record out of sequence", e.n, s.ns, s.nf>>} ELSE {})
        back == (cfg.des + 1) * r - 1 - cfg.rd            \* distance of the source fast cycle from the most recent one
        have == Len(s.fast) > back
        fr == s.fast[Len(s.fast) - back]
        rdd == IF ~have THEN {} ELSE
               {<<"RDDATA", "slow-side read data is not the fast-side burst of the matching cycle", e.n, p, i,
                  e.ph[(p - 1) * r + i].rddata, fr.ph[p].rddata[i]>> :
                    <<p, i>> \in {x \in (1 .. P) \X (1 .. r) : e.ph[(x[1] - 1) * r + x[2]].rddata # fr.ph[x[1]].rddata[x[2]]}}
               \cup {<<"RDDATA", "slow-side rddata_valid is not the fast-side valid of the matching cycle", e.n, p, i,
                  e.ph[(p - 1) * r + i].rddata_valid, fr.ph[p].rddata_valid>> :
                    <<p, i>> \in {x \in (1 .. P) \X (1 .. r) : e.ph[(x[1] - 1) * r + x[2]].rddata_valid # fr.ph[x[1]].rddata_valid}}
    IN [s |-> [s EXCEPT !.slow = Last(Append(@, KeepSlow(e)), cfg.ser), !.ns = e.n + 1], bad |-> fmt \cup rdd]

RCStep(cfg, s, e) == IF e.k = "F" THEN FastStep(cfg, s, e) ELSE SlowStep(cfg, s, e)
====
