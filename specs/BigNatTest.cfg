INIT Init
NEXT Next
