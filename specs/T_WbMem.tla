---- MODULE T_WbMem ----
(* Trace validation (binding B1) of REAL LiteDRAMWishbone2Native executions against R_WbMem.
   Line 1 = cfg record [wb, pb, base, bound]; a "NEW" event carries a fresh cfg and resets the monitor (several
   independent executions per file).  Identical consecutive samples without ACK are run-length encoded by the
   recorder (field n = number of cycles the sample stands for; the monitor is idempotent on them).  Every diagnostic is recorded as <<line, clause, ...>>; tag counts go to info. *)
EXTENDS TraceLib, R_WbMem
VARIABLES l, cfg, st, lastT, bad, cnt
vars == <<l, cfg, st, lastT, bad, cnt>>
Tags == {"write", "read", "abort-write", "abort-read", "ack-write", "ack-read", "ack-same-cycle", "ack-without-access",
         "timeout", "mem", "end", "new"}
TInit == l = 2 /\ cfg = Trace[1] /\ st = WbInit /\ lastT = 0 - 2 /\ bad = {} /\ cnt = [x \in Tags |-> 0]
TNext == /\ l <= NLines
         /\ l' = l + 1
         /\ LET e == Trace[l] IN
            IF e.c = "NEW" THEN /\ cfg' = e /\ st' = WbInit /\ lastT' = 0 - 2 /\ bad' = bad
                                /\ cnt' = [cnt EXCEPT !["new"] = @ + 1]
            ELSE LET isCyc == e.c = "CYC"
                     r == WbStep(cfg, st, e, isCyc /\ e.t # lastT + 1) IN
                 /\ cfg' = cfg /\ st' = r.s
                 /\ lastT' = IF isCyc THEN e.t + e.n - 1 ELSE lastT
                 /\ bad' = bad \cup {<<l>> \o x : x \in r.bad}
                 /\ cnt' = [x \in Tags |-> cnt[x] + IF x \in r.tags THEN 1 ELSE 0]
TSpec == TInit /\ [][TNext]_vars
AtEnd == (l = NLines + 1) => WriteVerdict(l - 1, bad, cnt)
====
