INIT Init
NEXT Next
CONSTANTS MaxRowBits = 2
 BankBits = {1, 2}
 ColBits = {9, 10, 11}
 Aligns = {0, 2, 3}
INVARIANT Thm
