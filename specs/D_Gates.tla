---- MODULE D_Gates ----
(* Design model of the two timing gates of litedram.common: tXXDController(txxd) and tFAWController(tfaw), several instances side
   by side, one Tick per clock edge, `valid` unrestricted (re-triggers while counting included, as the write-recovery and
   write-to-read gates experience them).  The update functions are the ones D_BankMachine / D_Multiplexer use for their gates.
   Contract (what the device clauses rely on), checked by TLC on this model: after a valid at cycle t the gate is not ready in
   t+1 .. t+txxd-1; a fourth valid inside tfaw cycles lowers ready until the oldest leaves the window. *)
EXTENDS Naturals, Sequences, FiniteSets, TLC
CONSTANTS Ts, Fs          \* sequences of txxd / tfaw values (0 = None)
VARIABLES xr, xc,         \* tXXD: ready, count
          fw, fr,         \* tFAW: window (newest first), ready
          vin,            \* input: valid of every gate (tXXD gates first)
          age             \* observer: cycles since the last valid of each tXXD gate, saturated
NT == Len(Ts)
NF == Len(Fs)
vars == <<xr, xc, fw, fr, vin, age>>
P2(n) == IF n = 0 THEN 1 ELSE IF n = 1 THEN 2 ELSE IF n = 2 THEN 4 ELSE IF n = 3 THEN 8 ELSE IF n = 4 THEN 16 ELSE 32
Bits(t) == IF t <= 2 THEN 1 ELSE IF t <= 4 THEN 2 ELSE IF t <= 8 THEN 3 ELSE IF t <= 16 THEN 4 ELSE 5
TxxdNext(valid, txxd, r, c) ==
    IF txxd = 0 THEN <<TRUE, 0>>
    ELSE IF valid THEN <<(txxd - 1 = 0), txxd - 1>>
    ELSE IF ~r THEN <<(IF c = 1 THEN TRUE ELSE r), (c + P2(Bits(txxd)) - 1) % P2(Bits(txxd))>>
    ELSE <<r, c>>
Count(w) == Cardinality({i \in 1..Len(w) : w[i]})
FawNext(valid, tfaw, w, r) ==
    IF tfaw = 0 THEN <<w, TRUE>>
    ELSE <<(<<valid>> \o SubSeq(w, 1, tfaw - 1)),
           (IF Count(w) < 4 THEN (IF Count(w) = 3 THEN ~valid ELSE TRUE) ELSE r)>>
Sat == 40
Tick == /\ xr' = [i \in 1..NT |-> TxxdNext(vin[i], Ts[i], xr[i], xc[i])[1]]
        /\ xc' = [i \in 1..NT |-> TxxdNext(vin[i], Ts[i], xr[i], xc[i])[2]]
        /\ fw' = [i \in 1..NF |-> FawNext(vin[NT + i], Fs[i], fw[i], fr[i])[1]]
        /\ fr' = [i \in 1..NF |-> FawNext(vin[NT + i], Fs[i], fw[i], fr[i])[2]]
        /\ age' = [i \in 1..NT |-> IF vin[i] THEN 1 ELSE IF age[i] >= Sat THEN Sat ELSE age[i] + 1]
Init == /\ xr = [i \in 1..NT |-> Ts[i] = 0] /\ xc = [i \in 1..NT |-> 0]
        /\ fw = [i \in 1..NF |-> [k \in 1..Fs[i] |-> FALSE]] /\ fr = [i \in 1..NF |-> TRUE]
        /\ age = [i \in 1..NT |-> Sat]
Next == Tick /\ vin' \in [1..(NT + NF) -> BOOLEAN]
Spec == Init /\ vin \in [1..(NT + NF) -> BOOLEAN] /\ [][Next]_vars
\* the gates are independent: for model checking one gate at a time is driven (sum instead of product of the state spaces)
OneHot(a) == {[j \in 1..(NT + NF) |-> j = a /\ b] : b \in BOOLEAN}
SpecOne == /\ Init /\ \E a \in 1..(NT + NF) : vin \in OneHot(a)
           /\ [][Tick /\ \E a \in 1..(NT + NF) : (\A j \in 1..(NT + NF) : (j # a => (~vin[j] /\ (j <= NT => age[j] = Sat)))) /\ vin' \in OneHot(a)]_vars
\* contract of the tXXD gate: ready implies the last valid is at least txxd cycles old
GateContract == \A i \in 1..NT : (Ts[i] > 0 /\ xr[i]) => age[i] >= Ts[i]
\* ... and it is not lazier than needed: txxd cycles after the last valid it is ready again
GateTight == \A i \in 1..NT : (Ts[i] > 0 /\ age[i] >= Ts[i] /\ age[i] < Sat) => xr[i]
\* contract of the tFAW gate: ready implies that a valid now would be at most the fourth one in the last tfaw cycles
FawContract == \A i \in 1..NF : (Fs[i] > 0 /\ fr[i]) => Count(fw[i]) <= 3
====
