---- MODULE T_Crossing ----
(* Trace validation for C08: handshake events recorded on BOTH sides of a real LiteDRAMNativePortCDC (or of a real
   crossbar port obtained with get_port(clock_domain=...)), merged by simulator time.
     side s = "u": user port (its own clock domain)      side s = "m": memory/crossbar side (sys domain)
     [c |-> "CMD", s, we, a, last]  [c |-> "WDATA", s, d, m]  [c |-> "RDATA", s, d]
     [c |-> "WDROP", s |-> "m"]  data strobe of the pulse-semantics memory side with no word offered by the crossing
     [c |-> "RDROP", s |-> "m"]  read word offered by the pulse-semantics memory side while the crossing was not ready
     [c |-> "DUMP", n]  [c |-> "END", planned]   (planned = number of commands the user driver had to issue)
     [c |-> "NEW", tid, nports |-> 1, uniq, memsem]   starts an independent execution (monitors reset)
   Requirement = R_Crossing (three streams: exactly once, in order, nothing left) + R_PortMem on the user port (memsem). *)
EXTENDS TraceLib, R_PortMem, R_Crossing
Cfg0 == Trace[1]
VARIABLES l, cfg, mem, st, bad, early
vars == <<l, cfg, mem, st, bad, early>>
TInit == l = 2 /\ cfg = Cfg0 /\ mem = InitMem(Cfg0) /\ st = InitStreams /\ bad = {} /\ early = <<>>
(* A crossing may TAKE a write word before the command it belongs to is accepted (the driver must offer data no later than
   the command, the data FIFO is free to accept at once).  The k-th write word still belongs to the k-th write command, so
   a user WDATA seen while no write command is pending is held in `early` and bound when that command is accepted. *)

UserEv(e) == [e EXCEPT !.c = e.c] @@ [p |-> 0]
Val(e) == CASE e.c = "CMD" -> <<e.we, e.a, e.last>>
            [] e.c = "WDATA" -> <<e.d, e.m>>
            [] OTHER -> e.d
Chan(e) == CASE e.c = "CMD" -> "cmd" [] e.c = "WDATA" -> "wdata" [] OTHER -> "rdata"
(* direction: cmd and wdata travel user -> memory side, rdata travels memory side -> user *)
IsPush(e) == (e.c \in {"CMD", "WDATA"} /\ e.s = "u") \/ (e.c = "RDATA" /\ e.s = "m")

TNext == /\ l <= NLines
         /\ l' = l + 1
         /\ LET e == Trace[l] IN
            IF e.c = "NEW" THEN cfg' = e /\ mem' = InitMem(e) /\ st' = InitStreams /\ bad' = bad /\ early' = <<>>
            ELSE
            LET tag(x) == <<l, cfg.tid>> \o x
                \* nocross: a width converter sits between the two sides (get_port(clock_domain=, data_width=)); only the user-side
                \* memory semantics and acceptance of every planned command are judged
                cross == ~("nocross" \in DOMAIN cfg /\ cfg.nocross)
                isEv == e.c \in {"CMD", "WDATA", "RDATA"}
                isStream == cross /\ isEv
                sr == IF ~isStream THEN [s |-> st, bad |-> {}]
                      ELSE IF IsPush(e) THEN StreamPush(st, Chan(e), Val(e)) ELSE StreamPop(st, Chan(e), Val(e))
                useMem == cfg.memsem /\ ((isEv /\ e.s = "u") \/ e.c \in {"DUMP", "END"})
                isEarly == useMem /\ e.c = "WDATA" /\ mem.wq[0] = <<>>
                m1 == IF useMem /\ ~isEarly THEN MemStep(cfg, mem, UserEv(e)) ELSE [s |-> mem, bad |-> {}]
                bindEarly == useMem /\ e.c = "CMD" /\ e.we /\ early # <<>>
                m2 == IF bindEarly THEN MemStep(cfg, m1.s, Head(early)) ELSE [s |-> m1.s, bad |-> {}]
                mr == [s |-> m2.s, bad |-> m1.bad \cup m2.bad]
                leftover == IF e.c = "END" /\ early # <<>> THEN {<<"write data taken for a write command that was never accepted", Len(early)>>} ELSE {}
                extra == CASE e.c = "WDROP" -> {<<"write word not at the crossing output when the memory side strobed it (late or lost)">>}
                           [] e.c = "RDROP" -> {<<"read word refused by the crossing (overflow): word lost">>}
                           [] e.c = "END" -> StreamEnd(sr.s) \cup
                                  (LET acc == IF cross THEN sr.s["cmd"].npush ELSE e.accepted IN
                                   IF "planned" \in DOMAIN e /\ e.planned > acc
                                   THEN {<<"command offered on the user port but never accepted", e.planned - acc>>} ELSE {})
                           [] OTHER -> {}
            IN /\ cfg' = cfg /\ st' = sr.s /\ mem' = mr.s
               /\ early' = IF isEarly THEN Append(early, UserEv(e)) ELSE IF bindEarly THEN Tail(early) ELSE early
               /\ bad' = bad \cup {tag(x) : x \in sr.bad \cup mr.bad \cup extra \cup leftover}
TSpec == TInit /\ [][TNext]_vars
AtEnd == (l = NLines + 1) => WriteVerdict(l - 1, bad, [lines |-> NLines])
====
