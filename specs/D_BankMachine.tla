---- MODULE D_BankMachine ----
(* Design model of litedram.core.bankmachine.BankMachine: ONE action per clock edge (Tick), the module's combinational
   outputs as definitions over the current registers and inputs, the registers as variables.  Shaped after the code:
   cmd_buffer_lookahead (SyncFIFO, unbuffered) -> cmd_buffer (one entry) -> FSM REGULAR/PRECHARGE/AUTOPRECHARGE/
   ACTIVATE/REFRESH with the delayed TRP/TRCD states, row/row_opened tracking, tWTP/tRC/tRAS count-down gates
   (tXXDController).  Bound to the real module by lock-step trace validation (T_BankMachine). *)
EXTENDS Naturals, Sequences, TLC
CONSTANTS NRows, NCols,      \* rows, column-words per row (request address = row * NCols + col)
          Align,             \* address_align (bus column = col * 2^Align)
          Depth,             \* cmd_buffer_depth >= 2
          tRP, tRCD, tWTP, tRC, tRAS,   \* sys cycles; 0 encodes "None" for tRC/tRAS
          CntBitsWTP, CntBitsRC, CntBitsRAS,
          AutoPre,
          RefWaitsTras       \* TRUE = the code (fix 7014c8e); FALSE = negative control: refresh granted on tWTP alone
VARIABLES q, bufv, buf, row, rowOpened, fsm, dly, twtpR, twtpC, trcR, trcC, trasR, trasC, in
regs == <<q, bufv, buf, row, rowOpened, fsm, dly, twtpR, twtpC, trcR, trcC, trasR, trasC>>
vars == <<regs, in>>

P2(n) == IF n = 0 THEN 1 ELSE IF n = 1 THEN 2 ELSE IF n = 2 THEN 4 ELSE IF n = 3 THEN 8 ELSE IF n = 4 THEN 16 ELSE 32
RowOf(a) == a \div NCols
ColOf(a) == a % NCols

Entry == [we : BOOLEAN, addr : 0..(NRows*NCols-1)]
Inputs == [valid : BOOLEAN, we : BOOLEAN, addr : 0..(NRows*NCols-1), cmdready : BOOLEAN, refreq : BOOLEAN]

\* ---------------- combinational view of the current cycle ----------------
laValid == Len(q) > 0                    \* cmd_buffer_lookahead.source.valid
laHead  == q[1]
reqReady == Len(q) < Depth               \* req.ready
lock == laValid \/ bufv                  \* req.lock
rowClose == fsm \in {"PRECHARGE", "AUTOPRECHARGE", "REFRESH"}
autoPre == /\ AutoPre /\ laValid /\ bufv
           /\ RowOf(laHead.addr) # RowOf(buf.addr)
           /\ ~rowClose
inRegularIssue == fsm = "REGULAR" /\ ~in.refreq /\ bufv /\ rowOpened /\ row = RowOf(buf.addr)
prechargeIssue == fsm = "PRECHARGE" /\ twtpR /\ trasR
activateIssue  == fsm = "ACTIVATE" /\ trcR
cmdValid == inRegularIssue \/ prechargeIssue \/ activateIssue
rowOpen == activateIssue
isWrite == inRegularIssue /\ buf.we
isRead  == inRegularIssue /\ ~buf.we
isCmd   == prechargeIssue \/ activateIssue \/ fsm = "REFRESH"
cas == inRegularIssue
ras == prechargeIssue \/ activateIssue
we  == (inRegularIssue /\ buf.we) \/ prechargeIssue
accept == cmdValid /\ in.cmdready
wdataReady == isWrite /\ in.cmdready
rdataValid == isRead /\ in.cmdready
refGnt == fsm = "REFRESH" /\ twtpR /\ (trasR \/ ~RefWaitsTras)
bufAddr == IF bufv THEN buf.addr ELSE 0
cmdA == IF activateIssue THEN RowOf(bufAddr)
        ELSE (IF autoPre THEN 1024 ELSE 0) + ColOf(bufAddr) * P2(Align)
Out == [cmdvalid |-> cmdValid, cas |-> cas, ras |-> ras, we |-> we, iscmd |-> isCmd, isread |-> isRead,
        iswrite |-> isWrite, a |-> cmdA, reqready |-> reqReady, wready |-> wdataReady, rvalid |-> rdataValid,
        lock |-> lock, gnt |-> refGnt]

\* ---------------- register update ----------------
bufReady == (~bufv) \/ (wdataReady \/ rdataValid)     \* stream.Buffer: sink.ready = ~source.valid | source.ready
laPop == laValid /\ bufReady
TxxdNext(valid, txxd, bits, r, c) ==                  \* common.tXXDController
    IF txxd = 0 THEN <<TRUE, 0>>
    ELSE IF valid THEN <<(txxd - 1 = 0), txxd - 1>>
    ELSE IF ~r THEN <<(IF c = 1 THEN TRUE ELSE r), (c + P2(bits) - 1) % P2(bits)>>
    ELSE <<r, c>>

FsmNext ==
  CASE fsm = "REGULAR" ->
         IF in.refreq THEN <<"REFRESH", 0>>
         ELSE IF bufv THEN
            IF rowOpened THEN
               IF row = RowOf(buf.addr) THEN (IF in.cmdready /\ autoPre THEN <<"AUTOPRECHARGE", 0>> ELSE <<"REGULAR", 0>>)
               ELSE <<"PRECHARGE", 0>>
            ELSE <<"ACTIVATE", 0>>
         ELSE <<"REGULAR", 0>>
    [] fsm = "PRECHARGE" -> IF twtpR /\ trasR /\ in.cmdready THEN (IF tRP - 1 > 0 THEN <<"TRP", tRP - 1>> ELSE <<"ACTIVATE", 0>>) ELSE <<"PRECHARGE", 0>>
    [] fsm = "AUTOPRECHARGE" -> IF twtpR /\ trasR THEN (IF tRP - 1 > 0 THEN <<"TRP", tRP - 1>> ELSE <<"ACTIVATE", 0>>) ELSE <<"AUTOPRECHARGE", 0>>
    [] fsm = "ACTIVATE" -> IF trcR /\ in.cmdready THEN (IF tRCD - 1 > 0 THEN <<"TRCD", tRCD - 1>> ELSE <<"REGULAR", 0>>) ELSE <<"ACTIVATE", 0>>
    [] fsm = "REFRESH" -> IF ~in.refreq THEN <<"REGULAR", 0>> ELSE <<"REFRESH", 0>>
    [] fsm = "TRP" -> IF dly = 1 THEN <<"ACTIVATE", 0>> ELSE <<"TRP", dly - 1>>
    [] fsm = "TRCD" -> IF dly = 1 THEN <<"REGULAR", 0>> ELSE <<"TRCD", dly - 1>>

Tick ==
  /\ q' = LET afterPop == IF laPop THEN Tail(q) ELSE q
          IN IF in.valid /\ reqReady THEN Append(afterPop, [we |-> in.we, addr |-> in.addr]) ELSE afterPop
  /\ IF bufReady THEN /\ bufv' = laValid
                      /\ buf' = IF laValid THEN laHead ELSE buf
     ELSE UNCHANGED <<bufv, buf>>
  /\ IF rowClose THEN rowOpened' = FALSE /\ row' = row
     ELSE IF rowOpen THEN rowOpened' = TRUE /\ row' = RowOf(bufAddr)
     ELSE UNCHANGED <<row, rowOpened>>
  /\ fsm' = FsmNext[1] /\ dly' = FsmNext[2]
  /\ LET n == TxxdNext(accept /\ isWrite, tWTP, CntBitsWTP, twtpR, twtpC) IN twtpR' = n[1] /\ twtpC' = n[2]
  /\ LET n == TxxdNext(accept /\ rowOpen, tRC, CntBitsRC, trcR, trcC) IN trcR' = n[1] /\ trcC' = n[2]
  /\ LET n == TxxdNext(accept /\ rowOpen, tRAS, CntBitsRAS, trasR, trasC) IN trasR' = n[1] /\ trasC' = n[2]

Init == /\ q = <<>> /\ bufv = FALSE /\ buf = [we |-> FALSE, addr |-> 0] /\ row = 0 /\ rowOpened = FALSE
        /\ fsm = "REGULAR" /\ dly = 0
        /\ twtpR = (tWTP = 0) /\ twtpC = 0 /\ trcR = (tRC = 0) /\ trcC = 0 /\ trasR = (tRAS = 0) /\ trasC = 0
        /\ in \in Inputs
====
