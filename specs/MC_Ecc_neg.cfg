CONSTANTS K = 8
          NoParityCheck = TRUE
INIT Init
NEXT Next
INVARIANTS Sound
CHECK_DEADLOCK FALSE
