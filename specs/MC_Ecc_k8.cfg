CONSTANTS K = 8
          NoParityCheck = FALSE
INIT Init
NEXT Next
INVARIANTS Sound OnlyParityUncounted
CHECK_DEADLOCK FALSE
