---- MODULE MC_RateConv ----
(* TLC explores EVERY sequence of slow-side commands / write bursts and fast-side read bursts (over small value domains) through
   the design model D_RateConv and feeds the per-cycle observations -- formatted exactly like the records of the real
   DFIRateConverter -- to the requirement monitor R_RateConv (the same operators that judge the real traces).
   *)
EXTENDS D_RateConv, TLC
CONSTANTS P, Ratio, WD, RD, CmdVals, ChunkVals, FinVals, Bug, DriveM2S, DriveS2M
R == INSTANCE R_RateConv
BurstsTwo == {[i \in 1 .. Ratio |-> i % 2], [i \in 1 .. Ratio |-> (i \div 2) % 2]}     \* ratio 2: <<1,0>>, <<0,1>>: enough to see a swapped or repeated chunk
BurstsAll == [1 .. Ratio -> ChunkVals]
FinTwo == {[d |-> [i \in 1 .. Ratio |-> i % 2], v |-> 0], [d |-> [i \in 1 .. Ratio |-> (i \div 2) % 2], v |-> 1]}
FinFour == [d : BurstsTwo, v : {0, 1}]
FinAll == [d : BurstsAll, v : {0, 1}]
Cfg == [ratio |-> Ratio, P |-> P, ser |-> 1, des |-> 2, wd |-> WD, rd |-> RD, csidle |-> 1]
NSlow == P * Ratio
SinSet == IF DriveM2S THEN [cmd : [1 .. NSlow -> CmdVals], wr : [1 .. NSlow -> ChunkVals]]
          ELSE {[cmd |-> [k \in 1 .. NSlow |-> 0], wr |-> [k \in 1 .. NSlow |-> 0]]}
FinSet == IF DriveS2M THEN [1 .. P -> FinVals]
          ELSE {[p \in 1 .. P |-> [d |-> ZeroBurst(Ratio), v |-> 0]]}
VARIABLES d, mon, bad, started
vars == <<d, mon, bad, started>>
Init == /\ d \in {DInit(P, Ratio, s, f) : s \in SinSet, f \in FinSet}     \* inputs of cycle 0 are free as well (driven at edge 0)
        /\ mon = R!InitRC /\ bad = {} /\ started = FALSE

(* records as the recorder of the real bench writes them (cycle numbers: see Strip) *)
CmdRec(v) == [address |-> v, bank |-> v, cas_n |-> v, cs_n |-> v, ras_n |-> v, we_n |-> v, cke |-> v, odt |-> v, reset_n |-> v,
              act_n |-> v, wrdata_en |-> v, rddata_en |-> v]
FastRec == [k |-> "F", n |-> 0, j |-> d.cnt,
            ph |-> [p \in 1 .. P |-> CmdRec(FastCmd(P, Ratio, Bug, d, p)) @@
                        [wrdata |-> FastWr(P, Ratio, d, p), wrdata_mask |-> FastWr(P, Ratio, d, p),
                         rddata |-> d.fin[p].d, rddata_valid |-> d.fin[p].v]]]
SlowRec == [k |-> "S", n |-> 0,
            ph |-> [k \in 1 .. NSlow |-> CmdRec(d.sin.cmd[k]) @@
                        [wrdata |-> d.sin.wr[k], wrdata_mask |-> d.sin.wr[k],
                         rddata |-> SlowRd(P, Ratio, RD, Bug, d, k).d, rddata_valid |-> SlowRd(P, Ratio, RD, Bug, d, k).v]]]
(* the requirement clauses are index-free; the counters of the monitor are reset after every step so that the state space
   is finite, and the FORMAT clause (which only guards recorded traces) is dropped *)
Strip(m) == [m EXCEPT !.nf = 0, !.ns = 0, !.slots = 0, !.cmds = 0,
                      !.fast = [i \in DOMAIN m.fast |-> [m.fast[i] EXCEPT !.n = 0, !.j = 0]],
                      !.slow = [i \in DOMAIN m.slow |-> [m.slow[i] EXCEPT !.n = 0]]]
NoFmt(b) == {x \in b : x[1] # "FORMAT"}

(* the first edge ends no cycle: the counters only leave reset *)
Tick == \E ns \in SinSet, nf \in FinSet :
          IF ~started
          THEN d' = [d EXCEPT !.cnt = 0] /\ mon' = mon /\ bad' = bad /\ started' = TRUE
          ELSE LET al == Aligned(Ratio, d)
                   r1 == R!FastStep(Cfg, mon, FastRec)
                   m1 == Strip(r1.s)
                   r2 == IF al THEN R!SlowStep(Cfg, m1, SlowRec) ELSE [s |-> m1, bad |-> {}]
               IN /\ d' = Edge(P, Ratio, WD, Bug, d, ns, nf)
                  /\ mon' = Strip(r2.s)
                  /\ bad' = bad \cup NoFmt(r1.bad) \cup NoFmt(r2.bad)
                  /\ started' = TRUE
Spec == Init /\ [][Tick]_vars
ReqOK == bad = {}
====
