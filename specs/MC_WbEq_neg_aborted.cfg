SPECIFICATION Spec
CONSTANTS
  PATH = "equal"
  R = 1
  NW = 2
  SELS = {1}
  HOLD = TRUE
  VALS = 3
  COVER = FALSE
  LMIN = 1
  LMAX = 2
  STALL = 1
  WMAX = 10
  BUG = "ignore_aborted"
INVARIANTS NoClauseBroken MemAllowed AckWithinBound OneOutstanding
CHECK_DEADLOCK TRUE
