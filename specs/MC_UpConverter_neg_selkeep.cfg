SPECIFICATION Spec
VIEW View
CONSTANTS
  R = 2
  NW = 2
  MaxCmds = 3
  Lmin = 3
  Lmax = 3
  Fix = TRUE
  Orders = "any"
  Bug = "selkeep"
  Wes = {TRUE, FALSE}
  Masks = {1}
  Flush = FALSE
  Stall = FALSE
INVARIANTS ReqOK FinalOK TypeOK
CHECK_DEADLOCK FALSE
