SPECIFICATION FairSpec
CONSTANTS NB = 2
 Nph = 2
 RdPhase = 0
 WrPhase = 1
 tRRD = 1
 tFAW = 0
 tCCD = 1
 tWTRc = 2
 ReadLatency = 3
 ReadTime = 0
 WriteTime = 0
 WL = 1
 BLCK = 2
 tWTRdev = 1
PROPERTY ReadsServed
CHECK_DEADLOCK FALSE
