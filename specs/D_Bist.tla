---- MODULE D_Bist ----
(* Design-level model for C14: the BIST CHECKER as the code builds it -- a command FSM issuing one read per accepted
   word, a data FSM consuming one word per returned beat, decoupled by the DMA reader's reservation FIFO and data FIFO,
   identical data / address generators advanced per accepted word -- over a memory with nondeterministic command
   stalls and read latencies (in-order, one-cycle pulses, as the crossbar does).  One action (Tick) per clock edge.
   The generator run is not modelled cycle by cycle: its port events are synthesised with the same address / data
   functions and fed to the observer, followed by an arbitrary corruption set.
   Observer = the requirement monitor itself (BistStep of R_Bist): every port event the model produces and the final
   (done, errors) go through it; the invariant is "no clause broken", for EVERY schedule and EVERY corruption set with
   the small constants of the configuration.  Byte-wide port (bpw = 1), base = 0.
   Seeded bugs for the negative controls: Bug = "beats" (errors counts every beat), "ceaddr" (the checker's address
   generator advances on every cycle in RUN instead of per accepted command).
   (Issuing commands without reserving FIFO space is NOT a bug the BIST can see: its data FSM accepts a word every
   cycle, so the data FIFO never fills -- TLC confirms it; that mechanism belongs to C12.) *)
EXTENDS Integers, Sequences, FiniteSets, TLC, R_Bist
CONSTANTS MaxNW,      \* words per run: 1..MaxNW
          RW,         \* range in words (power of two)
          DEPTH,      \* depth of the reservation and data FIFOs
          LMAX,       \* read latency 1..LMAX cycles
          Bug         \* "none" | "beats" | "ceaddr"

Mask == RW - 1
AddrOf(ra, av) == av % RW          \* (address generator value) & mask ; base = 0, byte-wide words; ra selects the generator (NextVal)
Byte(v) == WordBytes(v, 1)

(* ---- the generator run, synthesised: position i carries <<address, data>> from the two generators ---- *)
RECURSIVE GenEvents(_, _, _, _, _)
GenEvents(set, i, av, dv, n) ==
    IF i = n THEN <<>>
    ELSE <<[c |-> "CMD", u |-> "g", we |-> TRUE, ab |-> AddrOf(set.ra, av)], [c |-> "WDATA", u |-> "g", d |-> Byte(dv)]>>
         \o GenEvents(set, i + 1, NextVal(set.ra, av), NextVal(set.rd, dv), n)
RECURSIVE Fold(_, _, _)
Fold(st, bad, evs) == IF evs = <<>> THEN [s |-> st, bad |-> bad]
                      ELSE LET r == BistStep(st, Head(evs)) IN Fold(r.s, bad \cup r.bad \cup r.envbad, Tail(evs))
SetSeq(S) == CHOOSE q \in [1..Cardinality(S) -> S] : \A i, j \in 1..Cardinality(S) : i # j => q[i] # q[j]

VARIABLES obs, obad,                 \* observer state, broken clauses
          set, nw,                   \* settings, number of words
          mem,                       \* actual memory contents: word address -> byte sequence
          cs, cc, av,                \* command FSM, its counter, address generator value
          ds, dc, dv, errors,        \* data FSM, its counter, data generator value, error count
          res, fifo, fl,             \* reservation level, data FIFO, reads in flight (seq of [a, t])
          phase
vars == <<obs, obad, set, nw, mem, cs, cc, av, ds, dc, dv, errors, res, fifo, fl, phase>>

Init ==
    \E rd \in {0, 1}, ra \in {0, 1}, n \in 1..MaxNW, cor \in SUBSET (0..(RW - 1)) :
      LET st == [bpw |-> 1, base |-> 0, end |-> RW, length |-> n, rd |-> rd, ra |-> ra]
          g  == Fold(BInit, {}, <<[c |-> "NEW", set |-> st], [c |-> "GSTART"]>>
                                \o GenEvents(st, 0, FirstVal(ra), FirstVal(rd), n) \o <<[c |-> "GDONE", ok |-> TRUE]>>)
          m0 == [a \in 0..(RW - 1) |-> IF a \in DOMAIN g.s.mem THEN g.s.mem[a] ELSE <<0>>]
          m1 == [a \in 0..(RW - 1) |-> IF a \in cor THEN <<255 - m0[a][1]>> ELSE m0[a]]
          cq == SetSeq(cor)
          c  == Fold(g.s, g.bad, [i \in 1..Len(cq) |-> [c |-> "CORRUPT", ab |-> cq[i], d |-> m1[cq[i]]]] \o <<[c |-> "CSTART"]>>)
      IN /\ set = st /\ nw = n /\ mem = m1 /\ obs = c.s /\ obad = c.bad
         /\ cs = "WAIT" /\ cc = 0 /\ av = FirstVal(ra)          \* the cycle after start: cmd FSM in WAIT, data FSM in RUN
         /\ ds = "RUN" /\ dc = 0 /\ dv = FirstVal(rd) /\ errors = 0
         /\ res = 0 /\ fifo = <<>> /\ fl = <<>> /\ phase = "run"

Tick(rdy, lat) ==
    LET sinkValid == cs = "RUN"
        sinkReady == rdy /\ res < DEPTH
        fire      == sinkValid /\ sinkReady
        addr      == AddrOf(set.ra, av)
        ret       == fl # <<>> /\ fl[1].t = 0                       \* the memory returns the oldest read (one-cycle pulse)
        retData   == mem[fl[1].a]
        lost      == ret /\ Len(fifo) >= DEPTH                      \* the data FIFO has no room: the word is lost
        pop       == ds = "RUN" /\ res > 0 /\ fifo # <<>>
        miss      == pop /\ fifo[1] # Byte(dv)
        evs       == (IF fire THEN <<[c |-> "CMD", u |-> "c", we |-> FALSE, ab |-> addr]>> ELSE <<>>)
                     \o (IF ret THEN <<[c |-> "RDATA", u |-> "c", d |-> retData]>> ELSE <<>>)
                     \o (IF lost THEN <<[c |-> "LOST", what |-> "data FIFO overflow"]>> ELSE <<>>)
        o         == Fold(obs, obad, evs)
        fl1       == IF ret THEN Tail(fl) ELSE fl
        fl2       == [i \in 1..Len(fl1) |-> [a |-> fl1[i].a, t |-> IF fl1[i].t > 0 THEN fl1[i].t - 1 ELSE 0]]
    IN /\ phase = "run"
       /\ obs' = o.s /\ obad' = o.bad
       /\ cs' = IF cs = "WAIT" THEN "RUN" ELSE IF fire /\ cc = nw - 1 THEN "DONE" ELSE cs
       /\ cc' = IF fire THEN cc + 1 ELSE cc
       /\ av' = IF fire \/ (Bug = "ceaddr" /\ cs = "RUN") THEN NextVal(set.ra, av) ELSE av
       /\ fl' = IF fire THEN Append(fl2, [a |-> addr, t |-> lat - 1]) ELSE fl2
       /\ fifo' = LET f1 == IF pop THEN Tail(fifo) ELSE fifo IN IF ret /\ ~lost THEN Append(f1, retData) ELSE f1
       /\ res' = res + (IF fire THEN 1 ELSE 0) - (IF pop THEN 1 ELSE 0)
       /\ dv' = IF pop THEN NextVal(set.rd, dv) ELSE dv
       /\ dc' = IF pop THEN dc + 1 ELSE dc
       /\ errors' = IF pop /\ (miss \/ Bug = "beats") THEN errors + 1 ELSE errors
       /\ ds' = IF pop /\ dc = nw - 1 THEN "DONE" ELSE ds
       /\ UNCHANGED <<set, nw, mem, phase>>

Finish == /\ phase = "run" /\ ds = "DONE"
          /\ LET o == Fold(obs, obad, <<[c |-> "CDONE", ok |-> TRUE, errors |-> errors]>>) IN obs' = o.s /\ obad' = o.bad
          /\ phase' = "done"
          /\ UNCHANGED <<set, nw, mem, cs, cc, av, ds, dc, dv, errors, res, fifo, fl>>

Next == \/ (ds # "DONE" /\ \E rdy \in BOOLEAN, lat \in 1..LMAX : Tick(rdy, lat))
        \/ Finish
        \/ (phase = "done" /\ UNCHANGED vars)
Spec == Init /\ [][Next]_vars

Sound == obad = {}
(* nothing left to wait for, yet not done: the checker would hang *)
NoHang == ~(phase = "run" /\ ds # "DONE" /\ cs = "DONE" /\ fl = <<>> /\ fifo = <<>>)
Bounded == res <= DEPTH /\ Len(fifo) <= DEPTH /\ dc <= cc
(* vacuity guards: TLC must be able to reach these (checked as "invariants" expected to FAIL in a cover run) *)
CoverErrors == ~(phase = "done" /\ errors > 0)
CoverFull == ~(res = DEPTH /\ cs = "RUN")
====
