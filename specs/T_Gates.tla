---- MODULE T_Gates ----
(* Binding B2 (lock-step conformance) of D_Gates with the real litedram.common.tXXDController / tFAWController instances:
   per cycle the logged valid inputs drive the model, the model's ready outputs must equal the logged ones.  In addition the
   gate contracts are evaluated on the REAL outputs (verdict clauses of C03: they are what every device timing clause that the
   multiplexer / bank machine enforce rests on). *)
EXTENDS D_Gates, TraceLib
VARIABLES l, bad
VinOf(i) == [j \in 1..(NT + NF) |-> Trace[i].v[j]]
Mismatch(i) == {<<"txxd ready differs from the model", j, Ts[j]>> : j \in {x \in 1..NT : xr[x] # Trace[i].r[x]}}
               \cup {<<"tfaw ready differs from the model", j, Fs[j]>> : j \in {x \in 1..NF : fr[x] # Trace[i].r[NT + x]}}
Broken(i) == {<<"gate ready sooner than txxd cycles after its last trigger", j, Ts[j], age[j]>> :
                 j \in {x \in 1..NT : Ts[x] > 0 /\ Trace[i].r[x] /\ age[x] < Ts[x]}}
             \cup {<<"tFAW gate ready with four activates already inside the window", j, Fs[j]>> :
                 j \in {x \in 1..NF : Fs[x] > 0 /\ Trace[i].r[NT + x] /\ Count(fw[x]) > 3}}
TInit == Init /\ vin = VinOf(2) /\ l = 2 /\ bad = {}
TNext == /\ l <= NLines
         /\ bad' = bad \cup {<<l>> \o f : f \in Mismatch(l) \cup Broken(l)}
         /\ Tick
         /\ vin' = IF l < NLines THEN VinOf(l + 1) ELSE vin
         /\ l' = l + 1
TSpec == TInit /\ [][TNext]_<<vars, l, bad>>
AtEnd == (l = NLines + 1) => WriteVerdict(l - 1, bad, [n |-> NT + NF])
====
