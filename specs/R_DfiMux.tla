---- MODULE R_DfiMux ----
(* Requirement C18, first half: the DFI injector is a transparent mux.  TOTAL monitor, one observation per clock cycle:
     o.sel   1 = hardware control, 0 = software (CSR) control        o.ext   1 = the external DFI is selected (hardware mode)
     o.slave / o.extif / o.master : per phase (sequence 1..nphases) a record field-name -> value, all DFI fields
     o.csr   : the CSR state that software programmed: [ctl |-> [cke, odt, reset_n], ph |-> per phase [cs, we, cas, ras, wren,
               rden, cs_top, cs_bottom, address, baddress, wrdata, issue]]   (issue = the command strobe of this cycle)
     o.status: per phase the read-data status register
   DFI signal directions are those of the DFI standard: controller->PHY (M2S) and PHY->controller (S2M).
   Clauses
     HW   (sel=1, ext=0): every M2S signal on the PHY side equals the controller's in the same cycle (clam-shell: cs_n is
          the controller's cs_n presented to both halves); rddata / rddata_valid reach the controller unchanged, same cycle.
     EXT  (sel=1, ext=1): the same with the external interface in the controller's place.
     SW   (sel=0): the PHY side is a function of the CSR state only:
          SW-indep   two consecutive software-mode cycles with equal CSR state show equal PHY-side M2S signals, whatever
                     the controller and the external interface do;
          SW-cmd     as documented by the CSR fields: without a command strobe the phase is idle (no chip selected, ras/cas/we
                     inactive, no data enables); with a strobe it carries exactly the programmed command (cs/we/cas/ras active
                     low, data enables, top/bottom chip select for clam-shell); address, bank, wrdata, cke, odt, reset_n are
                     the programmed values;
          SW-rd      read data the PHY flags valid is captured in the phase's status register (visible the cycle after).
   Written from the property statement, the DFI signal list and the CSR field descriptions -- not from the mux logic. *)
EXTENDS Integers, Sequences, FiniteSets, TLC

M2S == {"address", "bank", "cas_n", "cs_n", "ras_n", "we_n", "cke", "odt", "reset_n", "act_n", "wrdata", "wrdata_en", "wrdata_mask", "rddata_en"}
S2M == {"rddata", "rddata_valid"}

RECURSIVE P2(_)
P2(n) == IF n = 0 THEN 1 ELSE 2 * P2(n - 1)
Ones(n) == P2(n) - 1

(* the controller's view of one signal as the PHY side must show it *)
Expect(cfg, f, v) == IF cfg.clam /\ f = "cs_n" THEN v + v * P2(cfg.nranks) ELSE v
(* clam-shell: cke / odt exist once per half on the PHY side; only the controller's width is required to match *)
Cmp(cfg, f, got, want) == IF cfg.clam /\ f \in {"cke", "odt"} THEN (got % P2(cfg.nranks)) = want ELSE got = want

PassClauses(cfg, name, src, o) ==
    {<<name, "PHY-side signal differs from the selected source", p, f, o.master[p][f], Expect(cfg, f, src[p][f])>> :
        <<p, f>> \in {x \in (1 .. cfg.nphases) \X M2S : ~Cmp(cfg, x[2], o.master[x[1]][x[2]], Expect(cfg, x[2], src[x[1]][x[2]]))}}
    \cup {<<name, "read data does not reach the selected source unchanged", p, f, src[p][f], o.master[p][f]>> :
        <<p, f>> \in {x \in (1 .. cfg.nphases) \X S2M : src[x[1]][x[2]] # o.master[x[1]][x[2]]}}

B(x) == IF x = 1 THEN 0 ELSE 1        \* active-low encoding of a programmed bit
(* chip select: "cs" selects every rank; "cs_top" / "cs_bottom" (clam-shell, two halves) select exactly one half each --
   WHICH bit is the top half is not documented, so any single-half pattern is accepted here and MuxStep requires the two
   to be different and stable.  The driver never programs cs_top and cs_bottom together, nor either outside clam-shell. *)
SwCsn(cfg, c) == IF c.cs_top = 1 \/ c.cs_bottom = 1 THEN {1, 2}
                 ELSE IF c.cs = 1 THEN {0} ELSE {Ones(cfg.mranks)}
SwClauses(cfg, o) ==
    UNION {
      LET m == o.master[p]  c == o.csr.ph[p]
          chk(f, want) == IF m[f] = want THEN {} ELSE {<<"SW-cmd", "PHY-side signal is not what the CSRs program", p, f, m[f], want>>}
      IN IF c.issue = 1
         THEN (IF m.cs_n \in SwCsn(cfg, c) THEN {} ELSE {<<"SW-cmd", "PHY-side signal is not what the CSRs program", p, "cs_n", m.cs_n, SwCsn(cfg, c)>>})
              \cup chk("we_n", B(c.we)) \cup chk("cas_n", B(c.cas)) \cup chk("ras_n", B(c.ras))
              \cup chk("wrdata_en", c.wren) \cup chk("rddata_en", c.rden)
         ELSE chk("cs_n", Ones(cfg.mranks)) \cup chk("we_n", 1) \cup chk("cas_n", 1) \cup chk("ras_n", 1)
              \cup chk("wrdata_en", 0) \cup chk("rddata_en", 0)
      : p \in 1 .. cfg.nphases }
    \cup UNION {
      LET m == o.master[p]  c == o.csr.ph[p]
          chk(f, want) == IF m[f] = want THEN {} ELSE {<<"SW-cmd", "PHY-side signal is not what the CSRs program", p, f, m[f], want>>}
      IN chk("address", c.address) \cup chk("bank", c.baddress) \cup chk("wrdata", c.wrdata)
         \cup chk("reset_n", o.csr.ctl.reset_n)
         \cup (IF (m.cke % P2(cfg.nranks)) = o.csr.ctl.cke * Ones(cfg.nranks) THEN {} ELSE {<<"SW-cmd", "cke is not the programmed value", p, m.cke>>})
         \cup (IF (m.odt % P2(cfg.nranks)) = o.csr.ctl.odt * Ones(cfg.nranks) THEN {} ELSE {<<"SW-cmd", "odt is not the programmed value", p, m.odt>>})
      : p \in 1 .. cfg.nphases }

InitMux == [prev |-> <<>>, top |-> 0 - 1, bot |-> 0 - 1]          \* previous observation (<<>> = none); half-select patterns seen
MuxStep(cfg, s, o) ==
    LET mode == IF o.sel = 1 THEN (IF o.ext = 1 THEN "EXT" ELSE "HW") ELSE "SW"
        pass == CASE mode = "HW" -> PassClauses(cfg, "HW", o.slave, o)
                  [] mode = "EXT" -> PassClauses([cfg EXCEPT !.clam = FALSE], "EXT", o.extif, o)
                  [] OTHER -> SwClauses(cfg, o)
        hasPrev == s.prev # <<>>
        indep == IF mode = "SW" /\ hasPrev /\ s.prev.sel = 0 /\ s.prev.csr = o.csr
                 THEN {<<"SW-indep", "PHY-side signal changed although the CSR state did not", p, f, s.prev.master[p][f], o.master[p][f]>> :
                          <<p, f>> \in {x \in (1 .. cfg.nphases) \X M2S : s.prev.master[x[1]][x[2]] # o.master[x[1]][x[2]]}}
                 ELSE {}
        rd == IF hasPrev /\ s.prev.sel = 0
              THEN {<<"SW-rd", "valid read data was not captured in the status register", p, o.status[p], s.prev.master[p].rddata>> :
                       p \in {q \in 1 .. cfg.nphases : s.prev.master[q].rddata_valid = 1 /\ o.status[q] # s.prev.master[q].rddata}}
              ELSE {}
        tops == IF mode = "SW" THEN {o.master[p].cs_n : p \in {q \in 1 .. cfg.nphases : o.csr.ph[q].issue = 1 /\ o.csr.ph[q].cs_top = 1}} ELSE {}
        bots == IF mode = "SW" THEN {o.master[p].cs_n : p \in {q \in 1 .. cfg.nphases : o.csr.ph[q].issue = 1 /\ o.csr.ph[q].cs_top = 0 /\ o.csr.ph[q].cs_bottom = 1}} ELSE {}
        ntop == IF tops # {} THEN CHOOSE x \in tops : TRUE ELSE s.top
        nbot == IF bots # {} THEN CHOOSE x \in bots : TRUE ELSE s.bot
        half == (IF Cardinality(tops \cup (IF s.top >= 0 THEN {s.top} ELSE {})) > 1 \/ Cardinality(bots \cup (IF s.bot >= 0 THEN {s.bot} ELSE {})) > 1
                 THEN {<<"SW-cmd", "half-select pattern is not stable", tops, bots>>} ELSE {})
                \cup (IF ntop >= 0 /\ ntop = nbot THEN {<<"SW-cmd", "cs_top and cs_bottom select the same half", ntop>>} ELSE {})
    IN [s |-> [prev |-> o, top |-> ntop, bot |-> nbot], bad |-> pass \cup indep \cup rd \cup half, mode |-> mode]
====
