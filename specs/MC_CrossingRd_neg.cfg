SPECIFICATION Spec
CONSTANTS CmdDepth = 2
 RdDepth = 4
 M = 3
 Bound = 5
INVARIANT NoOverflow
