---- MODULE T_Stream ----
(* Trace validation of executions of the REAL DMA reader / DMA writer / DRAM FIFO against R_Stream (C12, C13).
   Line 1 = first configuration; a "NEW" event (a cfg record with c = "NEW") resets the monitor, so many independent
   executions are batched in one file.  Every diagnostic is tagged <<line, execution index, clause...>>. *)
EXTENDS TraceLib, R_Stream
Cfg0 == Trace[1]
VARIABLES l, cfg, st, bad, x, cnt
vars == <<l, cfg, st, bad, x, cnt>>
TInit == l = 2 /\ cfg = Cfg0 /\ st = InitStream(Cfg0) /\ bad = {} /\ x = 0 /\ cnt = [in |-> 0, out |-> 0, cmd |-> 0, execs |-> 1]
TNext == /\ l <= NLines
         /\ l' = l + 1
         /\ LET e == Trace[l] IN
            IF e.c = "NEW" THEN /\ cfg' = e /\ st' = InitStream(e) /\ bad' = bad /\ x' = x + 1
                                /\ cnt' = [cnt EXCEPT !.execs = @ + 1]
            ELSE LET r == StreamStep(cfg, st, e) IN
                 /\ cfg' = cfg /\ st' = r.s /\ x' = x
                 /\ bad' = bad \cup {<<l, x>> \o b : b \in r.bad}
                 /\ cnt' = [cnt EXCEPT !.in = @ + (IF e.c = "IN" THEN 1 ELSE 0), !.out = @ + (IF e.c = "OUT" THEN 1 ELSE 0),
                                       !.cmd = @ + (IF e.c = "CMD" THEN 1 ELSE 0)]
TSpec == TInit /\ [][TNext]_vars
AtEnd == (l = NLines + 1) => WriteVerdict(l - 1, bad, cnt)
====
