---- MODULE MC_CrossingRd ----
(* DESIGN open point D11, decided at model level: the read path of a crossing port
       user --cmd FIFO (CmdDepth, user->sys)--> memory side holding at most M reads --rdata FIFO (RdDepth, sys->user)--> user
   with the user ALWAYS ready (legal for every native-port master) and a memory side with pulse semantics (as the real
   crossbar: rdata.valid is an unconditional strobe, a word offered while the FIFO is not writable is LOST).
   Both FIFOs are D_AsyncFifo instances; user-clock edges, sys-clock edges and coinciding edges interleave freely (= every
   period pair, phase, drift, pause).  Data values are irrelevant here (order is MC_AsyncFifo's business): only occupancy.
   Result (TLC, CmdDepth/RdDepth/M = 2/4/2, 2/8/4 and 4/16/4): the rdata FIFO holds at most  M + CmdDepth  words, so it cannot
   overflow iff  M + CmdDepth <= RdDepth;  the bound is tight (MC_CrossingRd_cover.cfg reaches it) and one more
   outstanding read overflows (MC_CrossingRd_neg.cfg, negative control).  With the real core M = cmd_buffer_depth + 1 (+1 if buffered) + reads already issued
   whose data has not returned, so the default depths (4 / 16) are safe for the default cmd_buffer_depth = 8 only as long as
   the in-flight part stays small, and cmd_buffer_depth = 16 overflows -- which the whole-core runs of C08 exhibit. *)
EXTENDS D_AsyncFifo, TLC
CONSTANTS CmdDepth, RdDepth, M, Bound
VARIABLES c, d, inmem, ovf
vars == <<c, d, inmem, ovf>>
Init == c = FInit(CmdDepth) /\ d = FInit(RdDepth) /\ inmem = 0 /\ ovf = FALSE

SysChoices == {<<acc, ret>> \in BOOLEAN \X BOOLEAN : (acc => inmem < M) /\ (ret => inmem > 0)}

UTick == \E we \in BOOLEAN :
            /\ c' = WStep(c, we, 0) /\ d' = RStep(d, TRUE) /\ UNCHANGED <<inmem, ovf>>
STick == \E ch \in SysChoices :
            LET acc == ch[1]  ret == ch[2] IN
            /\ c' = RStep(c, acc)
            /\ d' = WStep(d, ret, 0)
            /\ inmem' = inmem + (IF Pops(c, acc) THEN 1 ELSE 0) - (IF ret THEN 1 ELSE 0)
            /\ ovf' = (ovf \/ (ret /\ ~Writable(d)))
BTick == \E we \in BOOLEAN, ch \in SysChoices :
            LET acc == ch[1]  ret == ch[2] IN
            /\ c' = BStep(c, we, 0, acc)
            /\ d' = BStep(d, ret, 0, TRUE)
            /\ inmem' = inmem + (IF Pops(c, acc) THEN 1 ELSE 0) - (IF ret THEN 1 ELSE 0)
            /\ ovf' = (ovf \/ (ret /\ ~Writable(d)))
Next == UTick \/ STick \/ BTick
Spec == Init /\ [][Next]_vars

NoOverflow == ~ovf
(* everything the user has issued and not yet received is in the cmd FIFO, in the memory side, or in the rdata FIFO *)
Outstanding == Occ(c) + inmem + Occ(d)
OccBound == ovf \/ Occ(d) <= Bound
OutBound == ovf \/ Outstanding <= M + CmdDepth
Cover == ~(Occ(d) = Bound)      \* violated <=> the bound is reached (tightness), used by the cover cfg only
====
