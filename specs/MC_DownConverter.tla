---- MODULE MC_DownConverter ----
(* Model-checking wrapper for D_DownConverter; constants are assigned in the MC_DownConverter_*.cfg files. *)
EXTENDS D_DownConverter
====
