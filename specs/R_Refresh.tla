---- MODULE R_Refresh ----
(* Requirement C04: refresh is never starved and keeps the datasheet rate.
   With N postponable refreshes the k-th REF (k >= 1) is due no later than (k + N) datasheet refresh intervals after
   start plus a fixed service latency L(cfg); hence never more than N refreshes are owed and the long-run rate is at
   least one per tREFI.  Configured ZQ calibration recurs at its period.  "Preceded by a precharge of all banks" and
   the tRP/tRFC spacing are device clauses (R_DramDevice).
   cfg fields used: nphases, nranks, nbanks, fkhz, postponing (N), refresh (BOOLEAN), ds.tREFI.ps,
                    zq_period (tCK, 0 = no ZQCS), wl, blck.   rq = R_DramDevice!Req(cfg). *)
EXTENDS Integers, Sequences, BigNat

\* worst time (tCK) the bank machines and the command bus can keep a due refresh waiting, from datasheet numbers
LWait(cfg, rq) == LET n == cfg.nphases  nrb == cfg.nranks * cfg.nbanks IN
    2 * (rq["tRAS"] + rq["tRP"] + rq["tRCD"] + rq["tWR"] + cfg.wl + cfg.blck + 6 * n)
    + rq["tRC"] + nrb * (rq["tRRD"] + 2 * n) + (nrb \div 4 + 1) * (rq["tFAW"] + n) + 48 * n
LService(cfg, rq) == cfg.postponing * (rq["tRP"] + rq["tRFC"] + 4 * cfg.nphases) + rq["tZQCS"] + rq["tRP"] + 4 * cfg.nphases
                     + LWait(cfg, rq)

InitRef == [nref |-> 0, nzq |-> 0, tzq |-> 0]
DueRef(cfg, rq, k) == FloorCyclesN(k + cfg.postponing, cfg.ds["tREFI"].ps, cfg.fkhz) + LService(cfg, rq)
\* ZQ calibration is piggy-backed on a refresh burst and its period timer restarts when a calibration completes
\* (lenient reading of "recurs at its period"): each calibration follows the previous one (or start) within
\* one period + one refresh burst interval + the service latency.
DueZq(cfg, rq, last) == last + cfg.zq_period + FloorCyclesN(cfg.postponing, cfg.ds["tREFI"].ps, cfg.fkhz) + LService(cfg, rq) + rq["tZQCS"]

RefStep(cfg, rq, s, e) ==
  CASE e.c = "REF" -> LET k == s.nref + 1  due == DueRef(cfg, rq, k) IN
         [s |-> [s EXCEPT !.nref = k],
          bad |-> IF cfg.refresh /\ e.t > due THEN {<<"refresh later than (k+N)*tREFI + L", k, e.t, due>>} ELSE {}]
    [] e.c = "ZQCS" -> LET k == s.nzq + 1  due == DueZq(cfg, rq, s.tzq) IN
         [s |-> [s EXCEPT !.nzq = k, !.tzq = e.t],
          bad |-> IF cfg.zq_period > 0 /\ e.t > due THEN {<<"ZQCS later than its period allows", k, e.t, due>>} ELSE {}]
    [] e.c = "END" ->
         [s |-> s,
          bad |-> (IF cfg.refresh /\ e.t > DueRef(cfg, rq, s.nref + 1)
                   THEN {<<"refresh overdue at end of run", s.nref + 1, e.t, DueRef(cfg, rq, s.nref + 1)>>} ELSE {})
                  \cup (IF cfg.refresh /\ cfg.zq_period > 0 /\ e.t > DueZq(cfg, rq, s.tzq)
                        THEN {<<"ZQCS overdue at end of run", s.nzq + 1, e.t, DueZq(cfg, rq, s.tzq)>>} ELSE {})]
    [] OTHER -> [s |-> s, bad |-> {}]
====
