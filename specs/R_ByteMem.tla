---- MODULE R_ByteMem ----
(* Shared by R_WbMem (C10) and R_AvlMem (C11): a flat little-endian BYTE memory whose cells hold the SET of values the
   requirement still allows for that byte.  A completed write makes the set a singleton; an aborted (Wishbone) write adds
   its value as an alternative; a read that returns one of the allowed values resolves the cell to that value.
   Never-written cells hold the harness' documented initial pattern BmInitByte (the ideal memory behind the bridge is
   initialised with the same formula), so an access served from a wrong location is visible even before any write.
   lanes: sequences are 1-based, lane k (0-based) of a word is element k+1. *)
EXTENDS Integers, Sequences, FiniteSets

BmInitByte(B) == ((B % 256) * 73 + ((B \div 256) % 256) * 19 + 5) % 256        \* = (73 B + 19 (B div 256) + 5) mod 256, overflow-free
BmInit == <<>>                                              \* function byte address -> set of allowed values; growing domain
BmGet(m, B) == IF B \in DOMAIN m THEN m[B] ELSE {BmInitByte(B)}

\* bytes base+0 .. base+n-1 ; en[k+1] = 1 selects lane k ; d[k+1] = value of lane k
BmLanes(n) == 0 .. n - 1
BmSel(n, en) == {k \in BmLanes(n) : en[k + 1] = 1}

\* completed write: selected bytes become exactly the written value
BmWrite(m, base, n, en, d) ==
    LET S == {base + k : k \in BmSel(n, en)} IN
    [x \in (DOMAIN m) \cup S |-> IF x \in S THEN {d[x - base + 1]} ELSE m[x]]

\* write that may or may not have happened: selected bytes gain the written value as an alternative
BmMaybeWrite(m, base, n, en, d) ==
    LET S == {base + k : k \in BmSel(n, en)} IN
    [x \in (DOMAIN m) \cup S |-> IF x \in S THEN BmGet(m, x) \cup {d[x - base + 1]} ELSE m[x]]

\* lanes (0-based) of a returned word that are selected and not among the allowed values
BmWrongLanes(m, base, n, en, q) == {k \in BmSel(n, en) : q[k + 1] \notin BmGet(m, base + k)}

\* a read resolves every selected lane it answered with an allowed value
BmResolve(m, base, n, en, q) ==
    LET S == {base + k : k \in BmSel(n, en)}
        ok(x) == q[x - base + 1] \in BmGet(m, x) IN
    [x \in (DOMAIN m) \cup S |-> IF x \in S /\ ok(x) THEN {q[x - base + 1]} ELSE BmGet(m, x)]

BmAllOnes(n) == [k \in 1..n |-> 1]
====
