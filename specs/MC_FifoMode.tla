---- MODULE MC_FifoMode ----
EXTENDS D_FifoMode
====
