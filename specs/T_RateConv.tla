---- MODULE T_RateConv ----
(* Trace validation of the real DFIRateConverter against R_RateConv. Line 1 / "NEW" lines: cfg [ratio, P, ser, des, wd, rd,
   csidle, tid]; then F / S records merged by simulator time (F before S at a common instant). *)
EXTENDS TraceLib, R_RateConv
Cfg0 == Trace[1]
VARIABLES l, cfg, rc, bad
vars == <<l, cfg, rc, bad>>
TInit == l = 2 /\ cfg = Cfg0 /\ rc = InitRC /\ bad = {}
TNext == /\ l <= NLines
         /\ l' = l + 1
         /\ LET e == Trace[l] IN
            IF e.k = "NEW" THEN cfg' = e /\ rc' = InitRC /\ bad' = bad
            ELSE LET r == RCStep(cfg, rc, e) IN
                 /\ cfg' = cfg /\ rc' = r.s
                 /\ bad' = IF Cardinality(bad) > 60 THEN bad ELSE bad \cup {<<l, cfg.tid>> \o x : x \in r.bad}
TSpec == TInit /\ [][TNext]_vars
AtEnd == (l = NLines + 1) => WriteVerdict(l - 1, bad, [lines |-> NLines, slots |-> rc.slots, cmds |-> rc.cmds])
====
