SPECIFICATION MSpec
CONSTANTS NB = 3
 Nph = 1
 RdPhase = 0
 WrPhase = 0
 tRRD = 1
 tFAW = 4
 tCCD = 1
 tWTRc = 3
 ReadLatency = 3
 ReadTime = 3
 WriteTime = 2
 WL = 1
 BLCK = 1
 tWTRdev = 1
INVARIANT Legal
VIEW View
CHECK_DEADLOCK FALSE
