CONSTANTS MaxNW = 4
          RW = 2
          DEPTH = 2
          LMAX = 3
          Bug = "none"
SPECIFICATION Spec
INVARIANTS Sound NoHang Bounded
CHECK_DEADLOCK FALSE
