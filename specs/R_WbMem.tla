---- MODULE R_WbMem ----
(* Requirement C10 -- Wishbone slave port with memory semantics, as a TOTAL monitor over per-cycle bus samples.
   Written from the property statement and the Wishbone B4 classic / registered-feedback rules:
     * an ACCESS starts in the first cycle with CYC & STB after reset / an acknowledge / an abort, and lasts until the
       slave's ACK is sampled with CYC & STB (rule 3.35: ACK answers CYC & STB; 3.60: the master keeps STB and the
       qualified signals ADR, WE, SEL, DAT_O, CTI stable until then);  CTI is a per-access HINT: the property quantifies over
       all sequences of (address, sel, we, CTI), so nothing is assumed about the access that follows a CTI=010 beat;
     * an access is ABORTED when the master negates CYC/STB before the acknowledge;
     * C10: every non-aborted access is acknowledged exactly once (an access still open after cfg.bound cycles is reported
       by the driver as TIMEOUT and is a violation; a second acknowledge would terminate -- and is judged as -- the next
       access); the acknowledge of a read carries, on the selected lanes, the bytes most recently written; a write updates
       exactly the selected bytes; an aborted write may or may not take effect (per byte: the cell keeps both values until
       a read or the final dump resolves it), an aborted read has no effect; nothing else may change: the final contents
       of the backing memory (MEM events, one per native word) must be an allowed value in EVERY byte.
   Sample  e = [c |-> "CYC", t, cyc, stb, we, a, sel (bits), d (bytes), cti, ack, q (bytes, present when ack = 1)].
   cfg = [wb |-> bytes per Wishbone word, pb |-> bytes per native word, base |-> base address in Wishbone words, bound].
   The monitor state holds no time and no counters (so that the design model D_Wb2Native can carry it in its state);
   gap tells that idle cycles (CYC = STB = ACK = 0) were skipped before this sample.
   Clauses starting with "ENV:" say that the MASTER (our driver / the model's environment) broke a Wishbone rule. *)
EXTENDS R_ByteMem

WbInit == [pend |-> FALSE, acc |-> [a |-> 0, we |-> 0, sel |-> <<>>, d |-> <<>>, cti |-> 0],
           mem |-> BmInit, abw |-> FALSE, burst |-> FALSE, dumped |-> {}]

WbActive(e) == e.cyc = 1 /\ e.stb = 1
WbProj(e) == [a |-> e.a, we |-> e.we, sel |-> e.sel, d |-> IF e.we = 1 THEN e.d ELSE <<>>, cti |-> e.cti]
WbBase(cfg, a) == (a - cfg.base) * cfg.wb
WbCtx(s) == IF s.abw THEN "after-aborted-write" ELSE "plain"

\* the pending access is dropped by the master
WbAbort(cfg, s) ==
    [s EXCEPT !.pend = FALSE, !.burst = FALSE,
              !.abw = s.abw \/ (s.acc.we = 1 /\ BmSel(cfg.wb, s.acc.sel) # {}),
              !.mem = IF s.acc.we = 1 THEN BmMaybeWrite(s.mem, WbBase(cfg, s.acc.a), cfg.wb, s.acc.sel, s.acc.d) ELSE s.mem]

WbStep(cfg, s, e, gap) ==        \* -> [s |-> state, bad |-> set of diagnostics, tags |-> set of strings (coverage only)]
  CASE e.c = "CYC" ->
    LET act  == WbActive(e)
        drop == s.pend /\ (gap \/ ~act)
        s1   == IF drop THEN WbAbort(cfg, s)
                ELSE IF gap \/ e.cyc = 0 THEN [s EXCEPT !.burst = FALSE] ELSE s
        envC == IF s.pend /\ ~drop /\ WbProj(e) # s.acc
                THEN {<<"ENV: master changed ADR/WE/SEL/DAT/CTI while waiting for the acknowledge">>} ELSE {}
        new  == act /\ ~s1.pend
        envA == IF new /\ (e.a < cfg.base) THEN {<<"ENV: address below the base address">>} ELSE {}
        s2   == IF new THEN [s1 EXCEPT !.pend = TRUE, !.acc = WbProj(e)] ELSE s1
        base == WbBase(cfg, s2.acc.a)
        t1   == (IF drop THEN {IF s.acc.we = 1 THEN "abort-write" ELSE "abort-read"} ELSE {})
                \cup (IF new THEN {IF e.we = 1 THEN "write" ELSE "read"} ELSE {})
    IN IF e.ack = 1 /\ s2.pend THEN
          IF s2.acc.we = 1 THEN
             [s |-> [s2 EXCEPT !.pend = FALSE, !.burst = (s2.acc.cti = 2),
                               !.mem = BmWrite(s2.mem, base, cfg.wb, s2.acc.sel, s2.acc.d)],
              bad |-> envC \cup envA, tags |-> t1 \cup {"ack-write"} \cup (IF new THEN {"ack-same-cycle"} ELSE {})]
          ELSE LET wrong == BmWrongLanes(s2.mem, base, cfg.wb, s2.acc.sel, e.q) IN
             [s |-> [s2 EXCEPT !.pend = FALSE, !.burst = (s2.acc.cti = 2),
                               !.mem = BmResolve(s2.mem, base, cfg.wb, s2.acc.sel, e.q)],
              bad |-> envC \cup envA \cup
                      {<<"read acknowledge does not carry the bytes last written", WbCtx(s2), s2.acc.a, k,
                         e.q[k + 1], BmGet(s2.mem, base + k)>> : k \in wrong},
              tags |-> t1 \cup {"ack-read"} \cup (IF new THEN {"ack-same-cycle"} ELSE {})]
       ELSE [s |-> s2, bad |-> envC \cup envA,
             tags |-> t1 \cup (IF e.ack = 1 THEN {"ack-without-access"} ELSE {})]
  [] e.c = "TIMEOUT" ->
       [s |-> [s EXCEPT !.pend = FALSE, !.burst = FALSE],
        bad |-> IF s.pend THEN {<<"access not acknowledged within the bound", WbCtx(s), IF s.acc.we = 1 THEN "write" ELSE "read", s.acc.a>>}
                ELSE {<<"ENV: TIMEOUT reported while no access is open">>},
        tags |-> {"timeout"}]
  [] e.c = "MEM" ->       \* final contents of native word e.a of the backing memory (an access still open was dropped)
       LET s0 == IF s.pend THEN WbAbort(cfg, s) ELSE s
           base == e.a * cfg.pb
           wrong == BmWrongLanes(s0.mem, base, cfg.pb, BmAllOnes(cfg.pb), e.d) IN
       [s |-> [s0 EXCEPT !.dumped = s0.dumped \cup {e.a}],
        bad |-> {<<"final memory content is not what the accesses left", WbCtx(s0), e.a, k, e.d[k + 1], BmGet(s0.mem, base + k)>> : k \in wrong},
        tags |-> {"mem"} \cup (IF s.pend THEN {IF s.acc.we = 1 THEN "abort-write" ELSE "abort-read"} ELSE {})]
  [] e.c = "END" ->
       LET s0 == IF s.pend THEN WbAbort(cfg, s) ELSE s IN
       [s |-> s0,
        bad |-> (IF \E B \in DOMAIN s0.mem : (B \div cfg.pb) \notin s0.dumped
                 THEN {<<"ENV: a written native word was not dumped">>} ELSE {}),
        tags |-> {"end"} \cup (IF s.pend THEN {IF s.acc.we = 1 THEN "abort-write" ELSE "abort-read"} ELSE {})]
  [] OTHER -> [s |-> s, bad |-> {<<"ENV: unknown event">>}, tags |-> {}]
====
