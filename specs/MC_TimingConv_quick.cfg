SPECIFICATION Spec
INVARIANT Lemma
CONSTANTS Bug = FALSE  Rounds = 150
CHECK_DEADLOCK FALSE
