---- MODULE T_AsyncFifo ----
(* Lock-step conformance (B2, never a verdict) of the design model D_AsyncFifo against the real crossing, at the interface
   of each channel.  One line per (instant, channel):
     [k |-> "W" | "R" | "B", ch, we, din, wr, re, rd, dout]
   k = which clock edge(s) of THIS channel happen at the instant (W = its write-domain clock, R = its read-domain clock);
   we/din/wr = sink.valid / payload / sink.ready and re/rd/dout = source.ready / source.valid / payload as they were just
   BEFORE the edge (what the registers sample).  The model must show the same wr / rd / dout and is then stepped with the
   observed we / din / re.  Header (line 1): [depth |-> [cmd |-> 4, wdata |-> 16, rdata |-> 16]].
   A line [k |-> "NEW"] starts a new execution (all three models reset).
   Mismatches are collected as <<line, "MODEL-DRIFT", ch, signal, observed, model>>. *)
EXTENDS TraceLib, D_AsyncFifo
Cfg0 == Trace[1]
Chs == {"cmd", "wdata", "rdata"}
VARIABLES l, fs, bad
vars == <<l, fs, bad>>
TInit == l = 2 /\ fs = [ch \in Chs |-> FInit(Cfg0.depth[ch])] /\ bad = {}
B(x) == x = 1
TNext == /\ l <= NLines
         /\ l' = l + 1
         /\ IF Trace[l].k = "NEW" THEN fs' = [ch \in Chs |-> FInit(Cfg0.depth[ch])] /\ bad' = bad ELSE
            LET e == Trace[l]
                f == fs[e.ch]
                hasW == e.k \in {"W", "B"}
                hasR == e.k \in {"R", "B"}
                d1 == IF hasW /\ B(e.wr) # Writable(f) THEN {<<l, "MODEL-DRIFT", e.ch, "writable", e.wr, Writable(f)>>} ELSE {}
                d2 == IF hasR /\ B(e.rd) # Readable(f) THEN {<<l, "MODEL-DRIFT", e.ch, "readable", e.rd, Readable(f)>>} ELSE {}
                d3 == IF hasR /\ B(e.rd) /\ Readable(f) /\ e.dout # Dout(f) THEN {<<l, "MODEL-DRIFT", e.ch, "dout", e.dout, Dout(f)>>} ELSE {}
                nf == CASE e.k = "W" -> WStep(f, B(e.we), e.din)
                        [] e.k = "R" -> RStep(f, B(e.re))
                        [] OTHER -> BStep(f, B(e.we), e.din, B(e.re))
            IN /\ fs' = [fs EXCEPT ![e.ch] = nf]
               /\ bad' = IF Cardinality(bad) > 20 THEN bad ELSE bad \cup d1 \cup d2 \cup d3
TSpec == TInit /\ [][TNext]_vars
AtEnd == (l = NLines + 1) => WriteVerdict(l - 1, bad, [lines |-> NLines])
====
