SPECIFICATION Spec
CONSTANTS
  NPh = 4
  Span = 3
  Mode = "short"
  Kinds = {1, 2}
INVARIANT Placement
INVARIANT Tolerant
CHECK_DEADLOCK FALSE
