---- MODULE T_Refresher ----
(* Binding B2 (lock-step conformance) of D_Refresher with the real litedram.core.refresher.Refresher: the per-cycle log of
   cmd.ready (input) and cmd.valid / cmd.last / registered command (outputs) is replayed through D_Refresher!Tick. *)
EXTENDS D_Refresher, TraceLib
VARIABLES l, bad
Kind(r) == IF r.ras /\ ~r.cas /\ r.we THEN "PREA" ELSE IF r.ras /\ r.cas /\ ~r.we THEN "REF"
           ELSE IF ~r.ras /\ ~r.cas /\ r.we THEN "ZQCS" ELSE IF ~r.ras /\ ~r.cas /\ ~r.we THEN "NOP" ELSE "OTHER"
Mismatch(i) == (IF cmdValid # Trace[i].valid THEN {"valid"} ELSE {}) \cup (IF cmdLast # Trace[i].last THEN {"last"} ELSE {})
               \cup (IF cmd # Kind(Trace[i]) THEN {"cmd"} ELSE {})
TInit == Init /\ l = 2 /\ bad = {}
TNext == /\ l <= NLines
         /\ ready = Trace[l].ready
         /\ bad' = bad \cup {<<l, f>> : f \in Mismatch(l)}
         /\ Tick
         /\ ready' = IF l < NLines THEN Trace[l + 1].ready ELSE ready
         /\ l' = l + 1
TSpec == (TInit /\ ready = Trace[2].ready) /\ [][TNext]_<<vars, l, bad>>
AtEnd == (l = NLines + 1) => WriteVerdict(l - 1, bad, [fsm |-> fsm])
====
