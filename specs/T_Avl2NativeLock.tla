---- MODULE T_Avl2NativeLock ----
(* Lock-step conformance (binding B2) of the design model D_Avl2Native with the REAL Avalon-MM bridge (8-bit Avalon,
   8-bit native port, base address 0): one trace line per clock cycle with the bridge's inputs and outputs; TLC
   re-executes AComb / ANext on the logged inputs and compares every output.  A mismatch is MODEL DRIFT, never a verdict.
   Line 1: [MB |-> max_burst_length, VAR |-> model variant to compare with ("code" | "gapfix")]. *)
EXTENDS TraceLib, D_Avl2Native
Hd == Trace[1]
VARIABLES l, r, bad, nacc
vars == <<l, r, bad, nacc>>
TInit == l = 2 /\ r = AInit /\ bad = {} /\ nacc = 0
Ne(name, have, want, cond) == IF cond /\ have # want THEN {<<name, have, want>>} ELSE {}
Diff(e, o) ==
    Ne("waitrequest", e.o.wait, o.wait, TRUE) \cup Ne("readdatavalid", e.o.rdv, o.rdv, TRUE)
    \cup Ne("readdata", e.o.q, o.q, o.rdv = 1)
    \cup Ne("cmd.valid", e.o.cv, o.cv, TRUE) \cup Ne("cmd.we/addr/last", <<e.o.cwe, e.o.ca, e.o.clast>>, <<o.cwe, o.ca, o.clast>>, o.cv = 1)
    \cup Ne("wdata.valid", e.o.wv, o.wv, TRUE) \cup Ne("wdata.data/we", <<e.o.wd, e.o.ww>>, <<o.wd, o.ww>>, o.wv = 1)
    \cup Ne("rdata.ready", e.o.rr, o.rr, TRUE)
TNext == /\ l <= NLines
         /\ l' = l + 1
         /\ LET e == Trace[l]
                o == AComb(Hd.MB, r, e.i, Hd.VAR) IN
            /\ r' = ANext(Hd.MB, r, e.i, Hd.VAR)
            /\ bad' = IF Cardinality(bad) < 8 THEN bad \cup {<<l, "MODEL-DRIFT">> \o x : x \in Diff(e, o)} ELSE bad
            /\ nacc' = nacc + (IF (e.i.rd = 1 \/ e.i.wr = 1) /\ o.wait = 0 THEN 1 ELSE 0)
TSpec == TInit /\ [][TNext]_vars
AtEnd == (l = NLines + 1) => WriteVerdict(l - 1, bad, [accepted |-> nacc, cycles |-> NLines - 1])
====
