---- MODULE MC_BankMachineLive ----
(* Liveness side of the bank machine: D_BankMachine with the environment of MC_BankMachine (master holds its request, refresher
   holds refresh_req until granted and through its sequence, arbitrary cmd.ready) but WITHOUT the device observer (absolute times
   have no place in a liveness check), plus a tick bit so that a cycle in which no register changes is not a stuttering step.
   Fairness: cmd.ready is high infinitely often (what MC_Multiplexer / MC_MuxRef show for the multiplexer).
   Properties: a refresh request is eventually granted (the bounded-wait assumption `mayWait` of A_BankMachine in the composition
   MC_MuxRef is thereby discharged qualitatively: every wait of the real design is finite), and a presented command is eventually
   accepted or withdrawn for a refresh. *)
EXTENDS D_BankMachine, Integers
CONSTANTS tRFC
VARIABLES rph, tick
lvars == <<vars, rph, tick>>
EnvNext == /\ in' \in Inputs
           /\ (in.valid /\ ~reqReady) => (in'.valid /\ in'.we = in.we /\ in'.addr = in.addr)
           /\ rph' = CASE rph = 0 -> IF in'.refreq THEN 1 ELSE 0
                       [] rph = 1 -> IF refGnt /\ in.refreq THEN 2 ELSE 1
                       [] rph >= 2 /\ rph < 2 + tRP + tRFC -> rph + 1
                       [] OTHER -> 0
           /\ in'.refreq = (rph' # 0)
LInit == Init /\ rph = (IF in.refreq THEN 1 ELSE 0) /\ tick = 0
LNext == Tick /\ EnvNext /\ tick' = 1 - tick
Ready == LNext /\ in'.cmdready
LSpec == LInit /\ [][LNext]_lvars /\ WF_lvars(LNext) /\ WF_lvars(Ready)
RefreshGranted == (rph = 1) ~> (rph = 2)
CommandServed == cmdValid ~> (accept \/ ~cmdValid)
\* negative control (vacuity guard): without the fairness of cmd.ready a bank machine waiting in PRECHARGE / ACTIVATE never grants
LSpecUnfair == LInit /\ [][LNext]_lvars /\ WF_lvars(LNext)
====
