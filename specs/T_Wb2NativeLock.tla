---- MODULE T_Wb2NativeLock ----
(* Lock-step conformance (binding B2) of the design models D_Wb2Native / D_WbEq with the REAL Wishbone bridge
   (8-bit Wishbone, R-byte native port, base address 0): one trace line per clock cycle with the bridge's inputs
   (Wishbone master side + native memory side) and its outputs.  TLC re-executes BComb / BNext on the logged inputs and
   compares every output.  A mismatch is MODEL DRIFT (the model no longer is the code), never a verdict on the code.
   Line 1: [R, PATH ("narrow": D_Wb2Native | "equal": D_WbEq with R = 1), VAR (variant of D_WbEq)].  Line: [i |-> inputs as in D_Wb2Native, o |-> [ack, dat_r, cv, cwe, ca, clast, wv, wd, ww, rr]]. *)
EXTENDS TraceLib, D_Wb2Native, D_WbEq
Rr == Trace[1].R
Narrow == Trace[1].PATH = "narrow"
Vr == Trace[1].VAR
VARIABLES l, r, bad, nack
vars == <<l, r, bad, nack>>
TInit == l = 2 /\ r = (IF Narrow THEN BInit(Rr) ELSE EInit) /\ bad = {} /\ nack = 0
Diff(e, o) ==
    {<<"ack", e.o.ack, o.ack>> : x \in IF e.o.ack # o.ack THEN {1} ELSE {}}
    \cup {<<"dat_r", e.o.dat_r, o.dat_r>> : x \in IF o.ack = 1 /\ e.i.we = 0 /\ e.o.dat_r # o.dat_r THEN {1} ELSE {}}
    \cup {<<"cmd.valid", e.o.cv, o.cv>> : x \in IF e.o.cv # o.cv THEN {1} ELSE {}}
    \cup {<<"cmd.we/addr/last", <<e.o.cwe, e.o.ca, e.o.clast>>, <<o.cwe, o.ca, o.clast>>>> :
             x \in IF o.cv = 1 /\ <<e.o.cwe, e.o.ca, e.o.clast>> # <<o.cwe, o.ca, o.clast>> THEN {1} ELSE {}}
    \cup {<<"wdata.valid", e.o.wv, o.wv>> : x \in IF e.o.wv # o.wv THEN {1} ELSE {}}
    \cup {<<"wdata.data/we", <<e.o.wd, e.o.ww>>, <<o.wd, o.ww>>>> :
             x \in IF o.wv = 1 /\ <<e.o.wd, e.o.ww>> # <<o.wd, o.ww>> THEN {1} ELSE {}}
    \cup {<<"rdata.ready", e.o.rr, o.rr>> : x \in IF e.o.rr # o.rr THEN {1} ELSE {}}
TNext == /\ l <= NLines
         /\ l' = l + 1
         /\ LET e == Trace[l]
                o == IF Narrow THEN BComb(Rr, r, e.i, "none") ELSE EComb(r, e.i, Vr) IN
            /\ r' = IF Narrow THEN BNext(Rr, r, e.i, "none") ELSE ENext(r, e.i, Vr)
            /\ bad' = IF Cardinality(bad) < 8 THEN bad \cup {<<l, "MODEL-DRIFT">> \o x : x \in Diff(e, o)} ELSE bad
            /\ nack' = nack + o.ack
TSpec == TInit /\ [][TNext]_vars
AtEnd == (l = NLines + 1) => WriteVerdict(l - 1, bad, [acks |-> nack, cycles |-> NLines - 1])
====
