SPECIFICATION Spec
CONSTANTS P = 1
 Ratio = 2
 WD = 0
 RD = 0
 CmdVals = {0, 1}
 ChunkVals = {0, 1}
 FinVals <- FinTwo
 Bug = "ser_order"
 DriveM2S = TRUE
 DriveS2M = FALSE
INVARIANT ReqOK
