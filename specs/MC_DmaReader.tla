---- MODULE MC_DmaReader ----
EXTENDS D_DmaReader
====
