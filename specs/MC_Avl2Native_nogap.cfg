SPECIFICATION Spec
CONSTANTS
  NA = 3
  MAXB = 3
  MB = 2
  BES = {1}
  GAPS = FALSE
  COVER = FALSE
  LMIN = 1
  LMAX = 2
  STALL = 1
  WMAX = 16
  VAR = "code"
INVARIANTS NoClauseBroken MemAllowed DoneWithinBound QueueBounded
CHECK_DEADLOCK TRUE
