SPECIFICATION Spec
CONSTANTS
  NPh = 4
  Span = 3
  Mode = "basic"
  Kinds = {1, 2}
INVARIANT Placement
INVARIANT Strict
CHECK_DEADLOCK FALSE
