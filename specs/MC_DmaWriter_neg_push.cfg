\* generated from harness/props/streamgen.py (the check passes the same text to TLC)
SPECIFICATION Spec
CONSTANTS
 Depths = {2}
 Buffereds = {FALSE}
 Lmins = {2}
 Addrs = {0, 1}
 Datas = {1, 2}
 Bug = "push_without_cmd"
INVARIANT Holds
INVARIANT TypeOK
VIEW View
CHECK_DEADLOCK TRUE
