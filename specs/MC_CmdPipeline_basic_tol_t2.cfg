SPECIFICATION Spec
CONSTANTS
  NPh = 6
  Span = 4
  Mode = "basic"
  Kinds = {1, 2}
INVARIANT Placement
INVARIANT Tolerant
CHECK_DEADLOCK FALSE
