---- MODULE MC_Wb2Native ----
(* Closed system for exhaustive TLC checking of D_Wb2Native against the requirement R_WbMem (the SAME operators that
   judge real traces):   Wishbone master (environment)  ->  bridge model  ->  pulse-semantics native memory (environment).
   * master: any legal Wishbone B4 behaviour over NA narrow addresses: classic / incrementing-burst (CTI 010 ... 111)
     accesses, reads and writes (sel from SELS, symbolic data), STB gaps with CYC held, back-to-back accesses, CYC negated
     at ANY cycle (aborts and early burst ends).  Legality is what R_WbMem's ENV clauses say, enforced by construction.
   * memory: cmd.ready arbitrary (at most STALL consecutive low cycles), one wdata.ready / rdata.valid pulse per command,
     LMIN..LMAX cycles after the accept, regardless of wdata.valid (data not offered is lost); garbage rdata otherwise.
   * observer: obs = R_WbMem monitor state, fed the per-cycle bus sample; invariants: no clause broken (lastbad = {}),
     backing memory allowed by the monitor whenever the system is quiescent, an open access is acknowledged within WMAX. *)
EXTENDS D_Wb2Native, D_WbEq, R_WbMem, TLC
CONSTANTS PATH, R, NW, SELS, HOLD, VALS, COVER, LMIN, LMAX, STALL, WMAX, BUG
\* PATH = "narrow": D_Wb2Native with R lanes;  PATH = "equal": D_WbEq (R must be 1; BUG is its VAR)
VARIABLES r, m, mo, mem, q, stallc, obs, lastbad, wcnt, seen, lastack
vars == <<r, m, mo, mem, q, stallc, obs, lastbad, wcnt, seen, lastack>>

NA == R * NW
Cfg == [wb |-> 1, pb |-> R, base |-> 0, bound |-> WMAX]
Garbage == [k \in 1..R |-> 99]
Idle(cyc) == [cyc |-> cyc, stb |-> 0, we |-> 0, a |-> 0, sel |-> 0, d |-> 0, cti |-> 0]
MemWord(mm, a) == [k \in 1..R |-> mm[a * R + k - 1]]

Narrow == PATH = "narrow"
Init == /\ r = IF Narrow THEN BInit(R) ELSE EInit
        /\ m = Idle(0)
        /\ mo = [cmd_ready |-> 0, wdata_ready |-> 0, rdata_valid |-> 0, rdata |-> Garbage]
        /\ mem = [B \in 0..NA - 1 |-> BmInitByte(B)]
        /\ q = <<>> /\ stallc = 0
        /\ obs = WbInit /\ lastbad = {} /\ wcnt = 0 /\ seen = {} /\ lastack = 0

\* master outputs allowed in the next cycle, given the monitor state after this cycle
\* symbolic data: a write always carries a value different from what the requirement currently allows at that byte
\* (VALS = 3: 1 or 2;  VALS = 2: 1 or the initial value), so stale data is always distinguishable; reads carry d = 0
NewVal(o2, a) == IF VALS = 2 THEN (IF 1 \in BmGet(o2.mem, a) THEN BmInitByte(a) ELSE 1)
                 ELSE (IF 1 \in BmGet(o2.mem, a) THEN 2 ELSE 1)
Acc(o2, w, a, s, c) == [cyc |-> 1, stb |-> 1, we |-> w, a |-> a, sel |-> s, d |-> IF w = 1 THEN NewVal(o2, a) ELSE 0, cti |-> c]
NewAccesses(o2) ==      \* CTI is a hint per access: any direction / address / CTI may follow any access, also inside a held cycle
    UNION {{Acc(o2, w, a, s, c) : s \in (IF w = 1 THEN SELS ELSE {1}), c \in {2, 7}} : w \in {0, 1}, a \in 0..NA - 1}
NextMaster(o2) ==
    IF o2.pend THEN {m, Idle(0)}
    ELSE {Idle(0)} \cup (IF HOLD THEN {Idle(1)} ELSE {}) \cup NewAccesses(o2)
    \* 

\* vacuity guard: with COVER = TRUE the ghost variable seen collects the named situations met so far; the cover
\* configuration (TLC -simulate) must VIOLATE CoverAll, i.e. exhibit one behaviour of this closed system that meets them all.
Goals == (IF Narrow THEN
            (IF r.fsm = "CMD" /\ m.cyc = 1 /\ m.stb = 1 /\ m.we = 0 /\ r.wr_valid = 0 /\ DwHit(R, r, [a |-> m.a]) THEN {"cache-hit"} ELSE {})
            \cup (IF r.fsm = "READ_DATA" /\ r.aborted = 1 THEN {"aborted-read"} ELSE {})
            \cup (IF r.fsm = "CMD" /\ r.wr_valid = 1 /\ m.cyc = 1 /\ m.stb = 1 /\ m.we = 1 /\ r.wr_addr = m.a \div R
                     /\ r.wr_sel[DwMod(m.a, R) + 1] = 0 THEN {"merge"} ELSE {})
            \cup (IF r.fsm = "CMD" /\ r.wr_valid = 1 /\ m.cyc = 1 /\ m.stb = 1 /\ m.we = 1 /\ r.wr_addr # m.a \div R THEN {"flush-other-word"} ELSE {})
            \cup (IF r.fsm = "CMD" /\ r.wr_valid = 1 /\ m.cyc = 0 THEN {"flush-on-cyc-low"} ELSE {})
            \cup (IF r.fsm = "WRITE_CMD" /\ m.cyc = 0 /\ obs.pend = FALSE /\ r.wr_valid = 1 THEN {"write-cmd-after-drop"} ELSE {})
          ELSE
            (IF r.fsm = "WRITE" /\ m.cyc = 0 THEN {"aborted-write"} ELSE {})
            \cup (IF r.fsm = "READ" /\ r.aborted = 1 /\ m.cyc = 1 THEN {"new-access-behind-aborted-read"} ELSE {}))
         \cup (IF \E B \in DOMAIN obs.mem : Cardinality(obs.mem[B]) > 1 THEN {"maybe-written-byte"} ELSE {})
         \cup (IF Narrow /\ r.fsm = "CMD" /\ r.rc_valid = 1 /\ m.cyc = 1 /\ m.stb = 1 /\ m.we = 1 THEN {"write-while-cache-valid"} ELSE {})
AllGoals == IF Narrow THEN {"cache-hit", "aborted-read", "merge", "flush-other-word", "flush-on-cyc-low", "write-cmd-after-drop", "write-while-cache-valid"}
            ELSE {"aborted-write", "new-access-behind-aborted-read", "maybe-written-byte"}

\* Dead-field normalisation (state-space reduction only; the lock-step trace spec uses the raw BNext): registers that
\* are rewritten before they are read again are zeroed, and so is the monitor's memory of a finished access.
NormR(x) ==
    LET rd == x.fsm \in {"READ_CMD", "READ_DATA"} IN
    [x EXCEPT !.rc_data = IF x.rc_valid = 1 THEN @ ELSE DwZero(R), !.rc_addr = IF x.rc_valid = 1 THEN @ ELSE 0,
              !.rd_addr = IF rd THEN @ ELSE 0, !.rd_chunk = IF rd THEN @ ELSE 0, !.rd_last = IF rd THEN @ ELSE 0,
              !.wr_addr = IF x.wr_valid = 1 THEN @ ELSE 0, !.wr_last = IF x.wr_valid = 1 THEN @ ELSE 0,
              !.aborted = IF x.fsm = "READ_DATA" THEN @ ELSE 0]
NormO(x) == [x EXCEPT !.abw = FALSE, !.mem = [B \in 0..NA - 1 |-> BmGet(x.mem, B)],
                      !.burst = FALSE, !.acc = IF x.pend THEN @ ELSE WbInit.acc]

Tick ==
  LET i == [cyc |-> m.cyc, stb |-> m.stb, we |-> m.we, a |-> m.a, sel |-> m.sel, d |-> m.d,
            last |-> IF m.cti = 2 THEN 0 ELSE 1,
            cmd_ready |-> mo.cmd_ready, wdata_ready |-> mo.wdata_ready, rdata_valid |-> mo.rdata_valid, rdata |-> mo.rdata]
      o == IF Narrow THEN BComb(R, r, i, BUG) ELSE EComb(r, i, BUG)
      e == [c |-> "CYC", t |-> 0, n |-> 1, cyc |-> m.cyc, stb |-> m.stb, we |-> m.we, a |-> m.a, sel |-> <<m.sel>>,
            d |-> <<m.d>>, cti |-> m.cti, ack |-> o.ack, q |-> <<o.dat_r>>]
      res == WbStep(Cfg, obs, e, FALSE)
      \* ---- memory: pulses of this cycle
      hd == IF q # <<>> THEN Head(q) ELSE [we |-> 0, a |-> 0, age |-> 0]
      mem1 == IF mo.wdata_ready = 1 /\ o.wv = 1
              THEN [B \in 0..NA - 1 |-> IF B \div R = hd.a /\ o.ww[DwMod(B, R) + 1] = 1 THEN o.wd[DwMod(B, R) + 1] ELSE mem[B]]
              ELSE mem
      q1 == IF mo.wdata_ready = 1 \/ mo.rdata_valid = 1 THEN Tail(q) ELSE q
      acc == o.cv = 1 /\ mo.cmd_ready = 1
      q2 == [k \in 1..Len(q1) |-> [q1[k] EXCEPT !.age = IF @ < LMAX THEN @ + 1 ELSE @]]
            \o (IF acc THEN <<[we |-> o.cwe, a |-> o.ca, age |-> 1]>> ELSE <<>>)
  IN /\ r' = IF Narrow THEN NormR(BNext(R, r, i, BUG)) ELSE ENext(r, i, BUG)
     /\ obs' = NormO(res.s)
     /\ lastbad' = res.bad
     /\ wcnt' = IF res.s.pend /\ WMAX > 0 THEN wcnt + 1 ELSE 0          \* WMAX = 0 switches the progress bound off
     /\ seen' = IF COVER THEN seen \cup Goals ELSE seen
     /\ lastack' = IF COVER THEN o.ack ELSE 0          \* ghost for stimulus extraction (-simulate): ACK of the cycle just executed
     /\ mem' = mem1
     /\ q' = q2
     /\ m' \in NextMaster(res.s)
     /\ \E rdy \in {0, 1} :
           /\ (rdy = 0 => stallc < STALL)
           /\ stallc' = IF rdy = 0 THEN stallc + 1 ELSE 0
           /\ \E fire \in BOOLEAN :
                /\ (fire => q2 # <<>> /\ q2[1].age >= LMIN)
                /\ (q2 # <<>> /\ q2[1].age >= LMAX => fire)
                /\ mo' = [cmd_ready |-> rdy,
                          wdata_ready |-> IF fire /\ q2[1].we = 1 THEN 1 ELSE 0,
                          rdata_valid |-> IF fire /\ q2[1].we = 0 THEN 1 ELSE 0,
                          rdata |-> IF fire /\ q2[1].we = 0 THEN MemWord(mem1, q2[1].a) ELSE Garbage]

Spec == Init /\ [][Tick]_vars

\* ---------------------------------------------------------------- stimulus goals (binding B3)
\* Named corner situations of the narrow path.  TLC run with INVARIANT NotGoal_x yields a SHORTEST behaviour of the closed
\* system reaching x; the harness replays its master operations and memory timing on the real bridge (harness/busmem.py).
RdReq == m.cyc = 1 /\ m.stb = 1 /\ m.we = 0
WrReq == m.cyc = 1 /\ m.stb = 1 /\ m.we = 1
NotGoal_write_to_cached_word == ~(Narrow /\ r.fsm = "CMD" /\ r.rc_valid = 1 /\ WrReq /\ m.cti = 7 /\ m.sel = 1 /\ r.rc_addr = m.a \div R)
NotGoal_access_behind_aborted_read == ~(Narrow /\ r.fsm = "READ_DATA" /\ r.aborted = 1 /\ m.cyc = 1 /\ m.stb = 1 /\ m.cti = 7)
NotGoal_drop_in_read_cmd_cache_valid == ~(Narrow /\ r.fsm = "READ_CMD" /\ m.cyc = 0 /\ r.rc_valid = 1)
NotGoal_pending_merge_other_word == ~(Narrow /\ r.fsm = "CMD" /\ r.wr_valid = 1 /\ WrReq /\ m.cti = 7 /\ r.wr_addr # m.a \div R)
NotGoal_cache_hit_last_beat == ~(Narrow /\ r.fsm = "CMD" /\ RdReq /\ r.wr_valid = 0 /\ DwHit(R, r, [a |-> m.a]) /\ m.cti = 7)
NotGoal_write_cmd_stalled_master_gone == ~(Narrow /\ r.fsm = "WRITE_CMD" /\ r.wr_valid = 1 /\ m.cyc = 0 /\ mo.cmd_ready = 0)
NotGoal_drop_as_data_returns == ~(Narrow /\ r.fsm = "READ_DATA" /\ mo.rdata_valid = 1 /\ m.cyc = 0 /\ r.aborted = 0)
NotGoal_parked_write_to_cached_word == ~(Narrow /\ r.fsm = "CMD" /\ r.rc_valid = 1 /\ WrReq /\ m.cti = 2 /\ m.sel = 1 /\ r.rc_addr = m.a \div R
                                         /\ r.wr_valid = 0 /\ ~DwFlush(R, r, [a |-> m.a, last |-> 0], BUG))
NotGoal_write_to_occupied_lane == ~(Narrow /\ r.fsm = "CMD" /\ r.wr_valid = 1 /\ WrReq /\ m.sel = 1 /\ r.wr_addr = m.a \div R /\ r.wr_sel[DwMod(m.a, R) + 1] = 1)
NotGoal_read_behind_parked_write == ~(Narrow /\ r.fsm = "CMD" /\ r.wr_valid = 1 /\ RdReq /\ r.wr_addr = m.a \div R)
NotGoal_aborted_write_equal == ~(~Narrow /\ r.fsm = "WRITE" /\ m.cyc = 0)
\* ---------------------------------------------------------------- invariants
NoClauseBroken == lastbad = {}
Quiescent == r.fsm = "CMD" /\ (~Narrow \/ r.wr_valid = 0) /\ q = <<>> /\ ~obs.pend
MemAllowed == Quiescent => \A B \in 0..NA - 1 : mem[B] \in BmGet(obs.mem, B)
AckWithinBound == wcnt <= WMAX
OneOutstanding == Len(q) <= 1
CovG(g) == g \notin seen
Cov1 == CovG("cache-hit")
Cov2 == CovG("aborted-read")
Cov3 == CovG("merge")
Cov4 == CovG("flush-other-word")
Cov5 == CovG("flush-on-cyc-low")
Cov6 == CovG("write-cmd-after-drop")
Cov7 == CovG("burst")
Cov8 == CovG("maybe-written-byte")
CoverAll == ~(AllGoals \subseteq seen)
====
