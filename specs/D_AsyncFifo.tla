---- MODULE D_AsyncFifo ----
(* Design-level model of the asynchronous FIFO the three channels of LiteDRAMNativePortCDC are made of
   (litex stream.ClockDomainCrossing -> stream.AsyncFIFO -> migen.genlib.fifo.AsyncFIFO, unbuffered), at the level needed
   for C08: binary+gray pointer pair per side (GrayCounter), 2-stage synchronisers (MultiReg n=2) of the gray pointers
   into the other domain, the writable / readable comparisons exactly as the gray-code logic computes them, the
   storage array and its read port (address register in the read domain, data combinational).
   One operator per clock edge:  WStep (write-domain edge), RStep (read-domain edge), BStep (both edges at the same instant:
   every register samples the values before the instant).  WHICH edge comes next is left to the user of the module: an
   unconstrained interleaving of the three IS the set of all period pairs, phases, drifts and pauses of two clocks.
   All state is one record, so that the same operators serve the exhaustive model (MC_AsyncFifo) and the lock-step
   conformance check against the real netlist (T_Crossing: three instances, one per channel). *)
EXTENDS Integers, Sequences

RECURSIVE Xor(_, _)
Xor(a, b) == IF a = 0 /\ b = 0 THEN 0 ELSE (((a % 2) + (b % 2)) % 2) + 2 * Xor(a \div 2, b \div 2)
RECURSIVE Pow2(_)
Pow2(n) == IF n = 0 THEN 1 ELSE 2 * Pow2(n - 1)
RECURSIVE Log2(_)
Log2(n) == IF n <= 1 THEN 0 ELSE 1 + Log2(n \div 2)
Gray(b) == Xor(b, b \div 2)
Bit(v, i) == (v \div Pow2(i)) % 2

(* depth must be a power of two >= 2; pointers have W = log2(depth)+1 bits *)
FInit(depth) == [ depth |-> depth, w |-> Log2(depth) + 1, pw |-> Pow2(Log2(depth) + 1),    \* pointer width and 2^width (constants)
                  bug |-> "none",     \* bug: seeded defects for the negative controls only
                  wbin |-> 0, wq |-> 0, rbin |-> 0, rq |-> 0,
                  w2r |-> <<0, 0>>,           \* synchroniser of the write pointer, clocked by the read clock
                  r2w |-> <<0, 0>>,           \* synchroniser of the read pointer, clocked by the write clock
                  mem |-> [i \in 0 .. depth - 1 |-> 0] ]

W(f) == f.w
(* writable = (q[-1] == c[-1]) | (q[-2] == c[-2]) | (q[:-2] != c[:-2])   with q = produce.q, c = consume pointer as seen *)
Writable(f) == LET w == W(f)  q == f.wq  c == f.r2w[2] IN
               \/ f.bug = "nofull"                      \* negative control: the full test is dropped
               \/ (q \div (f.pw \div 2)) = (c \div (f.pw \div 2))                                 \* top bit equal
               \/ ((q \div (f.pw \div 4)) % 2) = ((c \div (f.pw \div 4)) % 2)                     \* second bit equal
               \/ (q % (f.pw \div 4)) # (c % (f.pw \div 4))                                       \* rest differs
Readable(f) == f.rq # f.w2r[2]
Dout(f) == IF f.bug = "stale_read" THEN f.mem[(f.rbin + f.depth - 1) % f.depth]    \* negative control: read address one behind
           ELSE f.mem[f.rbin % f.depth]

(* true occupancy (from the binary pointers, which the hardware never compares across domains) *)
Occ(f) == (f.wbin - f.rbin + f.pw) % f.pw

WPart(f, we, din) ==
    LET ce == Writable(f) /\ we
        nb == IF ce THEN (f.wbin + 1) % f.pw ELSE f.wbin
    IN [ wbin |-> nb, wq |-> Gray(nb),
         mem  |-> IF ce THEN [f.mem EXCEPT ![f.wbin % f.depth] = din] ELSE f.mem,
         r2w  |-> <<f.rq, f.r2w[1]>>, pushed |-> ce ]
RPart(f, re) ==
    LET ce == Readable(f) /\ re
        nb == IF ce THEN (f.rbin + 1) % f.pw ELSE f.rbin
    IN [ rbin |-> nb, rq |-> Gray(nb), w2r |-> <<f.wq, f.w2r[1]>>, popped |-> ce ]

WStep(f, we, din) == LET w == WPart(f, we, din) IN
    [f EXCEPT !.wbin = w.wbin, !.wq = w.wq, !.mem = w.mem, !.r2w = w.r2w]
RStep(f, re) == LET r == RPart(f, re) IN
    [f EXCEPT !.rbin = r.rbin, !.rq = r.rq, !.w2r = r.w2r]
BStep(f, we, din, re) == LET w == WPart(f, we, din)  r == RPart(f, re) IN
    [f EXCEPT !.wbin = w.wbin, !.wq = w.wq, !.mem = w.mem, !.r2w = w.r2w, !.rbin = r.rbin, !.rq = r.rq, !.w2r = r.w2r]
Pushes(f, we) == Writable(f) /\ we
Pops(f, re) == Readable(f) /\ re
====
