SPECIFICATION MSpec
CONSTANTS tREFI = 10
 N = 8
 tRP = 2
 tRFC = 3
 WithZq = TRUE
 tZQCS = 2
 ZqPeriod = 97
 DMax = 4
 ZqLatch = TRUE
 TimerCycles = 10
INVARIANT Legal
VIEW View
CHECK_DEADLOCK FALSE
