SPECIFICATION Spec
VIEW View
CONSTANTS
  R = 2
  NA = 2
  MaxCmds = 4
  Lmin = 3
  Lmax = 4
  Bug = "none"
  Wes = {TRUE, FALSE}
  Masks = {3, 1, 2}
  Stall = TRUE
INVARIANTS ReqOK FinalOK TypeOK
CHECK_DEADLOCK FALSE
