SPECIFICATION Spec
CONSTANTS P = 1
 Ratio = 2
 WD = 0
 RD = 1
 CmdVals = {0, 1}
 ChunkVals = {0, 1}
 FinVals <- FinFour
 Bug = "none"
 DriveM2S = FALSE
 DriveS2M = TRUE
INVARIANT ReqOK
