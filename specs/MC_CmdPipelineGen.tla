---- MODULE MC_CmdPipelineGen ----
(* Stimulus generator (binding B3): behaviours of the design model with the input vector of every step recorded in `inp`,
   produced with TLC -simulate and replayed into the real PHY.  MaxCmds bounds the commands per cycle so that free, suppressed
   and after-suppressed placements all occur with useful frequency. *)
EXTENDS MC_CmdPipeline
CONSTANT MaxCmds
VARIABLE inp
GenInit == Init /\ inp = <<>>
GenNext == \E in \in {f \in [0..NPh - 1 -> Kinds \cup {0}] : Cardinality({p \in 0..NPh - 1 : f[p] # 0}) <= MaxCmds} :
             Step(in) /\ inp' = [p \in 1..NPh |-> in[p - 1]]
GenSpec == GenInit /\ [][GenNext]_<<vars, inp>>
====
