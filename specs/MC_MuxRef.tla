---- MODULE MC_MuxRef ----
(* Composition of two lock-step bound design models: D_MultiplexerR (multiplexer incl. its REFRESH path) and D_Refresher, with
   abstract, locally legal bank machines that follow the refresh protocol of the real BankMachine (a bank machine presenting a
   read/write or nothing drops it and grants within DMaxG cycles and closes its row; one presenting ACT/PRE grants only after
   that command was accepted; grants are held until the refresher releases its request).
   Cross-module properties (C04/C05): the refresh request is always eventually served (no deadlock between the direction FSM
   and the refresh hand-over), requests of the bank machines are eventually accepted, and the commands on the registered DFI
   phases satisfy the device clauses (refresh only with all banks closed, tRP/tRFC around it, inter-bank gates). *)
EXTENDS D_MultiplexerR, Integers
CONSTANTS tREFI, N, tRP, tRFC, WithZq, tZQCS, ZqPeriod, ZqLatch, TimerCycles,    \* D_Refresher
          DMaxG, WL, BLCK, tWTRdev,
          tRFCdev,               \* what the device needs after REF, in controller cycles (= tRFC; one more in the negative control)
          BmRefreshFirst         \* TRUE = the code: REGULAR looks at refresh_req before its command; FALSE = negative control
VARIABLES tcount, pcount, preq, scount, ecnt, edone, zcount, zcnt, zdone, zpend, rfsm, rcmd, rready,
          open, gnt, gwait, mid, apd, dev, now, bad, tick
Ref == INSTANCE D_Refresher WITH fsm <- rfsm, cmd <- rcmd, ready <- rready
Dev == INSTANCE R_DramDevice
rvars == <<tcount, pcount, preq, scount, ecnt, edone, zcount, zcnt, zdone, zpend, rfsm, rcmd, rready>>
mvars == <<vars, rvars, open, gnt, gwait, mid, apd, dev, now, bad, tick>>
E(ck) == [ck |-> ck, ps |-> 0]
Worst(c) == IF c = 0 THEN 0 ELSE c * Nph - (Nph - 1)
DCfg == [nranks |-> 1, nbanks |-> NB, nphases |-> Nph, rdphase |-> RdPhase, wrphase |-> WrPhase, wl |-> WL, blck |-> BLCK, fkhz |-> 100000,
         ds |-> [tRCD |-> E(0), tRP |-> E(0), tRAS |-> E(0),       \* per-bank tRP is the bank machine's (MC_BankMachine) and the refresher's (MC_Refresher) job
                 tRRD |-> E(Worst(tRRD)), tFAW |-> E(Worst(tFAW)), tCCD |-> E(Worst(tCCD)),
                 tWR |-> E(0), tWTR |-> E(tWTRdev), tRFC |-> E(Worst(tRFCdev)), tZQCS |-> E(IF WithZq THEN Worst(tZQCS) ELSE 0)]]
Rq == Dev!Req(DCfg)
refReq == Ref!cmdValid                     \* refresh_req of every bank machine
KindOf(c) == c
RinOf(valid, last, c, g) == [valid |-> valid, last |-> last, kind |-> KindOf(c), gnt |-> g]

\* What a bank machine may newly present.  The real BankMachine starts a row change (PRE, or ACT on a closed bank) only from
\* REGULAR, where refresh_req is looked at first; once the precharge was accepted (or an auto-precharge was taken) it is
\* committed to TRP -> ACTIVATE -> TRCD and presents the ACT regardless of the request (mid).
LegalKinds(i) == IF mid[i] THEN {"NONE", "ACT"}
                 ELSE IF open[i] THEN (IF refReq THEN {"NONE", "RD", "WR"} ELSE {"NONE", "RD", "WR", "PRE"})
                 ELSE (IF refReq THEN {"NONE"} ELSE {"NONE", "ACT"})
\* bank machines: normal behaviour as in MC_Multiplexer; under a refresh request the ones in REGULAR grant (within DMaxG cycles)
BmNext ==
  /\ \E gr \in [BMs -> BOOLEAN] :
       /\ gnt' = [i \in BMs |-> IF ~refReq THEN FALSE
                                ELSE gnt[i] \/ (~mid[i] /\ req[i] \in {"NONE", "RD", "WR"} /\ ~accepted(i) /\ (gr[i] \/ gwait[i] >= DMaxG))]
       /\ gwait' = [i \in BMs |-> IF refReq /\ ~gnt[i] /\ ~mid[i] /\ req[i] \in {"NONE", "RD", "WR"} THEN gwait[i] + 1 ELSE 0]
  /\ \E ap \in [BMs -> BOOLEAN] :
       /\ mid' = [i \in BMs |-> IF accepted(i) /\ req[i] = "PRE" THEN TRUE
                                ELSE IF accepted(i) /\ req[i] \in {"RD", "WR"} /\ ap[i] THEN TRUE       \* auto-precharge
                                ELSE IF accepted(i) /\ req[i] = "ACT" THEN FALSE ELSE mid[i]]
       /\ apd' = {i \in BMs : accepted(i) /\ req[i] \in {"RD", "WR"} /\ ap[i]}         \* the CAS now on the registered DFI carries A10
       /\ open' = [i \in BMs |-> IF gnt'[i] THEN FALSE                                  \* row_close in REFRESH
                                 ELSE IF accepted(i) /\ req[i] = "ACT" THEN TRUE
                                 ELSE IF accepted(i) /\ (req[i] = "PRE" \/ (req[i] \in {"RD", "WR"} /\ ap[i])) THEN FALSE ELSE open[i]]
  /\ req' \in [BMs -> Kinds]
  /\ LET rr == Ref!cmdValid'                                                       \* refresh_req gates cmd.valid of REGULAR combinationally
         NoCas(S) == IF rr /\ BmRefreshFirst THEN S \ {"RD", "WR"} ELSE S IN
     \A i \in BMs :
       IF gnt'[i] THEN req'[i] = "NONE"                                            \* REFRESH state presents nothing
       ELSE IF req[i] \in {"ACT", "PRE"} /\ ~accepted(i) THEN req'[i] = req[i]     \* held until accepted
       ELSE IF req[i] \in {"RD", "WR"} /\ ~accepted(i) THEN req'[i] = (IF rr /\ BmRefreshFirst THEN "NONE" ELSE req[i])
       ELSE IF accepted(i) /\ req[i] = "ACT" THEN req'[i] \in NoCas({"NONE", "RD", "WR"})  \* TRCD, then REGULAR
       ELSE IF mid'[i] THEN req'[i] = "ACT"                                        \* tRP/tRCD waits are MC_BankMachine's subject
       ELSE req'[i] \in NoCas(LegalKinds(i))

EvOf(p) == LET o == dfi[p + 1] IN
           [c |-> o.kind, t |-> now * Nph + p, ph |-> p, ranks |-> <<0>>, b |-> o.bm, a |-> 0,
            ap |-> (o.kind \in {"RD", "WR"} /\ o.bm \in apd), rden |-> o.kind = "RD", wren |-> o.kind = "WR"]
RECURSIVE Fold(_, _, _)
Fold(p, d, b) == IF p = Nph THEN <<d, b>>
                 ELSE IF dfi[p + 1].kind = "NONE" THEN Fold(p + 1, d, b)
                 ELSE Fold(p + 1, Dev!Apply(DCfg, Rq, d, EvOf(p)), b \cup {<<x[1], x[2]>> : x \in Dev!Check(DCfg, Rq, d, EvOf(p))})

\* TLC keeps [x \in S |-> e] lazy; with a VIEW that only reads parts of it, a lazy field reaches the disk queue unevaluated
\* (TLC 1.8 then fails in StatePoolWriter), so the observer state is forced field by field.
Eager(d) == TLCEval([f \in DOMAIN d |-> TLCEval(d[f])])
Step(obs) ==
  /\ Tick /\ Ref!Tick /\ BmNext
  /\ rready' = (fsm' = "REFRESH")
  /\ rin' = RinOf(Ref!cmdValid', Ref!cmdLast', rcmd', \A i \in BMs : gnt'[i])
  /\ tick' = 1 - tick
  /\ IF obs THEN /\ now' = now + 1
                 /\ LET r == Fold(0, dev, bad) IN dev' = Eager(r[1]) /\ bad' = r[2]
     ELSE UNCHANGED <<dev, now, bad>>
MInit == /\ Init /\ Ref!Init /\ rready = FALSE
         /\ req = [i \in BMs |-> "NONE"] /\ rin = RinOf(FALSE, FALSE, "NOP", FALSE)
         /\ open = [i \in BMs |-> FALSE] /\ gnt = [i \in BMs |-> FALSE] /\ gwait = [i \in BMs |-> 0] /\ mid = [i \in BMs |-> FALSE] /\ apd = {}
         /\ dev = Dev!InitDev(DCfg) /\ now = 0 /\ bad = {} /\ tick = 0
MSpec == MInit /\ [][Step(TRUE)]_mvars
FairSpec == MInit /\ [][Step(FALSE)]_mvars /\ WF_mvars(Step(FALSE))

Sat == 2 + Dev!MaxI(Dev!MaxI(Worst(tRRD), Worst(tFAW)), Dev!MaxI(Dev!MaxI(Worst(tCCD), WL + BLCK + tWTRdev), Dev!MaxI(Worst(tRFCdev), Worst(tRP))))
Age(t) == IF now * Nph - t > Sat THEN Sat ELSE now * Nph - t
View == <<regs, req, rin, rvars, open, gnt, gwait, mid, apd, bad, dev.open, Age(dev.acts[0][1]), Age(dev.acts[0][2]), Age(dev.acts[0][3]), Age(dev.acts[0][4]),
          Age(dev.tCas[0]), Age(dev.tWrEAny[0]), Age(dev.tRef[0]), Age(dev.tZq[0]), [i \in BMs |-> Age(dev.tPre[i])]>>
Legal == bad = {}
RefreshServed == refReq ~> (fsm = "REFRESH")
RequestsServed == \A i \in BMs : (req[i] # "NONE") ~> (accepted(i) \/ gnt[i])
CoverRefreshFromWtr == ~(fsm = "WTR" /\ refReq)
====
