---- MODULE MC_MuxRef ----
(* Composition of two lock-step bound design models: D_MultiplexerR (multiplexer incl. its REFRESH path) and D_Refresher, with
   NB abstract bank machines (A_BankMachine: REG/PRE/ACT/REF with the refresh hand-shake of the real BankMachine; timer waits
   become at most DMaxG consecutive idle cycles).  MC_BankMachine_abs.cfg checks that the lock-step bound D_BankMachine refines
   A_BankMachine, so all three parts of this composition are tied to the code.
   Cross-module properties (C04/C05): the refresh request is always eventually served (no deadlock between the direction FSM
   and the refresh hand-over), requests of the bank machines are eventually accepted, and the commands on the registered DFI
   phases satisfy the device clauses (refresh only with all banks closed, tRP/tRFC around it, inter-bank gates). *)
EXTENDS D_MultiplexerR, Integers
CONSTANTS tREFI, N, tRP, tRFC, WithZq, tZQCS, ZqPeriod, ZqLatch, TimerCycles,    \* D_Refresher
          DMaxG, WL, BLCK, tWTRdev,
          tRFCdev,               \* what the device needs after REF, in controller cycles (= tRFC; one more in the negative control)
          BmRefreshFirst         \* TRUE = the code: REGULAR looks at refresh_req before its command; FALSE = negative control
VARIABLES tcount, pcount, preq, scount, ecnt, edone, zcount, zcnt, zdone, zpend, rfsm, rcmd, rready,
          open, gnt, gwait, bst, apd, dev, now, bad, tick
Ref == INSTANCE D_Refresher WITH fsm <- rfsm, cmd <- rcmd, ready <- rready
Dev == INSTANCE R_DramDevice
rvars == <<tcount, pcount, preq, scount, ecnt, edone, zcount, zcnt, zdone, zpend, rfsm, rcmd, rready>>
mvars == <<vars, rvars, open, gnt, gwait, bst, apd, dev, now, bad, tick>>
E(ck) == [ck |-> ck, ps |-> 0]
Worst(c) == IF c = 0 THEN 0 ELSE c * Nph - (Nph - 1)
DCfg == [nranks |-> 1, nbanks |-> NB, nphases |-> Nph, rdphase |-> RdPhase, wrphase |-> WrPhase, wl |-> WL, blck |-> BLCK, fkhz |-> 100000,
         ds |-> [tRCD |-> E(0), tRP |-> E(0), tRAS |-> E(0),       \* per-bank tRP is the bank machine's (MC_BankMachine) and the refresher's (MC_Refresher) job
                 tRRD |-> E(Worst(tRRD)), tFAW |-> E(Worst(tFAW)), tCCD |-> E(Worst(tCCD)),
                 tWR |-> E(0), tWTR |-> E(tWTRdev), tRFC |-> E(Worst(tRFCdev)), tZQCS |-> E(IF WithZq THEN Worst(tZQCS) ELSE 0)]]
Rq == Dev!Req(DCfg)
refReq == Ref!cmdValid                     \* refresh_req of every bank machine
KindOf(c) == c
RinOf(valid, last, c, g) == [valid |-> valid, last |-> last, kind |-> KindOf(c), gnt |-> g]

\* Bank machines: A_BankMachine (MC_BankMachine checks that every step of the lock-step bound D_BankMachine is one of its steps).
\* BmRefreshFirst = FALSE is the negative control: REGULAR keeps presenting (and retiring) its read/write under a refresh request.
Abs == INSTANCE A_BankMachine
BmRec == [b : Abs!States, k : Kinds, o : BOOLEAN, g : BOOLEAN]
Succ(i, rq2) == {x \in BmRec :
                   IF BmRefreshFirst THEN Abs!Step(bst[i], req[i], open[i], gnt[i], accepted(i), refReq, x.b, x.k, x.o, x.g, rq2, gwait[i] < DMaxG)
                   ELSE \/ Abs!Step(bst[i], req[i], open[i], gnt[i], accepted(i), refReq, x.b, x.k, x.o, x.g, rq2, gwait[i] < DMaxG)
                        \/ (bst[i] = "REG" /\ open[i] /\ x.b = "REG" /\ x.o /\ ~x.g /\ x.k \in {"RD", "WR"} /\ (req[i] = "NONE" \/ accepted(i) \/ x.k = req[i]))
                        \/ (bst[i] = "REG" /\ req[i] \in {"RD", "WR"} /\ accepted(i) /\ x.b = "ACT" /\ ~x.o /\ ~x.g /\ x.k = "ACT")}
RECURSIVE Prod(_, _)
Prod(n, rq2) == IF n = 0 THEN {<<>>} ELSE {Append(p, x) : p \in Prod(n - 1, rq2), x \in Succ(n - 1, rq2)}
BmNext ==
  \E p \in Prod(NB, Ref!cmdValid') :
     /\ bst' = [i \in BMs |-> p[i + 1].b] /\ req' = [i \in BMs |-> p[i + 1].k]
     /\ open' = [i \in BMs |-> p[i + 1].o] /\ gnt' = [i \in BMs |-> p[i + 1].g]
     /\ gwait' = [i \in BMs |-> IF Abs!Waiting(bst[i], refReq, p[i + 1].b, p[i + 1].k, p[i + 1].g) THEN gwait[i] + 1 ELSE 0]
     \* the CAS now on the registered DFI carries A10 when the bank machine went on to re-activate without a PRE
     /\ apd' = {i \in BMs : accepted(i) /\ req[i] \in {"RD", "WR"} /\ p[i + 1].b = "ACT"}

EvOf(p) == LET o == dfi[p + 1] IN
           [c |-> o.kind, t |-> now * Nph + p, ph |-> p, ranks |-> <<0>>, b |-> o.bm, a |-> 0,
            ap |-> (o.kind \in {"RD", "WR"} /\ o.bm \in apd), rden |-> o.kind = "RD", wren |-> o.kind = "WR"]
RECURSIVE Fold(_, _, _)
Fold(p, d, b) == IF p = Nph THEN <<d, b>>
                 ELSE IF dfi[p + 1].kind = "NONE" THEN Fold(p + 1, d, b)
                 ELSE Fold(p + 1, Dev!Apply(DCfg, Rq, d, EvOf(p)), b \cup {<<x[1], x[2]>> : x \in Dev!Check(DCfg, Rq, d, EvOf(p))})

\* TLC keeps [x \in S |-> e] lazy; with a VIEW that only reads parts of it, a lazy field reaches the disk queue unevaluated
\* (TLC 1.8 then fails in StatePoolWriter), so the observer state is forced field by field.
Eager(d) == TLCEval([f \in DOMAIN d |-> TLCEval(d[f])])
Step(obs) ==
  /\ Tick /\ Ref!Tick /\ BmNext
  /\ rready' = (fsm' = "REFRESH")
  /\ rin' = RinOf(Ref!cmdValid', Ref!cmdLast', rcmd', \A i \in BMs : gnt'[i])
  /\ tick' = 1 - tick
  /\ IF obs THEN /\ now' = now + 1
                 /\ LET r == Fold(0, dev, bad) IN dev' = Eager(r[1]) /\ bad' = r[2]
     ELSE UNCHANGED <<dev, now, bad>>
MInit == /\ Init /\ Ref!Init /\ rready = FALSE
         /\ req = [i \in BMs |-> "NONE"] /\ rin = RinOf(FALSE, FALSE, "NOP", FALSE)
         /\ open = [i \in BMs |-> FALSE] /\ gnt = [i \in BMs |-> FALSE] /\ gwait = [i \in BMs |-> 0] /\ bst = [i \in BMs |-> "REG"] /\ apd = {}
         /\ dev = Dev!InitDev(DCfg) /\ now = 0 /\ bad = {} /\ tick = 0
MSpec == MInit /\ [][Step(TRUE)]_mvars
FairSpec == MInit /\ [][Step(FALSE)]_mvars /\ WF_mvars(Step(FALSE))

Sat == 2 + Dev!MaxI(Dev!MaxI(Worst(tRRD), Worst(tFAW)), Dev!MaxI(Dev!MaxI(Worst(tCCD), WL + BLCK + tWTRdev), Dev!MaxI(Worst(tRFCdev), Worst(tRP))))
Age(t) == IF now * Nph - t > Sat THEN Sat ELSE now * Nph - t
View == <<regs, req, rin, rvars, open, gnt, gwait, bst, apd, bad, dev.open, Age(dev.acts[0][1]), Age(dev.acts[0][2]), Age(dev.acts[0][3]), Age(dev.acts[0][4]),
          Age(dev.tCas[0]), Age(dev.tWrEAny[0]), Age(dev.tRef[0]), Age(dev.tZq[0]), [i \in BMs |-> Age(dev.tPre[i])]>>
Legal == bad = {}
RefreshServed == refReq ~> (fsm = "REFRESH")
RequestsServed == \A i \in BMs : (req[i] # "NONE") ~> (accepted(i) \/ gnt[i])
CoverRefreshFromWtr == ~(fsm = "WTR" /\ refReq)
====
