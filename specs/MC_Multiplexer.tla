---- MODULE MC_Multiplexer ----
(* D_Multiplexer with abstract but locally legal bank machines as environment (each: closed -> ACT -> open -> RD/WR* ->
   PRE -> closed, a request is held until accepted) and R_DramDevice observing the registered DFI phases: the inter-bank
   clauses tRRD, tFAW, tCCD, tWTR and the phase/strobe placement are the multiplexer's to guarantee.  Requirements are in
   tCK with the least favourable phase placement: R = cycles * Nph - (Nph - 1)  (exactly what R_TimingConv / C16 demand of
   the cycle counts).  Liveness (C05): a pending read is not postponed forever by writes and vice versa. *)
EXTENDS D_Multiplexer, Integers
CONSTANTS WL, BLCK, tWTRdev
Dev == INSTANCE R_DramDevice
VARIABLES open, dev, now, bad,       \* open[i]: the environment's bank i has a row open
          tick                       \* toggles every clock edge: a cycle that leaves all registers unchanged is still a step (fairness must not read it as stuttering)
mvars == <<vars, open, dev, now, bad, tick>>
E(ck) == [ck |-> ck, ps |-> 0]
Worst(c) == IF c = 0 THEN 0 ELSE c * Nph - (Nph - 1)
DCfg == [nranks |-> 1, nbanks |-> NB, nphases |-> Nph, rdphase |-> RdPhase, wrphase |-> WrPhase, wl |-> WL, blck |-> BLCK, fkhz |-> 100000,
         ds |-> [tRCD |-> E(0), tRP |-> E(0), tRAS |-> E(0), tRRD |-> E(Worst(tRRD)), tFAW |-> E(Worst(tFAW)), tCCD |-> E(Worst(tCCD)),
                 tWR |-> E(0), tWTR |-> E(tWTRdev), tRFC |-> E(0), tZQCS |-> E(0)]]
Rq == Dev!Req(DCfg)
\* legal next request of bank machine i given its bank state
LegalKinds(i) == IF open[i] THEN {"NONE", "RD", "WR", "PRE"} ELSE {"NONE", "ACT"}
EnvNext == /\ req' \in [BMs -> Kinds]
           /\ \A i \in BMs : IF req[i] # "NONE" /\ ~accepted(i) THEN req'[i] = req[i]        \* held until accepted
                             ELSE req'[i] \in (IF accepted(i) /\ req[i] = "ACT" THEN {"NONE", "RD", "WR", "PRE"}
                                               ELSE IF accepted(i) /\ req[i] = "PRE" THEN {"NONE", "ACT"} ELSE LegalKinds(i))
           /\ open' = [i \in BMs |-> IF accepted(i) /\ req[i] = "ACT" THEN TRUE ELSE IF accepted(i) /\ req[i] = "PRE" THEN FALSE ELSE open[i]]
\* events on the registered DFI outputs of this cycle (one per phase carrying a command), in phase order
EvOf(p) == LET o == dfi[p + 1] IN
           [c |-> o.kind, t |-> now * Nph + p, ph |-> p, ranks |-> <<0>>, b |-> o.bm, a |-> 0, ap |-> FALSE, rden |-> o.kind = "RD", wren |-> o.kind = "WR"]
RECURSIVE Fold(_, _, _)
Fold(p, d, b) == IF p = Nph THEN <<d, b>>
                 ELSE IF dfi[p + 1].kind = "NONE" THEN Fold(p + 1, d, b)
                 ELSE Fold(p + 1, Dev!Apply(DCfg, Rq, d, EvOf(p)), b \cup {<<x[1], x[2]>> : x \in Dev!Check(DCfg, Rq, d, EvOf(p))})
MInit == Init /\ req = [i \in BMs |-> "NONE"] /\ open = [i \in BMs |-> FALSE] /\ dev = Dev!InitDev(DCfg) /\ now = 0 /\ bad = {} /\ tick = 0
MNext == /\ Tick /\ EnvNext /\ now' = now + 1 /\ tick' = 0
         /\ LET r == Fold(0, dev, bad) IN dev' = r[1] /\ bad' = r[2]
MSpec == MInit /\ [][MNext]_mvars
\* liveness runs leave the observer out (its absolute times would make the state space infinite)
LNext == Tick /\ EnvNext /\ UNCHANGED <<dev, now, bad>> /\ tick' = 1 - tick
FairSpec == MInit /\ [][LNext]_mvars /\ WF_mvars(LNext)

Sat == 2 + Dev!MaxI(Dev!MaxI(Worst(tRRD), Worst(tFAW)), Dev!MaxI(Worst(tCCD), WL + BLCK + tWTRdev))
Age(t) == IF now * Nph - t > Sat THEN Sat ELSE now * Nph - t
View == <<regs, req, open, bad, dev.open, Age(dev.acts[0][1]), Age(dev.acts[0][2]), Age(dev.acts[0][3]), Age(dev.acts[0][4]),
          Age(dev.tCas[0]), Age(dev.tWrEAny[0])>>
Legal == bad = {}
\* liveness: a bank machine that presents a read (write) is eventually served although others keep presenting writes (reads)
ReadsServed == \A i \in BMs : (req[i] = "RD") ~> accepted(i)
WritesServed == \A i \in BMs : (req[i] = "WR") ~> accepted(i)
CoverRTW == ~(fsm = "RTW")
CoverWTR == ~(fsm = "WTR" /\ ~wtrR)
CoverFaw == ~(~fawR)
====
