---- MODULE R_Stream ----
(* Requirement (C12, C13): stream engines in front of a memory port, as a TOTAL monitor (never blocks, names every
   broken clause).  Written from the property statements, not from the implementation:

   C12 reader  : exactly one data word per accepted address, in address order, the end-of-stream mark on the matching
                 word; never more reads outstanding than it can buffer (cfg.depth), so no returned word is ever lost.
   C12 writer  : every accepted (address, data) pair is stored exactly once, the data at its own address, whole word.
   C13 fifo    : the output stream is the input stream (same words, same order, none lost / duplicated / invented);
                 memory side: every access inside the region [base, base+depth), never a write to an address that holds
                 an unread word, hence never more than `depth` words held; stream side: bounded (cfg.cap words).

   Events (one per line; events of the same clock cycle are presented in the order OUT, IN, CMD, WDATA/WDROP, RDATA/RDROP,
   i.e. space freed in a cycle is credited before it is used):
     [c |-> "IN",  a, last]          reader : address accepted on the sink
     [c |-> "IN",  a, d]             writer : pair accepted on the sink
     [c |-> "IN",  d]                fifo   : word accepted on the sink
     [c |-> "OUT", d, last]          reader / fifo : word handed to the consumer
     [c |-> "CMD", p, we, a]         memory port p accepted a command
     [c |-> "WDATA", p, d, m]        memory took the write data beat of the oldest pending write command of port p
     [c |-> "WDROP", p]              memory strobed for write data but none was offered (pulse semantics: beat lost)
     [c |-> "RDATA", p, d]           memory returned read data and the port master took it
     [c |-> "RDROP", p]              memory returned read data and the master did NOT take it (pulse semantics: word lost)
     [c |-> "END"]                   end of the execution, after the environment let everything drain
   d = sequence of bytes (cfg.nb of them), m = sequence of 0/1 byte enables.
   cfg: [kind |-> "reader" | "writer" | "fifo", nb, depth, k (reader: memory pattern constant), base, cap (fifo)].
   The reader's memory is read-only during an execution and holds MemWord(cfg, a) at address a. *)
EXTENDS Integers, Sequences, FiniteSets, TLC

SGet(f, k, dflt) == IF k \in DOMAIN f THEN f[k] ELSE dflt
SPut(f, k, v) == [x \in (DOMAIN f) \cup {k} |-> IF x = k THEN v ELSE f[x]]

MemByte(cfg, a, j) == (a * 7 + (a \div 256) * 13 + (j - 1) * 61 + cfg.k) % 256
MemWord(cfg, a) == [j \in 1..cfg.nb |-> MemByte(cfg, a, j)]

InitStream(cfg) == [ inq    |-> <<>>,     \* reader: accepted [a, last] not yet answered; fifo: accepted words not yet delivered
                     exp    |-> <<>>,     \* writer: address -> sequence of accepted data words not yet stored
                     wq     |-> <<>>,     \* addresses of accepted write commands whose data beat is still to come
                     outst  |-> 0,        \* reader: read commands accepted by the memory minus words handed to the consumer
                     unread |-> {} ]      \* fifo: region addresses holding a word written and not yet read

AllOnes(m) == \A j \in DOMAIN m : m[j] = 1

ReaderStep(cfg, s, e) ==
  CASE e.c = "IN"  -> [s |-> [s EXCEPT !.inq = Append(s.inq, [a |-> e.a, last |-> e.last])], bad |-> {}]
    [] e.c = "OUT" ->
         IF s.inq = <<>> THEN [s |-> [s EXCEPT !.outst = s.outst - 1], bad |-> {<<"output word without a matching accepted address">>}]
         ELSE LET h == Head(s.inq)
                  s2 == [s EXCEPT !.inq = Tail(s.inq), !.outst = s.outst - 1]
              IN [s |-> s2,
                  bad |-> (IF e.d # MemWord(cfg, h.a) THEN {<<"output word is not the memory word of the matching address", h.a, e.d, MemWord(cfg, h.a)>>} ELSE {})
                          \cup (IF e.last # h.last THEN {<<"end-of-stream mark not on the matching word", h.a, e.last, h.last>>} ELSE {})]
    [] e.c = "CMD" ->
         LET n == s.outst + 1 IN
         [s |-> [s EXCEPT !.outst = n],
          bad |-> (IF e.we THEN {<<"reader issued a write command", e.a>>} ELSE {})
                  \cup (IF n > cfg.depth THEN {<<"more reads outstanding than can be buffered", n, cfg.depth>>} ELSE {})]
    [] e.c = "RDROP" -> [s |-> s, bad |-> {<<"returned word lost: read data arrived while it could not be buffered">>}]
    [] e.c = "END" -> [s |-> s, bad |-> IF s.inq # <<>> THEN {<<"accepted address never answered", Len(s.inq)>>} ELSE {}]
    [] OTHER -> [s |-> s, bad |-> {}]

WriterStep(cfg, s, e) ==
  CASE e.c = "IN"  -> [s |-> [s EXCEPT !.exp = SPut(s.exp, e.a, Append(SGet(s.exp, e.a, <<>>), e.d))], bad |-> {}]
    [] e.c = "CMD" ->
         [s |-> [s EXCEPT !.wq = Append(s.wq, e.a)],
          bad |-> IF ~e.we THEN {<<"writer issued a read command", e.a>>} ELSE {}]
    [] e.c = "WDATA" ->
         IF s.wq = <<>> THEN [s |-> s, bad |-> {<<"write data taken without a pending write command">>}]
         ELSE LET a == Head(s.wq)
                  q == SGet(s.exp, a, <<>>)
              IN IF q = <<>> THEN [s |-> [s EXCEPT !.wq = Tail(s.wq)],
                                   bad |-> {<<"stored a pair that was never accepted (or stored it twice)", a, e.d>>}]
                 ELSE [s |-> [s EXCEPT !.wq = Tail(s.wq), !.exp = SPut(s.exp, a, Tail(q))],
                       bad |-> (IF e.d # Head(q) THEN {<<"data stored at an address it was not paired with", a, e.d, Head(q)>>} ELSE {})
                               \cup (IF ~AllOnes(e.m) THEN {<<"partial word stored", a, e.m>>} ELSE {})]
    [] e.c = "WDROP" ->
         [s |-> [s EXCEPT !.wq = IF s.wq = <<>> THEN <<>> ELSE Tail(s.wq)],
          bad |-> {<<"write data not offered when the memory strobed for it (beat lost)">>}]
    [] e.c = "END" ->
         [s |-> s, bad |-> {<<"accepted pair never stored", a>> : a \in {x \in DOMAIN s.exp : s.exp[x] # <<>>}}
                           \cup (IF s.wq # <<>> THEN {<<"write command without its data beat", Len(s.wq)>>} ELSE {})]
    [] OTHER -> [s |-> s, bad |-> {}]

InRegion(cfg, a) == a >= cfg.base /\ a < cfg.base + cfg.depth

FifoStep(cfg, s, e) ==
  CASE e.c = "IN"  ->
         LET q == Append(s.inq, e.d) IN
         [s |-> [s EXCEPT !.inq = q],
          bad |-> IF Len(q) > cfg.cap THEN {<<"holds more words than its capacity", Len(q), cfg.cap>>} ELSE {}]
    [] e.c = "OUT" ->
         IF s.inq = <<>> THEN [s |-> s, bad |-> {<<"output word that was never put in (duplicated or invented)", e.d>>}]
         ELSE [s |-> [s EXCEPT !.inq = Tail(s.inq)],
               bad |-> IF e.d # Head(s.inq) THEN {<<"output word differs from the next input word (lost, reordered or corrupted)", e.d, Head(s.inq)>>} ELSE {}]
    [] e.c = "CMD" ->
         LET reg == IF InRegion(cfg, e.a) THEN {} ELSE {<<"memory access outside the FIFO region", e.a>>} IN
         IF e.we THEN
            LET u == s.unread \cup {e.a} IN
            [s |-> [s EXCEPT !.unread = u],
             bad |-> reg \cup (IF e.a \in s.unread THEN {<<"write to an address holding an unread word", e.a>>} ELSE {})
                         \cup (IF Cardinality(u) > cfg.depth THEN {<<"holds more than its depth in memory", Cardinality(u), cfg.depth>>} ELSE {})]
         ELSE [s |-> [s EXCEPT !.unread = s.unread \ {e.a}], bad |-> reg]
    [] e.c = "WDROP" -> [s |-> s, bad |-> {<<"write data not offered when the memory strobed for it (beat lost)">>}]
    [] e.c = "RDROP" -> [s |-> s, bad |-> {<<"returned word lost: read data arrived while it could not be buffered">>}]
    [] e.c = "END" -> [s |-> s, bad |-> IF s.inq # <<>> THEN {<<"input words never delivered", Len(s.inq)>>} ELSE {}]
    [] OTHER -> [s |-> s, bad |-> {}]

StreamStep(cfg, s, e) ==      \* returns [s |-> new state, bad |-> set of diagnostics]
  CASE cfg.kind = "reader" -> ReaderStep(cfg, s, e)
    [] cfg.kind = "writer" -> WriterStep(cfg, s, e)
    [] cfg.kind = "fifo"   -> FifoStep(cfg, s, e)
    [] OTHER -> [s |-> s, bad |-> {<<"unknown kind">>}]

\* fold a sequence of events (the events of one clock cycle of a design model) through the monitor
RECURSIVE StreamSteps(_, _, _)
StreamSteps(cfg, sb, es) ==
  IF es = <<>> THEN sb
  ELSE LET r == StreamStep(cfg, sb.s, Head(es)) IN StreamSteps(cfg, [s |-> r.s, bad |-> sb.bad \cup r.bad], Tail(es))
====
