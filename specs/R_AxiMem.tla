---- MODULE R_AxiMem ----
(* Requirement C09: an AXI4 slave port in front of a memory -- protocol-correct responses and memory semantics.
   Written from the AMBA AXI4 specification (IHI 0022, chapters A3 "single interface requirements" and A5/A6
   "transaction identifiers / ordering"), NOT from litedram/frontend/axi.py.  TOTAL monitor: every event is consumed,
   nothing blocks, every broken clause is returned by name.

   cfg = [nb (bytes per data beat), base (byte address of native word 0), nwords (size of the window the master uses)]

   Events (time-ordered; inside one cycle: native events first, then AW, W, AR, B, R):
     [c |-> "INIT", a, d]                          initial bytes of native word a (fact about the environment's memory)
     [c |-> "AW"|"AR", id, addr, len, size, burst, t, t0]   address handshake at cycle t; VALID first asserted at t0
     [c |-> "W", d, s, last, t]                    write-data handshake; d bytes, s strobes (0/1) per lane
     [c |-> "B", id, resp, t]     [c |-> "R", id, d, last, resp, t]     response handshakes
     [c |-> "BGONE"|"RGONE"]  [c |-> "BCHG"|"RCHG", ...]    VALID withdrawn / payload changed while waiting for READY
     native side of the memory: [c |-> "CMD", we, a]  [c |-> "WDATA", d, m]  [c |-> "RDATA", d]  [c |-> "WDROP"]  [c |-> "RDROP"]
     [c |-> "END", timeout]                        the master has nothing left to do (or gave up)
     [c |-> "DUMP", a, d]                          final bytes of native word a (after END)

   Reading of the AXI ordering model (tight where AXI is tight, permissive where it is permissive):
     * AXI4 has no WID: the k-th group of W beats (delimited by WLAST) belongs to the k-th AW; W may precede AW.
     * write w1 is ordered before write w2  iff  same burst and earlier beat, or same ID and earlier burst, or the
       response of w1 was received before AWVALID of w2 was asserted.
     * a read burst (ARVALID asserted at t0) must observe, per byte, a write that exists when the R beat is transferred and
       that is not ordered before another write whose response was received before t0 ("a read issued after the response
       of a write sees the written data"); everything else is concurrent and any of the concurrent values is allowed.
     * bytes whose strobe is low are never modified (also in read-modify-write mode); the final contents of every
       native word (DUMP) are judged like a read issued at the end of time: "exactly the addressed beats".
     * one B per write burst, carrying its ID, same-ID responses in order (AXI) and -- the bridge documents "no
       reordering" -- in AW order; not before all W beats of the burst were accepted (AXI) and not before the memory took
       the data of its last beat AND accepted that beat's write command (the n-th native WDATA handshake and the n-th
       native write command belong to the n-th AXI write beat; a FIFO-like native side may take data before the command,
       a controller-like one takes the command first: "handed to the memory" needs both).
     * R beats: bursts in AR order, len+1 beats, each with the burst's ID, RLAST exactly on the last; data checked on the
       active byte lanes of the beat (all lanes for full-width beats).
   Environment assumptions (clauses starting with "ENV:" -- a driver error, never a verdict): legal burst headers, WLAST
   placement, strobes inside the active lanes. *)
EXTENDS Integers, Sequences, FiniteSets, TLC

AGet(f, k, dflt) == IF k \in DOMAIN f THEN f[k] ELSE dflt
APut(f, k, v) == [x \in (DOMAIN f) \cup {k} |-> IF x = k THEN v ELSE f[x]]
Infinity == 2000000000

\* ---------------------------------------------------------------------------------------------- burst arithmetic (A3.4.1)
Sz(h) == 2 ^ h.size
Aligned(h) == (h.addr \div Sz(h)) * Sz(h)
Tot(h) == Sz(h) * (h.len + 1)
WrapBase(h) == (h.addr \div Tot(h)) * Tot(h)
BeatAddr(h, i) ==      \* i = 0 .. len
    IF h.burst = 0 \/ i = 0 THEN h.addr
    ELSE IF h.burst = 1 THEN Aligned(h) + i * Sz(h)
    ELSE LET a == Aligned(h) + i * Sz(h) IN IF a >= WrapBase(h) + Tot(h) THEN a - Tot(h) ELSE a
Word(cfg, a) == (a - cfg.base) \div cfg.nb
\* active byte lanes (1-based) of a beat at byte address a: from the address up to the end of its size-aligned container
LaneSet(cfg, a, size) == LET sz == 2 ^ size
                             lo == a % cfg.nb
                             hi == ((a \div sz) * sz + sz - 1) % cfg.nb
                         IN (lo + 1) .. (hi + 1)
LegalHeader(cfg, h) ==
    /\ h.burst \in {0, 1, 2}
    /\ Sz(h) <= cfg.nb
    /\ h.addr >= cfg.base
    /\ h.burst = 2 => h.len \in {1, 3, 7, 15} /\ h.addr = Aligned(h)
    /\ h.burst = 0 => h.len <= 15
    /\ h.burst = 1 => h.len <= 255 /\ (Aligned(h) + Tot(h) - 1) \div 4096 = h.addr \div 4096
    /\ \A i \in {0, h.len} : Word(cfg, BeatAddr(h, i)) \in 0 .. cfg.nwords - 1
    /\ h.burst = 1 => Word(cfg, Aligned(h) + Tot(h) - 1) \in 0 .. cfg.nwords - 1
    /\ h.burst = 2 => Word(cfg, WrapBase(h)) >= 0 /\ Word(cfg, WrapBase(h) + Tot(h) - 1) <= cfg.nwords - 1

\* ---------------------------------------------------------------------------------------------- monitor state
InitAxi(cfg) == [ init |-> <<>>,     \* native word -> initial bytes
                  ws   |-> <<>>,     \* native word -> sequence of write records [bn, k, id, d, m, taw0]
                  btime |-> <<>>,    \* burst number -> cycle of its B handshake
                  awq  |-> <<>>,     \* accepted AW headers still waiting for W beats [bn, id, addr, len, size, burst, t0, n]
                  wq   |-> <<>>,     \* accepted W beats whose AW has not been accepted yet
                  bq   |-> <<>>,     \* write bursts without a response so far [bn, id, kend]
                  arq  |-> <<>>,     \* read bursts not yet complete [id, addr, len, size, burst, t0, n]
                  naw  |-> 0, nar |-> 0, kann |-> 0, kw |-> 0, nwd |-> 0, ncw |-> 0,
                  nR |-> 0, nRacy |-> 0, nOrdered |-> 0, nB |-> 0, nDump |-> 0 ]

\* ---------------------------------------------------------------------------------------------- memory semantics
Done(s, r, t0) == r.bn \in DOMAIN s.btime /\ s.btime[r.bn] < t0
Before(s, r1, r2) == \/ r1.bn = r2.bn /\ r1.k < r2.k
                     \/ r1.id = r2.id /\ r1.bn < r2.bn
                     \/ r1.bn \in DOMAIN s.btime /\ s.btime[r1.bn] < r2.taw0
\* indices of the write records a read issued at t0 may observe in lane j; 0 stands for the initial contents
VisibleIn(s, rs, j, t0) ==
    LET W == {i \in 1 .. Len(rs) : rs[i].m[j] = 1}
        D == {i \in W : Done(s, rs[i], t0)}
    IN {i \in W : ~ \E i2 \in D : Before(s, rs[i], rs[i2])} \cup (IF D = {} THEN {0} ELSE {})
ValueIn(s, rs, word, j, i) == IF i = 0 THEN AGet(s.init, word, [x \in 1 .. 64 |-> 0 - 1])[j] ELSE rs[i].d[j]
\* Bookkeeping only (keeps the monitor state small, changes no verdict): a lane of a write record that is ordered before
\* another write whose response arrived before every outstanding and every future read was issued can never be observed
\* again (Before and Done are monotone), so it is masked; records without lanes are dropped.
OldestRead(s, now) == LET T == {s.arq[i].t0 : i \in 1 .. Len(s.arq)} \cup {now} IN CHOOSE t \in T : \A t2 \in T : t <= t2
Prune(cfg, s, word, now) ==
    LET rs == AGet(s.ws, word, <<>>)
        tmin == OldestRead(s, now)
        dead(i, j) == rs[i].m[j] = 1 /\ \E i2 \in 1 .. Len(rs) : rs[i2].m[j] = 1 /\ Done(s, rs[i2], tmin) /\ Before(s, rs[i], rs[i2])
        masked == [i \in 1 .. Len(rs) |-> [rs[i] EXCEPT !.m = [j \in 1 .. cfg.nb |-> IF dead(i, j) THEN 0 ELSE rs[i].m[j]]]]
        Live(r) == \E j \in 1 .. cfg.nb : r.m[j] = 1
    IN SelectSeq(masked, Live)

\* ---------------------------------------------------------------------------------------------- pairing AW headers with W beats
RECURSIVE Match(_, _)
Match(cfg, s) ==
    IF s.awq = <<>> \/ s.wq = <<>> THEN [s |-> s, bad |-> {}]
    ELSE LET h == Head(s.awq)
             w == Head(s.wq)
             a == BeatAddr(h, h.n)
             word == Word(cfg, a)
             rec == [bn |-> h.bn, k |-> s.kw + 1, id |-> h.id, d |-> w.d, m |-> w.s, taw0 |-> h.t0]
             envbad == (IF (w.last = 1) = (h.n = h.len) THEN {} ELSE {<<"ENV: WLAST misplaced", h.bn, h.n>>})
                       \cup (IF \A j \in 1 .. cfg.nb : w.s[j] = 1 => j \in LaneSet(cfg, a, h.size) THEN {}
                             ELSE {<<"ENV: write strobe outside the active byte lanes", h.bn, h.n>>})
             s1 == [s EXCEPT !.ws = APut(s.ws, word, Append(Prune(cfg, s, word, w.t), rec)),
                             !.kw = s.kw + 1, !.wq = Tail(s.wq),
                             !.awq = IF h.n = h.len THEN Tail(s.awq) ELSE <<[h EXCEPT !.n = h.n + 1]>> \o Tail(s.awq)]
             r == Match(cfg, s1)
         IN [s |-> r.s, bad |-> r.bad \cup envbad]

FirstWithId(q, id) == LET S == {i \in 1 .. Len(q) : q[i].id = id} IN IF S = {} THEN 0 ELSE CHOOSE i \in S : \A i2 \in S : i <= i2
Remove(q, i) == SubSeq(q, 1, i - 1) \o SubSeq(q, i + 1, Len(q))

\* ---------------------------------------------------------------------------------------------- the monitor
AxiStep(cfg, s, e) ==      \* returns [s |-> new state, bad |-> set of diagnostics]
  CASE e.c = "INIT" -> [s |-> [s EXCEPT !.init = APut(s.init, e.a, e.d)], bad |-> {}]
    [] e.c = "AW" ->
        LET h == [bn |-> s.naw + 1, id |-> e.id, addr |-> e.addr, len |-> e.len, size |-> e.size, burst |-> e.burst, t0 |-> e.t0, n |-> 0]
            s1 == [s EXCEPT !.naw = s.naw + 1, !.kann = s.kann + e.len + 1, !.awq = Append(s.awq, h),
                            !.bq = Append(s.bq, [bn |-> s.naw + 1, id |-> e.id, kend |-> s.kann + e.len + 1])]
            r == Match(cfg, s1)
        IN [s |-> r.s, bad |-> r.bad \cup (IF LegalHeader(cfg, h) THEN {} ELSE {<<"ENV: illegal AW header", e.addr, e.len, e.size, e.burst>>})]
    [] e.c = "W" ->
        Match(cfg, [s EXCEPT !.wq = Append(s.wq, [d |-> e.d, s |-> e.s, last |-> e.last, t |-> e.t])])
    [] e.c = "AR" ->
        LET h == [id |-> e.id, addr |-> e.addr, len |-> e.len, size |-> e.size, burst |-> e.burst, t0 |-> e.t0, n |-> 0]
        IN [s |-> [s EXCEPT !.arq = Append(s.arq, h), !.nar = s.nar + 1],
            bad |-> IF LegalHeader(cfg, h) THEN {} ELSE {<<"ENV: illegal AR header", e.addr, e.len, e.size, e.burst>>}]
    [] e.c = "B" ->
        LET i == FirstWithId(s.bq, e.id) IN
        IF i = 0 THEN      \* for the bookkeeping that follows the response is attributed to the oldest burst (no cascade)
             [s |-> IF s.bq = <<>> THEN s ELSE [s EXCEPT !.bq = Tail(s.bq), !.btime = APut(s.btime, s.bq[1].bn, e.t), !.nB = s.nB + 1],
              bad |-> {<<"B response carries an ID of no outstanding write burst", e.id, IF s.bq = <<>> THEN 0 - 1 ELSE s.bq[1].id>>}]
        ELSE LET b == s.bq[i]
             IN [s |-> [s EXCEPT !.bq = Remove(s.bq, i), !.btime = APut(s.btime, b.bn, e.t), !.nB = s.nB + 1],
                 bad |-> (IF i = 1 THEN {} ELSE {<<"B responses not in AW order", b.bn, s.bq[1].bn>>})
                         \cup (IF \E x \in 1 .. Len(s.awq) : s.awq[x].bn = b.bn
                               THEN {<<"B response before the last W beat of the burst was accepted", b.bn>>} ELSE {})
                         \cup (IF s.nwd < b.kend
                               THEN {<<"B response before the data of the burst was handed to the memory", b.bn, s.nwd, b.kend>>} ELSE {})
                         \cup (IF s.ncw < b.kend
                               THEN {<<"B response before the write command of the burst's last beat was accepted by the memory", b.bn, s.ncw, b.kend>>} ELSE {})
                         \cup (IF e.resp = 0 THEN {} ELSE {<<"B response not OKAY", b.bn, e.resp>>})]
    [] e.c = "R" ->
        IF s.arq = <<>> THEN [s |-> s, bad |-> {<<"R beat with no outstanding read burst", e.id>>}]
        ELSE LET h == Head(s.arq)
                 a == BeatAddr(h, h.n)
                 word == Word(cfg, a)
                 L == LaneSet(cfg, a, h.size)
                 rs == Prune(cfg, s, word, e.t)
                 vis == [j \in L |-> VisibleIn(s, rs, j, h.t0)]
                 ok == [j \in L |-> {ValueIn(s, rs, word, j, i) : i \in vis[j]}]
                 wrong == {j \in L : e.d[j] \notin ok[j]}
                 racy == \E j \in L : Cardinality(vis[j]) > 1
                 ordered == \E j \in L : 0 \notin vis[j]
             IN [s |-> [s EXCEPT !.arq = IF h.n = h.len THEN Tail(s.arq) ELSE <<[h EXCEPT !.n = h.n + 1]>> \o Tail(s.arq),
                                 !.ws = IF word \in DOMAIN s.ws THEN [s.ws EXCEPT ![word] = rs] ELSE s.ws,
                                 !.nR = s.nR + 1, !.nRacy = s.nRacy + (IF racy THEN 1 ELSE 0),
                                 !.nOrdered = s.nOrdered + (IF ordered THEN 1 ELSE 0)],
                 bad |-> (IF e.id = h.id THEN {} ELSE {<<"R beat carries the wrong ID", e.id, h.id>>})
                         \cup (IF (e.last = 1) = (h.n = h.len) THEN {} ELSE {<<"RLAST wrong", h.n, h.len, e.last>>})
                         \cup (IF e.resp = 0 THEN {} ELSE {<<"R response not OKAY", e.resp>>})
                         \cup {<<"wrong read data", a, j, e.d[j], ok[j]>> : j \in wrong}]
    [] e.c = "BGONE" -> [s |-> s, bad |-> {<<"BVALID withdrawn before BREADY">>}]
    [] e.c = "RGONE" -> [s |-> s, bad |-> {<<"RVALID withdrawn before RREADY">>}]
    [] e.c = "BCHG" -> [s |-> s, bad |-> {<<"B payload changed while BVALID was waiting for BREADY">>}]
    [] e.c = "RCHG" -> [s |-> s, bad |-> {<<"R payload changed while RVALID was waiting for RREADY">>}]
    [] e.c = "WDATA" -> [s |-> [s EXCEPT !.nwd = s.nwd + 1], bad |-> {}]
    [] e.c = "CMD" -> [s |-> IF e.we THEN [s EXCEPT !.ncw = s.ncw + 1] ELSE s, bad |-> {}]
    [] e.c = "WDROP" -> [s |-> s, bad |-> {<<"native write-data strobe while the bridge offered no write data (data slot lost)">>}]
    [] e.c = "RDROP" -> [s |-> s, bad |-> {<<"native read data returned while the bridge was not ready (word lost)">>}]
    [] e.c = "END" ->
        [s |-> s, bad |-> {<<"write burst never got its response", s.bq[i].bn, s.bq[i].id>> : i \in 1 .. Len(s.bq)}
                          \cup {<<"read burst never completed", s.arq[i].addr, s.arq[i].n, s.arq[i].len>> : i \in 1 .. Len(s.arq)}
                          \cup (IF e.timeout THEN {<<"traffic did not finish (bridge stopped responding or accepting)">>} ELSE {})]
    [] e.c = "DUMP" ->
        LET rs == AGet(s.ws, e.a, <<>>)
            ok == [j \in 1 .. cfg.nb |-> {ValueIn(s, rs, e.a, j, i) : i \in VisibleIn(s, rs, j, Infinity)}]
            wrong == {j \in 1 .. cfg.nb : e.d[j] \notin ok[j]}
            touched == rs # <<>>
        IN [s |-> [s EXCEPT !.nDump = s.nDump + 1],
            bad |-> IF wrong = {} THEN {}
                    ELSE IF touched THEN {<<"final memory contents wrong", e.a, j, e.d[j], ok[j]>> : j \in wrong}
                    ELSE {<<"memory word changed that no write burst addressed", e.a>>}]
    [] OTHER -> [s |-> s, bad |-> {}]
====
