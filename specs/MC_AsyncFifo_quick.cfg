SPECIFICATION Spec
CONSTANTS Depth = 4
 MaxPush = 7
 Bug = "none"
INVARIANT ReqOK
INVARIANT NoOverrun
INVARIANT FlagsSafe
INVARIANT HeadIsOldest
INVARIANT Settled
