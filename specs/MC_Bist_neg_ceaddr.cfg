CONSTANTS MaxNW = 3
          RW = 2
          DEPTH = 2
          LMAX = 2
          Bug = "ceaddr"
SPECIFICATION Spec
INVARIANTS Sound
CHECK_DEADLOCK FALSE
