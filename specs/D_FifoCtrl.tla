---- MODULE D_FifoCtrl ----
(* Design model of litedram/frontend/fifo.py: _LiteDRAMFIFO = _LiteDRAMFIFOCtrl (level / produce / consume with
   writable / readable gating) + _LiteDRAMFIFOWriter + _LiteDRAMFIFOReader built on the DMA engines, in front of ONE
   two-port memory with pulse semantics whose commands take effect in accept order.  One action per clock edge.
   The DMA engines' FIFOs (16 deep in the code) are modelled with depths WDepth / RDepth (deliberate deviation: small).
   Environment: producer offers words (a counter modulo K) and holds them; consumer stalls arbitrarily; each port's
   cmd.ready arbitrary; the memory completes its oldest command (at most one per cycle, each >= Lmin cycles old) at any
   time: a write by strobing wdata.ready (beat lost if no data -> WDROP), a read by pulsing rdata.valid (word lost if the
   reader cannot take it -> RDROP).  Requirement: R_Stream kind "fifo", stream and memory-side clauses. *)
EXTENDS Integers, Sequences, FiniteSets, TLC, D_Fifo, R_Stream
CONSTANTS Depths, WDepths, RDepths, Lmins,     \* sets: the configuration cf is chosen in Init and never changes
          Base,
          Bug           \* "none" | "level_read_wins" | "inc_no_wrap" | "writable_off_by_one" | "readable_early"
VARIABLES cf, level, produce, consume, wdat, rres, rdat, memq, mem, off, seq, obs, bad, inp, ev
vars == <<cf, level, produce, consume, wdat, rres, rdat, memq, mem, off, seq, obs, bad, inp, ev>>
View == <<cf, level, produce, consume, wdat, rres, rdat, memq, mem, off, seq, obs, bad>>

Depth == cf.depth
WDepth == cf.wdepth
RDepth == cf.rdepth
Lmin == cf.lmin
MaxDepth == CHOOSE d \in Depths : \A e \in Depths : e <= d
K == Depth + RDepth + WDepth + 3
OCfg == [kind |-> "fifo", nb |-> 1, depth |-> Depth, k |-> 0, base |-> Base, cap |-> Depth + RDepth]
WKind == IF WDepth = 1 THEN "pipe" ELSE "sync"
RKind == IF RDepth = 1 THEN "pipe" ELSE "sync"
Slots == Base .. (Base + MaxDepth + 1)

Init == /\ cf \in [depth : Depths, wdepth : WDepths, rdepth : RDepths, lmin : Lmins]
        /\ level = 0 /\ produce = 0 /\ consume = 0
        /\ wdat = FifoInit /\ rres = FifoInit /\ rdat = FifoInit /\ memq = <<>> /\ mem = [a \in Slots |-> 255]
        /\ off \in BOOLEAN /\ seq = 0
        /\ obs = InitStream([kind |-> "fifo"]) /\ bad = {} /\ ev = <<>>
        /\ inp = [wReady |-> FALSE, rReady |-> FALSE, srcReady |-> FALSE, done |-> FALSE]

Inc(x) == IF Bug = "inc_no_wrap" THEN (IF x = Depth + 1 THEN 0 ELSE x + 1) ELSE (IF x = Depth - 1 THEN 0 ELSE x + 1)

Tick(wReady, rReady, srcReady, done, nextOff) ==
  LET writable == IF Bug = "writable_off_by_one" THEN level <= Depth ELSE level < Depth
      readable == IF Bug = "readable_early" THEN (level > 0 \/ (off /\ writable)) ELSE level > 0
      \* memory completion of the oldest command
      head     == IF memq # <<>> THEN Head(memq) ELSE [we |-> FALSE, a |-> Base, age |-> 0]
      strobe   == done /\ head.we                         \* wdata.ready pulse
      ret      == done /\ ~head.we                        \* rdata.valid pulse
      \* writer DMA engine
      wValid   == off /\ writable                         \* writer.sink.valid
      wFifoRdy == SinkReady(WKind, WDepth, wdat, strobe)
      wAccept  == wValid /\ wFifoRdy /\ wReady            \* command accepted = sink.ready = ctrl.write
      wPush    == wValid /\ wReady                        \* fifo.sink.valid = sink.valid & cmd.ready
      wdValid  == SrcValid(WKind, wdat)
      \* reader DMA engine
      rdValid  == SrcValid(RKind, rdat)
      resValid == SrcValid(RKind, rres)
      rdPop    == srcReady
      resPop   == rdValid /\ rdPop
      resRdy   == SinkReady(RKind, RDepth, rres, resPop)
      rAccept  == readable /\ resRdy /\ rReady             \* command accepted = ctrl.read
      rdRdy    == SinkReady(RKind, RDepth, rdat, rdPop)
      srcValid == resValid /\ rdValid
      retData  == mem[head.a]
      evs == (IF srcValid /\ srcReady THEN <<[c |-> "OUT", d |-> <<SrcData(RKind, rdat)>>]>> ELSE <<>>)
             \o (IF wAccept THEN <<[c |-> "IN", d |-> <<seq>>], [c |-> "CMD", p |-> 0, we |-> TRUE, a |-> Base + produce]>> ELSE <<>>)
             \o (IF rAccept THEN <<[c |-> "CMD", p |-> 1, we |-> FALSE, a |-> Base + consume]>> ELSE <<>>)
             \o (IF strobe THEN (IF wdValid THEN <<[c |-> "WDATA", p |-> 0, d |-> <<SrcData(WKind, wdat)>>, m |-> <<1>>]>> ELSE <<[c |-> "WDROP", p |-> 0]>>) ELSE <<>>)
             \o (IF ret THEN (IF rdRdy THEN <<[c |-> "RDATA", p |-> 1, d |-> <<retData>>]>> ELSE <<[c |-> "RDROP", p |-> 1]>>) ELSE <<>>)
      r == StreamSteps(OCfg, [s |-> obs, bad |-> {}], evs)
      aged == [i \in 1..Len(memq) |-> [memq[i] EXCEPT !.age = IF @ < Lmin THEN @ + 1 ELSE @]]
      q1 == IF done THEN Tail(aged) ELSE aged
      q2 == IF wAccept THEN Append(q1, [we |-> TRUE, a |-> Base + produce, age |-> 1]) ELSE q1
      q3 == IF rAccept THEN Append(q2, [we |-> FALSE, a |-> Base + consume, age |-> 1]) ELSE q2
  IN /\ cf' = cf
     /\ level' = (CASE Bug = "level_read_wins" -> (IF rAccept THEN level - 1 ELSE IF wAccept THEN level + 1 ELSE level)
                    [] OTHER -> level + (IF wAccept THEN 1 ELSE 0) - (IF rAccept THEN 1 ELSE 0))
     /\ produce' = IF wAccept THEN Inc(produce) ELSE produce
     /\ consume' = IF rAccept THEN Inc(consume) ELSE consume
     /\ wdat' = FifoNext(WKind, WDepth, wdat, wPush, seq, strobe)
     /\ rres' = FifoNext(RKind, RDepth, rres, rAccept, 0, resPop)
     /\ rdat' = FifoNext(RKind, RDepth, rdat, ret, retData, rdPop)
     /\ memq' = q3
     /\ mem' = IF strobe /\ wdValid THEN [mem EXCEPT ![head.a] = SrcData(WKind, wdat)] ELSE mem
     /\ off' = IF off /\ ~wAccept THEN off ELSE nextOff
     /\ seq' = IF wAccept THEN (seq + 1) % K ELSE seq
     /\ obs' = r.s /\ bad' = bad \cup r.bad /\ ev' = evs
     /\ inp' = [wReady |-> wReady, rReady |-> rReady, srcReady |-> srcReady, done |-> done]

Next == \E wReady, rReady, srcReady, done, nextOff \in BOOLEAN :
          /\ done => (memq # <<>> /\ Head(memq).age >= Lmin)
          /\ Tick(wReady, rReady, srcReady, done, nextOff)
Spec == Init /\ [][Next]_vars

Holds == bad = {}
TypeOK == level \in 0..(Depth + 1) /\ produce \in 0..(Depth + 1) /\ consume \in 0..(Depth + 1) /\ Len(memq) <= Depth + WDepth + RDepth + 2
\* vacuity guards (each must be reachable: checked as violated invariants)
NeverFull == level < Depth
NeverWrap == ~(produce = 0 /\ seq > 0)
====
