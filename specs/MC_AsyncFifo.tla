---- MODULE MC_AsyncFifo ----
(* Exhaustive check of the asynchronous FIFO model under EVERY interleaving of write-clock edges, read-clock edges and
   coinciding edges (= every period pair, phase, drift, pause), every push/pop request pattern, against the C08 stream
   requirement (R_Crossing: the same operators that judge the traces of the real LiteDRAMNativePortCDC).
   Words are numbered 1..MaxPush so that loss / duplication / reordering is visible. *)
EXTENDS D_AsyncFifo, TLC
CONSTANTS Depth, MaxPush, Bug
R == INSTANCE R_Crossing
VARIABLES f, st, bad, np, act      \* act: the edge(s) and requests of the last step (lets -simulate behaviours be replayed
vars == <<f, st, bad, np, act>>   \*      into the real netlist as explicit clock-edge schedules, binding B3)

Init == /\ f = [FInit(Depth) EXCEPT !.bug = Bug]
        /\ st = R!InitStreams /\ bad = {} /\ np = 0 /\ act = "-"

Observe(pushes, pops, word) ==
    LET s1 == IF pushes THEN R!StreamPush(st, "cmd", np + 1).s ELSE st
        r2 == IF pops THEN R!StreamPop(s1, "cmd", word) ELSE [s |-> s1, bad |-> {}]
    IN /\ st' = r2.s /\ bad' = bad \cup r2.bad /\ np' = IF pushes THEN np + 1 ELSE np

WTick(we) == /\ we => np < MaxPush
             /\ act' = IF we THEN "W1" ELSE "W0"
             /\ f' = WStep(f, we, np + 1)
             /\ Observe(Pushes(f, we), FALSE, 0)
RTick(re) == /\ act' = IF re THEN "R1" ELSE "R0"
             /\ f' = RStep(f, re)
             /\ Observe(FALSE, Pops(f, re), Dout(f))
BTick(we, re) == /\ we => np < MaxPush
                 /\ act' = "B" \o (IF we THEN "1" ELSE "0") \o (IF re THEN "1" ELSE "0")
                 /\ f' = BStep(f, we, np + 1, re)
                 /\ Observe(Pushes(f, we), Pops(f, re), Dout(f))
WPush == WTick(TRUE)
WIdle == WTick(FALSE)
RPop  == RTick(TRUE)
RIdle == RTick(FALSE)
Both  == \E we, re \in BOOLEAN : BTick(we, re)
Next == WPush \/ WIdle \/ RPop \/ RIdle \/ Both
Spec == Init /\ [][Next]_vars
FairSpec == Spec /\ WF_vars(RPop)

(* ---- the requirement ---- *)
ReqOK == bad = {}
(* ---- design invariants: no overrun, no underrun, flags are conservative ---- *)
NoOverrun  == Occ(f) <= Depth /\ R!InFlight(st, "cmd") = Occ(f)
FlagsSafe  == (Writable(f) => Occ(f) < Depth) /\ (Readable(f) => Occ(f) > 0)
HeadIsOldest == Readable(f) => Dout(f) = Head(st["cmd"].q)
(* ---- nothing is left at the end: once the reader keeps popping, every word sent is delivered ---- *)
Drains == <>[](R!StreamEnd(st) = {})
(* ---- the flags are not uselessly conservative: a quiet FIFO shows its true state after the synchroniser latency ---- *)
Settled == (f.w2r = <<f.wq, f.wq>> /\ f.r2w = <<f.rq, f.rq>>) => ((Writable(f) <=> Occ(f) < Depth) /\ (Readable(f) <=> Occ(f) > 0))
====
