\* generated from harness/props/streamgen.py (the check passes the same text to TLC)
SPECIFICATION Spec
CONSTANTS
 Depths = {2, 3}
 WDepths = {2}
 RDepths = {2}
 Lmins = {1}
 Base = 4
 Bug = "none"
INVARIANT Holds
INVARIANT TypeOK
VIEW View
CHECK_DEADLOCK TRUE
