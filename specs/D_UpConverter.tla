---- MODULE D_UpConverter ----
(* Design-level model of litedram/frontend/adapter.py LiteDRAMNativePortUpConverter (user port narrower than the
   controller port, ratio R), implementation-shaped: ONE action (Tick) per clock edge, the module's registers are the
   variables, its combinational signals are the LET definitions of Tick (names follow the code).  It is composed with
     * a user-side master that obeys exactly the assumptions of property C07 (holds a command until it is accepted,
       queues the data of a write no later than the cycle the command is first offered and holds it until taken,
       always accepts read data, uses cmd.last / flush arbitrarily, idle payload arbitrary among {hold, zero});
     * the abstract ideal memory of D_ConvEnv (pulse semantics, latency >= Lmin chosen per command);
     * the requirement monitor R_Conv (= R_PortMem + early data + FINAL view) as an observer: every user-side
       handshake of the model is fed to ConvStep; the invariant is  bad = {}  and, whenever everything is quiescent,
       the memory seen through the byte view equals the fold of the user writes.
   Data are symbolic: the data of the n-th issued command is n (0 = initial contents); a user word is one byte with one
   byte-enable bit.
   Fix = TRUE adds the proposed one-term repair to next_cmd (start a new wide command when a command is offered whose
   chunk is not above every chunk already selected:  cmd.valid & ((sel >> addr_low) != 0)); Fix = FALSE is the pinned tree.  Bug seeds a model defect (negative control). *)
EXTENDS Integers, Sequences, FiniteSets, TLC, D_ConvEnv, R_Conv
CONSTANTS R,        \* ratio
          NW,       \* number of wide words
          MaxCmds,  \* user commands per behaviour
          Lmin, Lmax,
          Fix,      \* BOOLEAN
          Orders,   \* "any" | "asc" (ascending inside a wide word unless the earlier command carried cmd.last)
          Bug,      \* "none" | "selkeep" | "nolock" | ...
          Wes,      \* subset of BOOLEAN: command types the master uses (mode both / write / read)
          Masks,    \* subset of {0,1}: byte enables used by writes
          Flush,    \* BOOLEAN: flush pulses during the run
          Stall     \* BOOLEAN: memory-side cmd.ready may be low

NA == NW * R
Chunks == 0 .. R - 1
Wide(a) == a \div R
Sub(a) == a % R
MCfg == [nports |-> 1, uniq |-> FALSE]
ZeroPart == [d |-> 0, m |-> 0]
ZeroPend == [v |-> FALSE, we |-> FALSE, a |-> 0, last |-> FALSE, m |-> 1]
FifoDepth == R - 1

VARIABLES fsm, caddr, cwe, clast, sel, rlock, runl,          \* command FSM registers
          rfifo, rmux, rchunk,                                  \* read datapath
          wfifo, wdemux, wstrobe, wparts, wchunk, wsel, wbuf,   \* write datapath
          ms,                                                   \* ideal memory
          pend, flush, mready, uwq, ncmd, prev,                 \* environment registers (signal values of the current cycle)
          mon, bad, quiet,                                      \* requirement observer; quiet = consecutive cycles without activity
          io                                                    \* log of the cycle that just ended (not part of the VIEW)
dut == <<fsm, caddr, cwe, clast, sel, rlock, runl, rfifo, rmux, rchunk, wfifo, wdemux, wstrobe, wparts, wchunk, wsel, wbuf>>
envv == <<ms, pend, flush, mready, uwq, ncmd, prev>>
vars == <<dut, envv, mon, bad, quiet, io>>
View == <<dut, envv, mon, bad, quiet>>
QMax == 2 * R + 8

NoIo == [acc |-> FALSE, take |-> FALSE, rd |-> [v |-> FALSE, d |-> 0], macc |-> [v |-> FALSE, we |-> FALSE, a |-> 0, lat |-> 0],
         wdrop |-> FALSE, rdrop |-> FALSE]

Init ==
  /\ fsm = "NEW" /\ caddr = 0 /\ cwe = FALSE /\ clast = FALSE /\ sel = {} /\ rlock = FALSE /\ runl = FALSE
  /\ rfifo = <<>> /\ rmux = 0 /\ rchunk = 0
  /\ wfifo = <<>> /\ wdemux = 0 /\ wstrobe = FALSE /\ wparts = [k \in Chunks |-> ZeroPart] /\ wchunk = 0 /\ wsel = {}
  /\ wbuf = [v |-> FALSE, parts |-> [k \in Chunks |-> ZeroPart]]
  /\ ms = InitMS(NW, R)
  /\ pend = ZeroPend /\ flush = FALSE /\ mready = TRUE /\ uwq = <<>> /\ ncmd = 0 /\ prev = ZeroPend
  /\ mon = [InitConv(MCfg) EXCEPT !.mem.init = [a \in 0 .. NA - 1 |-> <<0>>]]
  /\ bad = {} /\ quiet = 0 /\ io = NoIo

NewCmds == {[v |-> TRUE, we |-> w, a |-> a, last |-> l, m |-> m] : w \in Wes, a \in 0 .. NA - 1, l \in BOOLEAN, m \in Masks}
OrderOK(p, c) == \/ Orders = "any" \/ ncmd = 0
                 \/ ~(p.we = c.we /\ Wide(p.a) = Wide(c.a) /\ Sub(c.a) <= Sub(p.a) /\ ~p.last)
Feed(s, evs) ==   \* run the requirement monitor over the events of one cycle
  LET RECURSIVE F(_, _, _)
      F(st, b, i) == IF i > Len(evs) THEN [s |-> st, bad |-> b]
                     ELSE LET r == ConvStep(MCfg, st, evs[i]) IN F(r.s, b \cup r.bad, i + 1)
  IN F(s, {}, 1)

Tick ==
  LET \* ---------------- command path (combinational) ----------------
      addr_changed == Wide(caddr) # Wide(pend.a)
      sel_full     == sel = Chunks
      not_above    == \E k \in sel : k >= Sub(pend.a)
      next_cmd     == addr_changed \/ (cwe # pend.we) \/ sel_full \/ clast \/ flush \/ (Fix /\ pend.v /\ not_above)
      rw_collision == cwe /\ pend.v /\ ~pend.we /\ ~addr_changed
      commitW      == fsm = "COMMIT" /\ cwe
      commitR      == fsm = "COMMIT" /\ ~cwe
      to_valid     == fsm = "CMD"
      from_ready   == CASE fsm = "NEW"  -> pend.v /\ (~rlock \/ Bug = "nolock")
                        [] fsm = "FILL" -> ~next_cmd /\ pend.v
                        [] OTHER -> FALSE
      accepted     == pend.v /\ from_ready
      \* ---------------- write datapath ----------------
      wbuf_sink_ready == ~wbuf.v \/ ms.pw.v
      conv_sink_ready == ~wstrobe \/ wbuf_sink_ready
      wchunk_valid    == wchunk \in sel
      conv_sink_valid == commitW /\ (IF wchunk_valid THEN wfifo # <<>> ELSE TRUE)
      conv_sink_data  == IF wchunk_valid /\ wfifo # <<>> THEN Head(wfifo) ELSE ZeroPart
      wfifo_src_ready == commitW /\ wchunk_valid /\ conv_sink_ready
      load            == conv_sink_valid /\ conv_sink_ready
      wdata_finished  == load /\ wchunk = R - 1
      wfifo_pop       == wfifo_src_ready /\ wfifo # <<>>
      wfifo_sink_ready == IF FifoDepth = 1 THEN (wfifo = <<>> \/ wfifo_src_ready) ELSE Len(wfifo) < FifoDepth
      take            == uwq # <<>> /\ wfifo_sink_ready
      \* ---------------- read datapath ----------------
      rconv_valid     == rfifo # <<>>
      rchunk_valid    == rchunk \in sel
      xfer            == commitR /\ rconv_valid
      user_rdata      == xfer /\ rchunk_valid
      rdata_finished  == xfer /\ rchunk = R - 1
      rfifo_src_ready == commitR /\ rmux = R - 1
      rfifo_pop       == rfifo_src_ready /\ rfifo # <<>>
      rfifo_sink_ready == IF FifoDepth = 1 THEN (rfifo = <<>> \/ rfifo_src_ready) ELSE Len(rfifo) < FifoDepth
      rpush           == ms.pr.v /\ rfifo_sink_ready
      rdrop           == ms.pr.v /\ ~rfifo_sink_ready
      commit_done     == wdata_finished \/ rdata_finished
      \* ---------------- memory side ----------------
      macc_v          == to_valid /\ mready
      wdrop           == ms.pw.v /\ ~wbuf.v
      \* ---------------- observer events of this cycle, in the order the harness records them ----------------
      evs == (IF accepted THEN <<[c |-> "CMD", p |-> 0, we |-> pend.we, a |-> pend.a]>> ELSE <<>>)
             \o (IF take THEN <<[c |-> "WDATA", p |-> 0, d |-> <<Head(uwq).d>>, m |-> <<Head(uwq).m>>]>> ELSE <<>>)
             \o (IF user_rdata THEN <<[c |-> "RDATA", p |-> 0, d |-> <<Head(rfifo)[rmux]>>]>> ELSE <<>>)
             \o (IF wdrop THEN <<[c |-> "MWDROP"]>> ELSE <<>>)
             \o (IF rdrop THEN <<[c |-> "MRDROP"]>> ELSE <<>>)
      obs == Feed(mon, evs)
      \* something is happening, or the memory side is what everybody waits for
      active == ncmd < MaxCmds \/ accepted \/ take \/ user_rdata \/ to_valid \/ ms.mq # <<>> \/ ms.pw.v \/ ms.pr.v
  IN
  /\ quiet' = IF active THEN 0 ELSE IF quiet < QMax THEN quiet + 1 ELSE QMax
  \* ---------------- observer ----------------
  /\ mon' = obs.s
  /\ bad' = bad \cup obs.bad
  \* ---------------- registers of the converter ----------------
  /\ fsm' = CASE fsm = "NEW"    -> IF accepted THEN (IF pend.we THEN "FILL" ELSE "CMD") ELSE "NEW"
              [] fsm = "CMD"    -> IF mready THEN (IF cwe THEN "NEW" ELSE "FILL") ELSE "CMD"
              [] fsm = "FILL"   -> IF next_cmd THEN "COMMIT" ELSE "FILL"
              [] fsm = "COMMIT" -> IF commit_done THEN (IF cwe THEN "CMD" ELSE "NEW") ELSE "COMMIT"
  /\ caddr' = IF fsm = "NEW" /\ accepted THEN pend.a ELSE caddr
  /\ cwe'   = IF fsm = "NEW" /\ accepted THEN pend.we ELSE cwe
  /\ clast' = CASE fsm = "NEW" /\ accepted -> pend.last
                [] fsm = "FILL" /\ ~next_cmd -> pend.last          \* NextValue(cmd_last, ...) is outside the If(valid)
                [] OTHER -> clast
  /\ sel'   = CASE fsm = "NEW" /\ accepted -> (IF Bug = "selkeep" THEN sel ELSE {}) \cup {Sub(pend.a)}
                [] fsm = "FILL" /\ ~next_cmd /\ pend.v -> sel \cup {Sub(pend.a)}
                [] OTHER -> sel
  /\ rlock' = IF wdata_finished THEN FALSE
              ELSE IF rw_collision /\ ~to_valid /\ ~runl THEN TRUE ELSE rlock
  /\ runl'  = IF accepted THEN FALSE ELSE IF wdata_finished THEN TRUE ELSE runl
  \* read datapath
  /\ rfifo' = (IF rfifo_pop THEN Tail(rfifo) ELSE rfifo) \o (IF rpush THEN <<ms.pr.w>> ELSE <<>>)
  /\ rmux'  = IF xfer THEN (rmux + 1) % R ELSE rmux
  /\ rchunk' = IF xfer THEN (rchunk + 1) % R ELSE rchunk
  \* write datapath
  /\ wfifo' = (IF wfifo_pop THEN Tail(wfifo) ELSE wfifo) \o (IF take THEN <<Head(uwq)>> ELSE <<>>)
  /\ wdemux' = IF load THEN (wdemux + 1) % R ELSE wdemux
  /\ wstrobe' = IF load /\ wdemux = R - 1 THEN TRUE ELSE IF wbuf_sink_ready THEN FALSE ELSE wstrobe
  /\ wparts' = IF load THEN [wparts EXCEPT ![wdemux] = conv_sink_data] ELSE wparts
  /\ wchunk' = IF load THEN (wchunk + 1) % R ELSE wchunk
  /\ wsel'  = IF commitW /\ wchunk = R - 1 THEN sel ELSE wsel
  /\ wbuf'  = IF wbuf_sink_ready
              THEN [v |-> wstrobe, parts |-> [k \in Chunks |-> [d |-> wparts[k].d, m |-> IF k \in wsel THEN wparts[k].m ELSE 0]]]
              ELSE wbuf
  \* ---------------- environment: ideal memory ----------------
  /\ \E lat \in Lmin .. Lmax :
       LET acc == [v |-> macc_v, we |-> cwe, a |-> Wide(caddr), lat |-> lat] IN
       /\ (~macc_v => lat = Lmin)
       /\ ms' = MemEdge(ms, R, acc, wbuf.v, wbuf.parts)
       /\ io' = [acc |-> accepted, take |-> take, rd |-> [v |-> user_rdata, d |-> IF user_rdata THEN Head(rfifo)[rmux] ELSE 0],
                 macc |-> [acc EXCEPT !.lat = IF macc_v THEN lat ELSE 0], wdrop |-> wdrop, rdrop |-> rdrop]
  /\ mready' \in (IF Stall THEN BOOLEAN ELSE {TRUE})
  \* ---------------- environment: user-side master ----------------
  /\ LET free == ~pend.v \/ accepted
         hold == [pend EXCEPT !.v = FALSE]
     IN \E c \in (IF ~free THEN {pend}
                  ELSE {hold, ZeroPend} \cup (IF ncmd < MaxCmds THEN {x \in NewCmds : OrderOK(prev, x)} ELSE {})) :
          LET new == free /\ c.v IN
          /\ pend' = c
          /\ ncmd' = IF new THEN ncmd + 1 ELSE ncmd
          /\ prev' = IF new THEN c ELSE prev
          /\ uwq' = (IF take THEN Tail(uwq) ELSE uwq) \o (IF new /\ c.we THEN <<[d |-> ncmd + 1, m |-> c.m]>> ELSE <<>>)
          /\ flush' \in (IF ncmd' = MaxCmds /\ ~c.v THEN {TRUE} ELSE IF Flush THEN BOOLEAN ELSE {FALSE})

Spec == Init /\ [][Tick]_vars

\* ------------------------------------------------------------------------------------------------ requirement
\* Settled: all commands issued, flush held, and nothing has moved for QMax cycles although nobody was waiting for the memory.
Settled == quiet = QMax /\ ncmd = MaxCmds
FinalBad == UNION {FinalCheck(mon.mem, [a |-> a, d |-> <<ms.mem[Wide(a)][Sub(a)]>>]) : a \in 0 .. NA - 1}
            \cup ConvStep(MCfg, mon, [c |-> "END"]).bad
ReqOK   == bad = {}                                  \* every user-side beat explainable by one memory, no beat lost
FinalOK == Settled => (~pend.v /\ uwq = <<>> /\ FinalBad = {})   \* nothing stuck; memory behind the converter = fold of the user writes
\* structural sanity of the model itself
TypeOK == /\ Len(wfifo) <= FifoDepth /\ Len(rfifo) <= FifoDepth /\ Len(ms.mq) <= 3
\* cover goals (negated as invariants to obtain witnesses; never part of the requirement)
CoverLock      == ~rlock
CoverTwoWrites == ~(wbuf.v /\ wstrobe)
CoverMerge     == Cardinality(sel) < 2
CoverSettled   == ~Settled
====
