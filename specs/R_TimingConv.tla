---- MODULE R_TimingConv ----
(* Requirement C16: cycle counts derived from datasheets are never on the unsafe side.

   Written from the property statement, not from litedram/modules.py.  Everything is exact integer arithmetic:
     ps    datasheet value in picoseconds           ckm   datasheet value in 1/1000 DRAM clocks (some entries are x.5)
     fkhz  controller clock in kHz                  n     DRAM clocks (DFI phases) per controller cycle ("1:n")
     c     controller cycles handed to the controller
   One DRAM clock lasts tCK = 10^9 / (fkhz * n) ps.

   Minimum-type timing (tRP, tRCD, tWR, tRFC, tWTR, tFAW, tCCD, tRRD, tRAS, tRC, tZQCS):
     the controller spaces the two commands c controller cycles apart; the least favourable placement is "first
     command on the last phase of its cycle, second command on the first phase of its cycle", i.e. c*n - (n-1) DRAM
     clocks.  Required:   (c*n - (n-1)) * tCK >= ps     <=>   c*n - (n-1) >= ceil(ps * fkhz * n / 10^9)
                          c*n >= ck                     (the clock-count clause has no phase term: property wording)
   tRC is not declared separately by the library; the datasheet value is tRAS + tRP (JEDEC definition), both parts.
   Refresh interval (maximum-type):  c * Tclk <= ps   <=>   c <= floor(ps * fkhz / 10^9).

   SPD (JEDEC Standard 21-C, Annex K "SPD for DDR3 SDRAM modules" and Annex L "SPD for DDR4 SDRAM modules"):
   independent decoder from raw bytes to picoseconds, see SpdDecode. *)
EXTENDS Integers, Sequences, FiniteSets, BigNat

\* ---------------------------------------------------------------------------------------------- exact arithmetic
(* ps * F / 10^9 exceeds TLC's 32-bit integers.  BigNat (CeilCycles / FloorCyclesN) is the reference definition; the
   two-limb form below is what the trace validator evaluates (about 30x faster); MC_TimingConv has TLC check that both
   agree on a structured + pseudo-random sample of the whole admissible range, with a negative control.
   ps = p1*10^4 + p0, F = f1*10^4 + f0:  ps*F = A*10^8 + M*10^4 + C with A = p1*f1, M = p1*f0 + p0*f1, C = p0*f0. *)
FastOk(ps, F) == ps >= 0 /\ ps < 20000000 /\ F >= 0 /\ F < 10000000
MulDiv1e9(ps, F) ==
    LET p1 == ps \div 10000   p0 == ps % 10000
        f1 == F \div 10000    f0 == F % 10000
        A == p1 * f1          M == p1 * f0 + p0 * f1          C == p0 * f0
        R == (A % 10) * 100000000 + (M % 100000) * 10000 + C          \* < 2 * 10^9
    IN [q |-> A \div 10 + M \div 100000 + R \div 1000000000, r |-> R % 1000000000]
CeilPsF(ps, F) == IF FastOk(ps, F) THEN (LET m == MulDiv1e9(ps, F) IN m.q + (IF m.r > 0 THEN 1 ELSE 0)) ELSE CeilCycles(ps, F)
FloorPsF(ps, F) == IF FastOk(ps, F) THEN MulDiv1e9(ps, F).q ELSE FloorCyclesN(1, ps, F)

\* ---------------------------------------------------------------------------------------------- conversion clauses
NeedTck(ps, fkhz, n) == CeilPsF(ps, fkhz * n)                 \* DRAM clocks needed to cover ps
HaveTck(c, n) == c * n - (n - 1)                              \* DRAM clocks guaranteed on the least favourable phases
CoversNs(c, n, ps, fkhz) == HaveTck(c, n) >= NeedTck(ps, fkhz, n)
SpansCk(c, n, ckm) == c * n * 1000 >= ckm
RefiMax(ps, fkhz) == FloorPsF(ps, fkhz)                       \* largest cycle count whose duration does not exceed ps
RefiNotLonger(c, ps, fkhz) == c <= RefiMax(ps, fkhz)
\* smallest c satisfying CoversNs / SpansCk (diagnostics and "tight" accounting only)
CeilDiv(a, b) == (a + b - 1) \div b
MinCyclesNs(ps, fkhz, n) == IF ps = 0 THEN 0 ELSE CeilDiv(NeedTck(ps, fkhz, n) + (n - 1), n)
MinCyclesCk(ckm, n) == CeilDiv(ckm, n * 1000)

\* Names of the minimum-type timings in the order used by the call records (tRC is derived, see above).
MinNames == <<"tRP", "tRCD", "tWR", "tRFC", "tWTR", "tFAW", "tCCD", "tRRD", "tRAS", "tZQCS">>
IxRP == 1
IxRAS == 9
NMin == Len(MinNames)

(* One declared entry d = <<ckm, ps, declared>> (declared = 0: the library declares nothing for this timing).
   One handed value c (-1: nothing handed, i.e. None).  Result: set of broken clauses <<clause, timing, have, need>>. *)
MinBad(pfx, name, d, c, n, fkhz) ==
    IF d[3] = 0 THEN {}
    ELSE IF c < 0 THEN {<<pfx \o "declared by the library but no cycle count handed to the controller", name, c, 0>>}
    ELSE (IF d[2] > 0 /\ ~CoversNs(c, n, d[2], fkhz)
          THEN {<<pfx \o "nanoseconds not covered on the least favourable phases", name, HaveTck(c, n), NeedTck(d[2], fkhz, n)>>} ELSE {})
         \cup
         (IF d[1] > 0 /\ ~SpansCk(c, n, d[1])
          THEN {<<pfx \o "datasheet clock count not spanned", name, c * n * 1000, d[1]>>} ELSE {})

RcDecl(ds) == IF ds[IxRAS][3] = 0 \/ ds[IxRP][3] = 0 THEN <<0, 0, 0>>
              ELSE <<ds[IxRP][1] + ds[IxRAS][1], ds[IxRP][2] + ds[IxRAS][2], 1>>

RefiBad(pfx, c, ps, fkhz) ==
    IF c < 0 THEN {<<pfx \o "no refresh interval handed to the controller", "tREFI", c, 0>>}
    ELSE LET m == RefiMax(ps, fkhz) IN
         IF c <= m THEN {}
         ELSE IF c = m + 1 THEN {<<pfx \o "refresh interval longer than datasheet by less than one controller cycle (rounded up)", "tREFI", c, m>>}
         ELSE {<<pfx \o "refresh interval longer than datasheet by one controller cycle or more", "tREFI", c, m>>}

(* ds: sequence of NMin declared entries; refi: declared refresh interval in ps; o: sequence of NMin + 2 handed values
   (MinNames order, then tRC, then tREFI).  ConvBad is the requirement; Eval computes the same set together with the
   "tight" flag from one evaluation of the needed clock counts (the trace validator judges ~10^6 records). *)
ConvBad(pfx, ds, refi, o, n, fkhz) ==
    UNION {MinBad(pfx, MinNames[i], ds[i], o[i], n, fkhz) : i \in 1..NMin}
    \cup MinBad(pfx, "tRC", RcDecl(ds), o[NMin + 1], n, fkhz)
    \cup RefiBad(pfx, o[NMin + 2], refi, fkhz)

NameOf(i) == IF i <= NMin THEN MinNames[i] ELSE "tRC"
Eval(pfx, ds, refi, o, n, fkhz) ==
    LET dx == Append(ds, RcDecl(ds))
        need == [i \in 1..(NMin + 1) |-> IF dx[i][3] = 1 /\ dx[i][2] > 0 THEN NeedTck(dx[i][2], fkhz, n) ELSE 0]
        rmax == RefiMax(refi, fkhz)
        One(i) == LET d == dx[i]  c == o[i] IN
                  IF d[3] = 0 THEN {}
                  ELSE IF c < 0 THEN {<<pfx \o "declared by the library but no cycle count handed to the controller", NameOf(i), c, 0>>}
                  ELSE (IF d[2] > 0 /\ HaveTck(c, n) < need[i]
                        THEN {<<pfx \o "nanoseconds not covered on the least favourable phases", NameOf(i), HaveTck(c, n), need[i]>>} ELSE {})
                       \cup (IF d[1] > 0 /\ ~SpansCk(c, n, d[1])
                             THEN {<<pfx \o "datasheet clock count not spanned", NameOf(i), c * n * 1000, d[1]>>} ELSE {})
        \* lowering the handed minimum by one cycle would break a clause
        TightAt(i) == dx[i][3] = 1 /\ o[i] >= 0 /\ ((dx[i][2] > 0 /\ HaveTck(o[i] - 1, n) < need[i]) \/ (dx[i][1] > 0 /\ ~SpansCk(o[i] - 1, n, dx[i][1])))
        c == o[NMin + 2]
    IN [bad |-> UNION {One(i) : i \in 1..(NMin + 1)}
                \cup (IF c < 0 THEN {<<pfx \o "no refresh interval handed to the controller", "tREFI", c, 0>>}
                      ELSE IF c <= rmax THEN {}
                      ELSE IF c = rmax + 1 THEN {<<pfx \o "refresh interval longer than datasheet by less than one controller cycle (rounded up)", "tREFI", c, rmax>>}
                      ELSE {<<pfx \o "refresh interval longer than datasheet by one controller cycle or more", "tREFI", c, rmax>>}),
        tight |-> (c >= rmax) \/ (\E i \in 1..(NMin + 1) : TightAt(i))]

\* ---------------------------------------------------------------------------------------------- SPD decoding
B(s, i) == s[i + 1]                         \* byte number i (SPD byte numbers start at 0)
Lo(b) == b % 16
Hi(b) == b \div 16
S8(b) == IF b >= 128 THEN b - 256 ELSE b    \* fine offsets are two's complement
W(msb, lsb) == msb * 256 + lsb

(* Annex K (DDR3): byte 9 = FTB dividend (7:4) / divisor (3:0) in ps; byte 10 / byte 11 = MTB dividend / divisor in ns.
   12 tCKmin, 16 tAAmin, 17 tWRmin, 18 tRCDmin, 19 tRRDmin, 20 tRPmin, 21 upper nibbles (3:0 tRAS, 7:4 tRC), 22 tRASmin
   LSB, 23 tRCmin LSB, 24/25 tRFCmin LSB/MSB, 26 tWTRmin, 27 tRTPmin, 28 (3:0) tFAW upper nibble, 29 tFAWmin LSB,
   34..38 fine offsets for tCKmin, tAAmin, tRCDmin, tRPmin, tRCmin. *)
Spd3Ok(s) == Len(s) >= 39 /\ B(s, 2) = 11 /\ B(s, 11) > 0 /\ Lo(B(s, 9)) > 0
             /\ (1000 * B(s, 10)) % B(s, 11) = 0
             /\ \A i \in 34..38 : (S8(B(s, i)) * Hi(B(s, 9))) % Lo(B(s, 9)) = 0      \* every fine offset is a whole number of ps
Spd3(s) ==
    LET mtb == (1000 * B(s, 10)) \div B(s, 11)
        T(m, f) == m * mtb + (S8(f) * Hi(B(s, 9))) \div Lo(B(s, 9))
    IN [tCK  |-> T(B(s, 12), B(s, 34)),
        tWR  |-> T(B(s, 17), 0),
        tRCD |-> T(B(s, 18), B(s, 36)),
        tRRD |-> T(B(s, 19), 0),
        tRP  |-> T(B(s, 20), B(s, 37)),
        tRAS |-> T(W(Lo(B(s, 21)), B(s, 22)), 0),
        tRC  |-> T(W(Hi(B(s, 21)), B(s, 23)), B(s, 38)),
        tRFC |-> [x1 |-> T(W(B(s, 25), B(s, 24)), 0), x2 |-> 0, x4 |-> 0],
        tWTR |-> T(B(s, 26), 0),
        tFAW |-> T(W(Lo(B(s, 28)), B(s, 29)), 0),
        fawck |-> 0,                               \* DDR3: tFAW is a nanosecond value only
        tCCD |-> 0]

(* Annex L (DDR4): byte 17 timebases (only MTB 125 ps / FTB 1 ps defined); 18 tCKAVGmin, 24 tAAmin, 25 tRCDmin,
   26 tRPmin, 27 upper nibbles (3:0 tRAS, 7:4 tRC), 28 tRASmin LSB, 29 tRCmin LSB, 30/31 tRFC1min LSB/MSB,
   32/33 tRFC2min, 34/35 tRFC4min, 36 (3:0) tFAW upper nibble, 37 tFAWmin LSB, 38 tRRD_Smin, 39 tRRD_Lmin, 40 tCCD_Lmin,
   41 (3:0) tWR upper nibble, 42 tWRmin LSB, 43 upper nibbles (3:0 tWTR_S, 7:4 tWTR_L), 44 tWTR_Smin LSB,
   45 tWTR_Lmin LSB, fine offsets: 117 tCCD_L, 118 tRRD_L, 119 tRRD_S, 120 tRC, 121 tRP, 122 tRCD, 123 tAA, 125 tCKAVGmin.
   The controller keeps one tRRD / tWTR / tCCD for all bank pairs, so the same-bank-group (_L) values are the ones it
   has to cover. *)
Spd4Ok(s) == Len(s) >= 126 /\ B(s, 2) = 12 /\ B(s, 17) % 16 = 0
Spd4(s) ==
    LET T(m, f) == m * 125 + S8(f)
    IN [tCK  |-> T(B(s, 18), B(s, 125)),
        tWR  |-> T(W(Lo(B(s, 41)), B(s, 42)), 0),
        tRCD |-> T(B(s, 25), B(s, 122)),
        tRRD |-> T(B(s, 39), B(s, 118)),
        tRP  |-> T(B(s, 26), B(s, 121)),
        tRAS |-> T(W(Lo(B(s, 27)), B(s, 28)), 0),
        tRC  |-> T(W(Hi(B(s, 27)), B(s, 29)), B(s, 120)),
        tRFC |-> [x1 |-> T(W(B(s, 31), B(s, 30)), 0), x2 |-> T(W(B(s, 33), B(s, 32)), 0), x4 |-> T(W(B(s, 35), B(s, 34)), 0)],
        tWTR |-> T(W(Hi(B(s, 43)), B(s, 45)), 0),
        tFAW |-> T(W(Lo(B(s, 36)), B(s, 37)), 0),
        \* JESD79-4: tFAW = max(N nCK, x ns) with N by page size: 16 (1/2 KB), 20 (1 KB), 28 (2 KB).  Page size = 2^columns x
        \* device width / 8, columns = 9 + byte 5 (2:0), device width = 4 * 2^(byte 12 (2:0)): log2(page bytes) = columns + code - 1
        fawck |-> (LET pl == 9 + (B(s, 5) % 8) + (B(s, 12) % 8) - 1 IN IF pl <= 9 THEN 16000 ELSE IF pl = 10 THEN 20000 ELSE 28000),
        tCCD |-> T(B(s, 40), B(s, 117))]

SpdOk(s) == Len(s) >= 3 /\ ((B(s, 2) = 11 /\ Spd3Ok(s)) \/ (B(s, 2) = 12 /\ Spd4Ok(s)))
SpdDecode(s) == IF B(s, 2) = 11 THEN Spd3(s) ELSE Spd4(s)
\* JEDEC average periodic refresh interval (0..85 C): 7.8 us = 64 ms / 8192; DDR4 fine granularity 2x / 4x halves / quarters it
SpdRefi(frm) == IF frm = "2x" THEN 3906250 ELSE IF frm = "4x" THEN 1953125 ELSE 7812500

(* The SPD contents as a sequence of declared entries in MinNames order (nanosecond parts; the only clock-count minimum that
   follows from SPD contents is DDR4's page-size dependent tFAW; the others are checked against the module's declaration like
   for any other module). *)
SpdDecl(sp, frm) ==
    LET rfc == IF frm = "2x" THEN sp.tRFC.x2 ELSE IF frm = "4x" THEN sp.tRFC.x4 ELSE sp.tRFC.x1
        E(ps) == <<0, ps, IF ps > 0 THEN 1 ELSE 0>>
    IN <<E(sp.tRP), E(sp.tRCD), E(sp.tWR), E(rfc), E(sp.tWTR), <<sp.fawck, sp.tFAW, 1>>, E(sp.tCCD), E(sp.tRRD), E(sp.tRAS), <<0, 0, 0>>>>

(* Clauses of a module built from SPD bytes, against the SPD contents.  tRC is checked twice: against tRAS + tRP of
   the SPD (through ConvBad) and against the SPD's own tRCmin field. *)
SpdBad(sp, frm, o, n, fkhz) ==
    Eval("SPD: ", SpdDecl(sp, frm), SpdRefi(frm), o, n, fkhz).bad
    \cup MinBad("SPD: ", "tRC(SPD tRCmin field)", <<0, sp.tRC, 1>>, o[NMin + 1], n, fkhz)
====
