---- MODULE MC_Avl2Native ----
(* Closed system for exhaustive TLC checking of D_Avl2Native against the requirement R_AvlMem (the SAME operators that
   judge real traces):   Avalon-MM master (environment) -> bridge model -> pulse-semantics native memory (environment).
   * master: any legal Avalon-MM behaviour over NA word addresses: single and burst (2..MAXB beats) reads and writes,
     commands held while waitrequest is high, next command presented with or without idle cycles, with GAPS = TRUE idle
     cycles BETWEEN the beats of a write burst, junk address / burstcount on later beats (constantBurstBehavior = false).
   * memory: cmd.ready arbitrary (at most STALL consecutive low cycles), one wdata.ready / rdata.valid pulse per command
     in command order, LMIN..LMAX cycles after the accept, regardless of wdata.valid; garbage rdata otherwise.
   * observer: obs = R_AvlMem monitor state fed with the per-cycle bus sample; invariants: no clause broken, backing
     memory allowed whenever the system is quiescent, while a command is held or a read is outstanding, some beat is accepted or returned within WMAX cycles. *)
EXTENDS D_Avl2Native, R_AvlMem, TLC
CONSTANTS NA, MAXB, MB, BES, GAPS, COVER, LMIN, LMAX, STALL, WMAX, VAR
VARIABLES r, m, mo, mem, q, stallc, obs, lastbad, wcnt, seen
vars == <<r, m, mo, mem, q, stallc, obs, lastbad, wcnt, seen>>

Cfg == [ab |-> 1, pb |-> 1, base |-> 0, bound |-> WMAX, maxburst |-> MAXB]
IdleM == [rd |-> 0, wr |-> 0, a |-> 0, bc |-> 0, be |-> 0, d |-> 0]
Garb == 99

Init == /\ r = AInit /\ m = IdleM
        /\ mo = [cmd_ready |-> 0, wdata_ready |-> 0, rdata_valid |-> 0, rdata |-> Garb]
        /\ mem = [B \in 0..NA - 1 |-> BmInitByte(B)]
        /\ q = <<>> /\ stallc = 0 /\ obs = AvInit /\ lastbad = {} /\ wcnt = 0 /\ seen = {}

Spans == {x \in (0..NA - 1) \X (1..MAXB) : x[1] + x[2] <= NA}
NewVal(o2, a) == IF 1 \in BmGet(o2.mem, a) THEN 2 ELSE 1
NextMaster(o2) ==
    IF o2.hold THEN {m}
    ELSE IF o2.wl > 0
    THEN (IF GAPS THEN {IdleM} ELSE {})
         \cup {[rd |-> 0, wr |-> 1, a |-> j[1], bc |-> j[2], be |-> b, d |-> NewVal(o2, o2.wa)] : j \in {<<0, 0>>, <<1, 2>>}, b \in BES}
    ELSE {IdleM}
         \cup {[rd |-> 1, wr |-> 0, a |-> x[1], bc |-> x[2], be |-> 1, d |-> 0] : x \in Spans}
         \cup {[rd |-> 0, wr |-> 1, a |-> x[1], bc |-> x[2], be |-> b, d |-> NewVal(o2, x[1])] : x \in Spans, b \in BES}

\* vacuity guard: with COVER = TRUE the ghost variable seen collects the named situations met so far; the cover
\* configuration (TLC -simulate) must VIOLATE CoverAll, i.e. exhibit one behaviour that meets them all.
Goals == (IF r.fsm = "BURST_WRITE" /\ Len(r.wf) = MB /\ m.wr = 1 /\ r.burst_count > 0 THEN {"wdata-fifo-full-beat-held"} ELSE {})
         \cup (IF r.fsm = "BURST_READ" /\ r.seen = 1 /\ r.burst_count = 1 /\ mo.rdata_valid = 1 THEN {"burst-read-last-beat"} ELSE {})
         \cup (IF r.fsm = "BURST_READ" /\ r.seen = 0 /\ mo.cmd_ready = 0 THEN {"burst-read-cmd-stalled"} ELSE {})
         \cup (IF r.fsm = "BURST_WRITE" /\ r.burst_count > 0 /\ m.wr = 0 THEN {"gap-in-write-burst"} ELSE {})
         \cup (IF r.fsm = "BURST_WRITE" /\ r.burst_count = 0 /\ (m.rd = 1 \/ m.wr = 1) THEN {"next-command-held-while-draining"} ELSE {})
         \cup (IF r.fsm = "START" /\ (m.rd = 1 \/ m.wr = 1) /\ m.bc = 1 /\ mo.cmd_ready = 0 THEN {"single-stalled"} ELSE {})
         \cup (IF Len(q) >= 2 THEN {"two-native-commands-outstanding"} ELSE {})
AllGoals == {"wdata-fifo-full-beat-held", "burst-read-last-beat", "burst-read-cmd-stalled", "next-command-held-while-draining",
             "single-stalled", "two-native-commands-outstanding"} \cup (IF GAPS THEN {"gap-in-write-burst"} ELSE {})

\* dead-field normalisation (state-space reduction only; the lock-step trace spec uses the raw ANext)
NormA(x) ==
    CASE x.fsm = "START" -> [x EXCEPT !.burst_count = 0, !.address = 0, !.byteenable = 0, !.writedata = 0, !.crc = 0]
      [] x.fsm = "SINGLE_READ" -> [x EXCEPT !.burst_count = 0, !.address = 0, !.byteenable = 0, !.writedata = 0, !.crc = 0, !.seen = 0]
      [] x.fsm = "SINGLE_WRITE" -> [x EXCEPT !.burst_count = 0, !.address = 0, !.crc = 0, !.seen = 0]
      [] x.fsm = "BURST_WRITE" -> [x EXCEPT !.byteenable = 0, !.writedata = 0, !.crc = 0, !.seen = 0]
      [] x.fsm = "BURST_READ" -> [x EXCEPT !.byteenable = 0, !.writedata = 0,
                                           !.crc = IF x.seen = 1 THEN 0 ELSE @, !.address = IF x.seen = 1 THEN 0 ELSE @]
NormO(x) == [x EXCEPT !.gapw = FALSE, !.brst = FALSE, !.mem = [B \in 0..NA - 1 |-> BmGet(x.mem, B)], !.cmd = IF x.hold THEN @ ELSE AvInit.cmd, !.wa = IF x.wl > 0 THEN @ ELSE 0]

Tick ==
  LET i == [rd |-> m.rd, wr |-> m.wr, a |-> m.a, bc |-> m.bc, be |-> m.be, d |-> m.d,
            cmd_ready |-> mo.cmd_ready, wdata_ready |-> mo.wdata_ready, rdata_valid |-> mo.rdata_valid, rdata |-> mo.rdata]
      o == AComb(MB, r, i, VAR)
      e == [c |-> "AVL", t |-> 0, n |-> 1, rd |-> m.rd, wr |-> m.wr, a |-> m.a, bc |-> m.bc, be |-> <<m.be>>, d |-> <<m.d>>,
            wait |-> o.wait, rdv |-> o.rdv, q |-> <<o.q>>]
      res == AvStep(Cfg, obs, e, FALSE)
      hd == IF q # <<>> THEN Head(q) ELSE [we |-> 0, a |-> 0, age |-> 0]
      mem1 == IF mo.wdata_ready = 1 /\ o.wv = 1 /\ o.ww = 1 /\ hd.a \in DOMAIN mem
              THEN [mem EXCEPT ![hd.a] = o.wd] ELSE mem
      q1 == IF mo.wdata_ready = 1 \/ mo.rdata_valid = 1 THEN Tail(q) ELSE q
      acc == o.cv = 1 /\ mo.cmd_ready = 1
      q2 == [k \in 1..Len(q1) |-> [q1[k] EXCEPT !.age = IF @ < LMAX THEN @ + 1 ELSE @]]
            \o (IF acc THEN <<[we |-> o.cwe, a |-> o.ca, age |-> 1]>> ELSE <<>>)
      busy == res.s.hold \/ res.s.rq # <<>>
      progress == res.tags \cap {"rdv", "write-burst", "write-single", "write-beat", "read-burst", "read-single"} # {}
  IN /\ r' = NormA(ANext(MB, r, i, VAR))
     /\ obs' = NormO(res.s)
     /\ lastbad' = res.bad
     /\ wcnt' = IF busy /\ ~progress THEN wcnt + 1 ELSE 0
     /\ seen' = IF COVER THEN seen \cup Goals ELSE seen
     /\ mem' = mem1
     /\ q' = q2
     /\ m' \in NextMaster(res.s)
     /\ \E rdy \in {0, 1} :
           /\ (rdy = 0 => stallc < STALL)
           /\ stallc' = IF rdy = 0 THEN stallc + 1 ELSE 0
           /\ \E fire \in BOOLEAN :
                /\ (fire => q2 # <<>> /\ q2[1].age >= LMIN)
                /\ (q2 # <<>> /\ q2[1].age >= LMAX => fire)
                /\ mo' = [cmd_ready |-> rdy,
                          wdata_ready |-> IF fire /\ q2[1].we = 1 THEN 1 ELSE 0,
                          rdata_valid |-> IF fire /\ q2[1].we = 0 THEN 1 ELSE 0,
                          rdata |-> IF fire /\ q2[1].we = 0 /\ q2[1].a \in DOMAIN mem1 THEN mem1[q2[1].a] ELSE Garb]

Spec == Init /\ [][Tick]_vars

NoClauseBroken == lastbad = {}
Quiescent == r.fsm = "START" /\ q = <<>> /\ ~obs.hold /\ obs.rq = <<>> /\ obs.wl = 0
MemAllowed == Quiescent => \A B \in 0..NA - 1 : mem[B] \in BmGet(obs.mem, B)
DoneWithinBound == wcnt <= WMAX
QueueBounded == Len(q) <= MB + 1
CoverAll == ~(AllGoals \subseteq seen)
====
