---- MODULE G_DramData ----
(* Generator of LEGAL DFI command traces (binding B3, spec -> code): the behaviours of the reference model's own
   legality envelope (R_DramData!CanAct/CanCas/CanPre).  Per controller cycle at most one ACT, one PRE/PREA and one RD/WR,
   on pairwise different phases (any placement), any bank/row/column of the given sets, auto-precharge, four mask kinds.
   Used with TLC -simulate (stimuli for the real SDRAMPHYModel) and, composed with D_PhyModel, exhaustively (MC_PhyModel). *)
EXTENDS R_DramData
CONSTANTS NBanks, NRows, NCols, WordCols, NBytes, ApBit, Rl, Wl, Mapping, InitLen,
          Trcd, Trp, Tras, Trc, Trrd, Tccd, Twr, Twtr, Trtw, Trtp,
          Rows, Cols, NPh, MaxT, Salt   \* Salt = 0: enumerate every column / auto-precharge value (exhaustive runs)
GC == [nbanks |-> NBanks, nrows |-> NRows, ncols |-> NCols, wordcols |-> WordCols, nbytes |-> NBytes, apbit |-> ApBit,
       rl |-> Rl, wl |-> Wl, mapping |-> Mapping, initlen |-> InitLen,
       tm |-> [rcd |-> Trcd, rp |-> Trp, ras |-> Tras, rc |-> Trc, rrd |-> Trrd, ccd |-> Tccd, wr |-> Twr, wtr |-> Twtr,
               rtw |-> Trtw, rtp |-> Trtp]]
Banks == 0..NBanks - 1
None == <<>>
\* raw DFI address of logical column c with auto-precharge flag ap
DfiCol(c, ap) == (c % (2^ApBit)) + (c \div (2^ApBit)) * (2^(ApBit + 1)) + ap * (2^ApBit)

ActChoices(s, t) == {None} \cup {[c |-> "ACT", b |-> b, a |-> r] : b \in {x \in Banks : CanAct(GC, s, t, x)}, r \in Rows}
PreChoices(s, t) == {None} \cup {[c |-> "PRE", b |-> b, a |-> 0] : b \in {x \in Banks : CanPre(GC, s, t, x)}}
                    \cup (IF \A x \in Banks : CanPre(GC, s, t, x) THEN {[c |-> "PRE", b |-> 0, a |-> 2^ApBit]} ELSE {})
\* Column, auto-precharge flag and mask kind of the cycle's RD/WR are a fixed pseudo-random function of (cycle, bank, Salt):
\* TLC then only enumerates kind x bank, which keeps -simulate fast; every value still occurs over a run.
Hash(t, k) == ((t + 1) * 7919 + Salt * 104729 + k * 131) % 65521
SetMin(S) == CHOOSE x \in S : \A y \in S : x <= y
RECURSIVE GSort(_)
GSort(S) == IF S = {} THEN <<>> ELSE <<SetMin(S)>> \o GSort(S \ {SetMin(S)})
ColSeq == GSort(Cols)
CasChoices(s, t) == IF Salt = 0
  THEN {None} \cup {[c |-> k, b |-> b, a |-> DfiCol(col, ap), mk |-> 0] :
                    k \in {"RD", "WR"}, b \in {x \in Banks : CanCas(GC, s, t, x, TRUE) \/ CanCas(GC, s, t, x, FALSE)}, col \in Cols, ap \in {0, 1}}
  ELSE {None} \cup {[c |-> k, b |-> b, a |-> DfiCol(ColSeq[1 + (Hash(t, b) % Cardinality(Cols))], IF Hash(t, b + 7) % 4 = 0 THEN 1 ELSE 0),
                                  mk |-> IF k = "RD" THEN 0 ELSE Hash(t, b + 13) % 4] :
                                 k \in {"RD", "WR"}, b \in {x \in Banks : CanCas(GC, s, t, x, TRUE) \/ CanCas(GC, s, t, x, FALSE)}}
Legal(s, t, A, P, C) ==
  /\ (C # None => CanCas(GC, s, t, C.b, C.c = "RD") /\ (C.c = "RD" => C.mk = 0))
  /\ (A # None /\ P # None => P.a = 0 /\ P.b # A.b)
  /\ (C # None /\ P # None => P.a = 0 /\ P.b # C.b)
  /\ (A # None /\ C # None => A.b # C.b)
Count(A, P, C) == (IF A = None THEN 0 ELSE 1) + (IF P = None THEN 0 ELSE 1) + (IF C = None THEN 0 ELSE 1)

\* all ways of putting the chosen commands on pairwise different phases
Place(A, P, C) ==
  LET cmds == (IF A = None THEN <<>> ELSE <<A>>) \o (IF P = None THEN <<>> ELSE <<P>>) \o (IF C = None THEN <<>> ELSE <<C>>)
      n == Len(cmds)
  IN {[i \in 1..n |-> cmds[i] @@ [ph |-> (p0 + (i - 1) * st) % NPh]] : p0 \in 0..NPh - 1, st \in (IF NPh > 2 THEN {1, NPh - 1} ELSE {1})}

ApplyCmds(s, t, A, P, C) ==
  LET s1 == IF A = None THEN s ELSE DoAct(s, t, A.b, A.a)
      s2 == IF P = None THEN s1 ELSE DoPre(s1, t, IF P.a # 0 THEN Banks ELSE {P.b})
  IN IF C = None THEN s2 ELSE DoCas(GC, s2, t, C.b, C.c = "RD", ApFlag(GC, C.a))
====
