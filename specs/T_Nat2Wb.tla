---- MODULE T_Nat2Wb ----
(* Trace validation of the REVERSE bridge LiteDRAMNative2Wishbone (C10 anchor "reverse bridge native->wishbone"):
   a native-port master in front, a Wishbone slave memory behind.
     * native side: memory semantics of the port, judged by R_PortMem (CMD / WDATA / RDATA / END events);
     * Wishbone side: the k-th Wishbone access (WBREQ = first cycle with CYC & STB of an access) belongs to the k-th
       accepted native command: same direction, address = native address + base (in words); every access is held until its acknowledge (WBDROP = CYC/STB negated before the
       ACK is a violation: the slave is a plain classic slave that always answers);
     * final contents of the slave memory (MEM events, word address in Wishbone words) = what the native write beats left
       (byte memory R_ByteMem, initial pattern BmInitByte at the NATIVE byte address).
   cfg (line 1) = [nports |-> 1, uniq |-> FALSE, nb |-> bytes per word, basew |-> base address in words]. *)
EXTENDS TraceLib, R_PortMem, R_ByteMem
Cfg0 == Trace[1]
VARIABLES l, cfg, mem, cq, wq, bm, bad, cnt
vars == <<l, cfg, mem, cq, wq, bm, bad, cnt>>
TInit == l = 2 /\ cfg = Cfg0 /\ mem = InitMem(Cfg0) /\ cq = <<>> /\ wq = <<>> /\ bm = BmInit /\ bad = {} /\ cnt = [cmd |-> 0, wbreq |-> 0, mem |-> 0]
TNext ==
  /\ l <= NLines
  /\ l' = l + 1
  /\ LET e == Trace[l] IN
     IF e.c = "NEW" THEN /\ cfg' = e /\ mem' = InitMem(e) /\ cq' = <<>> /\ wq' = <<>> /\ bm' = BmInit /\ bad' = bad /\ cnt' = cnt
     ELSE
       LET r == MemStep(cfg, mem, e)
           isCmd == e.c = "CMD"
           isWd == e.c = "WDATA"
           isReq == e.c = "WBREQ"
           hd == IF cq # <<>> THEN Head(cq) ELSE [we |-> FALSE, a |-> 0 - 1]
           reqBad == IF ~isReq THEN {}
                     ELSE IF cq = <<>> THEN {<<"Wishbone access without a native command">>}
                     ELSE IF e.adr # hd.a + cfg.basew \/ (e.we = 1) # hd.we
                          THEN {<<"Wishbone access does not match the native command (address + base, direction)", e.adr, e.we, hd.a, hd.we>>}
                     ELSE {}
           dropBad == IF e.c = "WBDROP" THEN {<<"Wishbone access dropped before the acknowledge">>} ELSE {}
           memBad == IF e.c = "MEM"
                     THEN {<<"slave memory content is not what the native writes left", e.a, k, e.d[k + 1], BmGet(bm, (e.a - cfg.basew) * cfg.nb + k)>> :
                              k \in BmWrongLanes(bm, (e.a - cfg.basew) * cfg.nb, cfg.nb, BmAllOnes(cfg.nb), e.d)}
                     ELSE {}
       IN /\ cfg' = cfg /\ mem' = r.s
          /\ cq' = IF isCmd THEN Append(cq, [we |-> e.we, a |-> e.a]) ELSE IF isReq /\ cq # <<>> THEN Tail(cq) ELSE cq
          \* wq: addresses of accepted native write commands whose data beat (WDATA) is still to come
          /\ wq' = IF isCmd /\ e.we THEN Append(wq, e.a) ELSE IF isWd /\ wq # <<>> THEN Tail(wq) ELSE wq
          /\ bm' = IF isWd /\ wq # <<>> THEN BmWrite(bm, Head(wq) * cfg.nb, cfg.nb, e.m, e.d) ELSE bm
          /\ bad' = bad \cup {<<l>> \o x : x \in r.bad \cup reqBad \cup dropBad \cup memBad}
          /\ cnt' = [cmd |-> cnt.cmd + (IF isCmd THEN 1 ELSE 0), wbreq |-> cnt.wbreq + (IF isReq THEN 1 ELSE 0), mem |-> cnt.mem + (IF e.c = "MEM" THEN 1 ELSE 0)]
TSpec == TInit /\ [][TNext]_vars
AtEnd == (l = NLines + 1) => WriteVerdict(l - 1, bad \cup (IF cq # <<>> THEN {<<l, "native command never reached the Wishbone side">>} ELSE {}), cnt)
====
