---- MODULE MC_AxiB2B ----
(* Burst-to-beat address generation (anchor "AXIBurst2Beat use in W and R paths"): the recurrence implemented by
   litex.soc.interconnect.axi.AXIBurst2Beat (beat_count / beat_offset registers, written here as in its source, including
   the statement order: the WRAP correction is the LAST assignment and also applies on the last beat) is compared, for
   EVERY legal burst header of a small domain, with the AXI4 beat-address rule R_AxiMem!BeatAddr (A3.4.1).  The bridge
   uses (addr - base) >> log2(nb), so the comparison is on native word addresses, plus: offset returns to 0 after the burst.
   One TLC "state" per header. *)
EXTENDS Integers, Sequences, TLC
CONSTANTS Nb, MaxAddr, MaxIncrLen
R == INSTANCE R_AxiMem
Cfg == [nb |-> Nb, base |-> 0, nwords |-> 100000]
Sizes == {z \in 0 .. 6 : 2 ^ z <= Nb}
Headers == {h \in [addr : 0 .. MaxAddr, len : 0 .. MaxIncrLen, size : Sizes, burst : {0, 1, 2}] :
              /\ h.burst = 2 => h.len \in {1, 3, 7, 15} /\ h.addr % (2 ^ h.size) = 0
              /\ h.burst = 0 => h.len <= 15}
\* bitwise AND of naturals
RECURSIVE And(_, _)
And(a, b) == IF a = 0 \/ b = 0 THEN 0 ELSE (a % 2) * (b % 2) + 2 * And(a \div 2, b \div 2)
\* one accepted beat of AXIBurst2Beat: st = [count, offset] -> next registers
B2BStep(h, st) ==
    LET size == 2 ^ h.size
        wrap == h.len * size                        \* beat_wrap = len << size
        addr == h.addr + st.offset                  \* ax_beat.addr
        last == st.count = h.len
        o1 == IF last THEN 0 ELSE IF h.burst \in {1, 2} THEN st.offset + size ELSE st.offset
        o2 == IF h.burst = 2 /\ And(addr, wrap) = wrap THEN st.offset - wrap ELSE o1
    IN [count |-> IF last THEN 0 ELSE st.count + 1, offset |-> o2]
RECURSIVE Run(_, _, _)
Run(h, st, i) == IF i > h.len THEN <<st>> ELSE <<st>> \o Run(h, B2BStep(h, st), i + 1)     \* registers before beat 0..len, then after
VARIABLE h
Init == h \in Headers
Next == UNCHANGED h
Thm == LET tr == Run(h, [count |-> 0, offset |-> 0], 0)
       IN /\ \A i \in 0 .. h.len : R!Word(Cfg, h.addr + tr[i + 1].offset) = R!Word(Cfg, R!BeatAddr(h, i))
          /\ \A i \in 0 .. h.len : (h.addr % (2 ^ h.size) = 0) => h.addr + tr[i + 1].offset = R!BeatAddr(h, i)
          /\ tr[h.len + 2] = [count |-> 0, offset |-> 0]
====
