SPECIFICATION LSpecUnfair
CONSTANTS NRows = 2
 NCols = 1
 Align = 2
 Depth = 2
 tRP = 2
 tRCD = 2
 tWTP = 3
 tRC = 4
 tRAS = 2
 CntBitsWTP = 2
 CntBitsRC = 3
 CntBitsRAS = 2
 AutoPre = TRUE
 RefWaitsTras = TRUE
 tRFC = 2
PROPERTY RefreshGranted
CHECK_DEADLOCK FALSE
