---- MODULE D_ConvEnv ----
(* Shared by D_UpConverter / D_DownConverter: the abstract ideal native memory standing where crossbar + controller
   would be (the TLA+ twin of harness/idealmem.py, pulse semantics of the real crossbar):
     * a command is accepted when cmd.valid & cmd.ready; its latency lat >= Lmin is chosen at that moment;
     * completions strictly in command order; wdata.ready is a ONE-cycle pulse exactly when the write completes,
       whether or not data is offered (not offered => the beat is lost); rdata.valid is a ONE-cycle pulse whether or
       not the converter is ready; a read samples the memory when its pulse is scheduled, never in a cycle in which a
       write pulse is scheduled before it;
   A word is a function chunk -> value (values are symbolic write identifiers, 0 = initial contents). *)
EXTENDS Integers, Sequences, FiniteSets

NoPulseW == [v |-> FALSE, a |-> 0]
NoPulseR(K) == [v |-> FALSE, a |-> 0, w |-> [k \in 0..K-1 |-> 0]]
InitMS(NA, K) == [mem |-> [a \in 0..NA-1 |-> [k \in 0..K-1 |-> 0]], mq |-> <<>>, pw |-> NoPulseW, pr |-> NoPulseR(K)]
WriteWord(old, parts) == [k \in DOMAIN old |-> IF parts[k].m = 1 THEN parts[k].d ELSE old[k]]

(* One clock edge.  ms = state during the cycle that ends (ms.pw / ms.pr = pulses visible in that cycle);
   acc = [v, we, a, lat] command accepted in that cycle; wvalid/wparts = what the converter offers on wdata. *)
MemEdge(ms, K, acc, wvalid, wparts) ==
  LET mem1 == IF ms.pw.v /\ wvalid THEN [ms.mem EXCEPT ![ms.pw.a] = WriteWord(@, wparts)] ELSE ms.mem
      q0 == [i \in 1..Len(ms.mq) |-> [ms.mq[i] EXCEPT !.rem = IF @ > 0 THEN @ - 1 ELSE 0]]
      q1 == IF acc.v THEN Append(q0, [we |-> acc.we, a |-> acc.a, rem |-> acc.lat - 1]) ELSE q0
      Elig(q) == q # <<>> /\ Head(q).rem = 0
      h1w == Elig(q1) /\ Head(q1).we
      h1r == Elig(q1) /\ ~Head(q1).we
      q2 == IF Elig(q1) THEN Tail(q1) ELSE q1
      h2w == h1r /\ Elig(q2) /\ Head(q2).we
      q3 == IF h2w THEN Tail(q2) ELSE q2
  IN [mem |-> mem1, mq |-> q3,
      pw |-> IF h1w THEN [v |-> TRUE, a |-> Head(q1).a] ELSE IF h2w THEN [v |-> TRUE, a |-> Head(q2).a] ELSE NoPulseW,
      pr |-> IF h1r THEN [v |-> TRUE, a |-> Head(q1).a, w |-> mem1[Head(q1).a]] ELSE NoPulseR(K)]
====
