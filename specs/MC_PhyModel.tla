---- MODULE MC_PhyModel ----
(* Exhaustive check (small constants) that the design model of SDRAMPHYModel agrees with the reference DRAM on EVERY legal
   trace: environment = the legal-trace generator G_DramData (all choices of commands, banks, rows, columns, auto-precharge,
   mask kinds, phase placement do not matter here since the model is phase-agnostic), observer = R_DramData!DStep.
   Write data of the write issued in cycle t is the byte pattern (7*t + j) % 251 (distinct per write and byte lane). *)
EXTENDS G_DramData, D_PhyModel
CONSTANTS Bug, MaskCodes
Masks == {[j \in 1..NBytes |-> (k \div (2^(j - 1))) % 2] : k \in MaskCodes}
VARIABLES s, dm, t, wq, bad, env
vars == <<s, dm, t, wq, bad, env>>
MC == GC @@ [bug |-> Bug]

Init == s = InitDD(MC) /\ dm = PInit(MC) /\ t = 0 /\ wq = <<>> /\ bad = {} /\ env = {}

RECURSIVE Feed(_, _)        \* run a sequence of events through the monitor, accumulating diagnostics
Feed(acc, evs) == IF evs = <<>> THEN acc
                  ELSE LET r == DStep(MC, acc.s, Head(evs)) IN
                       Feed([s |-> r.s, bad |-> acc.bad \cup r.bad, env |-> acc.env \cup r.env], Tail(evs))
DataOf(tw) == [j \in 1..NBytes |-> (7 * tw + j) % 251]

Next ==
  /\ t < MaxT
  /\ \E A \in ActChoices(s, t), P \in PreChoices(s, t), C \in CasChoices(s, t), m \in Masks :
       /\ Legal(s, t, A, P, C)
       /\ LET wq1 == IF C # None /\ C.c = "WR" THEN Append(wq, [due |-> t + Wl, d |-> DataOf(t), m |-> m]) ELSE wq
              dueNow == wq1 # <<>> /\ Head(wq1).due = t
              wd == IF dueNow THEN Head(wq1).d ELSE [j \in 1..NBytes |-> 255]
              wm == IF dueNow THEN Head(wq1).m ELSE [j \in 1..NBytes |-> 0]
              in == [acts |-> IF A = None THEN <<>> ELSE <<A>>, pres |-> IF P = None THEN <<>> ELSE <<P>>,
                     wrs |-> IF C # None /\ C.c = "WR" THEN <<C>> ELSE <<>>, rds |-> IF C # None /\ C.c = "RD" THEN <<C>> ELSE <<>>,
                     wd |-> wd, wm |-> wm]
              o == POut(MC, dm)
              cmds == (IF A = None THEN <<>> ELSE <<A @@ [t |-> t, ph |-> 0]>>) \o (IF P = None THEN <<>> ELSE <<P @@ [t |-> t, ph |-> 0]>>)
                      \o (IF C = None THEN <<>> ELSE <<C @@ [t |-> t, ph |-> 0]>>)
              evs == cmds \o (IF dueNow THEN <<[c |-> "WRD", t |-> t, d |-> wd, m |-> wm]>> ELSE <<>>)
                          \o (IF o.v = 1 THEN <<[c |-> "RDD", t |-> t, v |-> <<1>>, d |-> o.d]>> ELSE <<>>)
              r == Feed([s |-> s, bad |-> {}, env |-> {}], evs)
          IN /\ s' = r.s /\ bad' = {x[1] : x \in r.bad} /\ env' = {x[1] : x \in r.env}
             /\ dm' = PTick(MC, dm, in)
             /\ wq' = IF dueNow THEN Tail(wq1) ELSE wq1
  /\ t' = t + 1
Spec == Init /\ [][Next]_vars

\* the generator keeps its own promises (otherwise the exhaustive result would be vacuous or the envelope wrong)
EnvOk == env = {}
ReadsAgree == bad = {}
\* contents: whenever no write data is in flight, every word either side has written agrees
MemAgree == wq # <<>> \/ s.pw # <<>> \/
            /\ \A loc \in DOMAIN s.mem : PMemGet(MC, dm, loc[1], loc[2] * Wpr(MC) + loc[3]) = s.mem[loc]
            /\ \A k \in DOMAIN dm.mem : dm.mem[k] = MemGet(MC, s, <<k[1], k[2] \div Wpr(MC), k[2] % Wpr(MC)>>)
\* vacuity guards (negated as invariants in a separate config: TLC must reach them)
CoverRead == ~(\E x \in bad : FALSE) /\ s.nRd < 2
====
