---- MODULE D_MultiplexerR ----
(* D_Multiplexer extended with the REFRESH path (go_to_refresh = AND of the bank machines' grants, REFRESH state that hands
   the command bus to the refresher until cmd.last).
   Design model of litedram.core.multiplexer.Multiplexer (without the data path): the two
   _CommandChooser round-robin arbiters, the tRRD / tFAW / tCCD / tWTR gates, the read/write anti-starvation counters,
   the direction FSM READ / RTW.. / WRITE / WTR and the _Steerer's registered per-phase outputs.  One action per clock edge.
   Input per cycle: what every bank machine presents on its cmd endpoint (kind "NONE" = not valid). *)
EXTENDS Naturals, Sequences, FiniteSets, TLC
CONSTANTS NB,                    \* bank machines
          Nph, RdPhase, WrPhase, \* phases, read / write command phases (data phases); cmd phases are (x-1) % Nph
          tRRD, tFAW, tCCD, tWTRc, \* controller cycle counts; 0 = None.  tWTRc is the full twtrcon load (tWTR+write_latency+tCCD)
          ReadLatency,           \* RTW takes ReadLatency-1 cycles
          ReadTime, WriteTime,   \* anti-starvation time-outs (0 = disabled)
          WtrNeedsRead           \* FALSE = the code; TRUE = negative control: WTR is only left while a read is still pending
VARIABLES gC, gR,                \* grants of choose_cmd / choose_req
          rrdR, rrdC, fawW, fawR, ccdR, ccdC, wtrR, wtrC,
          rtime, wtime, fsm, dly,
          dfi,                   \* registered steerer outputs: sequence (one per phase) of [kind, bm]
          req,                   \* input: [0..NB-1 -> kind]
          rin                    \* input from refresher and bank machines: [valid, last, kind (registered refresher command), gnt (AND of grants)]
regs == <<gC, gR, rrdR, rrdC, fawW, fawR, ccdR, ccdC, wtrR, wtrC, rtime, wtime, fsm, dly, dfi>>
vars == <<regs, req, rin>>
BMs == 0..NB-1
Kinds == {"NONE", "RD", "WR", "ACT", "PRE"}
RdCmdPhase == (RdPhase + Nph - 1) % Nph
WrCmdPhase == (WrPhase + Nph - 1) % Nph

isRead(k) == k = "RD"
isWrite(k) == k = "WR"
isCmd(k) == k \in {"ACT", "PRE"}
rasAllowed == rrdR /\ fawR
casAllowed == ccdR
goToRefresh == rin.gnt
refReady == fsm = "REFRESH"                 \* refresher.cmd.ready
inRead == fsm = "READ"
inWrite == fsm = "WRITE"
\* chooser validity vectors (see _CommandChooser: command | (read & write))
vCmd(i) == IF Nph = 1 THEN FALSE ELSE req[i] # "NONE" /\ ~isRead(req[i]) /\ ~isWrite(req[i])     \* want_* all 0: neither read nor write
vReq(i) == /\ req[i] # "NONE"
           /\ \/ (Nph = 1 /\ isCmd(req[i]) /\ (req[i] # "ACT" \/ rasAllowed))                    \* want_cmds = 1, want_activates = ras_allowed
              \/ (isRead(req[i]) = inRead /\ isWrite(req[i]) = inWrite)
cmdValid == vCmd(gC)
reqValid == vReq(gR)
cmdKind == IF cmdValid THEN req[gC] ELSE "NONE"
reqKind == IF reqValid THEN req[gR] ELSE "NONE"
cmdReady == (inRead \/ inWrite) /\ Nph > 1 /\ (cmdKind # "ACT" \/ rasAllowed)
reqReady == (inRead \/ inWrite) /\ IF Nph = 1 THEN casAllowed /\ (reqKind # "ACT" \/ rasAllowed) ELSE casAllowed
cmdAccept == cmdValid /\ cmdReady
reqAccept == reqValid /\ reqReady
\* which bank machine sees ready this cycle
accepted(i) == (cmdAccept /\ gC = i) \/ (reqAccept /\ gR = i)
\* "choose_cmd" is choose_req when Nph = 1
actAccept == IF Nph = 1 THEN reqAccept /\ reqKind = "ACT" ELSE cmdAccept /\ cmdKind = "ACT"
casAccept == reqAccept /\ reqKind \in {"RD", "WR"}
wrAccept == reqAccept /\ reqKind = "WR"
readAvail == \E i \in BMs : isRead(req[i])
writeAvail == \E i \in BMs : isWrite(req[i])
maxRead == ReadTime > 0 /\ rtime = 0
maxWrite == WriteTime > 0 /\ wtime = 0

RECURSIVE NextFrom(_, _, _)
NextFrom(V(_), g, k) == IF k = NB THEN g ELSE LET t == (g + k) % NB IN IF V(t) THEN t ELSE NextFrom(V, g, k + 1)

P2(n) == IF n = 0 THEN 1 ELSE IF n = 1 THEN 2 ELSE IF n = 2 THEN 4 ELSE IF n = 3 THEN 8 ELSE IF n = 4 THEN 16 ELSE 32
Bits(t) == IF t <= 2 THEN 1 ELSE IF t <= 4 THEN 2 ELSE IF t <= 8 THEN 3 ELSE IF t <= 16 THEN 4 ELSE 5
TxxdNext(valid, txxd, r, c) ==
    IF txxd = 0 THEN <<TRUE, 0>>
    ELSE IF valid THEN <<(txxd - 1 = 0), txxd - 1>>
    ELSE IF ~r THEN <<(IF c = 1 THEN TRUE ELSE r), (c + P2(Bits(txxd)) - 1) % P2(Bits(txxd))>>
    ELSE <<r, c>>
\* tFAWController: window = last tFAW valid bits (newest first); count over the current window
Count(w) == Cardinality({i \in 1..Len(w) : w[i]})
FawNext == IF tFAW = 0 THEN <<fawW, TRUE>>
           ELSE <<(<<actAccept>> \o SubSeq(fawW, 1, tFAW - 1)),
                  (IF Count(fawW) < 4 THEN (IF Count(fawW) = 3 THEN ~actAccept ELSE TRUE) ELSE fawR)>>

\* steerer selection per phase in READ / WRITE (later assignments win, as in the code)
Sel(p) == IF inRead THEN (IF p = RdCmdPhase THEN "CMD" ELSE IF p = RdPhase THEN "REQ" ELSE "NOP")
          ELSE IF inWrite THEN (IF p = WrCmdPhase THEN "CMD" ELSE IF p = WrPhase THEN "REQ" ELSE "NOP")
          ELSE IF fsm = "REFRESH" /\ p = 0 THEN "REF"
          ELSE "NOP"
Steer(p) == LET s == Sel(p) IN
            IF s = "CMD" THEN (IF Nph = 1 THEN (IF reqAccept THEN [kind |-> reqKind, bm |-> gR] ELSE [kind |-> "NONE", bm |-> 0])
                               ELSE IF cmdAccept THEN [kind |-> cmdKind, bm |-> gC] ELSE [kind |-> "NONE", bm |-> 0])
            ELSE IF s = "REQ" THEN (IF reqAccept THEN [kind |-> reqKind, bm |-> gR] ELSE [kind |-> "NONE", bm |-> 0])
            ELSE IF s = "REF" THEN (IF rin.valid /\ rin.kind # "NOP" THEN [kind |-> rin.kind, bm |-> 0] ELSE [kind |-> "NONE", bm |-> 0])   \* valid & ready(=1 in REFRESH)
            ELSE [kind |-> "NONE", bm |-> 0]

FsmNext ==
  CASE fsm = "READ" /\ goToRefresh -> <<"REFRESH", 0>>
    [] fsm = "WRITE" /\ goToRefresh -> <<"REFRESH", 0>>
    [] fsm = "REFRESH" -> IF rin.last THEN <<"READ", 0>> ELSE <<"REFRESH", 0>>
    [] fsm = "READ" -> IF writeAvail /\ (~readAvail \/ maxRead) THEN (IF ReadLatency - 1 > 0 THEN <<"RTW", ReadLatency - 1>> ELSE <<"WRITE", 0>>) ELSE <<"READ", 0>>
    [] fsm = "WRITE" -> IF readAvail /\ (~writeAvail \/ maxWrite) THEN <<"WTR", 0>> ELSE <<"WRITE", 0>>
    [] fsm = "WTR" -> IF wtrR /\ (readAvail \/ ~WtrNeedsRead) THEN <<"READ", 0>> ELSE <<"WTR", 0>>
    [] fsm = "RTW" -> IF dly = 1 THEN <<"WRITE", 0>> ELSE <<"RTW", dly - 1>>

Tick ==
  /\ gC' = IF Nph > 1 /\ (cmdReady \/ ~cmdValid) THEN NextFrom(vCmd, gC, 1) ELSE gC
  /\ gR' = IF reqReady \/ ~reqValid THEN NextFrom(vReq, gR, 1) ELSE gR
  /\ LET n == TxxdNext(actAccept, tRRD, rrdR, rrdC) IN rrdR' = n[1] /\ rrdC' = n[2]
  /\ fawW' = FawNext[1] /\ fawR' = FawNext[2]
  /\ LET n == TxxdNext(casAccept, tCCD, ccdR, ccdC) IN ccdR' = n[1] /\ ccdC' = n[2]
  /\ LET n == TxxdNext(wrAccept, tWTRc, wtrR, wtrC) IN wtrR' = n[1] /\ wtrC' = n[2]
  /\ rtime' = IF ReadTime = 0 THEN 0 ELSE IF ~inRead THEN ReadTime - 1 ELSE IF rtime # 0 THEN rtime - 1 ELSE rtime
  /\ wtime' = IF WriteTime = 0 THEN 0 ELSE IF ~inWrite THEN WriteTime - 1 ELSE IF wtime # 0 THEN wtime - 1 ELSE wtime
  /\ fsm' = FsmNext[1] /\ dly' = FsmNext[2]
  /\ dfi' = [p \in 1..Nph |-> Steer(p - 1)]

Init == /\ gC = 0 /\ gR = 0 /\ rrdR = (tRRD = 0) /\ rrdC = 0 /\ fawW = [i \in 1..tFAW |-> FALSE] /\ fawR = TRUE
        /\ ccdR = (tCCD = 0) /\ ccdC = 0 /\ wtrR = (tWTRc = 0) /\ wtrC = 0
        /\ rtime = 0 /\ wtime = 0 /\ fsm = "READ" /\ dly = 0
        /\ dfi = [p \in 1..Nph |-> [kind |-> "NONE", bm |-> 0]]
====
