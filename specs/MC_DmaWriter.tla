---- MODULE MC_DmaWriter ----
EXTENDS D_DmaWriter
====
