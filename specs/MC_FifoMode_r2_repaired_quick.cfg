\* generated from harness/props/streamgen.py (the check passes the same text to TLC)
SPECIFICATION Spec
CONSTANTS
 R = 2
 PreDepth = 4
 PostDepth = 2
 DCap = 1
 Fix = TRUE
 Bug = "none"
INVARIANT Holds
INVARIANT TypeOK
VIEW View
CHECK_DEADLOCK TRUE
