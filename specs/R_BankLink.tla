---- MODULE R_BankLink ----
(* Requirement (C02 "only reads or writes a bank whose open row is the row the request addressed", C06 "the row
   opened by the activate is the row part of the address"): links every accepted port command to the DRAM commands
   that serve it.  Per (rank, bank) the accepted commands form a FIFO (per-bank order is what the core guarantees);
   the RD/WR that serves the head must carry the head's direction and column, go to the head's rank/bank while the
   device's open row is the head's row; an ACT must open the row of the oldest unserved request of that bank.
   The address map is R_AddrMap!Decode -- written from the property, not taken from the code. *)
EXTENDS Integers, Sequences, FiniteSets, R_AddrMap
InitLink(nrb) == [q |-> [x \in 0..nrb - 1 |-> <<>>]]

\* ACC: port command accepted: [c |-> "ACC", p, we, a]
LinkAcc(g, nbanks, s, e) ==
  LET d == Decode(g, e.a)  x == d.rank * nbanks + d.bank
  IN [s EXCEPT !.q[x] = Append(s.q[x], [we |-> e.we, row |-> d.row, col |-> d.col, p |-> e.p, a |-> e.a])]

\* returns [s, bad]; openrow = the device's open row of the addressed bank BEFORE this command
LinkCmd(nbanks, s, e, x, openrow) ==
  CASE e.c \in {"RD", "WR"} ->
        IF s.q[x] = <<>> THEN [s |-> s, bad |-> {<<"RD/WR without a pending request", e.c, x, e.a, 0>>}]
        ELSE LET h == Head(s.q[x]) IN
             [s |-> [s EXCEPT !.q[x] = Tail(s.q[x])],
              bad |-> (IF h.we # (e.c = "WR") THEN {<<"RD/WR direction differs from the request", e.c, x, h.a, 0>>} ELSE {})
                      \cup (IF h.col # e.a THEN {<<"column differs from the request's column", e.c, x, h.a, e.a, h.col>>} ELSE {})
                      \cup (IF openrow # h.row THEN {<<"open row is not the row the request addressed", e.c, x, h.a, openrow, h.row>>} ELSE {})]
    [] e.c = "ACT" ->
        IF s.q[x] = <<>> THEN [s |-> s, bad |-> {<<"ACT without a pending request", e.c, x, e.a, 0>>}]
        ELSE [s |-> s, bad |-> IF Head(s.q[x]).row # e.a
                               THEN {<<"ACT row is not the row of the oldest pending request", e.c, x, Head(s.q[x]).a, e.a, Head(s.q[x]).row>>} ELSE {}]
    [] OTHER -> [s |-> s, bad |-> {}]

LinkEnd(s) == {<<"request never served", "END", x, Head(s.q[x]).a, Len(s.q[x])>> : x \in {y \in DOMAIN s.q : s.q[y] # <<>>}}
====
