SPECIFICATION Spec
VIEW View
CONSTANTS
  R = 2
  NA = 2
  MaxCmds = 3
  Lmin = 3
  Lmax = 3
  Bug = "muxstuck"
  Wes = {TRUE, FALSE}
  Masks = {3, 1, 2}
  Stall = FALSE
INVARIANTS ReqOK FinalOK TypeOK
CHECK_DEADLOCK FALSE
