SPECIFICATION FairSpec
CONSTANTS M = 2
 B = 2
 Depth = 2
 Hidden = 0
 MaxCmd = 1
 Unbounded = TRUE
PROPERTY NoDeadlockProgress
CHECK_DEADLOCK FALSE
