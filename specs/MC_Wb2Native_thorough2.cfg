SPECIFICATION Spec
CONSTANTS
  PATH = "narrow"
  R = 2
  NW = 2
  SELS = {1}
  HOLD = TRUE
  VALS = 2
  COVER = FALSE
  LMIN = 1
  LMAX = 2
  STALL = 1
  WMAX = 14
  BUG = "none"
INVARIANTS NoClauseBroken MemAllowed AckWithinBound OneOutstanding
CHECK_DEADLOCK TRUE
