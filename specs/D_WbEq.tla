---- MODULE D_WbEq ----
(* Design model of the EQUAL-width path of LiteDRAMWishbone2Native (frontend/wishbone.py, __init__ after the converter):
   CMD / WRITE / READ FSM with the aborted flag; port.cmd driven straight from the bus; port.wdata.valid = stb & we,
   gated to the WRITE state; ack = cyc & ~aborted when the data handshake happens.  One-byte words, base address 0.
   Inputs / outputs as in D_Wb2Native with R = 1 (wd, ww, rdata are 1-lane sequences).
   VAR = "code": the code as read.  VAR = "abortfix": the proposed repair -- while the bridge sits in WRITE and the master
   has dropped the cycle (or a newer access is waiting behind an aborted one) the write data is still offered, with all
   byte enables off, so the native port's single wdata.ready strobe is not missed.  Other values seed defects. *)
EXTENDS Integers, Sequences, FiniteSets

EInit == [fsm |-> "CMD", aborted |-> 0]
EZ == [ack |-> 0, dat_r |-> 0, cv |-> 0, cwe |-> 0, ca |-> 0, clast |-> 0, wv |-> 0, wd |-> <<0>>, ww |-> <<0>>, rr |-> 1]
EWrAbort(r, i, VAR) == VAR = "abortfix" /\ r.fsm = "WRITE" /\ (i.cyc = 0 \/ r.aborted = 1)
EWv(r, i, VAR) == IF r.fsm = "WRITE" /\ ((i.stb = 1 /\ i.we = 1) \/ EWrAbort(r, i, VAR)) THEN 1 ELSE 0
EAckOk(r, i, VAR) == IF i.cyc = 1 /\ (r.aborted = 0 \/ VAR = "ignore_aborted") THEN 1 ELSE 0

EComb(r, i, VAR) ==
  LET z == [EZ EXCEPT !.ca = i.a, !.cwe = i.we, !.clast = 1 - i.we, !.wd = <<i.d>>,
                      !.ww = <<IF EWrAbort(r, i, VAR) THEN 0 ELSE i.sel>>, !.wv = EWv(r, i, VAR)] IN
  CASE r.fsm = "CMD" -> [z EXCEPT !.cv = IF i.cyc = 1 /\ i.stb = 1 THEN 1 ELSE 0]
    [] r.fsm = "WRITE" -> IF EWv(r, i, VAR) = 1 /\ i.wdata_ready = 1 THEN [z EXCEPT !.ack = EAckOk(r, i, VAR)] ELSE z
    [] r.fsm = "READ" -> IF i.rdata_valid = 1 THEN [z EXCEPT !.ack = EAckOk(r, i, VAR), !.dat_r = i.rdata[1]] ELSE z

ENext(r, i, VAR) ==
  CASE r.fsm = "CMD" ->
         IF i.cyc = 1 /\ i.stb = 1 /\ i.cmd_ready = 1
         THEN [fsm |-> IF i.we = 1 THEN "WRITE" ELSE "READ", aborted |-> 0]
         ELSE [r EXCEPT !.aborted = 0]
    [] r.fsm = "WRITE" ->
         LET ab == IF i.cyc = 0 \/ r.aborted = 1 THEN 1 ELSE 0 IN
         IF EWv(r, i, VAR) = 1 /\ i.wdata_ready = 1 THEN [fsm |-> "CMD", aborted |-> ab] ELSE [r EXCEPT !.aborted = ab]
    [] r.fsm = "READ" ->
         LET ab == IF i.cyc = 0 \/ r.aborted = 1 THEN 1 ELSE 0 IN
         IF i.rdata_valid = 1 THEN [fsm |-> "CMD", aborted |-> ab] ELSE [r EXCEPT !.aborted = ab]
====
