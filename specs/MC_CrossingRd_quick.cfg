SPECIFICATION Spec
CONSTANTS CmdDepth = 2
 RdDepth = 4
 M = 2
 Bound = 4
INVARIANT NoOverflow
INVARIANT OccBound
INVARIANT OutBound
