---- MODULE MC_Bist ----
EXTENDS D_Bist
====
