---- MODULE MC_FifoCtrl ----
EXTENDS D_FifoCtrl
====
