---- MODULE T_DfiMux ----
(* Trace validation of the real DFIInjector against R_DfiMux: one line per clock cycle (see R_DfiMux for the fields);
   line 1 = cfg [nphases, nranks, mranks (PHY-side ranks), clam]; [c |-> "NEW", ...cfg] starts a new execution. *)
EXTENDS TraceLib, R_DfiMux
Cfg0 == Trace[1]
VARIABLES l, cfg, ms, bad, cnt
vars == <<l, cfg, ms, bad, cnt>>
TInit == l = 2 /\ cfg = Cfg0 /\ ms = InitMux /\ bad = {} /\ cnt = [HW |-> 0, EXT |-> 0, SW |-> 0]
TNext == /\ l <= NLines
         /\ l' = l + 1
         /\ LET e == Trace[l] IN
            IF "c" \in DOMAIN e /\ e.c = "NEW" THEN cfg' = e /\ ms' = InitMux /\ bad' = bad /\ cnt' = cnt
            ELSE LET r == MuxStep(cfg, ms, e) IN
                 /\ cfg' = cfg /\ ms' = r.s
                 /\ cnt' = [cnt EXCEPT ![r.mode] = @ + 1]
                 /\ bad' = IF Cardinality(bad) > 60 THEN bad ELSE bad \cup {<<l, cfg.tid>> \o x : x \in r.bad}
TSpec == TInit /\ [][TNext]_vars
AtEnd == (l = NLines + 1) => WriteVerdict(l - 1, bad, [lines |-> NLines, modes |-> cnt])
====
