SPECIFICATION MSpec
CONSTANTS tREFI = 100
 N = 2
 tRP = 2
 tRFC = 3
 WithZq = TRUE
 tZQCS = 2
 ZqPeriod = 331
 DMax = 6
 ZqLatch = TRUE
 TimerCycles = 100
INVARIANT Legal
VIEW View
CHECK_DEADLOCK FALSE
