SPECIFICATION MSpec
CONSTANTS NB = 2
 Nph = 2
 RdPhase = 0
 WrPhase = 1
 tRRD = 2
 tFAW = 0
 tCCD = 1
 tWTRc = 2
 ReadLatency = 3
 ReadTime = 3
 WriteTime = 2
 WL = 1
 BLCK = 2
 tWTRdev = 2
INVARIANT Legal
VIEW View
CHECK_DEADLOCK FALSE
