SPECIFICATION Spec
VIEW View
CONSTANTS
  R = 2
  NW = 2
  MaxCmds = 3
  Lmin = 8
  Lmax = 8
  Fix = FALSE
  Orders = "asc"
  Bug = "none"
  Wes = {TRUE}
  Masks = {1}
  Flush = TRUE
  Stall = FALSE
INVARIANTS CoverTwoWrites
CHECK_DEADLOCK FALSE
