---- MODULE T_LpddrCa ----
(* Trace validation for C20: per-controller-cycle records of the REAL LPDDR4PHY / LPDDR5PHY base class
   (DFI phase commands + unserialised pad words out.cs / out.ca), judged by R_CaStream with the JEDEC decoders.
   Additionally (binding B2, never a verdict) the design model D_CmdPipeline is stepped with the same inputs and its predicted
   CS word is compared with the real one: info.drift counts the cycles that differ. *)
EXTENDS TraceLib, R_CaStream, D_CmdPipeline

Cfg == Trace[1]
VARIABLES l, m, dm, drift, bad
vars == <<l, m, dm, drift, bad>>

TInit == l = 2 /\ m = InitCaMon(Cfg) /\ dm = DInit(Cfg.nph) /\ drift = 0 /\ bad = {}

KindOf(d) == IF ~CaPresented(Cfg, d) THEN 0 ELSE IF d.k \in {3, 6} \/ (d.k = 1 /\ d.b = 0) THEN 1 ELSE 2
TNext ==
  /\ l <= NLines
  /\ l' = l + 1
  /\ LET e == Trace[l] IN
     IF e.c = "CYC"
     THEN LET r == CaCycle(Cfg, m, e)
              in == [p \in 0..Cfg.nph - 1 |-> LET S == {i \in 1..Len(e.d) : e.d[i].p = p} IN
                                              IF S = {} THEN 0 ELSE KindOf(e.d[CHOOSE i \in S : TRUE])]
              useD == Cfg.kind = "lpddr4" /\ Cfg.dmode # "none"
              dn == IF useD THEN DTick(Cfg.nph, Cfg.span, Cfg.dmode, dm, in) ELSE dm
          IN /\ m' = r.m
             /\ bad' = bad \cup {<<l>> \o x : x \in r.bad}
             /\ dm' = dn
             /\ drift' = IF useD /\ DOutCs(Cfg.nph, dm) # e.cs THEN drift + 1 ELSE drift
     ELSE /\ m' = m /\ dm' = dm /\ drift' = drift
          /\ bad' = bad \cup {<<l>> \o x : x \in CaEnd(Cfg, m)}

TSpec == TInit /\ [][TNext]_vars
AtEnd == (l = NLines + 1) => WriteVerdict(l - 1, bad, [nEmit |-> m.st.nEmit, nSupp |-> m.st.nSupp, nMiss |-> m.st.nMiss,
                                                      cycles |-> m.n, drift |-> drift])
====
