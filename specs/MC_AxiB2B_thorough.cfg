INIT Init
NEXT Next
CONSTANTS Nb = 8
 MaxAddr = 135
 MaxIncrLen = 33
INVARIANT Thm
CHECK_DEADLOCK FALSE
