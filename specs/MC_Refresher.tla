---- MODULE MC_Refresher ----
(* D_Refresher composed with an environment shaped like the multiplexer (grants the bus a nondeterministic, bounded
   number of cycles after cmd.valid; keeps cmd.ready while in its REFRESH state; leaves on cmd.last) and with the
   requirement specs as observers: R_Refresh (k-th REF no later than (k+N)*tREFI + L) and R_DramDevice (PREA -> tRP -> REF,
   tRFC / tZQCS before anything else; the environment plays a bank machine that activates a row whenever the bus is its own
   and its own rules tRP/tRC allow, without knowing tRFC/tZQCS -- those are the refresher's to guarantee). *)
EXTENDS D_Refresher, Integers, FiniteSets, Sequences
CONSTANTS DMax          \* worst grant delay of the bank machines (cycles)
Dev == INSTANCE R_DramDevice
Ref == INSTANCE R_Refresh
VARIABLES mux, waited, dev, rs, now, bad
mvars == <<vars, mux, waited, dev, rs, now, bad>>
E(ck) == [ck |-> ck, ps |-> 0]
\* 1 GHz clock: 1 tCK = 1000 ps, so the datasheet tREFI below is exactly tREFI cycles
DCfg == [nranks |-> 1, nbanks |-> 1, nphases |-> 1, rdphase |-> 0, wrphase |-> 0, wl |-> 0, blck |-> 0, fkhz |-> 1000000,
         postponing |-> N, refresh |-> TRUE, zq_period |-> IF WithZq THEN ZqPeriod ELSE 0,
         ds |-> [tRCD |-> E(1), tRP |-> E(tRP), tRAS |-> E(1), tRRD |-> E(0), tFAW |-> E(0), tCCD |-> E(0), tWR |-> E(0), tWTR |-> E(0),
                 tRFC |-> E(tRFC), tZQCS |-> E(IF WithZq THEN tZQCS ELSE 0), tREFI |-> [ck |-> 0, ps |-> tREFI * 1000]]]
Rq == Dev!Req(DCfg)
Ev(c) == [c |-> c, t |-> now, ph |-> 0, ranks |-> <<0>>, b |-> 0, a |-> 0, ap |-> c = "PREA", rden |-> FALSE, wren |-> FALSE]

\* the registered command is on the bus while the multiplexer steers the refresher (REFRESH state) and cmd.valid & ready
busCmd == IF mux = "REFRESH" /\ cmd # "NOP" THEN <<Ev(cmd)>> ELSE <<>>
\* the environment's bank machine: activates when the bus is its own, the bank is idle and tRP has elapsed
envAct == mux = "NORMAL" /\ ~cmdValid /\ dev.open[0] = Dev!NoRow /\ now - dev.tPre[0] >= tRP

MInit == Init /\ InitReady /\ mux = "NORMAL" /\ waited = 0 /\ dev = Dev!InitDev(DCfg) /\ rs = Ref!InitRef /\ now = 0 /\ bad = {}
MNext ==
  /\ Tick
  /\ now' = now + 1
  /\ \E grant \in BOOLEAN, act \in BOOLEAN :
       /\ mux' = IF mux = "NORMAL" THEN (IF cmdValid /\ (grant \/ waited >= DMax) THEN "REFRESH" ELSE "NORMAL")
                 ELSE (IF cmdLast THEN "NORMAL" ELSE "REFRESH")
       /\ waited' = IF mux = "NORMAL" /\ cmdValid THEN waited + 1 ELSE 0
       /\ ready' = (mux' = "REFRESH")
       /\ LET evs == busCmd \o (IF act /\ envAct /\ busCmd = <<>> THEN <<Ev("ACT")>> ELSE <<>>)
              e == IF evs = <<>> THEN [c |-> "NONE", t |-> now] ELSE evs[1]
              db == IF evs = <<>> THEN {} ELSE Dev!Check(DCfg, Rq, dev, e)
              rr == Ref!RefStep(DCfg, Rq, rs, e)
              \* a refresh that is overdue right now (even though not yet issued) is a violation too
              over == (IF now > Ref!DueRef(DCfg, Rq, rs.nref + 1) THEN {<<"refresh overdue">>} ELSE {})
                      \cup (IF WithZq /\ now > Ref!DueZq(DCfg, Rq, rs.tzq) THEN {<<"ZQCS overdue">>} ELSE {})
          IN /\ dev' = IF evs = <<>> THEN dev ELSE Dev!Apply(DCfg, Rq, dev, e)
             /\ rs' = rr.s
             /\ bad' = bad \cup {<<x[1], x[2]>> : x \in db} \cup {<<x[1]>> : x \in rr.bad} \cup over
MSpec == MInit /\ [][MNext]_mvars

Sat == 40
Age(t) == IF now - t > Sat THEN Sat ELSE now - t
SlackCap == (N + 2) * tREFI + Ref!LService(DCfg, Rq)       \* above anything a refresher keeping the rate can reach
Slack == LET s == Ref!DueRef(DCfg, Rq, rs.nref + 1) - now IN IF s > SlackCap THEN SlackCap ELSE s
ZSlackCap == 3 * ZqPeriod + N * tREFI + Ref!LService(DCfg, Rq)
ZSlack == IF WithZq THEN (LET s == Ref!DueZq(DCfg, Rq, rs.tzq) - now IN IF s > ZSlackCap THEN ZSlackCap ELSE s) ELSE 0
View == <<regs, ready, mux, waited, bad, dev.open, Age(dev.tAct[0]), Age(dev.tPre[0]), Age(dev.tRef[0]), Age(dev.tZq[0]), Slack, ZSlack>>
Legal == bad = {}
\* cover goals (checked negated in the *_cover configs: TLC must find each of them reachable)
CoverZq == ~(cmd = "ZQCS" /\ mux = "REFRESH")
CoverBurst == ~(fsm = "DOREF" /\ scount = 0 /\ N > 1 /\ cmd = "REF")
CoverLateGrant == ~(fsm = "WAIT" /\ waited = DMax)
OwedBound == Slack >= 0
====
