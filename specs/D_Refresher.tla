---- MODULE D_Refresher ----
(* Design model of litedram.core.refresher.Refresher: one action per clock edge.  Registers follow the code:
   RefreshTimer (count), RefreshPostponer (count, req_o), RefreshSequencer (count), RefreshExecuter (timeline counter,
   done, registered command), optional ZQCS timer / executer / pending latch, FSM IDLE / WAIT-BANK-MACHINES /
   DO-REFRESH / DO-ZQCS.  Input: cmd.ready (driven by the multiplexer's REFRESH state). *)
EXTENDS Naturals, TLC
CONSTANTS tREFI, N, tRP, tRFC,       \* sys cycles; N = postponing
          WithZq, tZQCS, ZqPeriod,    \* ZQCS option
          ZqLatch,                    \* TRUE = the code (request remembered until started); FALSE = negative control (one-cycle pulse)
          TimerCycles                 \* period of the refresh timer in cycles (= tREFI in the code)
VARIABLES tcount, pcount, preq, scount, ecnt, edone, zcount, zcnt, zdone, zpend, fsm, cmd, ready
regs == <<tcount, pcount, preq, scount, ecnt, edone, zcount, zcnt, zdone, zpend, fsm, cmd>>
vars == <<regs, ready>>

\* ---- combinational ----
timerDone == tcount = 0
wantsRefresh == preq
zqTimerDone == WithZq /\ zcount = 0
wantsZq == WithZq /\ (zqTimerDone \/ (ZqLatch /\ zpend))
cmdValid == fsm \in {"WAIT", "DOREF", "DOZQ"} /\ ~((fsm = "DOREF" /\ edone /\ scount = 0 /\ ~wantsZq) \/ (fsm = "DOZQ" /\ zdone))
seqDone == edone /\ scount = 0
cmdLast == (fsm = "DOREF" /\ seqDone /\ ~wantsZq) \/ (fsm = "DOZQ" /\ zdone)
seqStart == fsm = "WAIT" /\ ready
exeStart == seqStart \/ scount # 0
zqStart == fsm = "DOREF" /\ seqDone /\ wantsZq

\* litex.gen.genlib.misc.timeline counter
TlNext(cnt, trigger, last) == IF cnt = last THEN 0 ELSE IF cnt # 0 THEN cnt + 1 ELSE IF trigger THEN 1 ELSE 0
ELast == tRP + tRFC
ZLast == tRP + tZQCS

Tick ==
  /\ tcount' = IF ~timerDone THEN tcount - 1 ELSE TimerCycles - 1
  /\ preq' = (timerDone /\ pcount = 0)
  /\ pcount' = IF timerDone THEN (IF pcount = 0 THEN N - 1 ELSE pcount - 1) ELSE pcount
  /\ scount' = IF seqStart THEN N - 1 ELSE IF edone /\ scount # 0 THEN scount - 1 ELSE scount
  /\ ecnt' = TlNext(ecnt, exeStart, ELast)
  /\ edone' = (ecnt = ELast)
  /\ zcount' = IF ~WithZq THEN 0 ELSE IF ~zdone /\ ~zqTimerDone THEN zcount - 1 ELSE ZqPeriod - 1
  /\ zcnt' = IF WithZq THEN TlNext(zcnt, zqStart, ZLast) ELSE 0
  /\ zdone' = (WithZq /\ zcnt = ZLast)
  /\ zpend' = IF ~WithZq THEN FALSE ELSE IF zqStart THEN FALSE ELSE IF zqTimerDone THEN TRUE ELSE zpend
  /\ cmd' = IF WithZq /\ zqStart /\ zcnt = 0 THEN "PREA"          \* later statements (ZQCS executer) override
            ELSE IF WithZq /\ zcnt = tRP THEN "ZQCS"
            ELSE IF WithZq /\ zcnt = ZLast THEN "NOP"
            ELSE IF exeStart /\ ecnt = 0 THEN "PREA"
            ELSE IF ecnt = tRP THEN "REF"
            ELSE "NOP"
  /\ fsm' = CASE fsm = "IDLE" -> IF wantsRefresh THEN "WAIT" ELSE "IDLE"
              [] fsm = "WAIT" -> IF ready THEN "DOREF" ELSE "WAIT"
              [] fsm = "DOREF" -> IF seqDone THEN (IF wantsZq THEN "DOZQ" ELSE "IDLE") ELSE "DOREF"
              [] fsm = "DOZQ" -> IF zdone THEN "IDLE" ELSE "DOZQ"

Init == /\ tcount = TimerCycles - 1 /\ pcount = N - 1 /\ preq = FALSE /\ scount = N - 1 /\ ecnt = 0 /\ edone = FALSE
        /\ zcount = (IF WithZq THEN ZqPeriod - 1 ELSE 0) /\ zcnt = 0 /\ zdone = FALSE /\ zpend = FALSE
        /\ fsm = "IDLE" /\ cmd = "NOP"
InitReady == ready = FALSE
====
