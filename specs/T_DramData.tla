---- MODULE T_DramData ----
(* Trace validation for C19: DFI command/data events driven into the REAL SDRAMPHYModel, its rddata/rddata_valid and its
   final memories, judged by the independent reference model R_DramData.  Line 1 = cfg.  Clauses the STIMULUS broke are
   reported with the prefix "HARNESS:" (the Python side turns them into a machinery failure, never a verdict). *)
EXTENDS TraceLib, R_DramData
Cfg == Trace[1]
BadCap == 3000
VARIABLES l, s, bad
vars == <<l, s, bad>>
TInit == l = 2 /\ s = InitDD(Cfg) /\ bad = {}
TNext == /\ l <= NLines
         /\ l' = l + 1
         /\ LET r == DStep(Cfg, s, Trace[l]) IN
            /\ s' = r.s
            \* Diagnostics are kept up to BadCap entries (a rejected trace stays rejected; the cap only bounds the cost of
            \* carrying tens of thousands of identical complaints, e.g. a wholly misplaced init image); harness clauses always kept.
            /\ bad' = (IF Cardinality(bad) >= BadCap THEN bad ELSE bad \cup {<<l>> \o x : x \in r.bad})
                       \cup {<<l, "HARNESS: " \o x[1]>> \o Tail(x) : x \in r.env}
TSpec == TInit /\ [][TNext]_vars
AtEnd == (l = NLines + 1) => WriteVerdict(l - 1, bad, [nAct |-> s.nAct, nPre |-> s.nPre, nRd |-> s.nRd, nWr |-> s.nWr,
                                                      written |-> Cardinality(DOMAIN s.mem)])
====
