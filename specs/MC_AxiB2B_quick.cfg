INIT Init
NEXT Next
CONSTANTS Nb = 4
 MaxAddr = 71
 MaxIncrLen = 17
INVARIANT Thm
CHECK_DEADLOCK FALSE
