---- MODULE R_DramDevice ----
(* Requirement specification on the DFI command bus (C02 bank state machine, C03 datasheet timings):
   a JEDEC-level DRAM device automaton written as a TOTAL monitor.  Every observed command is consumed; every
   clause it breaks is returned as a diagnostic <<clause, cmd, rank, bank, have, need>>.

   cfg : [nranks, nbanks (per rank), nphases, rdphase, wrphase,
          wl      write latency of the device in tCK (cwl for DDR2/3/4, 1 for DDR/LPDDR, 0 for SDR),
          blck    clocks from the first write data to the end of the burst (BL/2; 0 for SDR: last data-in edge),
          fkhz    DRAM clock in kHz (= controller clock * nphases),
          ds      datasheet entry of the selected module: name |-> [ck, ps]   (ck = 0 / ps = 0 when not declared)]
   Times are integers in tCK: t = sys_cycle * nphases + phase.

   Event: [c \in {"ACT","PRE","PREA","RD","WR","REF","ZQCS","MRS","STROBE"}, t, ph, ranks (sequence of selected ranks),
           b (bank), a (row for ACT, bus column without A10 for RD/WR), ap (A10), rden, wren]
   "STROBE" = a phase with rddata_en/wrdata_en but no RD/WR command. *)
EXTENDS Integers, Sequences, FiniteSets, TLC, BigNat

Far == 0 - 100000000
NoRow == 0 - 1
MaxI(a, b) == IF a > b THEN a ELSE b

Names == {"tRCD", "tRP", "tRAS", "tRRD", "tFAW", "tCCD", "tWR", "tWTR", "tRFC", "tZQCS"}
\* Required spacing in tCK for one datasheet entry: max(ck, ceil(ps / tCK))
ReqOf(e, fkhz) == MaxI(e.ck, CeilCycles(e.ps, fkhz))
\* Table of requirements, computed once per configuration
Req(cfg) == [n \in Names |-> ReqOf(cfg.ds[n], cfg.fkhz)] @@
            [x \in {"tRC"} |-> IF cfg.ds["tRAS"].ps = 0 /\ cfg.ds["tRAS"].ck = 0 THEN 0
                               ELSE MaxI(cfg.ds["tRAS"].ck + cfg.ds["tRP"].ck,
                                         CeilCycles(cfg.ds["tRAS"].ps + cfg.ds["tRP"].ps, cfg.fkhz))]

RB(cfg) == 0 .. cfg.nranks * cfg.nbanks - 1
Idx(cfg, rank, b) == rank * cfg.nbanks + b
BanksOf(cfg, rank) == {Idx(cfg, rank, b) : b \in 0..cfg.nbanks - 1}
Ranks(cfg) == 0 .. cfg.nranks - 1

InitDev(cfg) == [ open  |-> [x \in RB(cfg) |-> NoRow],
                  tAct  |-> [x \in RB(cfg) |-> Far],
                  tPre  |-> [x \in RB(cfg) |-> Far],       \* effective precharge start
                  tWrE  |-> [x \in RB(cfg) |-> Far],       \* end of the last write burst in this bank
                  acts  |-> [r \in Ranks(cfg) |-> <<Far, Far, Far, Far>>],   \* last four ACT times per rank (newest last)
                  tCas  |-> [r \in Ranks(cfg) |-> Far],
                  tWrEAny |-> [r \in Ranks(cfg) |-> Far],
                  tRef  |-> [r \in Ranks(cfg) |-> Far],
                  tZq   |-> [r \in Ranks(cfg) |-> Far],
                  lastT |-> Far, lastPh |-> 0 - 1 ]

RankSet(e) == {e.ranks[i] : i \in 1..Len(e.ranks)}

\* set of diagnostics <<clause, cmd, rank, bank, have, need>> for event e in device state d
Check(cfg, rq, d, e) ==
  LET t == e.t  b == e.b
      rs == RankSet(e)
      D(name, rank, have, need) == <<name, e.c, rank, b, have, need>>
      C(name, rank, have, need) == IF need > 0 /\ have < need THEN {D(name, rank, have, need)} ELSE {}
      busy(rank) == C("tRFC", rank, t - d.tRef[rank], rq["tRFC"]) \cup C("tZQCS", rank, t - d.tZq[rank], rq["tZQCS"])
      common == UNION {busy(r) : r \in rs}
                \cup (IF e.t = d.lastT /\ e.c # "STROBE" THEN {D("two commands on one phase", 0, 0, 0)} ELSE {})
                \cup (IF e.t < d.lastT THEN {D("time goes backwards", 0, e.t, d.lastT)} ELSE {})
      one == Cardinality(rs) = 1
      rk == IF rs = {} THEN 0 ELSE CHOOSE r \in rs : TRUE
      x == Idx(cfg, rk, b)
      needOne == IF one THEN {} ELSE {D("command must select exactly one rank", 0, Cardinality(rs), 1)}
      preBanks(bb) == UNION {IF d.open[y] = NoRow THEN {}
                             ELSE C("tRAS", y \div cfg.nbanks, t - d.tAct[y], rq["tRAS"])
                                  \cup C("tWR", y \div cfg.nbanks, t - d.tWrE[y], rq["tWR"]) : y \in bb}
  IN
  CASE e.c = "ACT" -> common \cup needOne \cup
          (IF d.open[x] # NoRow THEN {D("ACT on open bank", rk, d.open[x], e.a)} ELSE {})
          \cup C("tRP", rk, t - d.tPre[x], rq["tRP"]) \cup C("tRC", rk, t - d.tAct[x], rq["tRC"])
          \cup C("tRRD", rk, t - d.acts[rk][4], rq["tRRD"]) \cup C("tFAW", rk, t - d.acts[rk][1], rq["tFAW"])
    [] e.c \in {"RD", "WR"} -> common \cup needOne \cup
          (IF d.open[x] = NoRow THEN {D("CAS on idle bank", rk, 0, 0)} ELSE {})
          \cup C("tRCD", rk, t - d.tAct[x], rq["tRCD"]) \cup C("tCCD", rk, t - d.tCas[rk], rq["tCCD"])
          \cup (IF e.c = "RD" THEN C("tWTR", rk, t - d.tWrEAny[rk], rq["tWTR"]) ELSE {})
          \cup (IF e.c = "RD" /\ e.ph # cfg.rdphase THEN {D("RD not on rdphase", rk, e.ph, cfg.rdphase)} ELSE {})
          \cup (IF e.c = "WR" /\ e.ph # cfg.wrphase THEN {D("WR not on wrphase", rk, e.ph, cfg.wrphase)} ELSE {})
          \cup (IF e.c = "RD" /\ ~e.rden THEN {D("RD without rddata_en", rk, 0, 0)} ELSE {})
          \cup (IF e.c = "WR" /\ ~e.wren THEN {D("WR without wrdata_en", rk, 0, 0)} ELSE {})
          \cup (IF e.c = "RD" /\ e.wren THEN {D("RD with wrdata_en", rk, 0, 0)} ELSE {})
          \cup (IF e.c = "WR" /\ e.rden THEN {D("WR with rddata_en", rk, 0, 0)} ELSE {})
    [] e.c = "PRE" -> common \cup needOne \cup preBanks({x})
    [] e.c = "PREA" -> common \cup preBanks(UNION {BanksOf(cfg, r) : r \in rs})
    [] e.c \in {"REF", "ZQCS"} -> common
          \cup UNION {IF \E y \in BanksOf(cfg, r) : d.open[y] # NoRow THEN {D("REF/ZQCS with open bank", r, 0, 0)} ELSE {} : r \in rs}
          \cup UNION {UNION {C("tRP", r, t - d.tPre[y], rq["tRP"]) : y \in BanksOf(cfg, r)} : r \in rs}
          \cup (IF rs # Ranks(cfg) THEN {D("REF/ZQCS must select all ranks", 0, Cardinality(rs), cfg.nranks)} ELSE {})
    [] e.c = "STROBE" -> {D("data strobe without RD/WR command", 0, IF e.rden THEN 1 ELSE 0, IF e.wren THEN 1 ELSE 0)}
    [] OTHER -> {D("illegal command", 0, 0, 0)}

Apply(cfg, rq, d, e) ==
  LET t == e.t  b == e.b  rs == RankSet(e)
      rk == IF rs = {} THEN 0 ELSE CHOOSE r \in rs : TRUE
      x == Idx(cfg, rk, b)
      d0 == IF e.c = "STROBE" THEN d ELSE [d EXCEPT !.lastT = MaxI(t, d.lastT)]
  IN
  CASE e.c = "ACT" -> [d0 EXCEPT !.open[x] = e.a, !.tAct[x] = t,
                                 !.acts[rk] = <<d.acts[rk][2], d.acts[rk][3], d.acts[rk][4], t>>]
    [] e.c = "RD" -> IF e.ap /\ d.open[x] # NoRow
                     THEN [d0 EXCEPT !.open[x] = NoRow, !.tPre[x] = MaxI(t, d.tAct[x] + rq["tRAS"]), !.tCas[rk] = t]
                     ELSE [d0 EXCEPT !.tCas[rk] = t]
    [] e.c = "WR" -> LET wend == t + cfg.wl + cfg.blck IN
                     IF e.ap /\ d.open[x] # NoRow
                     THEN [d0 EXCEPT !.open[x] = NoRow, !.tPre[x] = MaxI(wend + rq["tWR"], d.tAct[x] + rq["tRAS"]),
                                     !.tCas[rk] = t, !.tWrE[x] = wend, !.tWrEAny[rk] = wend]
                     ELSE [d0 EXCEPT !.tCas[rk] = t, !.tWrE[x] = wend, !.tWrEAny[rk] = wend]
    [] e.c = "PRE" -> [d0 EXCEPT !.open[x] = NoRow, !.tPre[x] = IF d.open[x] = NoRow THEN d.tPre[x] ELSE t]
    [] e.c = "PREA" -> LET bb == UNION {BanksOf(cfg, r) : r \in rs} IN
                       [d0 EXCEPT !.open = [y \in RB(cfg) |-> IF y \in bb THEN NoRow ELSE d.open[y]],
                                  !.tPre = [y \in RB(cfg) |-> IF y \in bb /\ d.open[y] # NoRow THEN t ELSE d.tPre[y]]]
    [] e.c = "REF" -> [d0 EXCEPT !.tRef = [r \in Ranks(cfg) |-> IF r \in rs THEN t ELSE d.tRef[r]]]
    [] e.c = "ZQCS" -> [d0 EXCEPT !.tZq = [r \in Ranks(cfg) |-> IF r \in rs THEN t ELSE d.tZq[r]]]
    [] OTHER -> d0
====
