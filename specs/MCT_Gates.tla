---- MODULE MCT_Gates ----
(* constants of the lock-step run: the gate parameters come from the trace header *)
EXTENDS T_Gates
HTs == Trace[1].ts
HFs == Trace[1].fs
====
