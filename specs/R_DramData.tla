---- MODULE R_DramData ----
(* Requirement C19: an independent reference model of a DRAM WITH CONTENTS behind a DFI bus, as a total monitor.
   Time = controller cycle.  One data word = the data of all DFI phases of one cycle = one burst = `wordcols` columns.
   cfg = [nbanks, nrows, ncols, wordcols, nbytes (bytes per word), rl (advertised read latency, cycles), wl (write latency),
          apbit (address bit carrying auto-precharge / all-banks: 10), mapping \in {"ROW_BANK_COL","BANK_ROW_COL"},
          initlen (number of words defined by the init image; the rest of the memory is 0),
          tm = [rcd, rp, ras, rc, rrd, ccd, wr, wtr, rtw, rtp]  spacing (cycles) the stimulus is promised to keep
                (legality envelope: at least the JEDEC minimum of the memory type, counted from the command cycle)]
   Events: [c \in {"ACT","PRE","RD","WR"}, t, ph, b, a]   a = raw DFI address (row for ACT; column with A10 flag for the others;
                                                        PRE with A10 set = all banks)
           [c = "WRD", t, d, m]   write data / mask bytes seen on the bus in cycle t (d = bytes, m = 0/1 per byte, 1 = masked)
           [c = "RDD", t, v, d]   a cycle with some rddata_valid: v = valid bit per phase, d = bytes
           [c = "DUMP", b, i, d]  final contents of word i of bank b (i = row * wordsPerRow + word in row)
           [c = "DUMP0", b, i, d] contents of that word before any traffic (placed at the start of the trace)
           [c = "DUMPN", n]       number of words of the whole memory that differ from the init image
           [c = "END", t]
   State s: open (bank -> row or -1), mem (sparse: <<b,row,w>> -> bytes, absent = init image), pw (queue of pending writes),
            pr (queue of pending reads with the expected data), and the legality clocks.  *)
EXTENDS Integers, Sequences, FiniteSets, TLC, R_AddrMap

DFar == 0 - 100000
DNone == 0 - 1
DMax(a, b) == IF a > b THEN a ELSE b

Wpr(cfg) == cfg.ncols \div cfg.wordcols                 \* words per row
\* column named by a DFI address: the AP bit is not a column bit, higher bits move down by one
LogCol(cfg, a) == (a % (2^cfg.apbit)) + (a \div (2^(cfg.apbit + 1))) * (2^cfg.apbit)
ApFlag(cfg, a) == (a \div (2^cfg.apbit)) % 2
WordOf(cfg, a) == (LogCol(cfg, a) % cfg.ncols) \div cfg.wordcols

\* ---- init image: word k of the linear image lies at ... (both mappings) ----
LinIndex(cfg, b, row, w) == IF cfg.mapping = "ROW_BANK_COL" THEN (row * cfg.nbanks + b) * Wpr(cfg) + w
                            ELSE (b * cfg.nrows + row) * Wpr(cfg) + w
\* the image itself is a stimulus defined by formula (harness/props/c19.py builds it from the same formula)
PatByte(k, j) == (k * 31 + (k \div 256) * 7 + j * 13 + 11) % 256
InitWord(cfg, b, row, w) == LET k == LinIndex(cfg, b, row, w) IN
                            [j \in 1..cfg.nbytes |-> IF k < cfg.initlen THEN PatByte(k, j - 1) ELSE 0]
\* cross-check of LinIndex with the controller's address map (property C06, R_AddrMap) for ROW_BANK_COL
MapAgrees(cfg, b, row, w) ==
  cfg.mapping # "ROW_BANK_COL" \/
  LET g == [bankbits |-> Log2(cfg.nbanks), rowbits |-> Log2(cfg.nrows), colbits |-> Log2(cfg.ncols),
            align |-> Log2(cfg.wordcols), rankbits |-> 0, bbawords |-> 0]
      d == Decode(g, LinIndex(cfg, b, row, w))
      logc == (d.col % 1024) + (d.col \div 2048) * 1024
  IN d.bank = b /\ d.row = row /\ logc = w * cfg.wordcols

\* ---- state ----
InitDD(cfg) == [open |-> [b \in 0..cfg.nbanks - 1 |-> DNone],
                mem |-> <<>>, pw |-> <<>>, pr |-> <<>>,
                tAct |-> [b \in 0..cfg.nbanks - 1 |-> DFar], tPre |-> [b \in 0..cfg.nbanks - 1 |-> DFar],
                tRd |-> [b \in 0..cfg.nbanks - 1 |-> DFar], tWr |-> [b \in 0..cfg.nbanks - 1 |-> DFar],
                aAny |-> DFar, cAny |-> DFar, rAny |-> DFar, wAny |-> DFar,
                nAct |-> 0, nPre |-> 0, nRd |-> 0, nWr |-> 0]
MemGet(cfg, s, loc) == IF loc \in DOMAIN s.mem THEN s.mem[loc] ELSE InitWord(cfg, loc[1], loc[2], loc[3])
MemPut(s, loc, v) == [x \in (DOMAIN s.mem) \cup {loc} |-> IF x = loc THEN v ELSE s.mem[x]]

\* ---- legality envelope (shared with the generator G_DramData) ----
CanAct(cfg, s, t, b) == /\ s.open[b] = DNone /\ t >= s.tPre[b] + cfg.tm.rp /\ t >= s.tAct[b] + cfg.tm.rc
                        /\ t >= s.aAny + cfg.tm.rrd
CanCas(cfg, s, t, b, isRd) == /\ s.open[b] # DNone /\ t >= s.tAct[b] + cfg.tm.rcd /\ t >= s.cAny + cfg.tm.ccd
                              /\ (isRd => t >= s.wAny + cfg.tm.wtr) /\ (~isRd => t >= s.rAny + cfg.tm.rtw)
\* write recovery / read-to-precharge also bind a PRE sent to a bank that is closing through auto-precharge
CanPre(cfg, s, t, b) == /\ t >= s.tWr[b] + cfg.tm.wr /\ t >= s.tRd[b] + cfg.tm.rtp
                        /\ (s.open[b] = DNone \/ t >= s.tAct[b] + cfg.tm.ras)

\* ---- effect of commands on the bank/clock state (contents are handled in DStep) ----
DoAct(s, t, b, row) == [s EXCEPT !.open[b] = row, !.tAct[b] = t, !.aAny = t, !.nAct = @ + 1]
DoPre(s, t, bs) == [s EXCEPT !.open = [b \in DOMAIN s.open |-> IF b \in bs THEN DNone ELSE s.open[b]],
                             !.tPre = [b \in DOMAIN s.open |-> IF b \in bs /\ s.open[b] # DNone THEN t ELSE s.tPre[b]],
                             !.nPre = @ + 1]
DoCas(cfg, s, t, b, isRd, ap) ==
  LET s1 == IF isRd THEN [s EXCEPT !.tRd[b] = t, !.rAny = t, !.cAny = t, !.nRd = @ + 1]
                    ELSE [s EXCEPT !.tWr[b] = t, !.wAny = t, !.cAny = t, !.nWr = @ + 1]
  IN IF ap = 1 THEN [s1 EXCEPT !.open[b] = DNone,
                               !.tPre[b] = DMax(t + (IF isRd THEN cfg.tm.rtp ELSE cfg.tm.wr), s.tAct[b] + cfg.tm.ras)]
     ELSE s1

\* reads that are overdue at time t (no rddata_valid came at their due cycle)
RECURSIVE Overdue(_, _)
Overdue(pr, t) == IF pr # <<>> /\ Head(pr).due < t THEN {<<"rddata_valid missing at the advertised read latency", Head(pr).due, Head(pr).b>>} \cup Overdue(Tail(pr), t) ELSE {}
RECURSIVE DropOverdue(_, _)
DropOverdue(pr, t) == IF pr # <<>> /\ Head(pr).due < t THEN DropOverdue(Tail(pr), t) ELSE pr

\* total monitor step: returns [s, bad, env]; env = promises the STIMULUS broke (harness errors, never a verdict)
DStep(cfg, s0, e) ==
  LET late == IF "t" \in DOMAIN e THEN Overdue(s0.pr, e.t) ELSE {}
      s == IF "t" \in DOMAIN e THEN [s0 EXCEPT !.pr = DropOverdue(s0.pr, e.t)] ELSE s0
      R(s2, bad, env) == [s |-> s2, bad |-> bad \cup late, env |-> env]
  IN
  CASE e.c = "ACT" ->
         R(DoAct(s, e.t, e.b, e.a % cfg.nrows), {},
           (IF CanAct(cfg, s, e.t, e.b) THEN {} ELSE {<<"ACT not legal here", e.t, e.b>>})
           \cup (IF e.a >= cfg.nrows THEN {<<"row out of range", e.t, e.a>>} ELSE {}))
    [] e.c = "PRE" ->
         LET bs == IF ApFlag(cfg, e.a) = 1 THEN DOMAIN s.open ELSE {e.b} IN
         R(DoPre(s, e.t, bs), {}, IF \A b \in bs : CanPre(cfg, s, e.t, b) THEN {} ELSE {<<"PRE not legal here", e.t, e.b>>})
    [] e.c \in {"RD", "WR"} ->
         LET isRd == e.c = "RD"
             ok == CanCas(cfg, s, e.t, e.b, isRd) /\ LogCol(cfg, e.a) < cfg.ncols
             loc == <<e.b, s.open[e.b], WordOf(cfg, e.a)>>
             racing == \E i \in 1..Len(s.pw) : s.pw[i].loc = loc
             s1 == DoCas(cfg, s, e.t, e.b, isRd, ApFlag(cfg, e.a))
             env == (IF ok THEN {} ELSE {<<"RD/WR not legal here", e.t, e.b, e.a>>})
                    \cup (IF isRd /\ racing THEN {<<"RD while write data for the same word is still pending", e.t>>} ELSE {})
         IN IF s.open[e.b] = DNone THEN R(s1, {}, env)
            ELSE IF isRd THEN R([s1 EXCEPT !.pr = Append(@, [due |-> e.t + cfg.rl, b |-> e.b, loc |-> loc, d |-> MemGet(cfg, s, loc)])], {}, env)
            ELSE R([s1 EXCEPT !.pw = Append(@, [due |-> e.t + cfg.wl, loc |-> loc])], {}, env)
    [] e.c = "WRD" ->
         IF s.pw = <<>> \/ Head(s.pw).due # e.t THEN R(s, {}, {<<"write data recorded at a cycle where none is due", e.t>>})
         ELSE LET loc == Head(s.pw).loc  old == MemGet(cfg, s, loc)
                  new == [j \in 1..cfg.nbytes |-> IF e.m[j] = 1 THEN old[j] ELSE e.d[j]]
              IN R([s EXCEPT !.pw = Tail(@), !.mem = MemPut(s, loc, new)], {}, {})
    [] e.c = "RDD" ->
         LET allv == \A i \in 1..Len(e.v) : e.v[i] = 1 IN
         IF s.pr = <<>> \/ Head(s.pr).due # e.t
         THEN R(s, {<<"rddata_valid without a read due in this cycle", e.t>>}, {})
         ELSE LET h == Head(s.pr) IN
              R([s EXCEPT !.pr = Tail(@)],
                (IF allv THEN {} ELSE {<<"rddata_valid not on every phase", e.t, e.v>>})
                \cup (IF e.d = h.d THEN {} ELSE {<<"read data differs from the reference model", e.t, h.loc, e.d, h.d>>}), {})
    [] e.c \in {"DUMP", "DUMP0"} ->       \* DUMP0 = contents before any traffic (the init image as distributed to the banks)
         LET w == e.i % Wpr(cfg)  row == e.i \div Wpr(cfg)  want == MemGet(cfg, s, <<e.b, row, w>>) IN
         R(s, (IF e.d = want THEN {}
               ELSE {<<IF e.c = "DUMP0" THEN "initial memory word differs from the init image laid out per address mapping"
                                        ELSE "final memory word differs from the reference model", <<e.b, row, w>>, e.d, want>>})
              \cup (IF MapAgrees(cfg, e.b, row, w) THEN {} ELSE {<<"SPEC: LinIndex disagrees with R_AddrMap", e.b, row, w>>}), {})
    [] e.c = "DUMPN" ->
         LET changed == {loc \in DOMAIN s.mem : s.mem[loc] # InitWord(cfg, loc[1], loc[2], loc[3])} IN
         R(s, IF e.n = Cardinality(changed) THEN {}
              ELSE {<<"number of memory words changed differs from the reference model", e.n, Cardinality(changed)>>}, {})
    [] e.c = "END" ->
         R(s, {}, (IF s.pw # <<>> THEN {<<"trace ended with write data pending">>} ELSE {})
                  \cup (IF s.pr # <<>> THEN {<<"trace ended with reads pending">>} ELSE {}))
    [] OTHER -> R(s, {}, {<<"unknown event", e.c>>})
====
