SPECIFICATION MSpec
CONSTANTS NRows = 2
 NCols = 1
 Align = 2
 Depth = 2
 tRP = 2
 tRCD = 2
 tWTP = 3
 tRC = 4
 tRAS = 2
 CntBitsWTP = 2
 CntBitsRC = 3
 CntBitsRAS = 2
 AutoPre = FALSE
 RefWaitsTras = TRUE
 tRFC = 2
 WL = 1
 BLCK = 1
 tWRdev = 1
INVARIANT Legal
PROPERTY RefinesAbstractBm
VIEW View
CHECK_DEADLOCK FALSE
