SPECIFICATION Spec
CONSTANTS
  PATH = "narrow"
  R = 2
  NW = 2
  SELS = {1}
  HOLD = TRUE
  VALS = 3
  LMIN = 1
  LMAX = 1
  STALL = 1
  WMAX = 12
  BUG = "none"
INVARIANTS NoClauseBroken MemAllowed AckWithinBound OneOutstanding
CHECK_DEADLOCK TRUE
