---- MODULE R_AddrMap ----
(* Requirement C06: the port-address -> (rank, bank, row, column) map, written from the property text.
   g = [bankbits, rowbits, colbits, align, rankbits, bbawords]
     align    : log2(burst length)  -- low column bits that never appear in a port address
     bbawords : bank_byte_alignment expressed in port words (0 = none); a power of two
   Consecutive addresses walk the columns of a row, then (only if the bank alignment exceeds one row) the rows
   up to the alignment, then banks, then ranks, then the remaining rows.  Bus column bit 10 (A10) is skipped. *)
EXTENDS Integers, Sequences, FiniteSets
Pow2Tab == <<2, 4, 8, 16, 32, 64, 128, 256, 512, 1024, 2048, 4096, 8192, 16384, 32768, 65536, 131072, 262144, 524288,
             1048576, 2097152, 4194304, 8388608, 16777216, 33554432, 67108864, 134217728, 268435456, 536870912, 1073741824>>
Pow2(n) == IF n <= 0 THEN 1 ELSE Pow2Tab[n]
RECURSIVE Log2(_)
Log2(n) == IF n <= 1 THEN 0 ELSE 1 + Log2(n \div 2)

ColW(g) == g.colbits - g.align                       \* column bits present in a port address
Shift(g) == IF Log2(g.bbawords) > ColW(g) THEN Log2(g.bbawords) ELSE ColW(g)
AddrBits(g) == g.rowbits + g.colbits - g.align + g.bankbits + g.rankbits
NAddr(g) == Pow2(AddrBits(g))

BusCol(g, colw) == LET full == colw * Pow2(g.align)
                   IN IF g.colbits > 10 THEN (full % 1024) + (full \div 1024) * 2048 ELSE full

Decode(g, a) ==
  LET sh   == Shift(g)
      low  == a % Pow2(sh)
      br   == (a \div Pow2(sh)) % Pow2(g.bankbits + g.rankbits)
      high == a \div Pow2(sh + g.bankbits + g.rankbits)
      rc   == low + high * Pow2(sh)
  IN [rank |-> br \div Pow2(g.bankbits), bank |-> br % Pow2(g.bankbits),
      row  |-> rc \div Pow2(ColW(g)), col |-> BusCol(g, rc % Pow2(ColW(g)))]

Loc(g, a) == LET d == Decode(g, a) IN <<d.rank, d.bank, d.row, d.col>>

\* ---- theorems checked by TLC over small geometries (MC_AddrMap) ----
\* injectivity on a finite domain = the image has as many elements as the domain
Injective(g) == Cardinality({Loc(g, a) : a \in 0..NAddr(g) - 1}) = NAddr(g)
InRange(g) == \A a \in 0..NAddr(g) - 1 : LET d == Decode(g, a) IN
                 /\ d.rank \in 0..Pow2(g.rankbits) - 1 /\ d.bank \in 0..Pow2(g.bankbits) - 1
                 /\ d.row \in 0..Pow2(g.rowbits) - 1
                 /\ (d.col \div 1024) % 2 = 0                       \* A10 never a column bit
                 /\ d.col % Pow2(g.align) = 0                        \* burst aligned
                 /\ d.col < (IF g.colbits > 10 THEN 2 * Pow2(g.colbits) ELSE Pow2(g.colbits))
Onto(g) == Cardinality({Loc(g, a) : a \in 0..NAddr(g) - 1}) = Pow2(g.rankbits + g.bankbits + g.rowbits + g.colbits - g.align)
\* walking order: +1 moves to the next column; at the end of the aligned block to the next bank; then rank; then row
WalkOrder(g) == \A a \in 0..NAddr(g) - 2 :
   LET d == Decode(g, a)  e == Decode(g, a + 1)  blk == Pow2(Shift(g)) IN
   IF (a + 1) % blk # 0
   THEN /\ e.bank = d.bank /\ e.rank = d.rank
        /\ IF (a + 1) % Pow2(ColW(g)) # 0 THEN e.row = d.row /\ e.col > d.col ELSE e.row = d.row + 1 /\ e.col = 0
   ELSE /\ e.col = 0
        /\ IF d.bank # Pow2(g.bankbits) - 1 THEN e.bank = d.bank + 1 /\ e.rank = d.rank
           ELSE /\ e.bank = 0
                /\ IF d.rank # Pow2(g.rankbits) - 1 THEN e.rank = d.rank + 1 ELSE e.rank = 0 /\ e.row = d.row + 1
====
