SPECIFICATION Spec
VIEW View
CONSTANTS
  R = 4
  NW = 2
  MaxCmds = 3
  Lmin = 3
  Lmax = 3
  Fix = FALSE
  Orders = "asc"
  Bug = "none"
  Wes = {TRUE, FALSE}
  Masks = {1}
  Flush = TRUE
  Stall = FALSE
INVARIANTS ReqOK FinalOK TypeOK
CHECK_DEADLOCK FALSE
