---- MODULE G_DramDataSim ----
(* TLC -simulate front end of G_DramData: state = legality clocks only; `out` = the commands of the cycle just generated. *)
EXTENDS G_DramData
VARIABLES gs, gt, out
GInit == gs = InitDD(GC) /\ gt = 0 /\ out = <<>>
GNext == /\ gt < MaxT
         /\ \E A \in ActChoices(gs, gt), P \in PreChoices(gs, gt), C \in CasChoices(gs, gt) :
              /\ Count(A, P, C) <= NPh /\ Legal(gs, gt, A, P, C)
              /\ \E pl \in Place(A, P, C) : out' = pl
              /\ gs' = ApplyCmds(gs, gt, A, P, C)
         /\ gt' = gt + 1
GSpec == GInit /\ [][GNext]_<<gs, gt, out>>
====
