---- MODULE R_Lpddr5Ca ----
(* Requirement C20, LPDDR5 part: the JEDEC (JESD209-5) command truth table written as a DECODER.
   One command = one CK cycle with CS high: CA[6:0] at the rising edge (word a) and at the falling edge (word b);
   words are integers 0..127 with CA0 = bit 0.  A pad slot is [cs, a, b].
   L5Decode(w) maps a window of 2 consecutive slots (2 CK) to the operation it carries;
   L5Want(m, d) is what the DFI command d = [k, b, a] asks for under the PHY's documented DFI convention:
     k = 4*cas + 2*ras + we; row = address[17:0]; DFI column = {C5..C0, B3..B0}: C_i = address[i+4];
     AP / AB = address[10]; bank = bank[3:0] (REF: BA2..BA0);  MRS: register = bank[6:0], operand = address[7:0];
     ZQC with bank 0: MPC operand address[7:0]; bank 1: MRR of register address[6:0]; bank 2: NOP; other codes: no command.
   Placement: a command presented in CK cycle n occupies cycles n and n+1; two-part commands (ACT-1/ACT-2, CAS+RD/WR/MWR/MRR,
   MRW-1/MRW-2) start in n, single commands (PRE, REF, MPC, NOP) are sent in n+1 (PhySettings.cmd_latency = 1).
   CAS operands: the WCK2CK-sync bits WS_WR/WS_RD/WS_FS are NOT compared with a reference (masked, see ASSUMPTIONS); only
   "at most one WS bit" and "no data-copy / write-X operand" are required (field cas = 1). *)
EXTENDS Integers, Sequences, TLC

L5Bit(x, i) == (x \div (2^i)) % 2
L5Field(x, lo, n) == (x \div (2^lo)) % (2^n)
L5Pat3(x) == <<L5Bit(x, 0), L5Bit(x, 1), L5Bit(x, 2)>>

L5Small(a, b) ==
  LET h == L5Pat3(a)  hi == L5Field(a, 3, 4)  c0 == L5Bit(a, 3)  c35 == L5Field(a, 4, 3)
      cas == [bank |-> L5Field(b, 0, 4), col |-> c0 + 2 * L5Bit(b, 4) + 4 * L5Bit(b, 5) + 8 * c35, ap |-> L5Bit(b, 6)]
  IN
  CASE h = <<1,1,1>> -> [k |-> "ACT1", bank |-> L5Field(b, 0, 4), rhi |-> hi * 16384 + L5Field(b, 4, 3) * 2048]
    [] h = <<1,1,0>> -> [k |-> "ACT2", rlo |-> hi * 128 + b]
    [] h = <<1,0,0>> -> [k |-> "RD16"] @@ cas
    [] h = <<1,0,1>> -> [k |-> "RD32"] @@ cas
    [] h = <<0,1,0>> -> [k |-> "MWR"] @@ cas
    [] h = <<0,1,1>> -> [k |-> "WR16"] @@ cas
    [] h = <<0,0,1>> -> IF c0 = 0 THEN [k |-> "WR32"] @@ cas
                        ELSE [k |-> "CAS", nws |-> L5Bit(a, 4) + L5Bit(a, 5) + L5Bit(a, 6), other |-> b]
    [] OTHER ->  \* L L L
         LET t == <<L5Bit(a, 4), L5Bit(a, 5), L5Bit(a, 6)>> IN
         IF c0 = 1
         THEN CASE t = <<1,1,1>> -> [k |-> "PRE", bank |-> L5Field(b, 0, 4), ab |-> L5Bit(b, 6)]
                [] t = <<1,1,0>> -> [k |-> "REF", bank |-> L5Field(b, 0, 3), rfm |-> L5Bit(b, 3), ab |-> L5Bit(b, 6)]
                [] t = <<0,1,1>> -> [k |-> "SRE"]
                [] t = <<0,1,0>> -> [k |-> "SRX"]
                [] t = <<1,0,1>> -> [k |-> "MRW1", ma |-> b]
                [] t = <<1,0,0>> -> [k |-> "MRR", ma |-> b]
                [] OTHER -> [k |-> "MRW2", opnd |-> b + 128 * L5Bit(a, 6)]       \* L L x
         ELSE CASE t = <<0,0,0>> -> [k |-> "NOP"]
                [] t = <<0,0,1>> -> [k |-> "PDE"]
                [] t[1] = 1 /\ t[2] = 1 -> [k |-> "MPC", opnd |-> b + 128 * L5Bit(a, 6)]
                [] t = <<0,1,1>> -> [k |-> "WFF"]
                [] t = <<0,1,0>> -> [k |-> "RFF"]
                [] t = <<1,0,1>> -> [k |-> "RDC"]
                [] OTHER -> [k |-> "RFU"]

L5Bad(why) == [op |-> "BAD", why |-> why]
L5Decode(w) ==
  IF w[1].cs = 0 /\ w[2].cs = 0 THEN [op |-> "IDLE"]
  ELSE IF w[2].cs = 0 THEN L5Bad("CS pattern")
  ELSE LET s2 == L5Small(w[2].a, w[2].b) IN
       IF w[1].cs = 0
       THEN CASE s2.k = "PRE" -> [op |-> "PRE", ab |-> s2.ab, bank |-> IF s2.ab = 1 THEN 0 ELSE s2.bank]
              [] s2.k = "REF" /\ s2.rfm = 0 -> [op |-> "REF", ab |-> s2.ab, bank |-> IF s2.ab = 1 THEN 0 ELSE s2.bank]
              [] s2.k = "MPC" -> [op |-> "MPC", opnd |-> s2.opnd]
              [] s2.k = "NOP" -> [op |-> "NOP"]
              [] OTHER -> L5Bad(s2.k)
       ELSE LET s1 == L5Small(w[1].a, w[1].b)
                casok == IF s1.k = "CAS" /\ s1.nws <= 1 /\ s1.other = 0 THEN 1 ELSE 0 IN
            CASE s1.k = "ACT1" /\ s2.k = "ACT2" -> [op |-> "ACT", bank |-> s1.bank, row |-> s1.rhi + s2.rlo]
              [] s1.k = "CAS" /\ s2.k = "RD16" -> [op |-> "RD", bank |-> s2.bank, col |-> s2.col, ap |-> s2.ap, cas |-> casok]
              [] s1.k = "CAS" /\ s2.k = "WR16" -> [op |-> "WR", bank |-> s2.bank, col |-> s2.col, ap |-> s2.ap, cas |-> casok]
              [] s1.k = "CAS" /\ s2.k = "MWR" -> [op |-> "MWR", bank |-> s2.bank, col |-> s2.col, ap |-> s2.ap, cas |-> casok]
              [] s1.k = "CAS" /\ s2.k = "MRR" -> [op |-> "MRR", ma |-> s2.ma, cas |-> casok]
              [] s1.k = "MRW1" /\ s2.k = "MRW2" -> [op |-> "MRW", ma |-> s1.ma, opnd |-> s2.opnd]
              [] OTHER -> L5Bad(<<s1.k, s2.k>>)

L5Presented(d) == d.k \in {2, 3, 4, 5, 6, 7} \/ (d.k = 1 /\ d.b \in {0, 1, 2})

\* set of acceptable decodings (a set only because of the one documented leniency for MPC operand 0)
L5Want(m, d) ==
  LET a10 == L5Bit(d.a, 10) bank == d.b % 16 col == L5Field(d.a, 4, 6) IN
  CASE d.k = 2 -> {[op |-> "ACT", bank |-> bank, row |-> d.a % 262144]}
    [] d.k = 4 -> {[op |-> "RD", bank |-> bank, col |-> col, ap |-> a10, cas |-> 1]}
    [] d.k = 5 -> {[op |-> IF m THEN "MWR" ELSE "WR", bank |-> bank, col |-> col, ap |-> a10, cas |-> 1]}
    [] d.k = 3 -> {[op |-> "PRE", ab |-> a10, bank |-> IF a10 = 1 THEN 0 ELSE bank]}
    [] d.k = 6 -> {[op |-> "REF", ab |-> a10, bank |-> IF a10 = 1 THEN 0 ELSE bank % 8]}
    [] d.k = 1 /\ d.b = 0 -> IF d.a % 256 = 0 THEN {[op |-> "MPC", opnd |-> 0], [op |-> "MPC", opnd |-> 134]}   \* 0 is sent as ZQC LATCH
                             ELSE {[op |-> "MPC", opnd |-> d.a % 256]}
    [] d.k = 1 /\ d.b = 1 -> {[op |-> "MRR", ma |-> d.a % 128, cas |-> 1]}
    [] d.k = 1 /\ d.b = 2 -> {[op |-> "NOP"]}
    [] d.k = 7 -> {[op |-> "MRW", ma |-> d.b % 128, opnd |-> d.a % 256]}
    [] OTHER -> {}
====
