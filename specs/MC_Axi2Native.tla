---- MODULE MC_Axi2Native ----
EXTENDS D_Axi2Native
====
